"""Independent reference semantics in Python, used only by the oracles that look for a concrete
failing input (never as a substitute for a theorem): textbook delimiter scan, tag reading, the
stack machine for pairing, civil-time expiry, readiness and removable extents."""
import re

WS = b" \t\n"


# ---- C08: textbook scan -------------------------------------------------------------------------

def char_len(b):
    return 1 if b < 0x80 else 2 if b < 0xE0 else 3 if b < 0xF0 else 4


def scan(s: bytes, ds: bytes, de: bytes):
    """[(is_element, byte_start, byte_end)]"""
    out, pos, n = [], 0, len(s)
    while pos < n:
        i = s.find(ds, pos)
        span = None
        if i >= 0:
            body = i + len(ds)
            if body < n:
                frm = body + char_len(s[body])
                j = s.find(de, frm)
                if j >= 0:
                    span = (i, j + len(de))
        if span is None:
            out.append((False, pos, n))
            pos = n
        else:
            if span[0] > pos:
                out.append((False, pos, span[0]))
            out.append((True, span[0], span[1]))
            pos = span[1]
    return out


# ---- tag reading (the grammar's reading; total) -----------------------------------------------

def strip_delims(v: bytes, ds: bytes, de: bytes):
    while ds and v.startswith(ds):
        v = v[len(ds):]
    while de and v.endswith(de):
        v = v[:-len(de)]
    return v


def read_tag(body: bytes):
    """name, [(attr, value or None)] or None.  Separators are spaces and line breaks; values are
    quoted with ' or "; spaces may surround '='."""
    pairs, st, start, i, n = [], "nb", 0, 0, len(body)
    while i < n:
        c = body[i:i + 1]
        if st == "nb":
            if c in (b" ", b"\n"):
                pass
            elif c in (b"=", b'"', b"'"):
                return None
            else:
                st, start = "n", i
        elif st == "n":
            if c in (b" ", b"\n"):
                pairs.append([body[start:i], None]); st = "ne"
            elif c == b"=":
                pairs.append([body[start:i], None]); st = "vb"
        elif st == "ne":
            if c in (b" ", b"\n"):
                pass
            elif c == b"=":
                st = "vb"
            else:
                st, start = "n", i
        elif st == "vb":
            if c == b" ":
                pass
            elif c == b'"':
                st, start = "dq", i + 1
            elif c == b"'":
                st, start = "sq", i + 1
            else:
                st = "nq"
        elif st == "dq":
            if c == b'"':
                pairs[-1][1] = body[start:i]; st = "nb"
        elif st == "sq":
            if c == b"'":
                pairs[-1][1] = body[start:i]; st = "nb"
        elif st == "nq":
            if c == b" ":
                st = "nb"
        i += 1
    if st == "n":
        pairs.append([body[start:], None])
    if not pairs:
        return None
    return pairs[0][0], [(a, v) for a, v in pairs[1:]]


# ---- C10: stack machine -----------------------------------------------------------------------

class Node:
    __slots__ = ("kind", "tok", "end", "el", "children")

    def __init__(self, kind, tok, el=None):
        self.kind, self.tok, self.end, self.el, self.children = kind, tok, None, el, []


def stack_tree(tokens, elements):
    """tokens: list of spans; elements[i]: parsed tag of token i or None.  Returns the forest."""
    root = Node("root", None)
    stack = [root]          # open frames; frame = Node('open', tok) collecting children
    for i, el in enumerate(elements):
        if el is None:
            stack[-1].children.append(Node("text", i))
            continue
        name = el[0]
        if name.startswith(b"/"):
            pn = name.lstrip(b"/")
            k = None
            for d in range(len(stack) - 1, 0, -1):
                if stack[d].el[0] == pn:
                    k = d
                    break
            if k is not None:
                # frames above k become text followed by their children
                while len(stack) - 1 > k:
                    fr = stack.pop()
                    stack[-1].children.append(Node("text", fr.tok))
                    stack[-1].children.extend(fr.children)
                fr = stack.pop()
                fr.kind, fr.end = "elem", i
                stack[-1].children.append(fr)
                continue
        stack.append(Node("open", i, el))
    while len(stack) > 1:
        fr = stack.pop()
        stack[-1].children.append(Node("text", fr.tok))
        stack[-1].children.extend(fr.children)
    return root.children


def fmt_forest(forest, spans):
    out = []
    for n in forest:
        if n.kind == "text":
            out.append(f"T{spans[n.tok][1]} ")
        else:
            out.append(f"E{spans[n.tok][1]}-{spans[n.end][1]}[ " + fmt_forest(n.children, spans) + "] ")
    return "".join(out)


# ---- C05: expiry ------------------------------------------------------------------------------

def is_leap(y):
    return (y % 4 == 0 and y % 100 != 0) or y % 400 == 0


def days_from_civil(y, m, d):
    # count days by walking whole years and months (independent of the model's closed formula)
    days = 0
    if y >= 1970:
        # use 400-year blocks to stay fast
        q, r = divmod(y - 1970, 400)
        days += q * 146097
        for yy in range(1970 + q * 400, 1970 + q * 400 + r):
            days += 366 if is_leap(yy) else 365
    else:
        q, r = divmod(1970 - y, 400)
        days -= q * 146097
        for yy in range(y, y + r):
            days -= 366 if is_leap(yy) else 365
        # years y+r .. 1970-q*400 are covered by the blocks
    ml = [31, 29 if is_leap(y) else 28, 31, 30, 31, 30, 31, 31, 30, 31, 30, 31]
    for mm in range(1, m):
        days += ml[mm - 1]
    return days + d - 1


STRICT_TO = re.compile(rb"^(\d{4})-(\d{2})-(\d{2}) (\d{2}):(\d{2}):(\d{2})$")
STRICT_OFF = re.compile(rb"^([+-])(\d{2}):?(\d{2})$")


def strict_expiry(to: bytes, off: bytes):
    """instant of a strictly formatted `to` at a strictly formatted offset, else None (the lenient
    forms chrono also accepts are outside the oracle: it then abstains)"""
    # white space in front of the year and behind the seconds (inside the quotes) is skipped by the parser: the
    # numeric fields skip leading white space and the blank of the format in front of %z matches any run of it
    m, o = STRICT_TO.match(to.strip(b" \t\n\r")), STRICT_OFF.match(off)
    if not m or not o:
        return "abstain" if (not looks_malformed(to, off)) else None
    y, mo, d, h, mi, s = (int(x) for x in m.groups())
    oh, om = int(o.group(2)), int(o.group(3))
    if not (1 <= mo <= 12 and 1 <= d and h <= 23 and mi <= 59 and s <= 60 and om <= 59):
        return None
    ml = [31, 29 if is_leap(y) else 28, 31, 30, 31, 30, 31, 31, 30, 31, 30, 31]
    if d > ml[mo - 1]:
        return None
    offs = (oh * 3600 + om * 60) * (1 if o.group(1) == b"+" else -1)
    if abs(offs) >= 86400:
        return None
    return days_from_civil(y, mo, d) * 86400 + h * 3600 + mi * 60 + s - offs


def looks_malformed(to: bytes, off: bytes):
    """the malformed classes the property names: these must never make an element ready"""
    if re.search(rb"[/.T]", to) and not STRICT_TO.match(to):
        return True
    if re.match(rb"^\d{4}-\d{2}-\d{2}$", to):
        return True
    if re.match(rb"^\d{4}-\d{2}-\d{2} \d{2}:\d{2}:\d{2}\s*(Z|UTC|[+-]\d\d:?\d\d)$", to):
        return True
    if off in (b"", b"UTC", b"+9", b"0900", b"Z", b"+24:00", b"+09:60"):
        return True
    # a well-formed offset followed by anything at all ("+09:00:00", "+0900 JST", "+00:00Z", "+09:00 "): the parse must
    # consume the whole string, an unparseable offset never makes an element ready
    if re.match(rb"^[+-]\d\d:?\d\d.+$", off, re.S):
        return True
    return False


# ---- readiness and extents ----------------------------------------------------------------------

def attr(attrs, name):
    for a, v in attrs:
        if a == name:
            return (a, v)
    return None


def ready_status(el, cfg):
    """'ready' | 'pending' | None for a parsed tag (name, attrs); cfg: dict tl, rm, offset, now, targets (bytes)"""
    name, attrs = el
    if any(a == b"skip" for a, _ in attrs):
        return None
    if name == cfg["rm"]:
        a = attr(attrs, b"name")
        ok = a is not None and a[1] is not None and a[1] in cfg["targets"]
        return "ready" if ok else "pending"
    if name == cfg["tl"]:
        a = attr(attrs, b"to")
        if a is None or a[1] is None:
            return "pending"
        e = strict_expiry(a[1], cfg["offset"])
        if e == "abstain":
            return "abstain"
        if e is None:
            return "pending"
        return "ready" if cfg["now"] >= e else "pending"
    return None


def line_break_after(s, pos, count):
    """position of the count-th '\n' at or after pos, or None"""
    p = pos
    for _ in range(count):
        i = s.find(b"\n", p)
        if i < 0:
            return None
        p = i + 1
    return p - 1


def line_break_before(s, pos, count):
    p = pos
    for _ in range(count):
        i = s.rfind(b"\n", 0, p)
        if i < 0:
            return None
        p = i
    return p


def unwrap_parts(s, open_span, close_span):
    """the two removable parts of an unwrap-block element, [] if it cannot be unwrapped"""
    e = line_break_after(s, open_span[2], 2)
    st = line_break_before(s, close_span[1], 2)
    if e is None or st is None or st < e:
        return []
    if st == e:
        return [(open_span[1], close_span[2])]
    return [(open_span[1], e), (st + 1, close_span[2])]


class Ref:
    """reference front end + readiness of one document"""

    def __init__(self, s: bytes, ds: bytes, de: bytes, cfg):
        self.s, self.ds, self.de, self.cfg = s, ds, de, cfg
        self.spans = scan(s, ds, de)
        self.els = []
        for (e, a, b) in self.spans:
            self.els.append(read_tag(strip_delims(s[a:b], ds, de)) if e else None)
        self.forest = stack_tree(self.spans, self.els)
        self.abstain = False
        self.ready = []      # (node, parts)
        self.pending = []
        self.extents = []
        self._walk(self.forest, False, False)

    def _walk(self, forest, in_ready, in_pending):
        for n in forest:
            if n.kind != "elem":
                continue
            st = ready_status(n.el, self.cfg)
            if st == "abstain":
                self.abstain = True
                st = None
            parts = None
            if st in ("ready", "pending"):
                if any(a == b"unwrap-block" for a, _ in n.el[1]):
                    parts = unwrap_parts(self.s, self.spans[n.tok], self.spans[n.end])
                else:
                    parts = [(self.spans[n.tok][1], self.spans[n.end][2])]
                if not parts:
                    st = None
            if st == "ready":
                self.ready.append((n, parts, in_ready))
                self.extents.extend(parts)
            elif st == "pending":
                self.pending.append((n, parts, in_ready, in_pending))
            whole = st == "ready" and len(parts) == 1
            self._walk(n.children, in_ready or whole, in_pending or (st == "pending" and len(parts) == 1))

    def extent_mask(self):
        m = bytearray(len(self.s))
        for a, b in self.extents:
            for i in range(a, min(b, len(m))):
                m[i] = 1
        return m


def nonws(b: bytes):
    return bytes(c for c in b if c not in WS)


def embeds_with_forced(s: bytes, out: bytes, deletable):
    """is `out` obtainable from `s` by deleting only positions i with deletable[i]?"""
    n, m = len(s), len(out)
    cur = {0}
    for i in range(n):
        c = s[i]
        nxt = set()
        for j in cur:
            if j < m and out[j] == c:
                nxt.add(j + 1)
            if deletable[i]:
                nxt.add(j)
        if not nxt:
            return False
        # keep the frontier small: only j within the feasible window
        lo = m - (n - i - 1)
        cur = {j for j in nxt if j >= lo}
        if not cur:
            return False
    return m in cur
