"""Per-property case generators, compared stages and oracles."""
import hashlib
import json
import os
import random
import re
import subprocess

import gen as G
import ref as R
import vlib
from vlib import ROOT, CACHE, unhex

AXIOM_ALLOW = []   # no axiom is expected under any property theorem

TRUSTED_BASE = [
    "Coq 8.16.1 kernel (vm_compute used in Examples and witness lemmas; native_compute not used)",
    "axioms: none (Print Assumptions of every property theorem must be 'Closed under the global context')",
    "the hand-written Gallina model coq/Model/*.v, tied to /repo only through the differential run reported here",
    "Coq extraction with ExtrOcamlBasic only (Extract Inductive bool/option/unit/list/prod/sumbool/sumor and its Extract Inlined Constants), OCaml 4.13.1, ocaml/driver.ml",
    "harness/src/main.rs (stage printers, catch_unwind), gen/gen.py (generator), bin/*.py (comparison, oracles)",
    "modelled, not verified: Rust std (char_indices, slicing, is_char_boundary, replace_range, trim_*_matches, str::find, lines, format!, repeat, HashMap/HashSet), chrono 0.4.38 parse_from_str for %Y-%m-%d %H:%M:%S %z, serde_json escaping, clap",
]
COMMON_ASSUMPTIONS = [
    "inputs are valid UTF-8; delimiters are non-empty",
    "stack exhaustion on extremely deep tag nesting and memory exhaustion are outside the model",
]

DOC_STAGES_FRONT = ["tok", "tag", "tree"]
DOC_STAGES_CLEAN = ["tok", "tag", "tree", "markers", "removed", "seam", "block", "clean"]
ALL_DOC_STAGES = ["tok", "tag", "tree", "markers", "markers_all", "removed", "seam", "block", "clean",
                  "list_json", "list_pretty", "lista_json", "lista_pretty"]


def known_findings():
    p = os.path.join(ROOT, "known_findings.json")
    return json.load(open(p)) if os.path.exists(p) else []


# ------------------------------------------------------------------------------------------------
# case parsing helpers

def parse_dcase(line):
    f = line.split(" ")
    d = {"id": f[1], "ds": unhex(f[2]), "de": unhex(f[3]), "s": unhex(f[4]), "tl": unhex(f[5]), "offset": unhex(f[6]),
         "now": int(f[7].split(".")[0]), "rm": unhex(f[8]), "targets": [] if f[9] == "." else [unhex(x) for x in f[9].split(",")]}
    return d


def parse_tokens(payload):
    if payload in (".", "PANIC"):
        return []
    out = []
    for item in payload.split(";"):
        if not item:
            continue
        k, st, bs, en, be, v = item.split(":")
        out.append((k == "E", int(st), int(bs), int(en), int(be), unhex(v)))
    return out


def parse_markers(payload):
    if payload in (".", "PANIC"):
        return []
    out = []
    for item in payload.split():
        f = item.split(":")
        a, b = f[0].split("-")
        out.append((int(a), int(b)) + tuple(f[1:]))
    return out


def ref_of(c):
    return R.Ref(c["s"], c["ds"], c["de"], {"tl": c["tl"], "rm": c["rm"], "offset": c["offset"], "now": c["now"],
                                             "targets": set(c["targets"])})


# ------------------------------------------------------------------------------------------------
# generic document streams

def doc_cases(rng, n, prefix, delims=None, kinds=None, p_unwrap=0.3, p_mut=0.15, safe=True, cfgs=None, tagnames=None, strict_unwrap=False):
    cases, meta, stats = [], {}, {"docs": 0, "mutated": 0, "bytes": 0, "elements": 0, "ready": 0, "pending": 0, "skip": 0,
                                  "unreg": 0, "unwrap": 0, "inline": 0, "maxdepth": 0}
    for i in range(n):
        ds, de = rng.choice(delims or G.DELIMS)
        tl, rm = rng.choice(tagnames or (G.TAGNAMES[:2] + G.TAGNAMES[:2] + [("same", "same")]))
        cfg = (rng.choice(cfgs) if cfgs else G.Cfg(tl, rm, rng.choice(["+00:00", "+0900", "-05:30"]), G.NOW,
                                                   rng.choice([("x", "feature1"), ("x",), ()])))
        dg = G.DocGen(rng, ds, de, cfg, safe_text=safe)
        dg.strict_unwrap = strict_unwrap
        dg.multiline_open = 0.08
        if not strict_unwrap:
            dg.tagline_inline = 0.08
            dg.multiline_close = 0.04
        s = dg.document(kinds or G.ALL_KINDS, p_unwrap)
        if rng.random() < 0.15 and isinstance(cfg.now, int):
            # `to` values within a few hours of the current instant, written as wall-clock time at the configured
            # offset or at UTC: whether they are expired depends on reading them AT the offset
            def near(mo):
                base = cfg.now + rng.choice([-1, 0, 1, -3600, 3600, -5 * 3600, 5 * 3600, -10 * 3600, 10 * 3600])
                shift = rng.choice([0, 0, G.offset_minutes(cfg.offset) * 60])
                return 'to="' + G.render_to(base + shift) + '"'
            s = re.sub(r'to="2[01]00-01-01 00:00:00"', near, s)
        if rng.random() < 0.08:
            # white space inside the quotes, in front of the year or behind the seconds: read as the same instant
            def padded(mo):
                v = mo.group(1)
                return 'to="' + rng.choice([v + " ", v + "\t", " " + v, v + "  ", " " + v + " ", v]) + '"'
            s = re.sub(r'to="(\d{4}-\d\d-\d\d \d\d:\d\d:\d\d)"', padded, s)
        mutated = rng.random() < p_mut
        if mutated:
            s = G.mutate(rng, s, ds, de)
            stats["mutated"] += 1
        cid = f"{prefix}{i}"
        cases.append(G.dcase(cid, ds, de, s, cfg))
        meta[cid] = {"mutated": mutated, "stream": "ast"}
        stats["docs"] += 1
        stats["bytes"] += len(s.encode())
        for k in ("elements", "ready", "pending", "skip", "unreg", "unwrap", "inline"):
            stats[k] += dg.stats[k]
        stats["maxdepth"] = max(stats["maxdepth"], dg.stats["depth"])
    return cases, meta, stats


def corpus_cases(prefix="k"):
    cases, meta = [], {}
    for i, (ds, de, s, cfg) in enumerate(G.corpus_docs()):
        cid = f"{prefix}{i}"
        cases.append(G.dcase(cid, ds, de, s, cfg))
        meta[cid] = {"stream": "corpus"}
    p = os.path.join(ROOT, "corpus", "cases.txt")
    if os.path.exists(p):
        for j, line in enumerate(open(p)):
            line = line.strip()
            if line and not line.startswith("#"):
                f = line.split(" ")
                f[1] = f"{prefix}c{j}"
                cases.append(" ".join(f))
                meta[f[1]] = {"stream": "corpus"}
    return cases, meta


def exhaustive_cases(rng, prefix, pairs, max_len, cfg=None, limit=None):
    cases, meta = [], {}
    cfg = cfg or G.Cfg()
    k = 0
    for ds, de in pairs:
        atoms = G.atoms_for(ds, de)
        for s in G.exhaustive_strings(atoms, max_len):
            cid = f"{prefix}{k}"
            k += 1
            cases.append(G.dcase(cid, ds, de, s, cfg))
            meta[cid] = {"stream": "exhaustive"}
            if limit and k >= limit:
                return cases, meta
    return cases, meta


def merge(*parts):
    cases, meta, stats = [], {}, {}
    for k, p in enumerate(parts):
        pm = {a: b for a, b in p[1].items() if a != "__stats__"}
        clash = any(cid in meta for cid in pm)
        if clash:
            # the same case id in two streams: rename this stream's ids
            ren = {cid: f"{cid}_{k}" for cid in pm}
            p = ([" ".join([l.split(" ", 2)[0], ren.get(l.split(" ", 2)[1], l.split(" ", 2)[1]), l.split(" ", 2)[2]]) for l in p[0]],
                 {ren[a]: ({**b, "pair": ren.get(b["pair"], b["pair"])} if isinstance(b, dict) and "pair" in b else b) for a, b in pm.items()}) + tuple(p[2:])
            pm = p[1]
        cases.extend(p[0])
        meta.update(pm)
        if len(p) > 2:
            for k, v in p[2].items():
                stats[k] = max(stats.get(k, 0), v) if k == "maxdepth" else stats.get(k, 0) + v
    meta["__stats__"] = stats
    return cases, meta


# ------------------------------------------------------------------------------------------------
# oracles (return None, a failure string, or ("known", text))

def impl_ok(impl, stages):
    return all(impl.get(st, "MISSING") not in ("PANIC", "MISSING") and "PANIC" not in impl.get(st, "") for st in stages)


def oracle_c01(line, m, impl, model):
    for st, v in impl.items():
        if "PANIC" in v or "BADIDX" in v:
            return f"stage {st} panicked"
    for st in ("clean", "list_json", "list_pretty", "lista_json", "lista_pretty"):
        if st in impl:
            try:
                unhex(impl[st]).decode("utf-8")
            except UnicodeDecodeError:
                return f"stage {st} returned invalid UTF-8"
    return None


def token_checks(c, toks):
    s = c["s"]
    if not s:
        return None if not toks else "tokens for an empty source"
    if not toks:
        return "no token for a non-empty source"
    if toks[0][2] != 0 or toks[0][1] != 0:
        return "first token does not start at offset 0"
    if toks[-1][4] != len(s):
        return "last token does not end at the source length"
    prev = None
    for (e, st, bs, en, be, v) in toks:
        if not (bs < be):
            return "empty token"
        if s[bs:be] != v:
            return "token text differs from the source span"
        try:
            txt = v.decode("utf-8")
        except UnicodeDecodeError:
            return "token does not lie on character boundaries"
        if en - st != len(txt):
            return "character offsets do not describe the byte span"
        if prev is not None:
            if prev[4] != bs or prev[3] != st:
                return "tokens are not contiguous"
            if not prev[0] and not e:
                return "two adjacent text tokens"
        if e and not (v.startswith(c["ds"]) and v.endswith(c["de"])):
            return "tag token without its delimiters"
        prev = (e, st, bs, en, be, v)
    if b"".join(t[5] for t in toks) != s:
        return "concatenated token texts differ from the source"
    return None


def oracle_c07(line, m, impl, model):
    if impl.get("tok") == "PANIC":
        return "tokenize panicked"
    return token_checks(parse_dcase(line), parse_tokens(impl["tok"]))


def oracle_c08(line, m, impl, model):
    if impl.get("tok") == "PANIC":
        return "tokenize panicked"
    c = parse_dcase(line)
    want = R.scan(c["s"], c["ds"], c["de"])
    got = [(t[0], t[2], t[4]) for t in parse_tokens(impl["tok"])]
    if want != got:
        return f"tag spans differ from the leftmost-shortest scan: want {want[:6]} got {got[:6]}"
    return None


def fmt_el(el):
    if el is None:
        return "N"
    def hx(b):
        return b.hex() if b else "-"
    return "S" + hx(el[0]) + "".join(";" + hx(a) + ("=" + hx(v) if v is not None else "") for a, v in el[1])


def oracle_c09(line, m, impl, model):
    """generated well-formed tags must parse to exactly the generated AST"""
    if "PANIC" in impl.get("tag", ""):
        return "tag parser panicked"
    want = m.get("tags")
    if want is not None:
        got = impl["tag"].split() if impl["tag"] != "." else []
        got = [g.split(":", 1)[1] for g in got]
        if got != want:
            return f"parsed tags {got} differ from the generated ones {want}"
    exp = m.get("clean")
    if exp is not None and impl.get("clean") not in (None,) and unhex(impl["clean"]) != exp.encode():
        return f"decision changed by an opaque value: clean gave {unhex(impl['clean'])!r}, expected {exp!r}"
    return None


def oracle_c10(line, m, impl, model):
    if "PANIC" in impl.get("tree", "") or "PANIC" in impl.get("tag", "") or impl.get("tok") == "PANIC":
        return "front end panicked"
    c = parse_dcase(line)
    toks = parse_tokens(impl["tok"])
    spans = [(t[0], t[2], t[4]) for t in toks]
    els = [R.read_tag(R.strip_delims(t[5], c["ds"], c["de"])) if t[0] else None for t in toks]
    want = R.fmt_forest(R.stack_tree(spans, els), spans) or "."
    if want != impl["tree"]:
        return f"tree differs from the stack machine: want {want[:200]} got {impl['tree'][:200]}"
    # every token exactly once, in order
    order = [int(x) for x in re.findall(r"[TE](\d+)", impl["tree"])] + [int(x) for x in re.findall(r"E\d+-(\d+)", impl["tree"])]
    if sorted(order) != [t[2] for t in toks]:
        return "the tree does not contain every token exactly once"
    return None


def first_line_indent_class(c, r):
    """known finding KF1: a removal seam on the first line of the file preceded only by blanks"""
    if not r.extents:
        return False
    a = min(x[0] for x in r.extents)
    head = c["s"][:a]
    return len(head) > 0 and all(ch in b" \t" for ch in head)


def oracle_c02(line, m, impl, model):
    if not impl_ok(impl, ["clean"]):
        return "clean panicked"
    c = parse_dcase(line)
    r = ref_of(c)
    if r.abstain:
        return None
    out = unhex(impl["clean"])
    mask = r.extent_mask()
    deletable = [bool(mask[i]) or c["s"][i] in R.WS for i in range(len(c["s"]))]
    if not R.embeds_with_forced(c["s"], out, deletable):
        return "output is not the input minus ready extents and whitespace"
    return None


def oracle_c03(line, m, impl, model):
    if not impl_ok(impl, ["clean"]):
        return "clean panicked"
    c = parse_dcase(line)
    r = ref_of(c)
    if r.abstain:
        return None
    out = unhex(impl["clean"])
    mask = r.extent_mask()
    kept = bytes(c["s"][i] for i in range(len(c["s"])) if not mask[i])
    if R.nonws(out) != R.nonws(kept):
        return "non-whitespace text of the output differs from the input minus the ready extents"
    return None


def oracle_c04(line, m, impl, model):
    if not impl_ok(impl, ["clean"]):
        return "clean panicked"
    if m.get("expect") is not None:
        return oracle_doc_expected(line, m, impl, model)
    c = parse_dcase(line)
    r = ref_of(c)
    if r.abstain or r.extents:
        return None
    if unhex(impl["clean"]) != c["s"]:
        return "nothing is ready but the output differs from the input"
    return None


def oracle_time(line, m, impl, model):
    want = m.get("want")
    if impl.get("evalt") == "PANIC":
        return "the expiry evaluator panicked (C05: the decision is total; an unparsable or out-of-range `to` is not expired)"
    if want is None:
        return None
    got = impl.get("evalt")
    if got != ("1" if want else "0"):
        return f"expiry decision {got}, expected {int(want)} ({m.get('why')})"
    return None


def oracle_marker(line, m, impl, model):
    want = m.get("want")
    if want is None:
        return None
    key = "evalm" if "evalm" in impl else "clean"
    if key == "evalm":
        if impl["evalm"] != ("1" if want else "0"):
            return f"marker decision {impl['evalm']}, expected {int(want)} ({m.get('why')})"
    else:
        if not impl_ok(impl, ["clean"]):
            return "clean panicked"
        if unhex(impl["clean"]) != m["want_clean"].encode():
            return f"clean gave {unhex(impl['clean'])!r}, expected {m['want_clean']!r} ({m.get('why')})"
    return None


def lines_of(b):
    return b.split(b"\n")


def oracle_doc_expected(line, m, impl, model):
    """documents whose expected output the generator knows"""
    if not impl_ok(impl, ["clean"]):
        return "clean panicked"
    exp = m.get("expect")
    if exp is None:
        return None
    out = unhex(impl["clean"])
    want = exp.encode()
    if m.get("ignore_trailing_ws"):
        # a block that ends the file: which blanks / line breaks are left at the very end is not part of the expectation
        out, want = out.rstrip(b" \t\n"), want.rstrip(b" \t\n")
    if out != want:
        if m.get("known_class"):
            return ("known", m["known_class"])
        return f"clean gave {out!r}, expected {exp!r} ({m.get('why', '')})"
    return None


def oracle_c14(line, m, impl, model):
    if not impl_ok(impl, ["clean"]):
        return "clean panicked"
    c = parse_dcase(line)
    r = ref_of(c)
    if r.abstain:
        return None
    out = unhex(impl["clean"])
    s = c["s"]
    mask = r.extent_mask()
    # maximal stretches without removed characters, outside unwrapped bodies
    bodies = []
    for n, parts, _ in r.ready:
        if len(parts) == 2:
            bodies.append((parts[0][1], parts[1][0]))
    def in_body(i):
        return any(a <= i < b for a, b in bodies)
    pos = 0
    i = 0
    n = len(s)
    stretches = []
    while i < n:
        if mask[i]:
            i += 1
            continue
        j = i
        while j < n and not mask[j]:
            j += 1
        stretches.append((i, j))
        i = j
    for a, b in stretches:
        if any(in_body(k) for k in (a, b - 1)) or any(a <= x < b for x, _ in bodies):
            # inside (or overlapping) an unwrapped body: line by line
            pieces = [p.strip(b" \t\n") for p in s[a:b].split(b"\n")]
        else:
            pieces = [s[a:b].strip(b" \t\n")]
        for p in pieces:
            if not p:
                continue
            k = out.find(p, pos)
            if k < 0:
                return f"stretch {p[:40]!r} does not appear verbatim (in order) in the output"
            pos = k + len(p)
    return None


def parse_json_items(payload):
    if payload == "PANIC":
        return None
    return json.loads(unhex(payload).decode("utf-8"))


ANSI = re.compile(rb"\x1b\[[0-9]*m")


def in_list_domain(c, r, leading_newline_ok=False):
    """the C15 space: no tag on an unwrap wrapper line, wrapper lines are non-empty code lines, the
    first byte of the file is not a line break (C16 additionally covers files that start with one)"""
    s = c["s"]
    if s[:1] == b"\n" and not leading_newline_ok:
        return False
    for lst in (r.ready, r.pending):
        for entry in lst:
            n = entry[0]
            if not any(a == b"unwrap-block" for a, _ in n.el[1]):
                continue
            o, cl = r.spans[n.tok], r.spans[n.end]
            e = R.line_break_after(s, o[2], 2)
            st = R.line_break_before(s, cl[1], 2)
            if e is None or st is None or st < e:
                continue
            e1 = R.line_break_after(s, o[2], 1)
            st1 = R.line_break_before(s, cl[1], 1)
            for (a, b) in ((o[2], e), (st + 1, cl[1])):
                if any(sp[0] and sp[1] < b and sp[2] > a for sp in r.spans):
                    return False
            if s[o[2]:e1].strip(b" \t") != b"" or s[st1 + 1:cl[1]].strip(b" \t") != b"":
                return False     # something follows the opening tag / precedes the closing tag on its line
            if s[e1 + 1:e].strip(b" \t") == b"" or s[st + 1:st1].strip(b" \t") == b"":
                return False
    return True


def oracle_c15(line, m, impl, model):
    if not impl_ok(impl, ["list_json", "list_pretty", "clean"]):
        return "list or clean panicked"
    c = parse_dcase(line)
    r = ref_of(c)
    if r.abstain or m.get("mutated") or m.get("stream") == "exhaustive" or not in_list_domain(c, r):
        return None
    items = parse_json_items(impl["list_json"])
    s = c["s"]
    # regions clean deletes before tidying: ready parts not nested in a whole-range ready region
    regions = []
    for n, parts, nested in r.ready:
        if not nested:
            regions.extend(parts)
    regions.sort()
    if len(items) != len(regions):
        return f"{len(items)} Ready items but {len(regions)} deleted regions"
    for it, (a, b) in zip(items, regions):
        if it["current_status"] != "Ready":
            return "plain list contains a non-Ready item"
        if s[a:a + 1] == b"\n" or s[b - 1:b] == b"\n":
            continue
        first = 1 + s.count(b"\n", 0, a)
        last = 1 + s.count(b"\n", 0, b - 1)
        if it["line_range"] != [first, last]:
            return f"line range {it['line_range']} but the region covers lines {first}..{last}"
    # highlighted text = text of the region (pretty form, red segments)
    pretty = unhex(impl["list_pretty"])
    segs = re.findall(rb"\x1b\[31m(.*?)\x1b\[0m", pretty, re.S)
    # segments are per line; regroup per item by counting lines of each region up to its line end
    k = 0
    for (a, b) in regions:
        le = s.find(b"\n", b - 1)
        le = len(s) if le < 0 else le
        want = s[a:min(b, le)].replace(b"\t", b"    ")
        wl = [x[:-1] if x.endswith(b"\r") else x for x in want.split(b"\n")]
        if want.endswith(b"\n"):
            wl = wl[:-1]
        got = segs[k:k + len(wl)]
        k += len(wl)
        if got != wl:
            return f"highlighted text {got[:3]} differs from the region text {wl[:3]}"
    return None


def expand_tabs(b):
    return b.replace(b"\t", b"    ")


def oracle_c16(line, m, impl, model):
    for st in ("list_json", "list_pretty", "lista_json", "lista_pretty"):
        if impl.get(st) == "PANIC":
            return f"{st} panicked"
    c = parse_dcase(line)
    s = c["s"]
    src_lines = s.split(b"\n")
    r0 = ref_of(c)
    dom = (not r0.abstain) and in_list_domain(c, r0, True)     # line / column expectations only in the C15 space (+ leading line break)
    for js, pr, mk in (("list_json", "list_pretty", "markers"), ("lista_json", "lista_pretty", "markers_all")):
        try:
            items = parse_json_items(impl[js])
        except Exception as e:
            return f"{js} is not valid JSON: {e}"
        if not isinstance(items, list):
            return f"{js} is not an array"
        marks = parse_markers(impl.get(mk, "."))
        pretty = unhex(impl[pr])
        blocks = re.split(rb"\n-------- \[ \d+ \] (?: Ready  |Pending )--------\n", pretty)
        if len(blocks) - 1 != len(items):
            return f"{pr} has {len(blocks) - 1} items, {js} has {len(items)}"
        for idx, it in enumerate(items):
            if set(it.keys()) != {"line_range", "annotated_code_block", "current_status"}:
                return "unexpected JSON keys"
            if it["current_status"] not in ("Ready", "Pending"):
                return "bad status"
            blk = it["annotated_code_block"].encode("utf-8")
            pb = ANSI.sub(b"", blocks[idx + 1])
            if idx == len(items) - 1 and pb.endswith(b"\n"):
                pb = pb[:-1]
            if pb != blk and b"\r\n" not in s:
                # (CR LF sources are outside C16's quantifier: the pretty form drops the CR of a CR LF line end, the
                # JSON block keeps it - observation in DESIGN.md section 8; C16_json_block_is_uncoloured_pretty
                # carries the hypothesis "no CR")
                return f"JSON code block of item {idx} differs from the pretty form without colours"
            if m.get("mutated") or m.get("stream") == "exhaustive" or idx >= len(marks) or not dom:
                continue
            a, b = marks[idx][0], marks[idx][1]
            if s[a:a + 1] == b"\n" or s[b - 1:b] == b"\n" or b"\r" in s:
                continue
            first, last = it["line_range"]
            bl = blk.split(b"\n")
            if len(bl) != (last - first + 1) + 2:
                return f"item {idx}: {len(bl) - 2} code lines for line range {first}..{last}"
            for k2, ln in enumerate(range(first, last + 1)):
                want = b"%7d |" % ln + expand_tabs(src_lines[ln - 1])
                if bl[1 + k2] != want:
                    return f"item {idx}: line {ln} rendered as {bl[1 + k2]!r}, expected {want!r}"
            ls = s.rfind(b"\n", 0, a) + 1
            pre = s[ls:a]
            if all(ch < 0x80 for ch in pre):
                col = 9 + len(expand_tabs(pre))
                if bl[0] != b" " * col + b"_start":
                    return f"item {idx}: _start marker at column {len(bl[0]) - 6}, expected {col}"
            le = s.rfind(b"\n", 0, b - 1) + 1
            pre = s[le:b - 1]
            if all(ch < 0x80 for ch in pre):
                # a last removed character that is a tab occupies four columns: the marker stands under the last of them
                col = 9 + len(expand_tabs(pre)) + (3 if s[b - 1:b] == b"\t" else 0)
                if bl[-1] != b" " * col + "‾end".encode():
                    return f"item {idx}: end marker at column {len(bl[-1]) - 6}, expected {col}"
    return None


def oracle_c17(line, m, impl, model):
    if not impl_ok(impl, ["lista_json", "list_json", "markers_all"]):
        return "list_all panicked"
    marks = parse_markers(impl["markers_all"])
    got = [(a, b, st) for a, b, _, st in marks]
    # for every source (Properties/C17.v, C17_list_all_regions holds for all well-formed sources):
    # items in source order, Ready items identical to the plain list
    if [x[0] for x in got] != sorted(x[0] for x in got):
        return "list_all items are not in source order"
    la = parse_json_items(impl["lista_json"])
    l = parse_json_items(impl["list_json"])
    if [i for i in la if i["current_status"] == "Ready"] != l:
        return "Ready items of list_all differ from the plain list"
    # (also for every source: C17_list_all_regions) a Pending region that lies inside a Ready region
    # (starts at or after its first byte and ends before its end) is not listed
    for a, b, st in got:
        if st == "P" and any(ra <= a and b < rb for ra, rb, rst in got if rst == "R"):
            return f"a Pending region ({a}, {b}) lying inside a Ready region is listed"
    c = parse_dcase(line)
    r = ref_of(c)
    if r.abstain or m.get("mutated") or m.get("stream") == "exhaustive" or not in_list_domain(c, r):
        return None
    ready = sorted(p for n, parts, nested in r.ready if not nested for p in parts)
    pend = []
    for n, parts, in_ready, in_pending in r.pending:
        if in_ready or in_pending:
            continue
        for p in parts:
            if any(a <= p[0] and p[1] <= b for a, b in ready):
                continue
            pend.append(p)
    want = sorted([(a, b, "R") for a, b in ready] + [(a, b, "P") for a, b in pend])
    # ready unwrap parts may have grown by absorbing children on wrapper lines; compare loosely there
    if m.get("strict", True) and got != want:
        return f"list_all regions {got[:8]} differ from Ready + outstanding Pending {want[:8]}"
    return None


def chrono_limit_docs(prefix="cl"):
    """documents whose `to` value sits on the ends of chrono's range, with offsets that push the instant
    over them: never a panic, the element is simply not expired (or expired) - through clean and both lists"""
    cases, meta = [], {}
    k = 0
    for to in ("+262142-12-31 23:59:59", "-262143-01-01 00:00:00", "+262142-12-31 00:00:00", "-262143-12-31 23:59:59", "+262143-01-01 00:00:00"):
        for off in ("+00:00", "-01:00", "+09:00", "-23:59", "+23:59", "-0001", "+0001"):
            for ds, de in (("<", ">"), ("<!-- <", "> -->")):
                src = f'a\n{ds}tl to="{to}"{de}\nbody\n{ds}/tl{de}\nb\n'
                cid = f"{prefix}{k}"
                k += 1
                cases.append(G.dcase(cid, ds, de, src, G.Cfg(offset=off, now=G.NOW)))
                meta[cid] = {"stream": "chrono-limits", "mutated": True}
    # `to` values that are cut short, use other separators or hold multi-byte characters at the positions of the
    # separators: never a panic, never ready
    for to in ("2024/", "2024/02", "abcd/", "2024/0\u3042", "2024/02/15 12:00:00", "2024/02-15 12:00:00", "2000-01", "2000", "", "\u3042", "2000-01-01T00:00:00",
               "20000101", "2000-", "2000-01-", "2000-01-01 ", "2000-01-01 00", "2000-01-01 00:00", "2000-01-01 00:00:", "\u3042\u3042\u3042\u3042-01-01 00:00:00",
               "2000\u301c01\u301c01 00:00:00", "2000.01.01 00:00:00", "-", "/", "    /", "2024\\", "2024:02:15 12:00:00",
               "2000-01-01 00:00:00.5", "2000-01-01 00:00:00.000", "2000-01-01 00:00:00,5", "2000-01-01 00:00:00 AM", "2000-01-01 00:00:00Z",
               # a value that carries its own offset (RFC 3339 spellings) is not a wall-clock time either
               "2000-01-01T00:00:00Z", "2000-01-01T00:00:00+09:00", "2000-01-01t00:00:00.5-03:30", "2000-01-01 00:00:00+09:00", "2000-01-01T00:00:00+00:00",
               "2000-01-01 00:00:00 +00:00", "2000-01-01T00:00:00", "Sat, 01 Jan 2000 00:00:00 +0000", "946684800"):
        for ds, de in (("<", ">"), ("<!-- <", "> -->")):
            src = f'a\n{ds}tl to="{to}"{de}\nbody\n{ds}/tl{de}\nb\n'
            cid = f"{prefix}{k}"
            k += 1
            cases.append(G.dcase(cid, ds, de, src, G.Cfg(offset="+00:00", now=G.NOW)))
            meta[cid] = {"stream": "chrono-limits", "expect": src, "why": "a `to` value that is not a wall-clock time"}
    return cases, meta


def weird_tag_cases(rng, n, prefix="wtag"):
    """elements whose tags use rare spellings: separators other than space / line break (TAB, CR LF, NBSP,
    U+3000), unquoted and empty values, duplicate and upper-case attributes, quotes inside values, backslashes,
    control characters, names with slashes / CR / multi-byte characters; CR LF documents.  No expectation:
    the model must agree with the implementation on every stage (and the universal oracles apply)."""
    cases, meta = [], {}
    e, f = G.EXPIRED, G.FUTURE
    seps = [" ", " ", "\n", "\t", "\r\n", "\u00a0", "\u3000", "  ", "\n\t", " \r\n "]
    attrs = [e, f, 'name="x"', "name='x'", "name=x", "name=", "name", 'name="x"x', "skip", "SKIP", "skip=''", "unwrap-block", 'unwrap-block="1"',
             "to", "to=2000-01-01", 'to="2000-01-01 00:00:00"', "to='2000-01-01 00:00:00'", 'c="it\'s"', "c='say \"hi\"'", 'c="a\\"', "c='\\'",
             'c="x', "c='y", '"', "'", "=", "==", 'a="1"b="2"', "é='ü'", "\x01", "\x7f", 'c="\t"', "/", "//", 'to ="2000-01-01 00:00:00"',
             'to= "2000-01-01 00:00:00"', 'name = "x"', 'name name="x"', 'to to="2000-01-01 00:00:00"', 'to="2024/"', 'to="2024/02"', 'name="x""', "name='x'=",
             'c="1" "', 'to="2000-01-01 00:00:00""', 'to=\n"2000-01-01 00:00:00"', 'name=\n"x"', 'to=\n  "2000-01-01 00:00:00"', 'to\n="2000-01-01 00:00:00"',
             'to="2000-01-01 00:00:00.5"']
    names = ["tl", "rm", "tl", "rm", "TL", "tl\r", "/tl", "//tl", "tl/", "t l", "期限", "tl\u00a0", "", "t\tl"]
    for i in range(n):
        ds, de = rng.choice(G.DELIMS[:10])
        nm = rng.choice(names)
        body = nm + "".join(rng.choice(seps) + rng.choice(attrs) for _ in range(rng.randint(0, 4)))
        closer = rng.choice(["/" + nm, "/" + nm.strip(), "/tl", "/rm", "/" + nm + "\r", "//" + nm])
        inner = rng.choice(["x", "\nx\n", "\n{\n  y\n}\n", ""])
        pre = rng.choice(["a ", "a\n", "", "  "])
        src = pre + ds + rng.choice(["", " "]) + body + rng.choice(["", " ", "\n"]) + de + inner + ds + closer + de + rng.choice([" b", "\nb\n", ""])
        if rng.random() < 0.25:
            src = src.replace("\n", "\r\n")
        cid = f"{prefix}{i}"
        cases.append(G.dcase(cid, ds, de, src, G.Cfg("tl", "rm", rng.choice(["+00:00", "-05:30"]), G.NOW, ("x",))))
        meta[cid] = {"stream": "weird-tags", "mutated": True, "strict": False}
    return cases, meta


def bom_cases(rng, n, prefix="bom"):
    """documents that begin with a byte order mark (U+FEFF), with multi-byte lines inside unwrap-blocks"""
    cases, meta = [], {}
    for i in range(n):
        ds, de = rng.choice(G.DELIMS)
        cfg = G.Cfg("tl", "rm", "+00:00", G.NOW, ("x",))
        dg = G.DocGen(rng, ds, de, cfg, safe_text=True)
        s = "\ufeff" + dg.document(["ready_tl", "ready_rm", "pending_tl"], 0.7)
        s = s.replace("foo", "日本語").replace("x = 1", "二行目")
        cid = f"{prefix}{i}"
        cases.append(G.dcase(cid, ds, de, s, cfg))
        meta[cid] = {"stream": "bom", "mutated": True, "strict": False}
    return cases, meta


def long_token_cases(prefix="lt"):
    """one long text token and one long tag token made of N copies of a character of each UTF-8 length (block-wise
    character counting: 85/86, 127/128, 170/171, 255/256, 340/341, 510/511 characters)"""
    cases, meta = [], {}
    k = 0
    for ch in ("a", "\u00e9", "\u3042", "\U0001f600", "\uffff"):
        for n in (85, 86, 127, 128, 170, 171, 200, 255, 256, 257, 340, 341, 510, 511, 600):
            for ds, de in (("<", ">"), ("<!-- <", "> -->")):
                if n > 257 and ds != "<":
                    continue
                src = f"x{ds}t{de}" + ch * n + f"{ds}/t{de}y{ds}t name='" + ch * n + f"'{de}z"
                cid = f"{prefix}{k}"
                k += 1
                cases.append(G.dcase(cid, ds, de, src, G.Cfg()))
                meta[cid] = {"stream": "long-tokens"}
    return cases, meta


def many_comment_cases(rng, n, prefix="mc"):
    """documents with many ordinary comments in the tool's delimiters (tags that are never closed, or
    that do not parse to elements) in front of ready / pending elements"""
    cases, meta = [], {}
    e, f = G.EXPIRED, G.FUTURE
    for i in range(n):
        ds, de = rng.choice(G.DELIMS)
        k = rng.choice([30, 64, 65, 90, 150])
        lines = []
        for j in range(k):
            c = rng.choice([f"step{j}", "TODO: x", "note", "---", f"/old{j}"])
            lines.append(rng.choice(["", "  "]) + ds + c + de + rng.choice(["", " code();"]))
            if rng.random() < 0.3:
                lines.append("code();")
        lines.append(ds + f"tl {rng.choice([e, f])}" + de)
        lines.append("body();")
        lines.append(ds + "/tl" + de)
        lines.append("tail();")
        cid = f"{prefix}{i}"
        cases.append(G.dcase(cid, ds, de, "\n".join(lines) + "\n", G.Cfg(targets=("x",))))
        meta[cid] = {"stream": "many-comments", "strict": False}
    return cases, meta


def control_char_cases(rng, n, prefix="cc"):
    """listed regions whose lines contain control characters, quotes and backslashes (JSON escaping:
    \\b \\f \\r \\t, \\u00XX with every hex digit, \\" and \\\\) and DEL / NEL / U+2028"""
    cases, meta = [], {}
    e, f = G.EXPIRED, G.FUTURE
    specials = [chr(c) for c in list(range(1, 10)) + list(range(11, 32))] + ["\x7f", "\u0085", "\u2028", "\u2029", '"', "\\", "/", "\u00ad"]
    for i in range(n):
        ds, de = rng.choice([("<", ">"), ("/* <", "> */"), ("<!-- <", "> -->")])
        def junk():
            return "".join(rng.choice(specials + ["a", "b", " "]) for _ in range(rng.randint(1, 6)))
        lines = ["head " + junk(), ds + "tl " + rng.choice([e, f]) + de + junk(), "x" + junk(), junk() + ds + "/tl" + de, "tail" + junk()]
        cid = f"{prefix}{i}"
        cases.append(G.dcase(cid, ds, de, "\n".join(lines) + "\n", G.Cfg(targets=("x",))))
        meta[cid] = {"stream": "control-chars", "strict": False}
    return cases, meta


def wrapper_tag_cases(rng, n, prefix="wt"):
    """ready unwrap-block elements with the tags of other (pending / ready) elements ON their wrapper
    lines (outside the C15 space: only the clauses proved for every source are applied to them)"""
    cases, meta = [], {}
    e, f = G.EXPIRED, G.FUTURE
    for i in range(n):
        ds, de = rng.choice(G.DELIMS)
        def tag(body):
            return ds + body + de
        kinds = {"P": (f"tl {f}", "/tl"), "R": (f"tl {e}", "/tl"), "M": ('rm name="zz"', "/rm"), "X": ('rm name="x"', "/rm")}
        ind = rng.choice(["", "  ", "\t"])
        k1 = rng.choice("PPPMRX")
        k2 = rng.choice("PPMRX")
        o1, c1 = kinds[k1]
        o2, c2 = kinds[k2]
        lines = [rng.choice(["", "a", "fn main() {"])]
        lines.append(ind + tag(rng.choice([f"tl {e} unwrap-block", 'rm name="x" unwrap-block'])))
        shape = rng.randrange(12)
        u_close = None
        if shape in (10, 11):
            # one element from the opening wrapper line to some line k, another from later on line k to the closing
            # wrapper line: when both are ready the two seams of the unwrapped element end up on one line
            lines.append(ind + rng.choice(["if (c) { ", ""]) + tag(o1))
            for _ in range(rng.randint(0, 1)):
                lines.append(ind + "  legacy();")
            lines.append(ind + tag(c1) + rng.choice([" y ", "y", " ", "  keep();  "]) + tag(o2))
            for _ in range(rng.randint(0, 1)):
                lines.append(ind + "  more();")
            lines.append(ind + tag(c2) + rng.choice([" }", ""]))
            closer = "/tl" if "tl " in lines[1] else "/rm"
            lines.append(ind + tag(closer))
            lines.append(rng.choice(["", "b", "}"]))
            src = "\n".join(lines) + rng.choice(["", "\n"])
            cid = f"{prefix}{i}"
            cases.append(G.dcase(cid, ds, de, src, G.Cfg(targets=("x",))))
            meta[cid] = {"stream": "wrapper-tags", "strict": False}
            continue
        # opening wrapper line
        if shape in (0, 1, 4):
            lines.append(ind + "if (c) { " + tag(o1))
            lines.append(ind + "  legacy();")
            lines.append(ind + "  " + tag(c1))
        elif shape in (6, 7):
            # a whole element on the opening wrapper line, ending exactly at the end of the line
            lines.append(ind + "if (c) { " + tag(o1) + "x" + tag(c1) + ("" if shape == 6 else " "))
            lines.append(ind + "  legacy();")
        elif shape == 2:
            lines.append(ind + tag(o1) + " if (c) {")
            lines.append(ind + "  legacy();")
            lines.append(ind + "  " + tag(c1) + " tail();")
        else:
            lines.append(ind + "{")
        for _ in range(rng.randint(0, 2)):
            lines.append(ind + "  run();")
        # closing wrapper line
        if shape in (1, 3, 5):
            lines.append(ind + "  " + tag(o2))
            lines.append(ind + "  more();")
            lines.append(ind + tag(c2) + " }")
        elif shape == 4:
            lines.append(ind + "  " + tag(o2) + " x(); " + tag(c2))
            lines.append(ind + "}")
        elif shape in (8, 9):
            # an element that starts at the very first byte of the closing wrapper line
            lines.append(tag(o2) + " x(); " + tag(c2) + " }" if shape == 8 else tag(o2) + "x" + tag(c2))
        else:
            lines.append(ind + "}")
        closer = "/tl" if "tl " in lines[1] else "/rm"
        lines.append(ind + tag(closer))
        lines.append(rng.choice(["", "b", "}"]))
        src = "\n".join(lines) + rng.choice(["", "\n"])
        cid = f"{prefix}{i}"
        cases.append(G.dcase(cid, ds, de, src, G.Cfg(targets=("x",))))
        meta[cid] = {"stream": "wrapper-tags", "strict": False}
    return cases, meta


# ------------------------------------------------------------------------------------------------
# property-specific generators

def degenerate_unwrap_cases(rng, tier, prefix="u"):
    """ready unwrap-block elements with every small layout between (and around) the tags; the
    reference decides which of them cannot be unwrapped (then nothing may change)"""
    import itertools
    cases, meta = [], {}
    atoms = ["\n", "x", " ", "あ", "\t"]
    L = 4 if tier == "quick" else 5
    k = 0
    e = G.EXPIRED
    for ds, de in [("<", ">"), ("/* <", "> */")]:
        for n in range(0, L + 1):
            for t in itertools.product(atoms, repeat=n):
                between = "".join(t)
                if between.count("\n") > 3:
                    continue
                for pre, post in (("", ""), ("a\n", "\nb"), ("a ", " b\n"), ("\n", "\n")):
                    if n >= 4 and (pre, post) != ("a\n", "\nb") and rng.random() < 0.6:
                        continue
                    for tag, cfg in ((f"tl {e} unwrap-block", G.Cfg()), ('rm unwrap-block name="x"', G.Cfg(targets=("x",)))):
                        if n >= 3 and tag.startswith("rm") and rng.random() < 0.7:
                            continue
                        src = pre + ds + tag + de + between + ds + "/" + tag.split(" ")[0] + de + post
                        cid = f"{prefix}{k}"
                        k += 1
                        cases.append(G.dcase(cid, ds, de, src, cfg))
                        meta[cid] = {"stream": "degenerate-unwrap"}
                        if n <= 3 and (pre, post) in (("a\n", "\nb"), ("", "")):
                            # the same with a closing tag that spans lines, and with a valued unwrap-block attribute
                            for closer in ("/" + tag.split(" ")[0] + "\n", "/" + tag.split(" ")[0] + " \n "):
                                cid = f"{prefix}{k}"
                                k += 1
                                cases.append(G.dcase(cid, ds, de, pre + ds + tag + de + between + ds + closer + de + post, cfg))
                                meta[cid] = {"stream": "degenerate-unwrap"}
                            cid = f"{prefix}{k}"
                            k += 1
                            cases.append(G.dcase(cid, ds, de, pre + ds + tag.replace("unwrap-block", 'unwrap-block="true"') + de + between
                                                 + ds + "/" + tag.split(" ")[0] + de + post, cfg))
                            meta[cid] = {"stream": "degenerate-unwrap"}
    return cases, meta


def nameless_marker_cases(prefix="nm"):
    """removal-markers whose `name` has no value (missing, bare, unquoted), with the empty string among
    the targets: never ready"""
    cases, meta = [], {}
    k = 0
    for ds, de in (("<", ">"), ("<!-- <", "> -->")):
        for targets in (("", "x"), ("",), ("x",)):
            for attrs in ("", " name", " name=x", " name=", " skip name", " name skip", " name=feature2", " Name=\"\"", " name =", " c=\"\" name"):
                for block in (False, True):
                    body = "\nb\n" if block else "b"
                    src = "a" + ("\n" if block else "") + ds + "rm" + attrs + de + body + ds + "/rm" + de + ("\nc" if block else "c")
                    cid = f"{prefix}{k}"
                    k += 1
                    cases.append(G.dcase(cid, ds, de, src, G.Cfg(targets=targets)))
                    meta[cid] = {"stream": "nameless-marker", "expect": src, "why": f"attrs={attrs!r} targets={targets!r}"}
    return cases, meta


def gen_front(rng, tier, pairs=None, exh_len=None):
    n = 1500 if tier == "quick" else 20000
    L = exh_len or (4 if tier == "quick" else 5)
    pairs = pairs or [("<", ">"), ("/* <", "> */"), ("aab", "bba"), ("|", "】】"), ("《", "》"), ("<!-- <", "> -->"), ("// --", "-- //"), ("<<", ">>"),
                      ("<", "-->"), ("[", "]]]]"), ("|", "|"), ("{{{", "}"),
                      # delimiters made of white space only (tags that run to the end of the line, tab-separated fields)
                      ("#:", "\n"), ("\t", "\t"), ("\n\n", " "),
                      # a start delimiter that overlaps itself and shares its characters with the end delimiter
                      ("##", "#"), ("%%", "%%"), ("--", "--")]
    ex = exhaustive_cases(rng, "x", pairs[:4] if tier == "quick" else pairs, L)
    # strings over the delimiter characters plus one filler: deeper
    ex2c, ex2m = [], {}
    k = 0
    for ds, de in pairs:
        atoms = list(dict.fromkeys(list(ds) + list(de))) + ["x"]
        if len(atoms) <= 4:
            # room for two more: a back slash (an "escape" in front of a delimiter) and, for delimiters with letters,
            # the same letter in the other case; otherwise a character whose lower-case form has another length
            atoms.append("\\")
            letters = [c for c in ds + de if c.isalpha()]
            atoms.append(letters[0].swapcase() if letters else "\u0130")
        atoms = atoms[:6]
        for s in G.exhaustive_strings(atoms, 6 if tier == "quick" else 8):
            if tier == "quick" and rng.random() < 0.7 and len(s) > 4:
                continue
            ex2c.append(G.dcase(f"y{k}", ds, de, s, G.Cfg()))
            ex2m[f"y{k}"] = {"stream": "exhaustive"}
            k += 1
    docs = doc_cases(rng, n, "d", p_mut=0.4, safe=False)
    # random strings over characters on the boundaries of the UTF-8 byte classes, delimiters and tag pieces
    bc, bm = [], {}
    for i in range(600 if tier == "quick" else 8000):
        ds, de = rng.choice(pairs)
        pool = G.BOUNDARY_CHARS + [ds, de, ds, de, " ", "\n", "r", "/r", "a=\"", "'", "skip", "\\", ds.upper(), de.upper(), ds.lower(), "\n\n"]
        s = "".join(rng.choice(pool) for _ in range(rng.randint(1, 14)))
        bc.append(G.dcase(f"u{i}", ds, de, s, G.Cfg()))
        bm[f"u{i}"] = {"stream": "unicode-boundaries", "mutated": True}
    return merge(corpus_cases(), ex, (ex2c, ex2m), docs, (bc, bm), chrono_limit_docs(), weird_tag_cases(rng, 400 if tier == "quick" else 6000),
                 long_token_cases())


BAD_OFFSETS = ["+09:00:00", "+0900 JST", "+00:00Z", "-05:00h", "+09:00 ", "+0000+0000", "", "UTC", "+9", "Z", "+24:00", "+09:60",
               "+", "-0", "\u3042", "+0\u3042:00", "\u00e9", "+\u00e90:00", "\U0001f600"]


def bad_offset_docs(rng, n, prefix="bo"):
    """documents of expired time-limited elements under an offset string that does not parse (a well-formed offset
    followed by something, among others): no element is ready, cleaning is the identity"""
    cfgs = [G.Cfg("tl", "rm", off, G.NOW, ("x",)) for off in BAD_OFFSETS]
    c, m, st = doc_cases(rng, n, prefix, kinds=["ready_tl", "ready_tl", "pending_tl", "skip", "unreg"], p_mut=0.0, cfgs=cfgs,
                         tagnames=[("tl", "rm")])
    for cid in m:
        m[cid]["stream"] = "bad-offset"
    return c, m, st


def big_line_number_cases(prefix="big"):
    """a listed region on line 10,000,000 and beyond: the line-number column of the list is seven characters wide, an
    eight-digit number widens it.  Too large for the extracted model: run on the implementation and the oracle only."""
    cfg = G.Cfg("tl", "rm", "+00:00", G.NOW, ("x",))
    s = "\n" * 9_999_998 + 'a\n<rm name="x">y</rm>\n\t<rm name="other">\n\tz\n\t</rm>\n'
    return [G.dcase(prefix + "0", "<", ">", s, cfg)], {prefix + "0": {"stream": "big", "impl_only": True}}


def wide_column_cases(prefix="wide"):
    """regions that begin / end more than 65,535 columns into a line (a one-line minified bundle with a tag near its
    end): the marker lines of the list are padded to that width.  Implementation and oracle only."""
    cfg = G.Cfg("tl", "rm", "+00:00", G.NOW, ("x",))
    filler = "var a=1;" * 8750
    docs = ["first\n" + filler + '<rm name="x">legacy();</rm>done();\nlast\n',
            "\t" + filler[:65528] + '<rm name="x">y</rm>\n',
            filler[:65400] + '<rm name="other">\n' + filler[:65600] + "</rm>z"]
    cases, meta = [], {}
    for i, d in enumerate(docs):
        cases.append(G.dcase(f"{prefix}{i}", "<", ">", d, cfg))
        # too slow in the extracted model (unary positions: about a minute per 20,000 columns, growing cubically)
        meta[f"{prefix}{i}"] = {"stream": "wide", "impl_only": True}
    return cases, meta


def gen_docs(rng, tier, n_quick=2500, n_thorough=40000, **kw):
    n = n_quick if tier == "quick" else n_thorough
    ex = exhaustive_cases(rng, "x", [("<", ">"), ("|", "|")], 3 if tier == "quick" else 4)
    return merge(corpus_cases(), ex, doc_cases(rng, n, "d", **kw), wrapper_tag_cases(rng, 300 if tier == "quick" else 3000, "wtg"),
                 many_comment_cases(rng, 12 if tier == "quick" else 200),
                 control_char_cases(rng, 60 if tier == "quick" else 1000),
                 weird_tag_cases(rng, 400 if tier == "quick" else 6000), bom_cases(rng, 80 if tier == "quick" else 1500),
                 nameless_marker_cases("nmg"), chrono_limit_docs("cld"))


TAG_VALUES = ["first paragraph\n\nsecond paragraph", "\n\n", "", "v", "a b", "x=y", "it's", 'say "hi"', "skip", "unwrap-block", "a\nb", "<", "/* <", "to", "あ", "  ", "name=x skip",
              "C:\\docs\\", "\\", "a\\", "期限切れ", "🧹", "éé", "\\\\"]
TAG_SEPS = [" ", "  ", "\n", "\n  ", " \n * ", "\n\n", " \n\n  "]


def gen_c09(rng, tier):
    cases, meta = [], {}
    n = 3000 if tier == "quick" else 40000
    e = "2000-01-01 00:00:00"
    for i in range(n):
        ds, de = rng.choice(G.DELIMS)
        name = rng.choice(["tl", "time-limited", "rm", "x", "/tl", "期限", "a-b", "t2"])
        attrs, want = [], []
        body = name
        for _ in range(rng.randint(0, 4)):
            sep = rng.choice(TAG_SEPS)
            an = rng.choice(["to", "name", "c", "skip", "unwrap-block", "k", "é", "data-x"])
            kind = rng.choice(["bare", "dq", "sq"])
            if " * " in sep:
                want.append(("*", None))
            if kind == "bare":
                body += sep + an
                want.append((an, None))
            else:
                q = '"' if kind == "dq" else "'"
                v = rng.choice(TAG_VALUES)
                if q in v or any(ch in v for ch in (ds, de)) and False:
                    v = v.replace(q, "_")
                eq = rng.choice(["=", " =", "= ", " = "])
                body += sep + an + eq + q + v + q
                want.append((an, v))
        pad_l = rng.choice(["", " ", "  "])
        pad_r = rng.choice(["", " ", "  "])
        inner = pad_l + body + pad_r
        # well-formedness w.r.t. the delimiters: the body must not contain the end delimiter, nor start
        # with the start delimiter / end with the end delimiter, and must not be cut by the scan
        if de in inner or inner.startswith(ds) or inner.endswith(de) or (ds + inner + de).find(de, len(ds) + 1) != len(ds) + len(inner):
            continue
        if any(c in name for c in ds + de if c not in " "):
            continue
        src = ds + inner + de
        cid = f"g{i}"
        cases.append(G.dcase(cid, ds, de, src, G.Cfg()))
        def hx(s):
            return s.encode().hex() if s else "-"
        meta[cid] = {"stream": "grammar",
                     "tags": ["S" + hx(name) + "".join(";" + hx(a) + ("=" + hx(v) if v is not None else "") for a, v in want)]}
    # opacity probes: the same element with and without an adversarial comment value
    k = 0
    for v in TAG_VALUES:
        for q in "\"'":
            if q in v:
                continue
            for sep in TAG_SEPS:
                for pos in (0, 1):
                    for extra, exp in ((["skip"], None), ([], "ab")):
                        a = [f'to="{e}"'] + extra
                        a.insert(pos, f"c={q}{v}{q}")
                        src = "a<tl " + sep.join(a) + ">x</tl>b"
                        if ">" in v or "<" in v:
                            continue
                        cid = f"o{k}"
                        k += 1
                        cases.append(G.dcase(cid, "<", ">", src, G.Cfg()))
                        meta[cid] = {"stream": "opacity", "clean": exp if exp is not None else src}
    # ... and the value of `name` is taken as it stands: white space inside the quotes belongs to the name
    cfgp = G.Cfg("tl", "rm", "+00:00", G.NOW, ("x", " y "))
    for v, ready in (("x", True), (" x", False), ("x ", False), (" x ", False), ("\nx\n", False), ("\tx", False), ("x\u00a0", False),
                     ("\u3000x", False), (" y ", True), ("y", False), (" y", False), ("y ", False), ("  y  ", False), ("X", False)):
        for q in "\"'":
            for sep in TAG_SEPS[:4]:
                for extra in ([], ["c='k'"]):
                    a = [f"name={q}{v}{q}"] + extra
                    src = "a<rm" + sep + sep.join(a) + ">x</rm>b"
                    cid = f"o{k}"
                    k += 1
                    cases.append(G.dcase(cid, "<", ">", src, cfgp))
                    meta[cid] = {"stream": "opacity", "clean": "ab" if ready else src}
    docs = doc_cases(rng, 300 if tier == "quick" else 3000, "d", p_mut=0.5, safe=False)
    return merge(corpus_cases(), (cases, meta), docs)


def gen_c10(rng, tier):
    cases, meta = [], {}
    atoms = ["<a>", "<b>", "</a>", "</b>", "</z>", "t", "<//a>", "<a k='v'>", "<a\r\n>", "</a\r\n>", "<a\r\n k='v'>", "<b\r>", "</b\r>",
             "<A>", "</A>", "</B>", "</a k='v'>", "<>", "< >", "</ a>", "</\na>", "</ b>", "< / a>", "</>", "</ >"]
    L = 5 if tier == "quick" else 7
    import itertools
    k = 0
    for n in range(0, L + 1):
        for t in itertools.product(atoms[:6], repeat=n):
            cases.append(G.dcase(f"s{k}", "<", ">", "".join(t), G.Cfg(tl="a", rm="b")))
            meta[f"s{k}"] = {"stream": "exhaustive"}
            k += 1
    for i in range(2000 if tier == "quick" else 30000):
        n = rng.randint(6, 24)
        s = "".join(rng.choice(atoms) for _ in range(n))
        cases.append(G.dcase(f"r{i}", "<", ">", s, G.Cfg(tl="a", rm="b")))
        meta[f"r{i}"] = {"stream": "random"}
    # long sequences: many inert tags (never closed openers, stray closers) or deep genuine nesting in
    # front of / around well-formed elements (a bound on the number of pending tags would show here)
    for i in range(120 if tier == "quick" else 1500):
        n = rng.choice([40, 63, 64, 65, 100, 130, 200, 257, 300])
        kind = rng.randrange(4)
        if kind == 0:
            pre = "".join(rng.choice(["<b>", "<c>", "<b k='1'>"]) for _ in range(n))
        elif kind == 1:
            pre = "".join(rng.choice(["</z>", "</b>", "<//q>"]) for _ in range(n))
        elif kind == 2:
            pre = "".join(rng.choice(["<b>", "</z>", "t", "<c>"]) for _ in range(n))
        else:
            pre = "<b>" * n          # closed again below: genuine nesting of depth n
        mid = rng.choice(["<a>x</a>", "<b><a>x</a></b>", "<a>x<a>y</a>z</a>", "t<a></z>x</a>t"])
        post = ("</b>" * n if kind == 3 else "") + rng.choice(["", "<a>w</a>", "</a>"])
        cases.append(G.dcase(f"L{i}", "<", ">", pre + mid + post, G.Cfg(tl="a", rm="b")))
        meta[f"L{i}"] = {"stream": "long"}
    docs = doc_cases(rng, 300 if tier == "quick" else 3000, "d", p_mut=0.6, safe=False)
    return merge(corpus_cases(), (cases, meta), docs)


def gen_c05(rng, tier):
    cases, meta = [], {}
    k = 0
    def add(to, off, now, want, why):
        nonlocal k
        cid = f"t{k}"
        k += 1
        cases.append(G.tcase(cid, to, off, now))
        meta[cid] = {"want": want, "why": why, "stream": "time"}
    offsets = list(range(-12 * 60, 14 * 60 + 1, 15))
    bases = [G.NOW, 951782400 + 43200, 951782400 + 86400, 978307200, 1078012800, 4107542400 - 1, 0, 86400 * 365, 1709164800, 1709251200]
    # 2000-02-29, 2000-12-31/2001-01-01, 2004-02-29, 2100-02-28/03-01, epoch, 2024-02-29
    for base in (bases if tier == "thorough" else bases[:6]):
        for om in (offsets if tier == "thorough" else offsets[::3] + [offsets[-1]]):
            for colon in (True, False):
                for delta in (-2, -1, 0, 1, 2):
                    expires = base + delta            # instant at which the element expires
                    to = G.render_to(expires + om * 60)  # wall-clock reading at the offset
                    add(to, G.offset_str(om, colon), base, base >= expires, f"boundary delta={delta} offset={om}")
    # malformed classes: never ready, whatever now is
    bad_to = [None, True, "", "2000/01/01 00:00:00", "2000.01.01 00:00:00", "2000-01-01T00:00:00", "2000-01-01", "2000-01-01 00:00",
              "2000-00-01 00:00:00", "2000-13-01 00:00:00", "2000-01-00 00:00:00", "2000-01-32 00:00:00", "2001-02-29 00:00:00",
              "2100-02-29 00:00:00", "2000-04-31 00:00:00", "2000-01-01 24:00:00", "2000-01-01 00:60:00", "2000-01-01 00:00:61",
              "2000-01-01 00:00:00Z", "2000-01-01 00:00:00 UTC", "2000-01-01 00:00:00 +00:00", "2000-01-01 00:00:00+0900", "abc", "2000-1", "20000101000000",
              "2000-01-01 00:00:00.5", "2000-01-01 00:00:00.000", "2000-01-01 00:00:00,5", "2000-01-01 00:00:00.", "2000-01-01 00:00:00.123456789",
              "2000-01-01 00:00:00 AM", "2000-01-01 00:00:00 .5", "2000-01-01 00:00:00:00", "2000-01-01 00:00:00-", "2000-01-01 00:00:00 0"]
    for to in bad_to:
        for off in ("+00:00", "+0900"):
            for now in (G.NOW, 4102444800 * 2):
                add(to, off, now, False, f"malformed to {to!r}")
    for off in ("", "UTC", "+9", "0900", "+24:00", "-24:00", "+2400", "-2400", "+99:59", "+09:60", "Z", "+0a:00", "09:00", "+", "+09", "+09:0",
                "+09:00:00", "+0900 JST", "+00:00Z", "-05:00h", "+09:00 ", "+00:00\n", "+0000+0000"):
        for now in (G.NOW, 4102444800 * 2):
            add("2000-01-01 00:00:00", off, now, False, f"malformed offset {off!r}")
    # the offset spelled with U+2212 MINUS SIGN, or with white space in front of the sign, is read like the plain one
    for om, spell in ((-540, "\u221209:00"), (-540, "\u22120900"), (540, " +09:00"), (-330, "\t-0530"), (0, " +00:00"), (-1, "\u221200:01")):
        for base in (G.NOW, 1709251200):
            to = G.render_to(base + om * 60)
            for dn in (-1, 0, 1):
                add(to, spell, base + dn, dn >= 0, f"offset spelled {spell!r}")
    # a seconds field of 60 (accepted as leap-second notation in any minute) denotes the second after :59: the element
    # is ready from that second on and not at :59 itself
    for base59 in (946684799, 1483228799, 1710041459, 951827759):     # 1999-12-31 23:59:59, 2016-12-31 23:59:59, ...
        for om in (0, 540, -330, 765):
            to = G.render_to(base59 + om * 60)[:-2] + "60"
            for colon in (True, False):
                for dn in (-1, 0, 1, 2):
                    add(to, G.offset_str(om, colon), base59 + dn, dn >= 1, "seconds field 60 is the second after :59")
    # lenient forms chrono accepts: no expectation from the oracle, the model must agree with the code
    lenient = ["2000-1-1 0:0:0", " 2000-01-01 00:00:00", "2000-01-01  00:00:00", "2000-01-01\t00:00:00", "2000-01-01 00:00:00 ",
               "+2000-01-01 00:00:00", "-0001-01-01 00:00:00", "+12000-01-01 00:00:00", "2000- 01-01 00:00:00", "2000-01-01 00:00:60",
               "2000-12-31 23:59:60", "0000-01-01 00:00:00", "9999-12-31 23:59:59", "+262142-12-31 23:59:59", "+262143-01-01 00:00:00",
               "-262143-01-01 00:00:00", "-262144-01-01 00:00:00", "2000-01-01 00:00:00", "2000-01-01　00:00:00", "99999999999999999999-01-01 00:00:00",
               "2000-01-01 00:00:00 \n", "2000-001-01 00:00:00", "02000-01-01 00:00:00", "200-01-01 00:00:00", "20-01-01 00:00:00"]
    # every whitespace character chrono's scanner skips (White_Space: TAB LF VT FF CR, U+0085, U+00A0, U+1680,
    # U+2000..U+200A, U+2028, U+2029, U+202F, U+205F, U+3000) at the places where it is skipped
    for wsc in ["\t", "\n", "\x0b", "\x0c", "\r", "\u0085", "\u00a0", "\u1680", "\u2000", "\u2005", "\u200a", "\u200b", "\u2028",
                "\u2029", "\u202f", "\u205f", "\u3000", "\u2060", "\ufeff", "\x1f", "\x08", "\x0e",
                # neighbours of the whitespace code points (not whitespace)
                "\u0080", "\u0084", "\u0086", "\u009f", "\u00a1", "\u167f", "\u1681", "\u1fff", "\u2027", "\u202a", "\u202e",
                "\u2030", "\u205e", "\u2fff", "\u3001"]:
        lenient.extend([wsc + "2000-01-01 00:00:00", "2000-01-01" + wsc + "00:00:00", "2000-01-01 00:00:00" + wsc,
                        "2000-01-01 " + wsc + "00:00:00"])
    # calendar: the last days of every month in years of every leap class; signs and letters in fields
    cal = []
    for y in ("1900", "2000", "2001", "2004", "2100", "2400", "0004", "0100", "0400", "-0004", "-0100"):
        for mth in range(0, 14):
            for d in (0, 1, 28, 29, 30, 31, 32):
                cal.append(f"{y}-{mth:02d}-{d:02d} 00:00:00")
    cal += ["2000-+1-01 00:00:00", "2000--1-01 00:00:00", "2000-01-+1 00:00:00", "2000-01--1 00:00:00", "2000-01-01 +1:00:00",
            "2000-01-01 -1:00:00", "2000-01-01 00:+1:00", "2000-01-01 00:-1:00", "2000-01-01 00:00:+1", "2000-01-01 00:00:-1",
            "2000-01-01 23:59:59", "2000-01-01 24:00:00", "2000-01-01 23:60:00", "2000-01-01 00:59:60", "2000-01-01 00:00:59"]
    for to in cal:
        for off in ("+00:00", "-1200"):
            cid = f"c{k}"
            k += 1
            cases.append(G.tcase(cid, to, off, 8000000000000))     # far in the future: ready exactly when `to` parses
            meta[cid] = {"stream": "lenient"}
    for off in ("+a0:00", "+0a:00", "+ 9:00", "+9 :00", "+09:a0", "+09:0a", "+-9:00", "+09:-1", "-00:00", "+00:59", "+00:60", "+23:60", "+2360"):
        for now in (G.NOW, 946684800, 946684799, 946688400, 946681200):
            cid = f"o{k}"
            k += 1
            cases.append(G.tcase(cid, "2000-01-01 00:00:00", off, now))
            meta[cid] = {"stream": "lenient"}
    for to in lenient:
        for off in ("+00:00", "-0530", "+23:59", "-23:59", " +09:00", "+09 00", "+09::00", "+09: 00", "−09:00", "+0900 "):
            for now in (G.NOW, 946684800, 946684799, 946684801, 978307200, 978307199):
                cid = f"l{k}"
                k += 1
                cases.append(G.tcase(cid, to, off, now))
                meta[cid] = {"stream": "lenient"}
    # the ends of chrono's year range, with current instants on both sides of them
    for to, base in (("+262142-12-31 23:59:59", 8210266876799), ("-262143-01-01 00:00:00", -8334601228800),
                     ("+262142-12-31 00:00:00", 8210266790400), ("+262143-01-01 00:00:00", 8210266876800)):
        for off in ("+00:00", "-0001", "+0001", "+23:59", "-23:59"):
            for dn in (-86400 * 2, -1, 0, 1, 86400 * 2):
                if not (-8334601228800 <= base + dn <= 8210266876799):
                    continue      # not representable as a chrono DateTime<Utc>: no such current instant exists
                cid = f"y{k}"
                k += 1
                cases.append(G.tcase(cid, to, off, base + dn))
                meta[cid] = {"stream": "lenient"}
    # random valid grid
    for i in range(1500 if tier == "quick" else 30000):
        expires = rng.choice(bases) + rng.randint(-3 * 86400, 3 * 86400)
        om = rng.choice(offsets)
        now = expires + rng.choice([-86400, -3600, -1, 0, 1, 3600, 86400, rng.randint(-10**6, 10**6)])
        add(G.render_to(expires + om * 60), G.offset_str(om, rng.random() < 0.5), now, now >= expires, "random grid")
    # one-element probe documents through clean
    for i, (to, want) in enumerate([("2001-09-09 01:46:40", True), ("2001-09-09 01:46:41", False), ("2001-09-09 01:46:39", True)]):
        src = f'a<tl to="{to}">x</tl>b'
        cid = f"p{i}"
        cases.append(G.dcase(cid, "<", ">", src, G.Cfg(offset="+00:00", now=G.NOW)))
        meta[cid] = {"stream": "probe", "expect": "ab" if want else src, "why": "probe"}
    # white space between `=` and the opening quote: a blank is skipped, a line break starts an (unquoted, discarded)
    # value, so `to` has no value and the element is never ready
    for j, (sp, ready) in enumerate([("\n", False), ("\n  ", False), (" ", True), ("  ", True), (" \n", False), ("\t", False)]):
        src = f'a<tl to={sp}"2001-09-09 01:46:39">x</tl>b'
        cid = f"pq{j}"
        cases.append(G.dcase(cid, "<", ">", src, G.Cfg(offset="+00:00", now=G.NOW)))
        meta[cid] = {"stream": "probe", "expect": "ab" if ready else src, "why": f"white space {sp!r} between = and the quote"}
    # two attributes named `to`: the first one decides, also when it has no value
    for j, (attrs, ready) in enumerate([('to to="2001-09-09 01:46:39"', False), ('to=2099-12-31 to="2001-09-09 01:46:39"', False),
                                        ('to="2100-01-01 00:00:00" to="2001-09-09 01:46:39"', False),
                                        ('to="2001-09-09 01:46:39" to="2100-01-01 00:00:00"', True), ('to="2001-09-09 01:46:39" to', True),
                                        ('to\n to=\'2001-09-09 01:46:39\'', False), ('To="2001-09-09 01:46:39"', False),
                                        ('c="to" to="2001-09-09 01:46:39"', True)]):
        src = f'a<tl {attrs}>x</tl>b'
        cid = f"dup{j}"
        cases.append(G.dcase(cid, "<", ">", src, G.Cfg(offset="+00:00", now=G.NOW)))
        meta[cid] = {"stream": "probe", "expect": "ab" if ready else src, "why": "duplicate to attributes: the first decides"}
    # current instants with a sub-second fraction, through the whole library path (clean): the element
    # is ready exactly when the instant, fraction included, is at or after `to`
    j = 0
    for base in bases[:4]:
        for om in (0, 540, -330):
            to = G.render_to(base + om * 60)
            for secs, frac, ready in ((base - 1, "400000000", False), (base - 1, "500000000", False), (base - 1, "600000000", False),
                                      (base - 1, "999999999", False), (base, "000000001", True), (base, "500000000", True), (base - 2, "999999999", False)):
                src = f'a<tl to="{to}">x</tl>b'
                cid = f"q{j}"
                j += 1
                cfg = G.Cfg(offset=G.offset_str(om, j % 2 == 0), now=f"{secs}.{frac}")
                cases.append(G.dcase(cid, "<", ">", src, cfg))
                meta[cid] = {"stream": "probe-subsecond", "expect": "ab" if ready else src, "why": f"now = {secs}.{frac}, to = {base}"}
    return merge((cases, meta))


def oracle_c05(line, m, impl, model):
    if line.startswith("R "):
        return oracle_current(line, m, impl, model)
    if line.startswith("K "):
        return oracle_c20(line, m, impl, model)
    if line.startswith("T "):
        return oracle_time(line, m, impl, model)
    return oracle_doc_expected(line, m, impl, model)


def gen_c06(rng, tier):
    cases, meta = [], {}
    pool = ["x", "X", "xx", "x ", " x", "", "feature", "feature1", "Feature1", "feat", "vec![]", "<!-- <", "> -->", "time-limited",
            "removal-marker", "+00:00", "é", "あ"]
    k = 0
    for name in [None, True] + pool:
        for _ in range(6 if tier == "quick" else 40):
            ts = rng.sample(pool, rng.randint(0, 4))
            cid = f"m{k}"
            k += 1
            cases.append(G.mcase(cid, name, ts))
            want = isinstance(name, str) and name in ts
            meta[cid] = {"want": want, "why": f"name={name!r} targets={ts!r}", "stream": "marker"}
    # documents: skip anywhere, attribute orders, unregistered names
    import itertools
    e = G.EXPIRED
    for tl, rm in G.TAGNAMES:
        for targets in [(), ("x",), ("x", "y")]:
            cfg = G.Cfg(tl, rm, "+00:00", G.NOW, targets)
            elems = [
                (rm, ['name="x"'], "x" in targets),
                (rm, ['name="X"'], False),
                (rm, ['name="xx"'], False),
                (rm, ['name=""'], False),
                (rm, ["name"], False),
                (rm, [], False),
                (rm, ['name="x"', "skip"], False),
                (rm, ['c="skip"', 'name="x"'], "x" in targets),
                (rm, ['name="x"', "skip=''"], False),
                (rm, ['skip="until v2"', 'name="x"'], False),
                (rm, ['name="x"', "skip = 'x'"], False),
                (rm, ['name="x"', "skip=1"], False),
                (rm, ['name="y"', 'name="x"'], "y" in targets),
                (tl, [e], True),
                (tl, [e, "skip"], False),
                (tl, ["skip", e], False),
                (tl, [e, 'c="x"', "skip"], False),
                (tl, [e, 'c="skip"'], True),
                (tl, ["skip='true'", e], False),
                (tl, [e, 'c="C:\\docs\\"', "skip"], False),
                (tl, [e, "c='x\\'", "skip"], False),
                (tl, ['c="期限切れ"', e], True),
                (tl, ["c='🧹'", e, "skip"], False),
                (tl, [e, 'skip=""'], False),
                (tl, [e, "c='a skip b'"], True),
                (tl, [e, "skipx"], True),
                ("other", [e, 'name="x"'], False),
                (tl.upper() if tl.upper() != tl else tl + "x", [e], False),
            ]
            for name, attrs, ready in elems:
                for perm in (itertools.permutations(attrs) if len(attrs) <= 3 else [attrs]):
                    src = "a<" + name + "".join(" " + a for a in perm) + ">x</" + name + ">b"
                    # the first attribute named `name` decides
                    if name == rm and list(perm)[:1] == ['name="x"'] and 'name="y"' in perm:
                        rdy = "x" in targets
                    elif name == rm and 'name="y"' in perm and 'name="x"' in perm:
                        rdy = "y" in targets
                    else:
                        rdy = ready
                    if tl == rm and name == tl:
                        continue
                    cid = f"e{k}"
                    k += 1
                    cases.append(G.dcase(cid, "<", ">", src, cfg))
                    meta[cid] = {"stream": "probe", "expect": "ab" if rdy else src, "why": f"{name} {perm} targets={targets}"}
    # both tag names identical: the removal-marker rule decides (an expired `to` alone does not make it ready)
    for targets in [(), ("x",)]:
        cfg = G.Cfg("t", "t", "+00:00", G.NOW, targets)
        for attrs, rdy in (([e], False), (['name="x"'], "x" in targets), ([e, 'name="x"'], "x" in targets), (['name="y"', e], False), ([e, "skip", 'name="x"'], False)):
            src = "a<t" + "".join(" " + a for a in attrs) + ">x</t>b"
            cid = f"s{k}"
            k += 1
            cases.append(G.dcase(cid, "<", ">", src, cfg))
            meta[cid] = {"stream": "probe", "expect": "ab" if rdy else src, "why": f"identical tag names, {attrs} targets={targets}"}
    # configured tag names are taken as they stand: a name with white space at its ends matches no element
    for tlc, rmc in ((" tl", "rm "), ("tl ", " rm"), ("tl\n", "\trm"), ("t l", "r m"), ("TL", "RM")):
        src = 'a<tl ' + G.EXPIRED + '>x</tl>b<rm name="x">y</rm>c'
        cid = f"s{k}"
        k += 1
        cases.append(G.dcase(cid, "<", ">", src, G.Cfg(tlc, rmc, "+00:00", G.NOW, ("x",))))
        meta[cid] = {"stream": "probe", "expect": src, "why": f"configured tag names {tlc!r} / {rmc!r}"}
    # `skip` / `unwrap-block` in another letter case are unknown attributes
    cfg0 = G.Cfg("tl", "rm", "+00:00", G.NOW, ("x",))
    for attrs, exp_inner in ((["SKIP"], None), (["Skip"], None), (["sKIP=''"], None), (["skip"], "KEEP"), (["Unwrap-Block"], None), (["UNWRAP-BLOCK"], None)):
        for tagtxt in ("tl " + G.EXPIRED, 'rm name="x"'):
            nm = tagtxt.split(" ")[0]
            src = f"a\n<{tagtxt} " + " ".join(attrs) + f">\n{{\n  y\n}}\n</{nm}>\nb\n"
            cid = f"s{k}"
            k += 1
            cases.append(G.dcase(cid, "<", ">", src, cfg0))
            meta[cid] = {"stream": "probe", "expect": src if exp_inner == "KEEP" else "a\nb\n", "why": f"attribute spelling {attrs}"}
    # several attributes called `name`: the first one decides, with or without a value
    cfg1 = G.Cfg("tl", "rm", "+00:00", G.NOW, ("x",))
    for attrs, rdy in ((["name", 'name="x"'], False), (["name=x", 'name="x"'], False), (['name=""', 'name="x"'], False), (['name="y"', 'name="x"'], False),
                       (['name="x"', "name"], True), (['name="x"', 'name="y"'], True), (["c='1'", "name", "k", 'name="x"'], False),
                       (['name="x"', 'name="x"'], True), (["NAME", 'name="x"'], True), (["name", "name", 'name="x"'], False)):
        for sep in (" ", "\n"):
            src = "a<rm" + "".join(sep + a for a in attrs) + ">x</rm>b"
            cid = f"s{k}"
            k += 1
            cases.append(G.dcase(cid, "<", ">", src, cfg1))
            meta[cid] = {"stream": "probe", "expect": "ab" if rdy else src, "why": f"attributes {attrs}: the first `name` decides"}
    docs = doc_cases(rng, 500 if tier == "quick" else 5000, "d")
    # targets from a config file are the lines of the file (LF or CR LF), nothing else
    dsrc = 'a<!-- <removal-marker name=""> -->x<!-- </removal-marker> -->b<!-- <removal-marker name="x"> -->y<!-- </removal-marker> -->c'
    for j, (cf, exp) in enumerate([("x\n", 'a<!-- <removal-marker name=""> -->x<!-- </removal-marker> -->bc'), ("x\r\n", 'a<!-- <removal-marker name=""> -->x<!-- </removal-marker> -->bc'),
                                   ("x", 'a<!-- <removal-marker name=""> -->x<!-- </removal-marker> -->bc'), ("", dsrc), ("\n", 'ab<!-- <removal-marker name="x"> -->y<!-- </removal-marker> -->c'),
                                   ("y\r\nx\r\n", 'a<!-- <removal-marker name=""> -->x<!-- </removal-marker> -->bc')]):
        cases.append(kcase(f"kf{j}", "C", False, "S", "O", None, None, None, None, 0, G.NOW, None, [], cf, dsrc))
        meta[f"kf{j}"] = {"stream": "cli-config-file", "expect_stdout": exp}
    # ... white space at the ends of a line included: a target is the whole line
    def mk3(n):
        return f'<!-- <removal-marker name="{n}"> -->{len(n)}<!-- </removal-marker> -->'
    names3 = ["x ", "x", " x", "x\t"]
    dsrc3 = "a" + "".join(mk3(n) + "." for n in names3) + "z"
    for j, cf in enumerate(["x \n", " x\n", "x\t\n", "x  \n", "x \r\n", "x\n x", "\u00a0x\n", " \n"]):
        tg = set(cf.replace("\r\n", "\n").split("\n")[:-1] if cf.endswith("\n") else cf.replace("\r\n", "\n").split("\n"))
        exp = "a" + "".join(("" if n in tg else mk3(n)) + "." for n in names3) + "z"
        cases.append(kcase(f"kw{j}", "C", False, "S", "O", None, None, None, None, 0, G.NOW, None, [], cf, dsrc3))
        meta[f"kw{j}"] = {"stream": "cli-config-file", "expect_stdout": exp}
    # the command line given no target option: no removal-marker is removed, whatever its name
    for j, name in enumerate(["vec![]", "<!-- <", "> -->", "time-limited", "removal-marker", "+00:00", "", "x"]):
        src = f'a<!-- <removal-marker name="{name}"> -->x<!-- </removal-marker> -->b'
        cases.append(kcase(f"kd{j}", "C", False, "S", "O", None, None, None, None, 0, G.NOW, None, [], None, src))
        meta[f"kd{j}"] = {"stream": "cli-defaults", "expect_stdout": src}
        if "<" not in name and ">" not in name:
            cases.append(kcase(f"ke{j}", "C", False, "S", "O", None, None, None, None, 0, G.NOW, None, [name], None, src))
            meta[f"ke{j}"] = {"stream": "cli-defaults", "expect_stdout": "ab"}
    return merge(corpus_cases(), (cases, meta), docs, nameless_marker_cases())


def oracle_c06(line, m, impl, model):
    if line.startswith("K "):
        return oracle_c20(line, m, impl, model)
    if line.startswith("M "):
        return oracle_marker(line, m, impl, model)
    r = oracle_doc_expected(line, m, impl, model)
    if r:
        return r
    return oracle_c03(line, m, impl, model) or oracle_c02(line, m, impl, model)


def expired_spelling(rng, cfg):
    """an expired `to` attribute in one of the spellings the date parser reads as the same instant (white space
    behind the seconds or in front of the year inside the quotes, either quote, the current instant itself)"""
    if rng.random() < 0.75:
        return G.EXPIRED
    v = rng.choice(["2000-01-01 00:00:00", "1999-12-31 23:59:59", G.render_to(cfg.now + G.offset_minutes(cfg.offset) * 60)
                    if isinstance(cfg.now, int) else "2000-01-01 00:00:00"])
    v = rng.choice([v + " ", v + "\t", " " + v, v + "  ", v, " " + v + " "])
    q = rng.choice(['"', "'"])
    return "to=" + q + v + q


def block_doc(rng, ds, de, cfg, unit, first_line=False):
    """block documents with known expected output: every tag alone on its line, default strategy,
    blank-line counts a (after) and b (before) chosen per block"""
    lines, expect = [], []
    def code(ind):
        w = rng.choice(["foo", "bar()", "あ", "x = 1;", "é", "foo", "bar()", "\x0c", "\x0b", "\u00a0", "\u3000", "\u2028"])
        return ind + w
    n_blocks = rng.randint(1, 3)
    ind = rng.choice(["", unit])
    if not first_line:
        l = code(ind)
        lines.append(l); expect.append(l)
    for bi in range(n_blocks):
        b = rng.randint(0, 3) if (bi > 0 or not first_line) else 0
        a = rng.randint(0, 3)
        blanks_b = [rng.choice(["", "", unit, " "]) for _ in range(b)]
        blanks_a = [rng.choice(["", "", unit, " "]) for _ in range(a)]
        lines.extend(blanks_b)
        tind = rng.choice([ind, ind + unit])
        kind = rng.choice(["ready_tl", "ready_rm"]) if cfg.targets else "ready_tl"
        name = cfg.tl if kind == "ready_tl" else cfg.rm
        at = expired_spelling(rng, cfg) if kind == "ready_tl" else f'name="{cfg.targets[0]}"'
        lines.append(tind + ds + name + " " + at + de)
        for _ in range(rng.randint(0, 3)):
            lines.append(rng.choice([code(tind + unit), "", tind]))
        lines.append(tind + ds + "/" + name + de)
        lines.extend(blanks_a)
        keep = a + b - (1 if a > 0 and b > 0 else 0)
        # which blank lines survive is not specified, only their number: expect is checked by count
        expect.append(("blank", keep, blanks_b + blanks_a))
        l = code(ind)
        lines.append(l); expect.append(l)
    return lines, expect


def gen_c13(rng, tier):
    cases, meta = [], {}
    n = 2500 if tier == "quick" else 30000
    for i in range(n):
        ds, de = rng.choice(G.DELIMS)
        cfg = G.Cfg("tl", "rm", "+00:00", G.NOW, ("x",))
        unit = rng.choice(["  ", "    ", "\t", " \t", "\t ", "\t \t"])
        first = rng.random() < 0.15
        lines, expect = block_doc(rng, ds, de, cfg, unit, first)
        if not first and rng.random() < 0.4:
            # nest everything in a pending parent - or in a closed element of a tag name that is not configured -
            # whose tag lines survive as ordinary non-blank lines
            pn, pa = rng.choice([("tl", " " + G.FUTURE), ("tl", " " + G.FUTURE), ("region", ' name="hero"'), ("section", ""), ("rm", ' name="other"')])
            o = rng.choice(["", unit]) + ds + pn + pa + de
            c = rng.choice(["", unit]) + ds + "/" + pn + de
            lines = [o] + lines + [c]
            expect = [o] + expect + [c]
        final_nl = rng.random() < 0.5
        src = "\n".join(lines) + ("\n" if final_nl else "")
        cid = f"b{i}"
        cases.append(G.dcase(cid, ds, de, src, cfg))
        meta[cid] = {"stream": "block", "expect_lines": [e if isinstance(e, str) else list(e) for e in expect], "final_nl": final_nl,
                     "first_line": first}
    # seam formatter cases at arbitrary positions
    k = 0
    atoms = [" ", "\t", "\n", "a", "あ"]
    import itertools
    L = 6 if tier == "quick" else 7
    for nlen in range(0, L + 1):
        for t in itertools.product(atoms, repeat=nlen):
            s = "".join(t)
            if tier == "quick" and nlen == L and rng.random() < 0.8:
                continue
            blen = len(s.encode())
            for pos in range(0, blen + 1):
                try:
                    s.encode()[:pos].decode()
                except UnicodeDecodeError:
                    continue
                if rng.random() < (0.25 if nlen >= 5 else 1.0):
                    cases.append(G.fcase(f"f{k}", s, pos, min(blen, pos + rng.randint(0, 4))))
                    meta[f"f{k}"] = {"stream": "seam"}
                    k += 1
    docs = doc_cases(rng, 500 if tier == "quick" else 5000, "d", kinds=["ready_tl", "ready_rm", "pending_tl", "skip"], p_unwrap=0.0, p_mut=0.0)
    return merge(corpus_cases(), (cases, meta), docs)


def oracle_c13(line, m, impl, model):
    if line.startswith("F "):
        for st in ("seam4", "blk", "find"):
            if "PANIC" in impl.get(st, "") and st != "seam4":
                return f"{st} panicked"
        return None
    if not impl_ok(impl, ["clean"]):
        return "clean panicked"
    exp = m.get("expect_lines")
    if exp is None:
        return oracle_c03(line, m, impl, model) or oracle_c02(line, m, impl, model)
    out = unhex(impl["clean"]).decode("utf-8", "replace")
    out_lines = out.split("\n")
    if m["final_nl"]:
        if out_lines[-1] != "":
            return "final newline lost"
        out_lines = out_lines[:-1]
    # walk: surviving non-blank lines byte for byte, blank counts in between
    i = 0
    for e in exp:
        if isinstance(e, str):
            if i >= len(out_lines) or out_lines[i] != e:
                return f"expected line {e!r} at output line {i + 1}, got {out_lines[i] if i < len(out_lines) else None!r}"
            i += 1
        else:
            _, keep, blanks = e
            cnt = 0
            while i < len(out_lines) and out_lines[i].strip(" \t") == "":
                cnt += 1
                i += 1
            if cnt != keep:
                return f"{cnt} blank lines remain where {keep} are expected"
    if i != len(out_lines):
        return "unexpected extra output lines"
    return None


def unwrap_doc(rng, ds, de, cfg, unit, depth, tag_units, first_line, k_between=None, no_post=False):
    """unwrap documents with expected output.  Returns (lines, expected lines or None)"""
    base = unit * tag_units
    def build(level, ind, shift):
        # returns (lines, expected) for one unwrap element at indentation `ind`; `shift` = total left shift applied by enclosing blocks
        name = cfg.tl
        open_l = ind + ds + name + " " + G.EXPIRED + " unwrap-block" + de
        close_l = ind + ds + "/" + name + de
        lines = [open_l, ind + "if (x) {"]
        exp = []
        first_ind = None
        body = []
        nb = rng.randint(1, 3) if k_between is None else max(0, k_between - 2)
        for j in range(nb):
            if level < depth and j == 0:
                body.append(("nested", None))
            else:
                extra = rng.choice([unit, unit, unit + unit, "", unit + " "]) if j > 0 else rng.choice([unit, unit, unit + unit])
                if j > 0 and rng.random() < 0.15:
                    body.append(("line", rng.choice(["", ind[:max(0, len(ind) - 1)] + "y"]) if ind else ""))
                else:
                    body.append(("line", ind + extra + rng.choice(["foo();", "あ = 1", "x"])))
        return open_l, close_l, body
    # simple (depth 1) generator with exact expectation; deeper nesting handled by a second shape
    ind = base
    name = cfg.tl
    pre = [] if first_line else [rng.choice(["a", unit + "a", "あ", "", ""])]
    lines = list(pre)
    exp = list(pre)
    nb = rng.randint(0, 4) if k_between is None else k_between
    open_l = ind + ds + name + " " + G.EXPIRED + " unwrap-block" + de
    close_l = ind + ds + "/" + name + de
    lines.append(open_l)
    between = []
    if nb >= 1:
        # the opening wrapper line: a code line, sometimes a blank / whitespace-only line (C11's quantifier)
        between.append(rng.choice(["", ind, ind + " "]) if rng.random() < 0.12 else ind + rng.choice(["if (x) {", "{", "あ {"]))
    inner = []
    for j in range(max(0, nb - 2)):
        if j == 0:
            c0 = rng.random()
            if c0 < 0.7 or not ind:
                extra = rng.choice([unit, unit + unit, "", " "])
                inner.append(ind + extra + rng.choice(["foo();", "あ = 1", "x"]))
            elif c0 < 0.8:
                inner.append("")
            else:
                # first inner line indented less than the tag, with blanks / multi-byte text at the tag's column
                short = ind[:rng.randint(0, len(ind) - 1)]
                inner.append(short + rng.choice(["do it", "x\t= 1", "あ x", "a  b  c", "é é é"]))
        else:
            c = rng.random()
            if c < 0.6:
                inner.append(ind + rng.choice([unit, unit + unit, unit + " ", ""]) + rng.choice(["bar", "é", "y;"]))
            elif c < 0.75:
                inner.append("")
            elif c < 0.9:
                shorter = ind[:rng.randint(0, len(ind))] if ind else ""
                # less indented than the tag, possibly with blanks at the tag's column inside the text
                inner.append(shorter + rng.choice(["z", "// keep this note", "x       = 2", "a\tb\tc", "é  é  é", "k v",
                                                   "\u3000全角で字下げ", "\u00a0// nbsp", "\u2003em", "\x0cff", "\x0bvt"]))
            else:
                inner.append(ind + unit + "\t" + "w")
    between.extend(inner)
    if nb >= 2:
        between.append(rng.choice(["", ind]) if rng.random() < 0.12 else ind + "}")
    lines.extend(between)
    lines.append(close_l)
    post = [] if no_post else [rng.choice(["b", unit + "b"])]      # no_post: the closing tag is the last line of the file
    lines.extend(post)
    if nb < 2:
        exp = list(lines)
    else:
        def lead(l):
            return len(l) - len(l.lstrip(" \t"))
        ofs = len(ind)
        amount = max(0, lead(inner[0]) - ofs) if inner else 0
        for l in inner:
            i = lead(l)
            if l.strip(" \t") == "":
                # blank inner lines: only blanks may be consumed; expectation by formula on blanks too
                cut = min(amount, max(0, i - ofs))
                exp.append(l[:min(ofs, i)] + l[min(ofs, i) + cut:])
            else:
                cut = min(amount, max(0, i - ofs))
                exp.append(l[:min(ofs, i)] + l[min(ofs, i) + cut:])
        exp.extend(post)
    return lines, exp


def nested_unwrap_doc(rng, ds, de, unit, depth):
    """nested unwrap-blocks (code lines between all seams, so no blank-line interplay); returns
    (lines, expected lines): a surviving line with ib leading blanks loses the union over the enclosing
    blocks B of [min(ofs_B, ib), min(ofs_B + len_B, ib))"""
    lines = []          # (text, kind, blocks) kind: 'keep' | 'drop'
    def lead(l):
        return len(l) - len(l.lstrip(" \t"))
    def build(level, ind, blocks):
        name = "tl"
        blk = {"ofs": len(ind), "len": None}
        lines.append((ind + ds + name + " " + G.EXPIRED + " unwrap-block" + de, "drop", list(blocks)))
        lines.append((ind + "if (x) {", "drop", list(blocks)))
        inner = blocks + [blk]
        first = ind + rng.choice([unit, unit, unit + unit, " ", ""]) + rng.choice(["foo();", "あ = 1"])
        blk["len"] = max(0, lead(first) - len(ind))
        lines.append((first, "keep", list(inner)))
        for _ in range(rng.randint(0, 2)):
            lines.append((ind + rng.choice([unit, unit + unit, unit + " ", "", "\t"]) + rng.choice(["bar", "y;", "é"]), "keep", list(inner)))
        if level < depth:
            build(level + 1, ind + rng.choice([unit, unit, unit + unit, ""]), inner)
            lines.append((ind + rng.choice([unit, unit + unit]) + "after();", "keep", list(inner)))
        lines.append((ind + "}", "drop", list(blocks)))
        lines.append((ind + ds + "/" + name + de, "drop", list(blocks)))
    lines.append((rng.choice(["a", unit + "a", ""]), "keep", []))
    build(1, unit * rng.randint(0, 2), [])
    lines.append((rng.choice(["b", unit + "b"]), "keep", []))
    src = [t for t, _, _ in lines]
    exp = []
    for t, kind, blocks in lines:
        if kind == "drop":
            continue
        ib = lead(t)
        gone = set()
        for b in blocks:
            gone.update(range(min(b["ofs"], ib), min(b["ofs"] + b["len"], ib)))
        exp.append("".join(ch for i, ch in enumerate(t) if i not in gone))
    return src, exp


def gen_c11(rng, tier):
    cases, meta = [], {}
    n = 3000 if tier == "quick" else 40000
    for i in range(n):
        ds, de = rng.choice(G.DELIMS)
        cfg = G.Cfg("tl", "rm", "+00:00", G.NOW, ("x",))
        unit = rng.choice(["  ", "    ", "\t", " \t", "\t "])
        first = rng.random() < 0.12
        tu = rng.randint(0, 2)
        no_post = rng.random() < 0.12
        lines, exp = unwrap_doc(rng, ds, de, cfg, unit, 1, tu, first, k_between=rng.choice([0, 1, 2, 2, 3, 4, 5, 6]), no_post=no_post)
        fin = rng.random() < 0.5
        src = "\n".join(lines) + ("\n" if fin else "")
        ex = "\n".join(exp) + ("\n" if fin else "")
        if no_post and exp != lines:
            # the block ends the file: the line break in front of the closing wrapper line stays, whether or not the
            # file ended in one
            ex = "\n".join(exp) + "\n" if exp else ""
        cid = f"u{i}"
        cases.append(G.dcase(cid, ds, de, src, cfg))
        kc = None   # (first-line blocks were known finding KF1 until the repairs F13/F14)
        meta[cid] = {"stream": "unwrap", "expect": ex, "known_class": kc, "why": "unwrap-block four-line removal and dedent"}
        if no_post:
            meta[cid]["ignore_trailing_ws"] = True
    for i in range(800 if tier == "quick" else 10000):
        ds, de = rng.choice(G.DELIMS)
        unit = rng.choice(["  ", "    ", "\t"])
        src_l, exp_l = nested_unwrap_doc(rng, ds, de, unit, rng.randint(1, 3))
        if rng.random() < 0.4:
            # an element removed earlier in the file (the pair indices of the nested blocks are counted behind it)
            src_l = ["head", ds + "tl " + G.EXPIRED + de, "old", ds + "/tl" + de] + src_l
            exp_l = ["head"] + exp_l
        fin = rng.random() < 0.5
        cid = f"n{i}"
        cases.append(G.dcase(cid, ds, de, "\n".join(src_l) + ("\n" if fin else ""), G.Cfg("tl", "rm", "+00:00", G.NOW, ("x",))))
        meta[cid] = {"stream": "nested-unwrap", "expect": "\n".join(exp_l) + ("\n" if fin else ""), "why": "nested unwrap-blocks: four lines per block removed, body dedented by every enclosing block"}
    docs = doc_cases(rng, 800 if tier == "quick" else 8000, "d", p_unwrap=0.6, p_mut=0.0)
    return merge(corpus_cases(), (cases, meta), docs, degenerate_unwrap_cases(rng, "quick", "g"))


def oracle_c11(line, m, impl, model):
    r = oracle_doc_expected(line, m, impl, model)
    if r:
        return r
    if m.get("expect") is None:
        return oracle_c03(line, m, impl, model) or oracle_c02(line, m, impl, model)
    return None


def occurrences(s, p):
    n, i = 0, s.find(p)
    while i >= 0:
        n += 1
        i = s.find(p, i + 1)
    return n


C18_TAGNAMES = G.TAGNAMES + [("time-limited", "limited"), ("marker", "removal-marker"), ("x-期限", "期限"), ("tl", "tl2"),
                             ("ab", "a"), ("a", "a-b"), ("t", "tt"), ("Übergang", "ÉTIQUETTE"), ("ΤΕΛΟΣ", "Ärmel"), ("TL", "Rm"),
                             ("ǅ", "İ"), ("MARKER", "marker"), ("tl", "TL"), ("Rm", "rm"), ("x-Y", "X-y"),
                             ("to", "name"), ("skip", "unwrap-block"), ("name", "c"), ("mark'er", 'lim"ited'), ("t'", 'r"')]
# tag names spelled like attribute names necessarily occur elsewhere in the document (as attributes)
C18_ATTR_NAMED = {("to", "name"), ("skip", "unwrap-block"), ("name", "c")}


def render_abs(s_abs, ds, de, tl, rm):
    return s_abs.replace("\x01", ds).replace("\x02", de).replace("\x03", tl).replace("\x04", rm)


def gen_c18(rng, tier):
    """metamorphic pairs: one abstract document (placeholder delimiters U+0001/U+0002 and tag names
    U+0003/U+0004, themselves a legal spelling) and its rendering in a spelling from the pool"""
    cases, meta = [], {}
    n = 900 if tier == "quick" else 12000
    i = 0
    tries = 0
    while i < n and tries < 20 * n:
        tries += 1
        cfg0 = G.Cfg("\x03", "\x04", "+00:00", G.NOW, ("x",))
        dg = G.DocGen(rng, "\x01", "\x02", cfg0, safe_text=False, unit=rng.choice(["  ", "\t"]))
        dg.multiline_open = 0.15
        s_abs = dg.document(G.ALL_KINDS, 0.3)
        ds, de = rng.choice(G.DELIMS)
        tl, rm = rng.choice(C18_TAGNAMES)
        s = render_abs(s_abs, ds, de, tl, rm)
        n1, n2 = s_abs.count("\x01"), s_abs.count("\x02")
        # delimiter strings occur only as parts of tags, tag names only as tag names
        if ds == de:
            if occurrences(s, ds) != n1 + n2:
                continue
        elif occurrences(s, ds) != n1 or occurrences(s, de) != n2:
            continue
        if any(x in s_abs for x in (tl, rm)) and (tl, rm) not in C18_ATTR_NAMED:
            continue
        cases.append(G.dcase(f"a{i}", "\x01", "\x02", s_abs, cfg0))
        cases.append(G.dcase(f"b{i}", ds, de, s, G.Cfg(tl, rm, "+00:00", G.NOW, ("x",))))
        meta[f"a{i}"] = {"stream": "meta", "pair": f"b{i}"}
        meta[f"b{i}"] = {"stream": "meta", "pair": f"a{i}", "second": True, "spelling": [ds, de, tl, rm]}
        i += 1
    # tag sequences with crossing, stray and never-closed tags of both names (the pairing depends on
    # the names only through equality: also for names one of which is a prefix / suffix of the other)
    e, f = G.EXPIRED, G.FUTURE
    atoms = ["\x01\x03 " + e + "\x02", "\x01\x03 " + f + "\x02", '\x01\x04 name="x"\x02', '\x01\x04 name="y"\x02',
             "\x01/\x03\x02", "\x01/\x04\x02", "code();", "\n", "\n", " "]
    for j in range(300 if tier == "quick" else 4000):
        k = rng.randint(3, 12)
        s_abs = "head\n" + "".join(rng.choice(atoms) + rng.choice(["", "\n", "\n  "]) for _ in range(k)) + "\ntail\n"
        ds, de = rng.choice([d for d in G.DELIMS if d[0] != d[1]][:8])
        tl, rm = rng.choice(C18_TAGNAMES)
        s = render_abs(s_abs, ds, de, tl, rm)
        if occurrences(s, ds) != s_abs.count("\x01") or occurrences(s, de) != s_abs.count("\x02"):
            continue
        cfg0 = G.Cfg("\x03", "\x04", "+00:00", G.NOW, ("x",))
        cases.append(G.dcase(f"sa{j}", "\x01", "\x02", s_abs, cfg0))
        cases.append(G.dcase(f"sb{j}", ds, de, s, G.Cfg(tl, rm, "+00:00", G.NOW, ("x",))))
        meta[f"sa{j}"] = {"stream": "meta", "pair": f"sb{j}"}
        meta[f"sb{j}"] = {"stream": "meta", "pair": f"sa{j}", "second": True, "spelling": [ds, de, tl, rm]}
    # known finding KF2: an end delimiter that begins with a blank, standing first on a line inside an
    # unwrapped body, loses that blank to the block dedent
    s_abs = ('a\n\x01\x03 ' + G.EXPIRED + ' unwrap-block\x02\nif {\n    x\n    \x01\x03 to="2100-01-01 00:00:00"\n\x02\n    y\n'
             '    \x01/\x03\x02\n}\n\x01/\x03\x02\nb\n')
    cases.append(G.dcase("kf2a", "\x01", "\x02", s_abs, G.Cfg("\x03", "\x04", "+00:00", G.NOW, ("x",))))
    cases.append(G.dcase("kf2b", "#{ ", " }#", render_abs(s_abs, "#{ ", " }#", "tl", "rm"), G.Cfg("tl", "rm", "+00:00", G.NOW, ("x",))))
    meta["kf2a"] = {"stream": "meta", "pair": "kf2b"}
    meta["kf2b"] = {"stream": "meta", "pair": "kf2a", "second": True, "spelling": ["#{ ", " }#", "tl", "rm"],
                    "known_class": "KF2 delimiter beginning with a blank: first on a line inside an unwrapped body it loses that blank to the block dedent"}
    # the same for a START delimiter that begins with a blank
    s_abs2 = ('a\n\x01\x03 ' + G.EXPIRED + ' unwrap-block\x02\n{\n    x\n  \x01\x03 to="2100-01-01 00:00:00"\x02\n    y\n'
              '  \x01/\x03\x02\n}\n\x01/\x03\x02\nb\n')
    cases.append(G.dcase("kf2c", "\x01", "\x02", s_abs2, G.Cfg("\x03", "\x04", "+00:00", G.NOW, ("x",))))
    cases.append(G.dcase("kf2d", " <", ">", render_abs(s_abs2, " <", ">", "tl", "rm"), G.Cfg("tl", "rm", "+00:00", G.NOW, ("x",))))
    meta["kf2c"] = {"stream": "meta", "pair": "kf2d"}
    meta["kf2d"] = {"stream": "meta", "pair": "kf2c", "second": True, "spelling": [" <", ">", "tl", "rm"],
                    "known_class": "KF2 delimiter beginning with a blank: first on a line inside an unwrapped body it loses that blank to the block dedent"}
    return merge(corpus_cases(), (cases, meta))


def gen_c19(rng, tier):
    cases, meta = [], {}
    n = 1200 if tier == "quick" else 15000
    times = [("2000-01-01 00:00:00", 946684800), ("2005-01-01 00:00:00", 1104537600), ("2010-01-01 00:00:00", 1262304000), ("2015-01-01 00:00:00", 1420070400)]
    # recorded witnesses (run first): an inline removal at the end of a line inside an unwrap-block
    wit = [("<<", ">>", '<<rm unwrap-block name="x">>\nif (}) {\n  a_b << tl to="2000-01-01 00:00:00">>あいう<< /tl >>\n}\n<</rm>>\n',
            [(946684801, []), (1420070401, ["x"])]),
           ("[", "]", '\t[tl unwrap-block to="2010-01-01 00:00:00"]\n\tif (r) {\n\t\treturn [tl to="2005-01-01 00:00:00"]}[/tl]\n\t}\n\t[/tl]\n\tfoo\n',
            [(946684800, []), (1104537600, []), (1262390400, ["x"])]),
           # two adjacent seams: an inline removal at the end of a line followed by a removed own-line element
           ("<", ">", '<tl to="2010-01-01 00:00:00" unwrap-block>\nif (x) {\n  foo(); <tl to="2005-01-01 00:00:00">x</tl>\n  <tl to="2005-01-01 00:00:00">y</tl>\n}\n</tl>\nz\n',
            [(1104537600, []), (1262390400, [])])]
    wit.append(("<", ">", '<tl to="2022-01-01 00:00:00"><tl to="2021-01-01 00:00:00">old</tl></tl>', [(1622505600, []), (1654041600, [])]))
    wit.append(("<", ">", '<tl to="2022-01-01 00:00:00"><rm name="x">old</rm></tl>', [(1622505600, ["x"]), (1654041600, ["x"])]))
    for j, (ds, de, s, chain) in enumerate(wit):
        cid = f"w{j}"
        cases.append(G.dcase(cid, ds, de, s, G.Cfg("tl", "rm", "+00:00", chain[-1][0], tuple(chain[-1][1]))))
        meta[cid] = {"stream": "history", "chain": chain, "ds": ds, "de": de}
    # deep nesting under an unwrap-block: unwrapping removes one level, so a bound on the nesting depth would make a
    # later run see an element the earlier one could not (depths around every power of two up to 130)
    for j, depth in enumerate([7, 8, 15, 16, 17, 31, 32, 33, 63, 64, 65, 130]):
        for ds, de in (("<", ">"), ("/* <", "> */")):
            def t(b):
                return ds + b + de
            lines = ["start();", t('tl to="2000-01-01 00:00:00" unwrap-block'), "if (released) {"]
            lines += [t('tl to="2999-01-01 00:00:00"')] * depth
            lines += [t('rm name="x"'), "legacy();", t("/rm"), t('tl to="2005-01-01 00:00:00"') + "old" + t("/tl") + " keep();"]
            lines += [t("/tl")] * depth
            lines += ["}", t("/tl"), "end();", ""]
            cid = f"deep{j}_{len(ds)}"
            chain = [(978307200, []), (1136073600, []), (1136073600, ["x"])]
            cases.append(G.dcase(cid, ds, de, "\n".join(lines), G.Cfg("tl", "rm", "+00:00", chain[-1][0], tuple(chain[-1][1]))))
            meta[cid] = {"stream": "history", "chain": chain, "ds": ds, "de": de}
            cases.append(G.dcase(cid + "i", ds, de, "\n".join(lines), G.Cfg("tl", "rm", "+00:00", 978307200, ("x",))))
            meta[cid + "i"] = {"stream": "idempotence"}
    # known finding KF3: an unwrap-block whose wrapper lines are blank; removing its only inner element
    # first lets the blank-line tidying reduce the lines between its tags to one, and it is never unwrapped
    KF3 = "KF3 blank wrapper line: an earlier run leaves fewer than two lines between the tags of an unwrap-block, which is then never unwrapped"
    cases.append(G.dcase("kf3", "<!", ">", "a\n<!tl to='2010-01-01 00:00:00' unwrap-block>\n\n<!tl to='2000-01-01 00:00:00'>q<!/tl>\n\n<!/tl>\nc",
                         G.Cfg("tl", "rm", "+00:00", 1293840000, ())))
    meta["kf3"] = {"stream": "history", "chain": [(978307200, []), (1293840000, [])], "ds": "<!", "de": ">", "known_class": KF3}
    # known finding KF4: joining the texts around a removed inline element creates a start delimiter, which
    # in the next run swallows the opening tag of a pending element
    KF4 = "KF4 delimiter created by joining: the texts around a removed inline element form a start delimiter that swallows the next tag in a later run"
    for j, (pre, post) in enumerate([("x /*", " <b"), ("y /", "* <c"), ("/*", " <")]):
        src = pre + '/* <tl to="2000-01-01 00:00:00"> */gone/* </tl> */' + post + '\n/* <tl to="2100-01-01 00:00:00"> */keep/* </tl> */\nend\n'
        cases.append(G.dcase(f"kf4_{j}", "/* <", "> */", src, G.Cfg("tl", "rm", "+00:00", 4449513600, ())))
        meta[f"kf4_{j}"] = {"stream": "history", "chain": [(1293840000, []), (4449513600, [])], "ds": "/* <", "de": "> */", "known_class": KF4}
    # ... and its severe form: the created delimiter starts a bogus tag that reads as an expired element, so a
    # second run with the SAME configuration deletes a pending element (idempotence)
    src = ('x /*/* <tl to="2000-01-01 00:00:00"> */gone/* </tl> */ <tl to="2000-01-01 00:00:00" x\n'
           '/* <tl to="2100-01-01 00:00:00"> */keep/* </tl> */\nend\n')
    cases.append(G.dcase("kf4i", "/* <", "> */", src, G.Cfg("tl", "rm", "+00:00", 1293840000, ())))
    meta["kf4i"] = {"stream": "idempotence", "known_idem": KF4}
    for i in range(150 if tier == "quick" else 2000):
        ds, de = rng.choice(G.DELIMS)
        cfg = G.Cfg("tl", "rm", "+00:00", G.NOW, ("x",))
        dg = G.DocGen(rng, ds, de, cfg, safe_text=True)
        dg.strict_unwrap = True
        dg.blank_wrappers = 0.5
        s = dg.document(["ready_tl", "pending_tl", "ready_rm", "pending_rm"], 0.6)
        if not dg.used_blank_wrapper:
            continue
        s = re.sub(r'to="[^"]*"', lambda mo: 'to="' + rng.choice(times)[0] + '"', s)
        chain = sorted(rng.sample(range(len(times)), rng.randint(2, 4)))
        nows = [times[k][1] + rng.choice([0, 1, 86400]) for k in chain]
        tsets = sorted([("x",) if rng.random() < 0.5 else () for _ in chain], key=len)
        cid = f"bw{i}"
        cases.append(G.dcase(cid, ds, de, s, G.Cfg("tl", "rm", "+00:00", nows[-1], tsets[-1])))
        meta[cid] = {"stream": "history", "chain": [(nw, list(ts)) for nw, ts in zip(nows, tsets)], "ds": ds, "de": de,
                     "known_class": KF3}
    for i in range(n):
        ds, de = rng.choice(G.DELIMS)
        cfg = G.Cfg("tl", "rm", "+00:00", G.NOW, ("x",))
        dg = G.DocGen(rng, ds, de, cfg, safe_text=True)
        dg.strict_unwrap = True
        s = dg.document(["ready_tl", "pending_tl", "ready_rm", "pending_rm", "skip", "unreg"], 0.35)
        # spread expiry times over the ordered set
        def repl(mo):
            return 'to="' + rng.choice(times)[0] + '"'
        s = re.sub(r'to="[^"]*"', repl, s)
        chain = sorted(rng.sample(range(len(times)), rng.randint(1, 4)))
        nows = [times[k][1] + rng.choice([0, 1, 86400]) for k in chain]
        tsets = [("x",) if rng.random() < 0.5 else () for _ in chain]
        tsets = sorted(tsets, key=len)
        cid = f"h{i}"
        final = G.Cfg("tl", "rm", "+00:00", nows[-1], tsets[-1])
        cases.append(G.dcase(cid, ds, de, s, final))
        meta[cid] = {"stream": "history", "chain": [(nw, list(ts)) for nw, ts in zip(nows, tsets)], "ds": ds, "de": de}
    # whole inline elements on the tag lines of unwrap-blocks (they lie inside the block's opening / closing
    # part, so they go with it; before that they may be removed on their own)
    for i in range(200 if tier == "quick" else 3000):
        ds, de = rng.choice(G.DELIMS)
        cfg = G.Cfg("tl", "rm", "+00:00", G.NOW, ("x",))
        dg = G.DocGen(rng, ds, de, cfg, safe_text=True)
        dg.strict_unwrap = True
        dg.tagline_inline = 0.7
        s = dg.document(["ready_tl", "pending_tl", "ready_rm", "pending_rm"], 0.6)
        s = re.sub(r'to="[^"]*"', lambda mo: 'to="' + rng.choice(times)[0] + '"', s)
        chain = sorted(rng.sample(range(len(times)), rng.randint(2, 4)))
        nows = [times[k][1] + rng.choice([0, 1, 86400]) for k in chain]
        tsets = sorted([("x",) if rng.random() < 0.5 else () for _ in chain], key=len)
        cid = f"ti{i}"
        cases.append(G.dcase(cid, ds, de, s, G.Cfg("tl", "rm", "+00:00", nows[-1], tsets[-1])))
        meta[cid] = {"stream": "history", "chain": [(nw, list(ts)) for nw, ts in zip(nows, tsets)], "ds": ds, "de": de}
    # idempotence only (no history), unwrap-heavy documents
    for i in range(600 if tier == "quick" else 8000):
        ds, de = rng.choice(G.DELIMS)
        cfg = G.Cfg("tl", "rm", "+00:00", G.NOW, ("x",))
        dg = G.DocGen(rng, ds, de, cfg, safe_text=True)
        dg.strict_unwrap = True      # a tag on a wrapper line is deleted with the wrapper and strands its partner: outside C19
        s = dg.document(["ready_tl", "ready_tl", "ready_rm", "pending_tl", "skip", "unreg"], 0.5)
        cid = f"i{i}"
        cases.append(G.dcase(cid, ds, de, s, cfg))
        meta[cid] = {"stream": "idempotence"}
    return merge(corpus_cases(), (cases, meta))


# ------------------------------------------------------------------------------------------------
# C20: the command-line binary

TZS = ["UTC", "Asia/Tokyo", "America/Los_Angeles", None]


def rfc3339(now, zone_min):
    y, mo, d, h, mi, s = G.civil(now + zone_min * 60)
    return f"{y:04d}-{mo:02d}-{d:02d}T{h:02d}:{mi:02d}:{s:02d}{G.offset_str(zone_min)}"


def current_spelling(cid, now, zone_min):
    """the current instant in one of the spellings the command line accepts (chosen by the case id): RFC 3339, a blank
    for the T, the offset without colon, a blank in front of the offset, Z / UTC for offset zero"""
    strict = rfc3339(now, zone_min)
    k = int(hashlib.sha1(cid.encode()).hexdigest(), 16) % 8
    date, rest = strict[:10], strict[11:]
    tm, off = rest[:8], rest[8:]
    if k == 1:
        return date + " " + tm + off
    if k == 2:
        return date + "T" + tm + off.replace(":", "")
    if k == 3:
        return date + " " + tm + " " + off
    if k == 4 and zone_min == 0:
        return date + "T" + tm + "Z"
    if k == 5 and zone_min == 0:
        return date + " " + tm + " UTC"
    return strict


def rcase(cid, text):
    return f"R {cid} {G.hx(text)}"


def gen_current_texts(rng, n, prefix="r"):
    """texts of --time-limited-current: every accepted spelling of an instant (with the instant the oracle expects),
    the neighbouring refused ones, and random edits of both - the model of chrono's relaxed RFC 3339 reader
    (Model/Current.v) against the implementation"""
    cases, meta, texts = [], {}, []
    k = 0
    def add(text, want=None, why=""):
        nonlocal k
        cid = f"{prefix}{k}"
        k += 1
        texts.append(text)
        cases.append(rcase(cid, text))
        meta[cid] = {"stream": "current-text", "want_cur": want, "why": why}
    seps = ["T", "t", " "]
    fracs = ["", ".5", ".000", ".123456789", ".1234567891234", ".999999999"]
    gaps = ["", " ", "  ", "\t", "\n"]
    instants = [G.NOW, 0, -1, 946684799, 951827759, 4102444800, 253402300799, -62167219200, 1709251199]
    for ts in instants:
        for om in (0, 540, -330, 765, -720, 840, 1):
            y, mo, d, h, mi, sec = G.civil(ts + om * 60)
            if not (0 <= y <= 9999):
                continue
            date, tm = f"{y:04d}-{mo:02d}-{d:02d}", f"{h:02d}:{mi:02d}:{sec:02d}"
            offs = [G.offset_str(om, True), G.offset_str(om, False)]
            if om == 0:
                offs += ["Z", "z", "UTC", "utc", "Utc", "-00:00", "+00 00", "\u221200:00"]
            for off in offs:
                sep, fr, gap = rng.choice(seps), rng.choice(fracs), rng.choice(gaps)
                add(date + sep + tm + fr + gap + off, f"{ts}:0", "accepted spelling")
            add(date + "T" + tm + G.offset_str(om) + rng.choice([" ", "\n", "  \t"]), f"{ts}:0", "white space behind the text")
            add(rng.choice([" ", "\t"]) + date + "T" + tm + G.offset_str(om), f"{ts}:0", "white space in front of the text")
            add(date + "  " + tm + G.offset_str(om), f"{ts}:0", "a blank for the T and white space in front of the hour")
            # refused neighbours
            for bad in (date + "T" + tm, date + tm + G.offset_str(om), date + "_" + tm + G.offset_str(om), date + "T" + tm + G.offset_str(om) + "x",
                        date + "T" + tm + "." + G.offset_str(om), date + "T" + tm + " GMT", date + "T" + tm + "+" + f"{abs(om) // 60:02d}",
                        date.replace("-", "/") + "T" + tm + G.offset_str(om), date + "T" + tm.replace(":", ".") + G.offset_str(om),
                        date + "T" + tm + "UT", date + "T" + tm + "ZZ", date + "T" + tm + "Zulu", date + "T" + tm + " +24:00", date + "T" + tm + "+00:60"):
                add(bad, "none", "refused spelling")
    # unpadded fields, blanks between the components, signed years, leap second, field limits
    for t in ["2001-9-9T1:46:40Z", "2001 - 09 - 09T01 : 46 : 40 Z", "+2001-09-09T01:46:40Z", "+12001-09-09T01:46:40Z", "12001-09-09T01:46:40Z",
              "-0001-01-01T00:00:00Z", "2016-12-31T23:59:60Z", "2016-12-31T23:59:60.5+09:00", "2001-09-09T01:46:61Z", "2001-09-09T24:00:00Z",
              "2001-09-09T01:60:00Z", "2001-13-01T00:00:00Z", "2001-00-09T01:46:40Z", "2001-09-00T01:46:40Z", "2001-09-32T01:46:40Z", "2001-04-31T00:00:00Z",
              "2001-+9-09T01:46:40Z", "2001-09-+9T01:46:40Z", "2001--9-09T01:46:40Z", "2001-09--9T01:46:40Z", "2001-09-09T+1:46:40Z", "2001-09-09T01:+46:40Z",
              "2001-09-09T01:46:+40Z", "2001-09-09T01:46:40-24:00", "2001-09-09T01:46:40+24:00", "2001-09-09T01:46:40-23:59", "2001-09-09T01:46:40+99:00",
              "2001-09-09T23:59:59Z", "2001-09-09T00:59:59Z", "2001-12-31T23:59:59Z", "2001-01-01T00:00:00Z", "2001-09-09T01:46:40+23:59", "2001-09-09T01:46:40-23:59",
              "-262143-01-01T00:00:00+00:00", "-262143-01-01T00:00:01+00:01", "+262142-12-31T23:59:59+00:00", "+262142-12-31T23:59:58-00:01",
              "-262142-01-01T00:00:00Z", "+262141-12-31T23:59:59Z", "2001-02-29T00:00:00Z", "2004-02-29T00:00:00Z", "2001-09-09T01:46:40.Z",
              "2001-09-09T01:46:40 .5Z", "2001-09-09T01:46:40. 5Z", "2001-09-09T01:46:40,5Z", "2001-09-09T01:46:40.5 Z", "", " ", "Z", "now",
              "2001-09-09", "2001-09-09T", "2001-09-09T01:46", "2001-09-09T01:46Z", "1000000000", "2001-09-09T01:46:40+09", "2001-09-09T01:46:40+9:00",
              "2001-09-09T01:46:40+09:0", "2001-09-09T01:46:40+0900 ", "2001-09-09T01:46:40 + 09:00", "2001-09-09T01:46:40+09::00", "2001-09-09T01:46:40+09 :00",
              "+262142-12-31T23:59:59Z", "+262143-01-01T00:00:00Z", "-262143-01-01T00:00:00Z", "-262144-01-01T00:00:00Z", "+262142-12-31T23:59:59-00:01",
              "-262143-01-01T00:00:00+00:01", "2001-09-09T01:46:40UTC+09:00", "2001-09-09T01:46:40 U T C", "２００１-09-09T01:46:40Z", "2001-09-09\u00a001:46:40Z",
              "2001-09-09T\u00a001:46:40Z", "2001-09-09T01:46:40\u3000Z", "2001-09-09T01:46:40Z\u3000", "99999999999999999999-01-01T00:00:00Z"]:
        add(t)
    # the neighbours of every letter of Z / UTC, of the separators and of the signs
    for z in ["TTC", "VTC", "USC", "UUC", "UTB", "UTD", "ttc", "vtc", "usc", "uuc", "utb", "utd", "Y", "[", "y", "{", "UT", "UTCC", "U", "@TC", "`tc",
              "UtC", "uTc", "utC", "Utc"]:
        add("2001-09-09T01:46:40" + z, "1000000000:0" if z.upper() == "UTC" else "none", "zone name")
    for sp in ["S", "U", "s", "u", "\x1f", "!", "\t", "\n", "\u00a0"]:
        add("2001-09-09" + sp + "01:46:40Z", "none", "separator next to T / t / blank")
    for sg in ["*", ",", ".", "/", "\u2213", "\u2211"]:
        add("2001-09-09T01:46:40" + sg + "09:00", "none", "sign next to + / -")
    pool = list("0123456789") + ["-", ":", "T", "t", " ", "Z", "z", "+", ".", "UTC", "\t", "\u2212", "x", "\u3000", "00", "09", "60"]
    base = list(texts)
    for i in range(n):
        t = rng.choice(base) if rng.random() < 0.8 else ""
        t = list(t)
        for _ in range(rng.randint(1, 3)):
            op = rng.randrange(3)
            pos = rng.randint(0, len(t))
            if op == 0 and t:
                del t[min(pos, len(t) - 1)]
            elif op == 1:
                t.insert(pos, rng.choice(pool))
            elif t:
                t[min(pos, len(t) - 1)] = rng.choice(pool)
        add("".join(t))
    return cases, meta


def oracle_current(line, m, impl, model):
    got = impl.get("cur", "MISSING")
    if got == "PANIC":
        return "the parse of the current instant panicked"
    want = m.get("want_cur")
    if want is not None and got != want:
        return f"--time-limited-current={unhex(line.split(' ')[2]).decode('utf-8', 'replace')!r} reads as {got}, expected {want} ({m.get('why')})"
    return None


def cli_current_cases(prefix="kc"):
    """the current instant handed to the binary in every accepted spelling and in several zones, against `to` values
    that are pending at that instant but expired by the wall clock (a spelling the binary silently refuses falls
    back to the wall clock and shows here), equal to the instant, and one second later"""
    cases, meta = [], {}
    k = 0
    for to_ts, ready in ((1262304000, False), (G.NOW, True), (G.NOW + 1, False), (G.NOW - 1, True), (1700000000, False)):
        for om, off in ((0, "+00:00"), (540, "+0900"), (-330, "-05:30")):
            to = G.render_to(to_ts + om * 60)
            src = f'a<!-- <time-limited to="{to}"> -->x<!-- </time-limited> -->b'
            for zone in (0, 0, 0, 540, -480, 345, 0, 0, 60, 0, -210, 0):
                cid = f"{prefix}{k}"
                k += 1
                cases.append(kcase(cid, "C", False, "S", "O", None, None, None, off, zone, G.NOW, None, [], None, src))
                meta[cid] = {"stream": "cli-current", "expect_stdout": "ab" if ready else src}
    return cases, meta


def kcase(cid, mode, js, inr, outr, ds, de, tl, off, zone, now, rm, flags, cfg, src):
    def o(x):
        return "~" if x is None else G.hx(x)
    fl = ",".join(G.hx(x) for x in flags) if flags else "."
    # last field: the text handed to --time-limited-current (the model reads it with Model/Current.v's parse_current)
    return (f"K {cid} {mode} {int(js)} {inr} {outr} {o(ds)} {o(de)} {o(tl)} {o(off)} {zone} {now} {o(rm)} {fl} {o(cfg)} {G.hx(src)} "
            + G.hx(current_spelling(cid, int(now), int(zone))))


def gen_c20(rng, tier):
    cases, meta = [], {}
    n = 350 if tier == "quick" else 4000
    names = ["x", "y", "feature1", "vec![]", "", "X", "x y"]
    for i in range(n):
        use_default_delims = rng.random() < 0.4
        ds, de = ("<!-- <", "> -->") if use_default_delims else rng.choice(G.DELIMS)
        use_default_tags = rng.random() < 0.4
        tl, rm = ("time-limited", "removal-marker") if use_default_tags else rng.choice(G.TAGNAMES[1:])
        flags = rng.sample(names, rng.randint(0, 3)) if rng.random() < 0.7 else []
        cfgfile = None
        if rng.random() < 0.4:
            ls = rng.sample(names, rng.randint(0, 3))
            cfgfile = "".join(l + rng.choice(["\n", "\n", "\r\n"]) for l in ls)
            if ls and rng.random() < 0.3:
                cfgfile = cfgfile.rstrip("\r\n")
        targets = tuple(flags) + tuple((cfgfile or "").replace("\r\n", "\n").split("\n")[:-1] if cfgfile and cfgfile.endswith("\n") else (cfgfile or "").replace("\r\n", "\n").split("\n") if cfgfile else ())
        off = rng.choice([None, "+00:00", "+0900", "-05:30"])
        cfg = G.Cfg(tl, rm, off or "+00:00", G.NOW, [t for t in targets if t] or ("zz",))
        dg = G.DocGen(rng, ds, de, cfg, safe_text=True)
        src = dg.document(G.ALL_KINDS, 0.3)
        if rng.random() < 0.15:
            src = src.replace('name="' + cfg.targets[0] + '"', 'name="vec![]"')
        mode = rng.choice(["C", "C", "L", "A", "B"])
        js = rng.random() < 0.5
        inr = rng.choice(["F", "S"])
        outr = rng.choice(["O", "W"] + (["I"] if inr == "F" else []))
        zone = rng.choice([0, 540, -480, 330])
        cid = f"c{i}"
        cases.append(kcase(cid, mode, js, inr, outr, None if use_default_delims and rng.random() < 0.7 else ds,
                           None if use_default_delims and rng.random() < 0.7 else de,
                           None if use_default_tags and rng.random() < 0.7 else tl, off, zone, G.NOW,
                           None if use_default_tags and rng.random() < 0.7 else rm, flags, cfgfile, src))
        meta[cid] = {"stream": "cli"}
    # the same document through every route / equivalent target spellings: results must coincide
    k = 0
    for i in range(60 if tier == "quick" else 600):
        ds, de = rng.choice(G.DELIMS)
        cfg = G.Cfg("tl", "rm", "+00:00", G.NOW, ("x", "y"))
        src = G.DocGen(rng, ds, de, cfg).document(G.ALL_KINDS, 0.3)
        mode, js = rng.choice(["C", "L", "A"]), rng.random() < 0.5
        group = f"g{i}"
        variants = [("F", "O", ["x", "y"], None), ("S", "O", ["x", "y"], None), ("F", "W", ["x", "y"], None), ("F", "I", ["y", "x"], None),
                    ("S", "W", [], "x\ny\n"), ("F", "O", ["x"], "y"), ("F", "O", [], "y\r\nx\r\n"), ("S", "O", ["x", "y", "x"], "x\n")]
        for (inr, outr, flags, cf) in variants:
            cid = f"v{k}"
            k += 1
            cases.append(kcase(cid, mode, js, inr, outr, ds, de, "tl", "+00:00", rng.choice([0, 540, -480]), G.NOW, "rm", flags, cf, src))
            meta[cid] = {"stream": "cli-equiv", "group": group}
    # defaults contribute no targets: candidate names are the default strings printed by --help
    for j, name in enumerate(["vec![]", "<!-- <", "> -->", "time-limited", "removal-marker", "+00:00", ""]):
        src = f'a<!-- <removal-marker name="{name}"> -->x<!-- </removal-marker> -->b'
        cases.append(kcase(f"d{j}", "C", False, "S", "O", None, None, None, None, 0, G.NOW, None, [], None, src))
        meta[f"d{j}"] = {"stream": "cli-defaults", "expect_stdout": src}
    return merge((cases, meta), cli_current_cases(), cli_spelling_cases())


def run_cli_cases(cases, work, tag):
    """drives target/debug/chiritori; every case under all TZ values"""
    binp, log = vlib.build_cli()
    res = {}
    if binp is None:
        return {c.split(" ")[1]: {"cli": "BUILDFAIL"} for c in cases}
    import concurrent.futures
    import shutil
    base = os.path.join(work, tag + ".cli")
    shutil.rmtree(base, ignore_errors=True)
    os.makedirs(base, exist_ok=True)
    def one(line):
        f = line.split(" ")
        cid = f[1]
        mode, js, inr, outr, ds, de, tl, off, zone, now, rm, flags, cfgf, src = f[2:16]
        cur_text = unhex(f[16]).decode("utf-8") if len(f) > 16 else rfc3339(int(now), int(zone))
        outs = []
        for ti, tz in enumerate(TZS):
            d = os.path.join(base, f"{cid}.{ti}")
            os.makedirs(d, exist_ok=True)
            inp, outp, cfgp = os.path.join(d, "IN"), os.path.join(d, "OUT"), os.path.join(d, "CFG")
            srcb = unhex(src)
            open(inp, "wb").write(srcb)
            argv = [binp]
            if inr == "F":
                argv.append("--filename=" + inp)
            if outr == "W":
                argv.append("--output=" + outp)
            elif outr == "I":
                argv.append("--output=" + inp)
            for opt, v in (("--delimiter-start", ds), ("--delimiter-end", de), ("--time-limited-tag-name", tl),
                           ("--time-limited-time-offset", off), ("--removal-marker-tag-name", rm)):
                if v != "~":
                    argv.append(opt + "=" + unhex(v).decode("utf-8"))
            argv.append("--time-limited-current=" + cur_text)
            if flags != ".":
                for x in flags.split(","):
                    argv.append("--removal-marker-target-name=" + unhex(x).decode("utf-8"))
            if cfgf != "~":
                open(cfgp, "wb").write(unhex(cfgf))
                argv.append("--removal-marker-target-config=" + cfgp)
            if mode in ("L", "B"):
                argv.append("--list")
            if mode in ("A", "B"):
                argv.append("--list-all")
            if js == "1":
                argv.append("--list-json")
            env = {k: v for k, v in os.environ.items() if k not in ("TZ", "LANG", "LC_ALL")}
            if tz is not None:
                env["TZ"] = tz
            if ti == 1:
                env["LANG"] = "ja_JP.UTF-8"
                env["LC_ALL"] = "C"
                env["NO_COLOR"] = "1"
                env["TERM"] = "dumb"
            if ti == 2:
                env["CLICOLOR_FORCE"] = "1"
                env["FORCE_COLOR"] = "3"
            p = subprocess.run(argv, input=(srcb if inr == "S" else b""), stdout=subprocess.PIPE, stderr=subprocess.PIPE, env=env, timeout=60)
            if p.returncode not in (0, 1):
                outs.append("CRASH")
            else:
                def hx(b):
                    return b.hex() if b else "-"
                fl = "~"
                if outr == "W" and os.path.exists(outp):
                    fl = "OUT:" + hx(open(outp, "rb").read())
                elif outr == "I":
                    fl = "IN:" + hx(open(inp, "rb").read())
                outs.append(f"exit={p.returncode} stdout={hx(p.stdout)} file={fl}")
            shutil.rmtree(d, ignore_errors=True)
        r = {"cli": outs[0]}
        if len(set(outs)) != 1:
            r["tz_differs"] = "|".join(o[:200] for o in outs)
        return cid, r
    with concurrent.futures.ThreadPoolExecutor(max_workers=16) as ex:
        for cid, r in ex.map(one, cases):
            res[cid] = r
    shutil.rmtree(base, ignore_errors=True)
    return res


def oracle_c20(line, m, impl, model):
    if line.startswith("R "):
        return oracle_current(line, m, impl, model)
    c = impl.get("cli", "MISSING")
    if c in ("CRASH", "MISSING", "BUILDFAIL"):
        return f"the binary {c.lower()}"
    if "tz_differs" in impl:
        return "the result depends on TZ / locale: " + impl["tz_differs"][:300]
    if "expect_stdout" in m:
        got = re.search(r"stdout=(\S+)", c).group(1)
        if unhex(got) != m["expect_stdout"].encode():
            return f"with default options the output is {unhex(got)!r}: a default string acts as a removal target or changes behaviour"
    return None


def pair_check_c20(cases, meta, impl):
    fails = []
    groups = {}
    by = {l.split(" ", 2)[1]: l for l in cases}
    for cid, m in meta.items():
        if isinstance(m, dict) and m.get("stream") == "cli-equiv":
            groups.setdefault(m["group"], []).append(cid)
    for g, ids in groups.items():
        def payload(cid):
            c = impl.get(cid, {}).get("cli", "")
            mo = re.match(r"exit=(\d+) stdout=(\S+) file=(\S+)", c)
            if not mo:
                return c
            return (mo.group(1), mo.group(2) if mo.group(3) == "~" else mo.group(3).split(":", 1)[1])
        vals = {cid: payload(cid) for cid in ids}
        if len(set(vals.values())) != 1:
            a = ids[0]
            b = [x for x in ids if vals[x] != vals[a]][0]
            fails.append({"case": by[b], "other_case": by[a], "meta": meta[b],
                          "why": "the same document and options give different bytes through different input/output routes or equivalent target spellings"})
    return fails


# ------------------------------------------------------------------------------------------------
# differential run

def differential(P, pid, cases, meta, harness, driver, tag, oracle_only=False):
    work = os.path.join(CACHE, "run", pid)
    kcases = [c for c in cases if c.startswith("K ")]
    impl, rcs = vlib.run_sharded(harness, [c for c in cases if not c.startswith("K ")], work, tag + ".impl")
    if kcases:
        impl.update(run_cli_cases(kcases, work, tag))
    crashed = [rc for rc in rcs if rc != 0]
    if P.get("post"):
        # multi-step properties (histories, metamorphic pairs) run follow-up cases
        cases, meta, impl = P["post"](cases, meta, impl, harness, work, tag)
    model = {}
    # cases too large for the extracted model (ten million lines): implementation and oracle only
    impl_only = {cid for cid, mm in meta.items() if isinstance(mm, dict) and mm.get("impl_only")}
    if not oracle_only:
        model, _ = vlib.run_sharded(driver, [c for c in cases if c.split(" ", 2)[1] not in impl_only], work, tag + ".model")
    stages = P["stages"]
    dis, fails, known = [], [], []
    known_case = {}
    compared = 0
    nontrivial = set()
    by_line = {}
    for line in cases:
        cid = line.split(" ", 2)[1]
        by_line[cid] = line
    dist = {}
    for cid, line in by_line.items():
        io = impl.get(cid, {})
        mo = model.get(cid, {})
        m = meta.get(cid, {})
        dist[m.get("stream", "?")] = dist.get(m.get("stream", "?"), 0) + 1
        if not io:
            fails.append({"case": line, "meta": m, "why": "the implementation harness produced no output for this case (process died)"})
            continue
        if not oracle_only and cid not in impl_only:
            for st in stages:
                if st in io or st in mo:
                    compared += 1
                    if io.get(st) != mo.get(st):
                        dis.append({"case": line, "meta": m, "stage": st, "impl": io.get(st, "MISSING")[:4000], "model": mo.get(st, "MISSING")[:4000]})
        try:
            v = P["oracle"](line, m, io, mo)
        except Exception as e:   # an oracle bug must not look like a property violation silently
            v = f"oracle error {type(e).__name__}: {e}"
        if v:
            if isinstance(v, tuple) and v[0] == "known":
                if v[1] not in known:
                    known.append(v[1])
                    known_case[v[1]] = (line, m)
            else:
                fails.append({"case": line, "meta": m, "why": v, "impl": {k: io.get(k, "")[:3000] for k in stages}})
        if P["nontrivial"](line, io):
            nontrivial.add(hashlib.sha1(line.split(" ", 2)[2].encode()).hexdigest())
    if P.get("pair_check"):
        for f in P["pair_check"](cases, meta, impl):
            if "known" in f:
                if f["known"] not in known:
                    known.append(f["known"])
            else:
                fails.append(f)
    if crashed and not fails:
        fails.append({"case": cases[0], "meta": {}, "why": f"harness process exited with {crashed[:3]}"})
    # known findings listed in the committed file: only the listed classes are suppressed
    listed = {k["class"] for k in known_findings() if k.get("status") == "open" and pid in k.get("properties", [])}
    unlisted = [k for k in known if not any(k.startswith(c) for c in listed)]
    for k in unlisted:
        kl, km = known_case.get(k, (cases[0], {}))
        km = {a: b for a, b in km.items() if a != "known_class"}
        fails.append({"case": kl, "meta": km, "why": "finding not listed as open in known_findings.json: " + k})
    known = [k for k in known if k not in unlisted]
    samples = []
    for line in cases[:: max(1, len(cases) // 5)][:6]:
        cid = line.split(" ", 2)[1]
        samples.append({"case": line[:600], "impl": {k: v[:200] for k, v in list(impl.get(cid, {}).items())[:4]}})
    cov = {"evaluations": len(cases), "distinct_nontrivial": len(nontrivial), "traces_validated_against_impl": compared,
           "rule": P["rule"], "samples": samples, "input_distribution": dist, "generator_stats": meta.get("__stats__", {}),
           "stages_compared": stages, "disagreements": len(dis), "oracle_failures": len(fails),
           "panic_outputs": sum(1 for v in impl.values() for x in v.values() if "PANIC" in x)}
    return {"disagreements": dis, "failures": fails, "known": known, "coverage": cov}


def shrink(P, pid, failure, harness, driver):
    """delta-debug the source of a D case while the oracle still fails"""
    line = failure["case"]
    if not line.startswith("D ") or P.get("post"):
        return failure
    f = line.split(" ")
    src = unhex(f[4]).decode("utf-8", "replace")
    m = dict(failure.get("meta", {}))
    for k in ("expect", "expect_lines", "tags", "clean", "want_clean"):
        if k in m:
            return failure   # expectation is tied to the exact text
    work = os.path.join(CACHE, "run", pid)
    def fails(s):
        g = list(f)
        g[4] = s.encode().hex() if s else "-"
        l2 = " ".join(g)
        impl, _ = vlib.run_sharded(harness, [l2], work, "shrink.impl")
        io = impl.get(f[1], {})
        try:
            v = P["oracle"](l2, m, io, {})
        except Exception:
            return False
        return bool(v) and not (isinstance(v, tuple) and v[0] == "known")
    chars = list(src)
    chunk = max(1, len(chars) // 2)
    budget = 150
    while chunk >= 1 and budget > 0:
        i = 0
        progressed = False
        while i < len(chars) and budget > 0:
            cand = chars[:i] + chars[i + chunk:]
            budget -= 1
            if fails("".join(cand)):
                chars = cand
                progressed = True
            else:
                i += chunk
        if not progressed:
            chunk //= 2
    g = list(f)
    s = "".join(chars)
    g[4] = s.encode().hex() if s else "-"
    out = dict(failure)
    out["case"] = " ".join(g)
    out["original_case"] = line
    return out


def write_replay(pid, obj, kind):
    h = hashlib.sha1(obj["case"].encode()).hexdigest()[:12]
    path = os.path.join(ROOT, "replays", f"{pid}-{h}.json")
    o = dict(obj)
    o["property"] = pid
    o["kind"] = kind
    f = obj["case"].split(" ")
    if f[0] == "D":
        o["readable"] = {"delimiters": [unhex(f[2]).decode("utf-8", "replace"), unhex(f[3]).decode("utf-8", "replace")],
                         "source": unhex(f[4]).decode("utf-8", "replace"), "time_limited_tag": unhex(f[5]).decode("utf-8", "replace"),
                         "offset": unhex(f[6]).decode("utf-8", "replace"), "now": f[7], "removal_marker_tag": unhex(f[8]).decode("utf-8", "replace"),
                         "targets": [] if f[9] == "." else [unhex(x).decode("utf-8", "replace") for x in f[9].split(",")]}
    o["replay_cmd"] = f"bin/vcheck {pid} --replay {path}"
    vlib.write_json(path, o)
    return path


# ------------------------------------------------------------------------------------------------
# follow-up runs for multi-step properties

def post_c19(cases, meta, impl, harness, work, tag):
    """history: clean step by step through the chain, then compare with the one-shot result"""
    step_cases, owners = [], {}
    cur = {}
    for line in cases:
        f = line.split(" ")
        cid = f[1]
        m = meta.get(cid, {})
        if m.get("stream") != "history":
            continue
        cur[cid] = f[4]
    # run the chains level by level
    maxlen = max([len(meta[c]["chain"]) for c in cur] or [0])
    state = {cid: None for cid in cur}
    srcs = dict(cur)
    for step in range(maxlen):
        batch = []
        for cid in cur:
            ch = meta[cid]["chain"]
            if step < len(ch) and srcs[cid] is not None:
                nw, ts = ch[step]
                cfg = G.Cfg("tl", "rm", "+00:00", nw, tuple(ts))
                f = [l for l in cases if l.split(" ", 2)[1] == cid][0].split(" ") if False else None
                batch.append(f"D {cid}s{step} {G.hx(meta[cid]['ds'])} {G.hx(meta[cid]['de'])} {srcs[cid]} {cfg.fields()}")
        if not batch:
            break
        out, _ = vlib.run_sharded(harness, batch, work, f"{tag}.hist{step}")
        for cid in cur:
            o = out.get(f"{cid}s{step}")
            if o is None:
                continue
            c = o.get("clean", "PANIC")
            srcs[cid] = None if c == "PANIC" else c
            impl.setdefault(cid, {})[f"step{step}"] = c
    # idempotence: clean the one-shot output again with the final configuration
    batch = []
    for line in cases:
        f = line.split(" ")
        cid = f[1]
        c = impl.get(cid, {}).get("clean")
        if c and c != "PANIC":
            g = list(f)
            g[1] = cid + "i"
            g[4] = c
            batch.append(" ".join(g))
    out, _ = vlib.run_sharded(harness, batch, work, f"{tag}.idem")
    for cid in list(impl.keys()):
        o = out.get(cid + "i")
        if o:
            impl[cid]["again"] = o.get("clean", "PANIC")
    for cid in cur:
        impl[cid]["stepwise"] = srcs[cid] if srcs[cid] is not None else "PANIC"
    return cases, meta, impl


def oracle_c19(line, m, impl, model):
    if not impl_ok(impl, ["clean"]):
        return "clean panicked"
    c = parse_dcase(line)
    if m.get("stream") in ("history", "corpus", "ast", "idempotence") and not m.get("mutated"):
        # sources in which delimiter strings occur only as parts of tags
        if "again" in impl and impl["again"] != impl["clean"]:
            if m.get("known_idem"):
                return ("known", m["known_idem"])
            out1 = unhex(impl["clean"])
            return f"cleaning the output again changed it: {out1[:80]!r} -> {unhex(impl['again'])[:80]!r}" if impl["again"] != "PANIC" else "second clean panicked"
    if m.get("stream") == "history":
        sw = impl.get("stepwise")
        if sw == "PANIC":
            return "a step of the history panicked"
        if sw is not None and R.nonws(unhex(sw)) != R.nonws(unhex(impl["clean"])):
            if m.get("known_class"):
                return ("known", m["known_class"])
            return f"step-by-step cleaning {unhex(sw)[:120]!r} and one-shot cleaning {unhex(impl['clean'])[:120]!r} differ beyond whitespace"
        # no stranded tag of a ready element
        r = ref_of(c)
        if not r.abstain and sw is not None:
            r2 = R.Ref(unhex(sw), c["ds"], c["de"], r.cfg)
            if r2.extents and not r2.abstain:
                if m.get("known_class"):
                    return ("known", m["known_class"])
                return "a ready element (or its tag) is stranded after the step-by-step history"
    return None


def cli_spelling_cases(prefix="ks"):
    """the command line under delimiter and tag-name spellings with characters a shell-facing tool might treat
    specially (back slash sequences, quotes, a leading dash, '=', '%', '$', glob characters): the binary takes them
    literally, like the library"""
    cases, meta = [], {}
    pool = [("\\todo{", "}"), ("\\n[", "]\\t"), ("\\r<", ">\\\\"), ("%[", "]%"), ("--[", "]--"), ("-x", "x-"), ("=begin", "=end"), ("$(", ")"),
            ("*{", "}*"), ("'<", ">'"), ('"<', '>"'), ("@@", "@@"), ("\\", "\\"), ("{%", "%}")]
    names = [("tl", "rm"), ("-t", "-r"), ("t\\n", "r\\t"), ("%t", "$r")]
    k = 0
    for ds, de in pool:
        for tl, rm in names:
            if any(x in ds + de for x in (tl, rm)) or any(d in tl + " " + rm for d in (ds, de)):
                continue
            src = (f"line one\n{ds} {rm} name=\"x\" {de}\nobsolete\n{ds} /{rm} {de}\nline two\n"
                   f"{ds} {tl} to=\"2100-01-01 00:00:00\" {de}kept{ds} /{tl} {de}\n{ds} {tl} to=\"2000-01-01 00:00:00\" {de}gone{ds} /{tl} {de}end\n")
            exp = f"line one\nline two\n{ds} {tl} to=\"2100-01-01 00:00:00\" {de}kept{ds} /{tl} {de}\nend\n"
            cid = f"{prefix}{k}"
            k += 1
            cases.append(kcase(cid, "C", False, "F" if k % 2 else "S", "O", ds, de, tl, "+00:00", 0, G.NOW, rm, ["x"], None, src))
            meta[cid] = {"stream": "cli-spelling", "expect_stdout": exp}
    return cases, meta


def oracle_c18(line, m, impl, model):
    if line.startswith("K "):
        return oracle_c20(line, m, impl, model)
    if not impl_ok(impl, ["clean", "lista_json"]):
        return "clean or list_all panicked"
    return None   # the pair comparison needs both members: pair_check_c18


def pair_check_c18(cases, meta, impl):
    fails = []
    by = {l.split(" ", 2)[1]: l for l in cases}
    for cid, m in meta.items():
        if not isinstance(m, dict) or m.get("stream") != "meta" or not m.get("second"):
            continue
        b, a = cid, m["pair"]
        ia, ib = impl.get(a, {}), impl.get(b, {})
        if "clean" not in ia or "clean" not in ib or "PANIC" in (ia["clean"], ib["clean"]):
            continue
        ds, de, tl, rm = m["spelling"]
        want = render_abs(unhex(ia["clean"]).decode("utf-8"), ds, de, tl, rm).encode()
        got = unhex(ib["clean"])
        if want != got:
            if m.get("known_class"):
                fails.append({"known": m["known_class"]})
                continue
            # known finding KF2: a delimiter that begins with a blank, first on a line inside an unwrapped body,
            # loses blanks to the block dedent: the outputs differ only in the leading blanks of such lines
            blank_delims = [d for d in (ds, de) if d[:1] in (" ", "\t")]
            if blank_delims:
                wl, gl = want.decode("utf-8", "replace").split("\n"), got.decode("utf-8", "replace").split("\n")
                if len(wl) == len(gl) and all(
                        a == b or (a.lstrip(" \t") == b.lstrip(" \t") and any(a.lstrip(" \t").startswith(d.lstrip(" \t")) for d in blank_delims))
                        for a, b in zip(wl, gl)):
                    fails.append({"known": "KF2 delimiter beginning with a blank: first on a line inside an unwrapped body it loses that blank to the block dedent"})
                    continue
            fails.append({"case": by[b], "meta": m, "why": f"renamed run gives {got[:200]!r}, the rewritten output of the reference spelling is {want[:200]!r}",
                          "other_case": by[a]})
            continue
        try:
            la = [(i["line_range"], i["current_status"]) for i in parse_json_items(ia["lista_json"])]
            lb = [(i["line_range"], i["current_status"]) for i in parse_json_items(ib["lista_json"])]
        except Exception:
            continue
        if la != lb:
            fails.append({"case": by[b], "meta": m, "why": f"list line ranges differ under renaming: {la} vs {lb}", "other_case": by[a]})
    return fails


# ------------------------------------------------------------------------------------------------

def nontrivial_doc(line, io):
    if line.startswith("D "):
        t = io.get("tok", "")
        mk = io.get("markers_all", io.get("markers", "."))
        return "E:" in t and mk not in (".", "")
    return True


def nontrivial_tok(line, io):
    return "E:" in io.get("tok", "") or line.startswith("T ") or line.startswith("M ") or line.startswith("F ")


def mk(gen, stages, oracle, explain, rule, nontrivial=nontrivial_doc, post=None, assumptions=None):
    return {"gen": gen, "stages": stages, "oracle": oracle, "explain": explain, "rule": rule, "nontrivial": nontrivial,
            "post": post, "assumptions": assumptions or []}


RULE_DOC = ("corpus (fixtures + recorded witnesses) first, then bounded-exhaustive atom strings, then AST-generated block/inline/nested/unwrap "
            "documents with a mutated share; a case is non-trivial when it contains at least one tag token and at least one ready or pending region; "
            "distinct = distinct (delimiters, source, configuration)")

PROPS = {}
_P = {
    "C01": mk(lambda rng, t: merge(gen_docs(rng, t, 2500, 40000, p_mut=0.5, safe=False), gen_front(rng, "quick"), big_line_number_cases(), wide_column_cases(),
                                   bad_offset_docs(rng, 150 if t == "quick" else 2500, "bof")),
              ALL_DOC_STAGES, oracle_c01, "panic-freedom: every stage of every case compared incl. the PANIC outcome (dev profile, overflow checks on)", RULE_DOC,
              nontrivial_tok),
    "C02": mk(lambda rng, t: gen_docs(rng, t, p_mut=0.3), DOC_STAGES_CLEAN, oracle_c02, "no over-removal", RULE_DOC),
    "C03": mk(lambda rng, t: gen_docs(rng, t, p_mut=0.3), DOC_STAGES_CLEAN, oracle_c03, "no under-removal", RULE_DOC),
    "C04": mk(lambda rng, t: merge(gen_docs(rng, t, kinds=["pending_tl", "pending_rm", "skip", "unreg"], p_mut=0.5, safe=False),
                                   degenerate_unwrap_cases(rng, t), nameless_marker_cases(), bad_offset_docs(rng, 150 if t == "quick" else 2500)),
              ["tok", "tag", "tree", "markers", "clean"], oracle_c04, "no-op identity", RULE_DOC, nontrivial_tok),
    "C05": mk(lambda rng, t: merge(gen_c05(rng, t), cli_current_cases(), gen_current_texts(rng, 1500 if t == "quick" else 20000)),
              ["evalt", "clean", "cli", "cur"], oracle_c05, "expiry decision", "boundary grid (±2 s around the instant, offsets −12:00…+14:00 step 15 min, both spellings), every malformed class, lenient forms, random grid; all T cases count as non-trivial", nontrivial_tok),
    "C06": mk(gen_c06, ["evalm", "markers", "clean", "tag", "cli"], oracle_c06, "marker and skip decision", "name/target pool products, attribute permutations, tag-name configurations, AST documents", nontrivial_tok),
    "C07": mk(gen_front, ["tok"], oracle_c07, "lossless partition", RULE_DOC, nontrivial_tok),
    "C08": mk(gen_front, ["tok"], oracle_c08, "leftmost-shortest recognition", RULE_DOC, nontrivial_tok),
    "C09": mk(gen_c09, ["tok", "tag", "clean"], oracle_c09, "tag grammar", "tags printed from the grammar (0-4 attributes, bare/single/double quoted, adversarial values, five separators, spaces around '='), opacity probes, mutated documents", nontrivial_tok),
    "C10": mk(gen_c10, ["tok", "tag", "tree"], oracle_c10, "pairing", "every sequence over {<a>,<b>,</a>,</b>,</z>,t} up to the tier's length, random longer sequences with //a and attributes, mutated documents", nontrivial_tok),
    "C11": mk(gen_c11, DOC_STAGES_CLEAN, oracle_c11, "unwrap-block four lines", RULE_DOC),
    "C12": mk(gen_c11, DOC_STAGES_CLEAN, oracle_c11, "unwrap dedent", RULE_DOC),
    "C13": mk(gen_c13, ["seam", "seam4", "find", "clean", "removed"], oracle_c13, "block-style removal", RULE_DOC, nontrivial_tok),
    "C14": mk(lambda rng, t: merge(gen_docs(rng, t, p_mut=0.3), gen_c11(rng, "quick")), DOC_STAGES_CLEAN, oracle_c14, "whitespace confined", RULE_DOC),
    "C15": mk(lambda rng, t: gen_docs(rng, t, p_mut=0.1), ["markers", "list_json", "list_pretty", "clean"], oracle_c15, "list = clean regions", RULE_DOC),
    "C16": mk(lambda rng, t: merge(gen_docs(rng, t, p_mut=0.2), big_line_number_cases(), wide_column_cases()), ["list_json", "list_pretty", "lista_json", "lista_pretty"], oracle_c16, "list rendering", RULE_DOC),
    "C17": mk(lambda rng, t: merge(gen_docs(rng, t, p_mut=0.1, kinds=["ready_tl", "pending_tl", "pending_tl", "pending_rm", "ready_rm", "skip"]),
                                   wrapper_tag_cases(rng, 300 if t == "quick" else 3000)),
              ["markers_all", "markers", "lista_json", "list_json"], oracle_c17, "list_all merge", RULE_DOC),
    "C18": mk(lambda rng, t: merge(gen_c18(rng, t), cli_spelling_cases()), ["tok", "tag", "tree", "markers", "clean", "lista_json", "cli"], oracle_c18, "spelling independence", "pairs: one abstract document in the placeholder spelling and in a spelling from the pool (13 delimiter pairs x 4 tag-name pairs)"),
    "C19": mk(gen_c19, ["clean"], oracle_c19, "idempotence and histories", "AST documents with expiry times from an ordered set; chains of 1..4 configurations", post=post_c19),
}

PROPS.update(_P)
PROPS["C20"] = mk(lambda rng, t: merge(gen_c20(rng, t), gen_current_texts(rng, 1500 if t == "quick" else 20000)), ["cli", "cur"], oracle_c20, "CLI wrapper", "AST documents x option combinations (input route, output route incl. --output = input file, mode, explicit/default delimiters, tag names, offset, current time spelled in several zones, targets via flags / file / both), each run under TZ in {UTC, Asia/Tokyo, America/Los_Angeles, unset}; equivalence groups of the same document through every route; default-string probes", nontrivial_tok)
PROPS["C20"]["pair_check"] = pair_check_c20
PROPS["C18"]["pair_check"] = pair_check_c18
