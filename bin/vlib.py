"""Shared machinery of the checks: builds, audit, sharded differential runs, evidence."""
import fcntl
import hashlib
import json
import os
import re
import subprocess
import sys
import time

ROOT = os.path.dirname(os.path.dirname(os.path.abspath(__file__)))
CACHE = os.path.join(ROOT, ".cache")
COQ = os.path.join(ROOT, "coq")
REPO = "/repo"
ENV = dict(os.environ, CARGO_NET_OFFLINE="true", CARGO_TARGET_DIR=os.path.join(CACHE, "harness-target"))
NPROC = 16

FORBIDDEN = re.compile(r"\b(Admitted|admit|Axiom|Axioms|Parameter|Parameters|Conjecture|Conjectures|Hypothesis|Variable|"
                       r"Admit Obligations|Unset Guard Checking|Unset Positivity Checking|Unset Universe Checking|"
                       r"bypass_check|type-in-type|impredicative-set)\b")


class BuildError(Exception):
    pass


def sh(cmd, cwd=None, timeout=1800, env=None):
    p = subprocess.run(cmd, cwd=cwd, shell=isinstance(cmd, str), stdout=subprocess.PIPE, stderr=subprocess.STDOUT,
                       timeout=timeout, env=env or ENV, text=True)
    return p.returncode, p.stdout


class Lock:
    def __init__(self, name):
        os.makedirs(CACHE, exist_ok=True)
        self.path = os.path.join(CACHE, name + ".lock")

    def __enter__(self):
        self.f = open(self.path, "w")
        fcntl.flock(self.f, fcntl.LOCK_EX)

    def __exit__(self, *a):
        fcntl.flock(self.f, fcntl.LOCK_UN)
        self.f.close()


# ------------------------------------------------------------------------------------------------
# Coq

def fresh_coq_copy():
    """a private copy of the Coq sources (no compiled files) for a from-scratch build (thorough tier)"""
    import shutil
    d = os.path.join(CACHE, "thorough", str(os.getpid()))
    shutil.rmtree(d, ignore_errors=True)
    os.makedirs(os.path.join(d, "ocaml"), exist_ok=True)
    shutil.copytree(COQ, os.path.join(d, "coq"),
                    ignore=shutil.ignore_patterns("*.vo", "*.vok", "*.vos", "*.glob", ".*.aux", "Makefile*", ".Makefile.d", ".lia.cache"))
    return os.path.join(d, "coq")


def coq_make(targets, root=None):
    """(ok, log).  Full .vo build of the given targets (never -vos).  With [root] (a fresh copy)
    the build starts from scratch and does not touch the shared tree."""
    root = root or COQ
    with Lock("coq" if root == COQ else "coq-" + str(os.getpid())):
        if not os.path.exists(os.path.join(root, "Makefile")):
            rc, out = sh("coq_makefile -f _CoqProject -o Makefile", cwd=root)
            if rc != 0:
                return False, out
        rc, out = sh(["timeout", "2400", "make", "-j16"] + targets, cwd=root, timeout=2500)
        return rc == 0, out


def theorem_names(prop_file):
    if not os.path.exists(prop_file):
        return []
    src = open(prop_file, encoding="utf-8").read()
    return re.findall(r"^\s*(?:Theorem|Lemma|Corollary)\s+([A-Za-z0-9_']+)", src, re.M)


def strip_comments(src):
    out, depth, i = [], 0, 0
    while i < len(src):
        if src.startswith("(*", i):
            depth += 1
            i += 2
        elif src.startswith("*)", i) and depth:
            depth -= 1
            i += 2
        else:
            if depth == 0:
                out.append(src[i])
            i += 1
    return "".join(out)


def audit_sources():
    """forbidden vernacular anywhere in the development (comments stripped)"""
    bad = []
    for d, _, fs in os.walk(COQ):
        for f in fs:
            if f.endswith(".v"):
                p = os.path.join(d, f)
                for n, line in enumerate(strip_comments(open(p, encoding="utf-8").read()).split("\n"), 1):
                    m = FORBIDDEN.search(line)
                    if m and not re.search(r"Context\s*\{|Section", line):
                        bad.append(f"{os.path.relpath(p, COQ)}:{n}: {m.group(0)}")
    for line in open(os.path.join(COQ, "_CoqProject")):
        if "type-in-type" in line or "impredicative-set" in line:
            bad.append("_CoqProject: " + line.strip())
    return bad


def statements_lock_ok(pid):
    lock = os.path.join(COQ, "STATEMENTS.lock")
    want = {}
    if os.path.exists(lock):
        for line in open(lock):
            h, f = line.split()
            want[f] = h
    f = f"Properties/{pid}.v"
    h = hashlib.sha256(open(os.path.join(COQ, f), "rb").read()).hexdigest()
    return want.get(f) == h, h


def print_assumptions(pid, names, root=None):
    """{theorem: [axioms]} via a throw-away file that requires the compiled property file."""
    d = os.path.join(CACHE, "audit" if root is None else "audit-" + str(os.getpid()))
    os.makedirs(d, exist_ok=True)
    path = os.path.join(d, f"Audit_{pid}.v")
    with open(path, "w") as o:
        o.write(f"From Chiri Require Import Properties.{pid}.\n")
        for n in names:
            o.write(f'Goal True. idtac "@@BEGIN {n}". Abort.\nPrint Assumptions {n}.\nGoal True. idtac "@@END {n}". Abort.\n')
    rc, out = sh(["timeout", "300", "coqc", "-noglob", "-Q", root or COQ, "Chiri", "-o", os.path.join(d, f"Audit_{pid}.vo"), path], cwd=d)
    res = {}
    if rc != 0:
        return None, out
    for n in names:
        m = re.search(r"@@BEGIN " + re.escape(n) + r"\n(.*?)@@END " + re.escape(n), out, re.S)
        body = m.group(1) if m else "MISSING"
        if "Closed under the global context" in body:
            res[n] = []
        else:
            res[n] = [l.strip() for l in body.split("\n") if l.strip() and not l.startswith("Axioms:")]
    return res, out


# ------------------------------------------------------------------------------------------------
# executables

def build_model():
    """extracted model + OCaml driver (rebuilt when the extraction changed)"""
    ok, log = coq_make(["Extract/Extract.vo"])
    if not ok:
        raise BuildError("coq extraction failed:\n" + log[-3000:])
    with Lock("ocaml"):
        d = os.path.join(CACHE, "ocaml")
        os.makedirs(d, exist_ok=True)
        srcs = ["model.mli", "model.ml", "driver.ml"]
        h = hashlib.sha256(b"".join(open(os.path.join(ROOT, "ocaml", s), "rb").read() for s in srcs)).hexdigest()
        stamp = os.path.join(d, "stamp")
        if not (os.path.exists(stamp) and open(stamp).read() == h and os.path.exists(os.path.join(d, "driver"))):
            for s in srcs:
                sh(["cp", os.path.join(ROOT, "ocaml", s), d])
            rc, out = sh("ocamlfind ocamlopt -w -a model.mli model.ml driver.ml -o driver", cwd=d)
            if rc != 0:
                raise BuildError("ocaml build failed:\n" + out[-3000:])
            open(stamp, "w").write(h)
    return os.path.join(CACHE, "ocaml", "driver")


def build_harness(release=False):
    """the Rust harness against /repo's current working tree (cargo decides what is stale)"""
    with Lock("cargo"):
        h = os.path.join(ROOT, "harness")
        sh(["cp", os.path.join(REPO, "Cargo.lock"), os.path.join(h, "Cargo.lock")])
        cmd = ["cargo", "build", "--offline", "-q"] + (["--release"] if release else [])
        rc, out = sh(cmd, cwd=h, timeout=1200)
        if rc != 0:
            return None, out
        return os.path.join(CACHE, "harness-target", "release" if release else "debug", "vharness"), out


def build_cli():
    with Lock("cargo"):
        env = dict(ENV, CARGO_TARGET_DIR=os.path.join(CACHE, "cli-target"))
        rc, out = sh(["cargo", "build", "--offline", "-q", "-p", "chiritori-cli"], cwd=REPO, timeout=1200, env=env)
        if rc != 0:
            return None, out
        return os.path.join(CACHE, "cli-target", "debug", "chiritori"), out


# ------------------------------------------------------------------------------------------------
# differential runs

def run_sharded(exe, case_lines, workdir, tag):
    """runs exe over the cases split in NPROC shards; returns {case id: {stage: payload}}"""
    os.makedirs(workdir, exist_ok=True)
    n = max(1, min(NPROC, len(case_lines) // 50 + 1))
    files = []
    for i in range(n):
        p = os.path.join(workdir, f"{tag}.{i}.cases")
        with open(p, "w") as o:
            for line in case_lines[i::n]:
                o.write(line + "\n")
        files.append(p)
    # the results are functions of the case alone: every second shard runs in a different process environment
    # (time zone, locale, colour conventions), so a dependence on it shows as a disagreement with the model / oracle
    def shard_env(i):
        env = dict(os.environ)
        if os.environ.get("VERIF_SHARD_ENV"):      # a replay runs its one case under each variant in turn
            i = int(os.environ["VERIF_SHARD_ENV"])
        if i % 2 == 1:
            env.update({"TZ": "America/Los_Angeles", "LANG": "ja_JP.UTF-8", "LC_ALL": "C", "NO_COLOR": "1", "CLICOLOR": "0", "TERM": "dumb"})
        elif i % 4 == 2:
            env.update({"TZ": "Asia/Tokyo", "CLICOLOR_FORCE": "1", "COLORTERM": "truecolor", "FORCE_COLOR": "3"})
        return env
    procs = [subprocess.Popen([exe, p], stdout=open(p + ".out", "w"), stderr=subprocess.DEVNULL, env=shard_env(i)) for i, p in enumerate(files)]
    rcs = [p.wait() for p in procs]
    res = {}
    for p, rc in zip(files, rcs):
        for line in open(p + ".out", encoding="utf-8", errors="replace"):
            parts = line.rstrip("\n").split(" ", 2)
            if len(parts) < 3:
                continue
            res.setdefault(parts[0], {})[parts[1]] = parts[2]
    return res, rcs


def unhex(h):
    return b"" if h == "-" else bytes.fromhex(h)


def write_json(path, obj):
    os.makedirs(os.path.dirname(path), exist_ok=True)
    tmp = path + ".tmp"
    with open(tmp, "w") as o:
        json.dump(obj, o, indent=1, ensure_ascii=False)
    os.replace(tmp, path)


def source_hashes():
    out = {}
    for base in ("chiritori/src", "chiritori-cli/src"):
        for d, _, fs in os.walk(os.path.join(REPO, base)):
            for f in sorted(fs):
                if f.endswith(".rs"):
                    p = os.path.join(d, f)
                    out[os.path.relpath(p, REPO)] = hashlib.sha256(open(p, "rb").read()).hexdigest()
    return out


def source_drift():
    """Rust source files whose text differs from coq/SOURCE_MAP.json (written by bin/source-map when the
    model was last reconciled with the code)"""
    p = os.path.join(COQ, "SOURCE_MAP.json")
    if not os.path.exists(p):
        return []
    want = json.load(open(p))["files"]
    have = source_hashes()
    return sorted(f for f in set(want) | set(have) if want.get(f) != have.get(f))
