// Correspondence harness: runs the real chiritori crate (built from /repo's working tree) on the
// cases of a case file and prints one canonical line per case and stage.  The OCaml driver of the
// extracted Coq model prints the same lines; they are compared textually.
use chiritori::chiritori::{
    clean, list, list_all, ChiritoriConfiguration, ListFormat, RemovalMarkerConfiguration,
    TimeLimitedConfiguration,
};
use chiritori::code::formatter::{
    block_indent_remover::BlockIndentRemover, empty_line_remover::EmptyLineRemover,
    indent_remover::IndentRemover, next_line_break_remover::NextLineBreakRemover,
    prev_line_break_remover::PrevLineBreakRemover, BlockFormatter, Formatter,
};
use chiritori::code::remover::{
    self,
    marker::{
        availability::{
            range_marker_availability::RangeMarkerAvailability,
            unwrap_block_marker_availability::UnwrapBlockMarkerAvailability,
        },
        builder::{
            range_marker_builder::RangeMarkerBuilder,
            unwrap_block_marker_builder::UnwrapBlockMarkerBuilder,
        },
        factory::RemoveStrategies,
    },
    removal_evaluator::{
        marker_evaluator::MarkerEvaluator, time_limited_evaluator::TimeLimitedEvaluator,
        RemovalEvaluator,
    },
    Remover,
};
use chiritori::code::utils::{
    char_pos_finder::find_next_char_pos,
    line_break_pos_finder::{find_next_line_break_pos, find_prev_line_break_pos},
};
use chiritori::{element_parser, parser, tokenizer};
use chrono::TimeZone;
use std::collections::{HashMap, HashSet};
use std::fmt::Write as _;
use std::io::{BufRead, Write};
use std::panic::{catch_unwind, AssertUnwindSafe};
use std::rc::Rc;

fn unhex(s: &str) -> Vec<u8> {
    if s == "-" {
        return vec![];
    }
    (0..s.len() / 2)
        .map(|i| u8::from_str_radix(&s[2 * i..2 * i + 2], 16).unwrap())
        .collect()
}
fn unhex_str(s: &str) -> String {
    String::from_utf8(unhex(s)).expect("case strings are UTF-8")
}
fn hex(s: &str) -> String {
    if s.is_empty() {
        return "-".to_string();
    }
    let mut o = String::with_capacity(s.len() * 2);
    for b in s.bytes() {
        write!(o, "{:02x}", b).unwrap();
    }
    o
}

fn guard<F: FnOnce() -> String>(f: F) -> String {
    match catch_unwind(AssertUnwindSafe(f)) {
        Ok(s) => s,
        Err(_) => "PANIC".to_string(),
    }
}

struct Cfg {
    tl_tag: String,
    offset: String,
    now: (i64, u32),
    rm_tag: String,
    targets: Vec<String>,
}

fn local(now: (i64, u32)) -> chrono::DateTime<chrono::Local> {
    chrono::Local.timestamp_opt(now.0, now.1).single().expect("timestamp in range")
}

// "<seconds>" or "<seconds>.<nanoseconds, 9 digits>"
fn parse_now(s: &str) -> (i64, u32) {
    match s.split_once('.') {
        Some((a, b)) => (a.parse().unwrap(), b.parse().unwrap()),
        None => (s.parse().unwrap(), 0),
    }
}

fn lib_config(c: &Cfg) -> ChiritoriConfiguration {
    ChiritoriConfiguration {
        time_limited_configuration: TimeLimitedConfiguration {
            tag_name: c.tl_tag.clone(),
            time_offset: c.offset.clone(),
            current: local(c.now),
        },
        removal_marker_configuration: RemovalMarkerConfiguration {
            tag_name: c.rm_tag.clone(),
            targets: c.targets.iter().cloned().collect::<HashSet<_>>(),
        },
    }
}

// Same construction as chiritori.rs::build_remover (which is private); the end-to-end stages
// (clean, list*) go through the real build_remover.
fn remover_of(c: &Cfg, content: Rc<String>) -> Remover {
    let mut m: HashMap<String, Box<dyn RemovalEvaluator>> = HashMap::new();
    m.insert(
        c.tl_tag.clone(),
        Box::new(TimeLimitedEvaluator { current_time: local(c.now), time_offset: c.offset.clone() }),
    );
    m.insert(
        c.rm_tag.clone(),
        Box::new(MarkerEvaluator {
            marker_removal_names: c.targets.iter().cloned().collect::<HashSet<_>>(),
        }),
    );
    let strategies: RemoveStrategies = vec![
        (
            Box::new(UnwrapBlockMarkerAvailability::new("unwrap-block")),
            Box::new(UnwrapBlockMarkerBuilder { content }),
        ),
        (Box::new(RangeMarkerAvailability::default()), Box::new(RangeMarkerBuilder::default())),
    ];
    Remover::new(m, strategies)
}

fn fmt_tokens(tokens: &[tokenizer::Token]) -> String {
    let mut o = String::new();
    for t in tokens {
        let k = match t.kind {
            tokenizer::TokenKind::Element(_) => 'E',
            tokenizer::TokenKind::Text => 'T',
        };
        write!(o, "{}:{}:{}:{}:{}:{};", k, t.start, t.byte_start, t.end, t.byte_end, hex(t.value)).unwrap();
    }
    if o.is_empty() { o.push('.'); }
    o
}

fn fmt_element(el: &Option<element_parser::Element>) -> String {
    match el {
        None => "N".to_string(),
        Some(el) => {
            let mut o = format!("S{}", hex(el.name));
            for a in &el.attrs {
                match a.value {
                    Some(v) => write!(o, ";{}={}", hex(a.name), hex(v)).unwrap(),
                    None => write!(o, ";{}", hex(a.name)).unwrap(),
                }
            }
            o
        }
    }
}

fn fmt_parts(parts: &[parser::ContentPart], o: &mut String) {
    for p in parts {
        match p {
            parser::ContentPart::Text(t) => write!(o, "T{} ", t.token.byte_start).unwrap(),
            parser::ContentPart::Element(e) => {
                write!(o, "E{}-{}[ ", e.start_token.byte_start, e.end_token.byte_start).unwrap();
                fmt_parts(&e.children, o);
                o.push_str("] ");
            }
        }
    }
}

fn fmt_pair(p: &Option<usize>) -> String {
    match p {
        Some(i) => i.to_string(),
        None => "n".to_string(),
    }
}

fn fmt_range2(r: (usize, usize)) -> String {
    format!("{}-{}", r.0, r.1)
}

fn doc_case(id: &str, f: &[&str], out: &mut String) {
    let ds = unhex_str(f[0]);
    let de = unhex_str(f[1]);
    let src = Rc::new(unhex_str(f[2]));
    let cfg = Cfg {
        tl_tag: unhex_str(f[3]),
        offset: unhex_str(f[4]),
        now: parse_now(f[5]),
        rm_tag: unhex_str(f[6]),
        targets: if f[7] == "." { vec![] } else { f[7].split(',').map(unhex_str).collect() },
    };

    let tok = guard(|| fmt_tokens(&tokenizer::tokenize(&src, &ds, &de)));
    writeln!(out, "{id} tok {tok}").unwrap();

    let tag = guard(|| {
        let tokens = tokenizer::tokenize(&src, &ds, &de);
        let mut o = String::new();
        for t in &tokens {
            if let tokenizer::TokenKind::Element(_) = t.kind {
                let e = guard(|| fmt_element(&element_parser::parse(t)));
                write!(o, "{}:{} ", t.byte_start, e).unwrap();
            }
        }
        if o.is_empty() { o.push('.'); }
        o
    });
    writeln!(out, "{id} tag {tag}").unwrap();

    let tree = guard(|| {
        let tokens = tokenizer::tokenize(&src, &ds, &de);
        let parsed = parser::parse(&tokens);
        let mut o = String::new();
        fmt_parts(&parsed, &mut o);
        if o.is_empty() { o.push('.'); }
        o
    });
    writeln!(out, "{id} tree {tree}").unwrap();

    let markers = guard(|| {
        let tokens = tokenizer::tokenize(&src, &ds, &de);
        let parsed = parser::parse(&tokens);
        let remover = remover_of(&cfg, src.clone());
        let ms = remover.build_remove_marker(&parsed);
        let mut o = String::new();
        for (r, p) in &ms {
            write!(o, "{}-{}:{} ", r.start, r.end, fmt_pair(p)).unwrap();
        }
        if o.is_empty() { o.push('.'); }
        o
    });
    writeln!(out, "{id} markers {markers}").unwrap();

    let markers_all = guard(|| {
        let tokens = tokenizer::tokenize(&src, &ds, &de);
        let parsed = parser::parse(&tokens);
        let remover = remover_of(&cfg, src.clone());
        let ms = remover.build_remove_marker_all(&parsed);
        let mut o = String::new();
        for ((r, p), ready) in &ms {
            write!(o, "{}-{}:{}:{} ", r.start, r.end, fmt_pair(p), if *ready { 'R' } else { 'P' }).unwrap();
        }
        if o.is_empty() { o.push('.'); }
        o
    });
    writeln!(out, "{id} markers_all {markers_all}").unwrap();

    // removed text, removed positions, the four seam formatters and the block formatter at them
    let removed = catch_unwind(AssertUnwindSafe(|| {
        let tokens = tokenizer::tokenize(&src, &ds, &de);
        let parsed = parser::parse(&tokens);
        let remover = remover_of(&cfg, src.clone());
        let (removed, markers) = remover.remove(parsed, &src);
        let rpos = remover::get_removed_pos(&markers);
        (removed, rpos)
    }));
    match removed {
        Err(_) => {
            writeln!(out, "{id} removed PANIC").unwrap();
        }
        Ok((removed, rpos)) => {
            let mut o = String::new();
            for (p, pi) in &rpos {
                write!(o, "{}:{} ", p, fmt_pair(pi)).unwrap();
            }
            if o.is_empty() { o.push('.'); }
            writeln!(out, "{id} removed {} {}", hex(&removed), o).unwrap();
            let mut o = String::new();
            for (p, _) in &rpos {
                write!(o, "{}:{} ", p, seam4(&removed, *p)).unwrap();
            }
            if o.is_empty() { o.push('.'); }
            writeln!(out, "{id} seam {o}").unwrap();
            let mut o = String::new();
            for (p, pi) in &rpos {
                if let Some(pi) = pi {
                    if let Some((ps, _)) = rpos.get(*pi) {
                        if p < ps {
                            write!(o, "{}-{}:{} ", p, ps, block(&removed, *p, *ps)).unwrap();
                        }
                    } else {
                        write!(o, "{}:BADIDX ", p).unwrap();
                    }
                }
            }
            if o.is_empty() { o.push('.'); }
            writeln!(out, "{id} block {o}").unwrap();
        }
    }

    let d = (ds.clone(), de.clone());
    let c = guard(|| hex(&clean(src.clone(), d.clone(), lib_config(&cfg))));
    writeln!(out, "{id} clean {c}").unwrap();
    let c = guard(|| hex(&list(src.clone(), d.clone(), lib_config(&cfg), ListFormat::JSON).unwrap()));
    writeln!(out, "{id} list_json {c}").unwrap();
    let c = guard(|| hex(&list(src.clone(), d.clone(), lib_config(&cfg), ListFormat::PrettyString).unwrap()));
    writeln!(out, "{id} list_pretty {c}").unwrap();
    let c = guard(|| hex(&list_all(src.clone(), d.clone(), lib_config(&cfg), ListFormat::JSON).unwrap()));
    writeln!(out, "{id} lista_json {c}").unwrap();
    let c = guard(|| hex(&list_all(src.clone(), d.clone(), lib_config(&cfg), ListFormat::PrettyString).unwrap()));
    writeln!(out, "{id} lista_pretty {c}").unwrap();
}

fn seam4(content: &str, pos: usize) -> String {
    let fs: Vec<Box<dyn Formatter>> = vec![
        Box::new(IndentRemover {}),
        Box::new(EmptyLineRemover {}),
        Box::new(PrevLineBreakRemover {}),
        Box::new(NextLineBreakRemover {}),
    ];
    fs.iter()
        .map(|f| guard(|| fmt_range2(f.format(content, pos))))
        .collect::<Vec<_>>()
        .join(",")
}

fn block(content: &str, a: usize, b: usize) -> String {
    guard(|| {
        let rs = BlockIndentRemover {}.format(content, a, b);
        let mut o = String::from("[");
        for r in rs {
            write!(o, "{}-{},", r.start, r.end).unwrap();
        }
        o.push(']');
        o
    })
}

fn fmt_opt(o: Option<usize>) -> String {
    match o {
        Some(v) => v.to_string(),
        None => "n".to_string(),
    }
}

fn formatter_case(id: &str, f: &[&str], out: &mut String) {
    let content = unhex_str(f[0]);
    let pos: usize = f[1].parse().unwrap();
    let pos2: usize = f[2].parse().unwrap();
    writeln!(out, "{id} seam4 {}", seam4(&content, pos)).unwrap();
    writeln!(out, "{id} blk {}", block(&content, pos, pos2)).unwrap();
    let b = content.as_bytes();
    let finders = [
        guard(|| fmt_opt(find_next_line_break_pos(&content, b, pos, true))),
        guard(|| fmt_opt(find_next_line_break_pos(&content, b, pos, false))),
        guard(|| fmt_opt(find_prev_line_break_pos(&content, b, pos, true))),
        guard(|| fmt_opt(find_prev_line_break_pos(&content, b, pos, false))),
        guard(|| fmt_opt(find_next_char_pos(&content, b, pos))),
    ];
    writeln!(out, "{id} find {}", finders.join(",")).unwrap();
}

fn attr_field<'a>(name: &'a str, f: &'a str, store: &'a mut String) -> Vec<element_parser::Attribute<'a>> {
    if f == "N" {
        vec![]
    } else if f == "V" {
        vec![element_parser::Attribute { name, value: None }]
    } else {
        *store = unhex_str(&f[1..]);
        vec![element_parser::Attribute { name, value: Some(store.as_str()) }]
    }
}

fn time_case(id: &str, f: &[&str], out: &mut String) {
    let mut store = String::new();
    let attrs = attr_field("to", f[0], &mut store);
    let el = element_parser::Element { name: "t", attrs };
    let ev = TimeLimitedEvaluator { current_time: local(parse_now(f[2])), time_offset: unhex_str(f[1]) };
    let r = guard(|| if ev.is_removal(&el) { "1".into() } else { "0".into() });
    writeln!(out, "{id} evalt {r}").unwrap();
}

// R <id> <hex text>: the expression main.rs applies to --time-limited-current
fn current_case(id: &str, f: &[&str], out: &mut String) {
    let text = unhex_str(f[0]);
    let r = guard(|| match text.parse::<chrono::DateTime<chrono::Local>>() {
        Ok(t) => format!("{}:{}", t.timestamp(), if t.timestamp_subsec_nanos() >= 1_000_000_000 { 1 } else { 0 }),
        Err(_) => "none".to_string(),
    });
    writeln!(out, "{id} cur {r}").unwrap();
}

fn marker_case(id: &str, f: &[&str], out: &mut String) {
    let mut store = String::new();
    let attrs = attr_field("name", f[0], &mut store);
    let el = element_parser::Element { name: "m", attrs };
    let targets: HashSet<String> = if f[1] == "." { HashSet::new() } else { f[1].split(',').map(unhex_str).collect() };
    let ev = MarkerEvaluator { marker_removal_names: targets };
    let r = guard(|| if ev.is_removal(&el) { "1".into() } else { "0".into() });
    writeln!(out, "{id} evalm {r}").unwrap();
}

fn main() {
    std::panic::set_hook(Box::new(|_| {}));
    let path = std::env::args().nth(1).expect("case file");
    let file = std::fs::File::open(path).expect("open case file");
    let stdout = std::io::stdout();
    let mut w = std::io::BufWriter::new(stdout.lock());
    for line in std::io::BufReader::new(file).lines() {
        let line = line.unwrap();
        let f: Vec<&str> = line.split(' ').collect();
        if f.len() < 2 {
            continue;
        }
        let mut out = String::new();
        match f[0] {
            "D" => doc_case(f[1], &f[2..], &mut out),
            "F" => formatter_case(f[1], &f[2..], &mut out),
            "T" => time_case(f[1], &f[2..], &mut out),
            "M" => marker_case(f[1], &f[2..], &mut out),
            "R" => current_case(f[1], &f[2..], &mut out),
            _ => {}
        }
        w.write_all(out.as_bytes()).unwrap();
    }
}
