"""Case generators for the correspondence check.  Every random choice comes from one random.Random
seeded by the caller, so a run replays exactly from (seed, property, tier)."""
import itertools
import glob
import os

NOW = 1_000_000_000  # 2001-09-09T01:46:40Z  (a Cfg's `now` may also be a string "<seconds>.<nanoseconds>")

DELIMS = [
    ("<", ">"),
    ("<!-- <", "> -->"),
    ("/* <", "> */"),
    ("// --", "-- //"),
    ("aab", "bba"),
    ("|", "|"),
    ("《", "》"),
    ("<<", ">>"),
    ("[%", "%]"),
    ("(*", "*)"),
    ("#{ ", " }#"),
    ("$$", "$$"),
    ("é<", ">é"),
    ("<", "-->"),
    ("|", "】】"),
    ("[", "]]]]]]]]"),
    ("<!~ <", "<"),
    ("{{{{{", "}"),
]

TAGNAMES = [("time-limited", "removal-marker"), ("tl", "rm"), ("期限", "目印"), ("a", "b")]


def offset_minutes(off):
    """minutes east of UTC of a '+HH:MM' / '+HHMM' offset string (0 when it is not of that form)"""
    import re as _re
    m = _re.fullmatch(r"([+-])(\d\d):?(\d\d)", off or "")
    if not m:
        return 0
    v = int(m.group(2)) * 60 + int(m.group(3))
    return -v if m.group(1) == "-" else v


def hx(s):
    b = s.encode("utf-8") if isinstance(s, str) else bytes(s)
    return b.hex() if b else "-"


class Cfg:
    def __init__(self, tl="tl", rm="rm", offset="+00:00", now=NOW, targets=("x", "feature1")):
        self.tl, self.rm, self.offset, self.now, self.targets = tl, rm, offset, now, tuple(targets)

    def fields(self):
        t = ",".join(hx(x) for x in self.targets) if self.targets else "."
        return f"{hx(self.tl)} {hx(self.offset)} {self.now} {hx(self.rm)} {t}"


def dcase(cid, ds, de, src, cfg):
    return f"D {cid} {hx(ds)} {hx(de)} {hx(src)} {cfg.fields()}"


def tcase(cid, to, offset, now):
    """to: None (no attribute), True (attribute without value) or a string"""
    f = "N" if to is None else ("V" if to is True else "=" + (hx(to) if to else ""))
    return f"T {cid} {f} {hx(offset)} {now}"


def mcase(cid, name, targets):
    f = "N" if name is None else ("V" if name is True else "=" + (hx(name) if name else ""))
    t = ",".join(hx(x) for x in targets) if targets else "."
    return f"M {cid} {f} {t}"


def fcase(cid, content, pos, pos2):
    return f"F {cid} {hx(content)} {pos} {pos2}"


# ------------------------------------------------------------------------------------------------
# time strings

def civil(ts):
    """UTC civil fields of an epoch second (proleptic Gregorian), independent of the model."""
    days, rem = divmod(ts, 86400)
    h, rem = divmod(rem, 3600)
    mi, s = divmod(rem, 60)
    z = days + 719468
    era = z // 146097
    doe = z - era * 146097
    yoe = (doe - doe // 1460 + doe // 36524 - doe // 146096) // 365
    y = yoe + era * 400
    doy = doe - (365 * yoe + yoe // 4 - yoe // 100)
    mp = (5 * doy + 2) // 153
    d = doy - (153 * mp + 2) // 5 + 1
    m = mp + 3 if mp < 10 else mp - 9
    if m <= 2:
        y += 1
    return y, m, d, h, mi, s


def render_to(ts_local):
    y, m, d, h, mi, s = civil(ts_local)
    return f"{y:04d}-{m:02d}-{d:02d} {h:02d}:{mi:02d}:{s:02d}"


def offset_str(minutes, colon=True):
    sign = "+" if minutes >= 0 else "-"
    a = abs(minutes)
    return f"{sign}{a // 60:02d}:{a % 60:02d}" if colon else f"{sign}{a // 60:02d}{a % 60:02d}"


EXPIRED = 'to="2000-01-01 00:00:00"'
FUTURE = 'to="2100-01-01 00:00:00"'

# ------------------------------------------------------------------------------------------------
# AST documents

WORDS = ["\u0130stanbul", "273 \u212a", "C:\\", "foo", "bar();", "x = 1", "あいう", "é", "😀", "if (a) {", "}", "return", "// c", "a<b", "q", "み¿ÿ", "タグ\ufeff", "🙿"]

# characters whose UTF-8 encodings sit on the boundaries of the byte classes (continuation bytes 0x80 and
# 0xBF, first / last code point of every encoded length)
BOUNDARY_CHARS = ["\u0080", "\u00bf", "\u00c0", "\u00ff", "\u07ff", "\u0800", "\u0fff", "\u1000", "\u307f", "\u30bf", "\ud7ff",
                  "\ue000", "\ufeff", "\uffff", "\U00010000", "\U0001f63f", "\U0003ffff", "\U00040000", "\U0010ffff", "\x7f", "\x00",
                  # characters whose lower- / upper-case form has another UTF-8 length
                  "\u0130", "\u212a", "\u212b", "\u1e9e", "\u023a", "\u00df", "\u0149"]


class DocGen:
    """Block / inline / nested / unwrap documents.  `kinds` are the readiness kinds an element may
    take; the generator records which elements it made so the input distribution can be reported."""

    def __init__(self, rng, ds, de, cfg, safe_text=True, unit=None):
        self.rng, self.ds, self.de, self.cfg = rng, ds, de, cfg
        self.unit = unit or rng.choice(["  ", "    ", "\t", "  ", "\t", " \t"])
        self.safe_text = safe_text
        self.strict_unwrap = False
        self.multiline_close = 0.0
        self.multiline_open = 0.0
        self.tagline_inline = 0.0     # probability of a whole inline element on a tag line of an unwrap-block
        self.blank_wrappers = 0.0     # probability that a wrapper line of an unwrap-block is blank
        self.used_blank_wrapper = False
        self.stats = {"elements": 0, "ready": 0, "pending": 0, "skip": 0, "unreg": 0, "unwrap": 0,
                      "inline": 0, "depth": 0}

    def word(self):
        w = self.rng.choice(WORDS)
        if self.safe_text:
            for ch in set(self.ds + self.de):
                if ch not in " ":
                    w = w.replace(ch, "_")
        return w or "w"

    def code_line(self, ind):
        n = self.rng.randint(1, 3)
        return ind + " ".join(self.word() for _ in range(n))

    def tag_body(self, kind, unwrap):
        r = self.rng
        cfg = self.cfg
        if kind == "ready_tl":
            name, attrs = cfg.tl, [EXPIRED]
        elif kind == "pending_tl":
            name, attrs = cfg.tl, [FUTURE]
        elif kind == "ready_rm":
            name, attrs = cfg.rm, [f'name="{cfg.targets[0]}"' if cfg.targets else 'name="zz"']
        elif kind == "pending_rm":
            name, attrs = cfg.rm, ['name="other"']
        elif kind == "skip":
            name, attrs = cfg.tl, [EXPIRED, r.choice(["skip", "skip", "skip", "skip=''", 'skip="x"'])]
        else:
            name, attrs = "unregistered", [EXPIRED]
        if unwrap:
            attrs.append(r.choice(["unwrap-block"] * 6 + ['unwrap-block="true"', "unwrap-block=''", "unwrap-block=1"]))
        if r.random() < 0.2:
            attrs.append(r.choice(['c="a comment"', 'c="a comment"', 'c="C:\\docs\\"', "c='x\\'", 'c="期限切れ"', "c='🧹'"]))
        r.shuffle(attrs)
        return name, attrs

    def open_tag(self, name, attrs, single_line=False):
        r = self.rng
        sep = " " if (single_line or r.random() < 0.85) else r.choice(["  ", "\n", "\n  "])
        pad = "" if (self.ds[-1:] != " " and r.random() < 0.5) else " "
        pad2 = "" if r.random() < 0.5 else " "
        if not single_line and self.multiline_open and r.random() < self.multiline_open:
            pad2 = r.choice(["\n", "\n", " \n", "\n "])      # the end delimiter on a line of its own
        body = name
        for k, a in enumerate(attrs):
            # an attribute glued to the closing quote of the value in front of it is still an attribute
            glued = k > 0 and attrs[k - 1][-1:] in ('"', "'") and r.random() < 0.06
            if "=" in a and a[-1:] in ('"', "'") and r.random() < 0.06:
                # white space around the '=' of a quoted value (HTML style): the same attribute
                n, v = a.split("=", 1)
                a = n + r.choice([" =", "= ", " = ", "  =  "]) + v
            body += ("" if glued else sep) + a
        return self.ds + self.doubled() + pad + body + pad2 + self.de

    def trail(self):
        """rarely blanks or tabs at the end of a wrapper line of an unwrap-block (they belong to the removed region)"""
        if self.strict_unwrap or self.rng.random() >= 0.15:
            return ""
        return self.rng.choice(["  ", " ", "\t", " \t "])

    def doubled(self):
        """rarely a second copy of the start delimiter in front of the tag body (`<<marker …>`, `[[marker]]`): the tag
        parser strips every leading copy"""
        return self.ds if (self.rng.random() < 0.03 and not self.strict_unwrap) else ""

    def close_tag(self, name):
        pad = "" if self.rng.random() < 0.5 else " "
        pad2 = pad
        if self.multiline_close and self.rng.random() < self.multiline_close:
            pad2 = self.rng.choice(["\n", "\n ", " \n", "\n\n"])     # a closing tag that spans lines
        return self.ds + self.doubled() + pad + "/" + name + pad2 + self.de

    def pick_kind(self, kinds):
        k = self.rng.choice(kinds)
        self.stats["elements"] += 1
        if k.startswith("ready"):
            self.stats["ready"] += 1
        elif k.startswith("pending"):
            self.stats["pending"] += 1
        elif k == "skip":
            self.stats["skip"] += 1
        else:
            self.stats["unreg"] += 1
        return k

    def block(self, depth, ind, kinds, p_unwrap, max_items=4):
        """list of lines"""
        r = self.rng
        self.stats["depth"] = max(self.stats["depth"], depth)
        out = []
        for _ in range(r.randint(1, max_items)):
            c = r.random()
            if c < 0.35 or depth >= 3:
                out.append(self.code_line(ind))
            elif c < 0.5:
                for _ in range(r.randint(1, 3)):
                    out.append("" if r.random() < 0.7 else ind)
            elif c < 0.6:
                # one to three inline elements inside a code line
                line = ind + self.word() + " "
                for _ in range(r.choice([1, 1, 1, 2, 3])):
                    k = self.pick_kind(kinds)
                    self.stats["inline"] += 1
                    name, attrs = self.tag_body(k, False)
                    line += self.open_tag(name, attrs) + self.word() + self.close_tag(name) + r.choice([" ", ", ", "", "\t", "\t// c ", " \t"]) \
                        + (self.word() + " " if r.random() < 0.5 else "")
                out.append(line.rstrip(" "))
            else:
                k = self.pick_kind(kinds)
                unwrap = r.random() < p_unwrap
                name, attrs = self.tag_body(k, unwrap)
                otag = ind + self.open_tag(name, attrs)
                if unwrap and self.tagline_inline and r.random() < self.tagline_inline:
                    k3 = self.pick_kind(kinds)
                    n3, a3 = self.tag_body(k3, False)
                    otag += " " + self.open_tag(n3, a3, True) + " note " + self.close_tag(n3)
                out.append(otag)
                if unwrap:
                    self.stats["unwrap"] += 1
                    nbody = r.choice([0, 1, 1, 2, 2, 3])
                    wrappers = 2 if self.strict_unwrap else r.choice([2, 2, 2, 2, 1, 0])
                    if self.strict_unwrap and r.random() < 0.25:
                        # degenerate but legal: a single body line (possibly with an inline element), no wrapper lines:
                        # the block cannot be unwrapped and no tag sits on a wrapper line
                        if r.random() < 0.6:
                            k2 = self.pick_kind(kinds)
                            self.stats["inline"] += 1
                            n2, a2 = self.tag_body(k2, False)
                            out.append(ind + self.unit + self.word() + "(" + self.open_tag(n2, a2, True) + self.word() + self.close_tag(n2) + ");")
                        else:
                            out.append(self.code_line(ind + self.unit))
                        out.append(ind + self.close_tag(name))
                        continue
                    if wrappers >= 1:
                        if self.blank_wrappers and r.random() < self.blank_wrappers:
                            self.used_blank_wrapper = True
                            out.append(r.choice(["", ind, ind + self.unit]))
                        else:
                            out.append(ind + "if (" + self.word() + ") {" + self.trail())
                    if nbody:
                        out.extend(self.block(depth + 1, ind + self.unit, kinds, p_unwrap, nbody))
                    if wrappers >= 2:
                        if self.blank_wrappers and r.random() < self.blank_wrappers:
                            self.used_blank_wrapper = True
                            out.append(r.choice(["", ind]))
                        else:
                            out.append(ind + "}" + self.trail())
                else:
                    if r.random() < 0.9:
                        out.extend(self.block(depth + 1, ind if r.random() < 0.5 else ind + self.unit,
                                              kinds, p_unwrap, 3))
                out.append(ind + self.close_tag(name))
        return out

    def document(self, kinds, p_unwrap=0.3):
        r = self.rng
        ind = r.choice(["", "", self.unit])
        lines = self.block(0, ind, kinds, p_unwrap, r.randint(1, 5))
        s = "\n".join(lines)
        if r.random() < 0.6:
            s += "\n"
        return s


ALL_KINDS = ["ready_tl", "ready_tl", "pending_tl", "ready_rm", "pending_rm", "skip", "unreg"]


def mutate(rng, s, ds, de, n=None):
    atoms = list(dict.fromkeys(list(ds) + list(de))) + [" ", "\n", "\t", "a", "=", '"', "'", "/", "é", "あ", "😀",
                                                        ds, de, "skip", "unwrap-block"]
    chars = list(s)
    for _ in range(n or rng.randint(1, 4)):
        if not chars or rng.random() < 0.5:
            chars.insert(rng.randint(0, len(chars)), rng.choice(atoms))
        else:
            i = rng.randrange(len(chars))
            j = min(len(chars), i + rng.randint(1, 3))
            del chars[i:j]
    return "".join(chars)


def atoms_for(ds, de):
    a = list(dict.fromkeys(list(ds) + list(de)))
    for x in [" ", "\n", "a", "é", "あ", "😀", "=", '"', "/"]:
        if x not in a:
            a.append(x)
    return a


def exhaustive_strings(atoms, max_len):
    for n in range(0, max_len + 1):
        for t in itertools.product(atoms, repeat=n):
            yield "".join(t)


def corpus_docs():
    """fixtures of the repository and the recorded witnesses"""
    docs = []
    for p in sorted(glob.glob("/repo/chiritori/src/integration-test-fixtures/*.input.js")):
        try:
            docs.append(("<!-- <", "> -->", open(p, encoding="utf-8").read(), Cfg("time-limited", "removal-marker")))
        except OSError:
            pass
    e, f = EXPIRED, FUTURE
    c = Cfg()
    w = [
        ("<", ">", "x<aあ"), ("<", ">", "aあ"), ("<", ">", "a< >b"), ("<!-- <", "> -->", "a<!-- < > -->b"),
        ("<", ">", f"a\n<tl {e} unwrap-block>\n{{ <tl {e}>\nx\n</tl> }}\n</tl>\nb"),
        ("/* <", "> */", f"//* <tl {e}> */x/* </tl> */"),
        ("<!-- <", "> -->", f"<<!-- <tl {e}> -->x<!-- </tl> -->"),
        ("<!-- <", "> -->", f"<!-- <tl {e}> --->x<!-- </tl> -->"),
        ("<", ">", f"a<tl {e}\nskip>x</tl>b"), ("<", ">", f"a<tl {e} \nskip>x</tl>b"),
        ("<", ">", f"a\n<tl {e}\nunwrap-block>\n{{\ny\n}}\n</tl>\nb"),
        ("<", ">", f"a\n<tl {e} unwrap-block>\n{{\n}}\n</tl>\nb"),
        ("<", ">", f"foo(<tl {e} unwrap-block>\n{{\n}}\n</tl>)"),
        ("<", ">", f"a\n<tl {e} unwrap-block>\n{{\n  <tl {e} unwrap-block>\n  {{\n    x\n  }}\n  </tl>\n}}\n</tl>\nb"),
        ("<", ">", f"a\n<tl {e} unwrap-block>\n{{\n  <tl {e} unwrap-block>\n  {{\n    <tl {e} unwrap-block>\n    {{\n      x\n    }}\n    </tl>\n  }}\n  </tl>\n}}\n</tl>\nb"),
        ("<", ">", f"  <tl {e}>\n  x\n  </tl>\n  foo"),
        ("<", ">", f"a\n  q<tl {e} unwrap-block>\n{{ <tl {e}>\nx\n</tl>あ y\n    z\n}}\n</tl>\nb"),
        ("<", ">", f"\n<tl {e}>\nx\n</tl>\nfoo"),
        ("<", ">", f"<tl {f}>\na\n</tl>\n<tl {f}>\nb\n</tl>\n<tl {e}>\nc\n</tl>\n"),
        ("<", ">", f"<tl {e}>\n<tl {f}>\na\n</tl>\n<tl {f}>\nb\n</tl>\n</tl>\n<tl {f}>\n<tl {e}>\nc\n</tl>\n</tl>\n"),
        ("<", ">", "a<rm name='x'>b</rm>c<rm name='X'>d</rm><rm name='xx'>e</rm><rm name=''>f</rm>"),
        ("<", ">", f"/* < tl to=\"2001-01-03 23:59:59\"\n * c=\"New Year's greetings.\"\n * > */\n<h1>x</h1>\n/* < /tl > */\n"),
        ("/* <", "> */", f"/* < tl to=\"2001-01-03 23:59:59\"\n * c=\"New Year's greetings = 'skip' unwrap-block /* < .\"\n * > */\n<h1>x</h1>\n/* < /tl > */\n"),
    ]
    w += [
        # several ready elements on the wrapper line of an unwrap-block, a nested unwrap-block, indented code behind it
        # and one more removal (the pair index of the nested opener)
        ("<", ">", f"head\n<tl {e} unwrap-block>\n{{ <tl {e}>a</tl> <tl {e}>b</tl>\n  keep1\n  <tl {e} unwrap-block>\n  {{\n    inner\n  }}\n  </tl>\n}}\n</tl>\n"
                   f"class X {{\n    fn a() {{\n        deep\n    }}\n}}\n<tl {e}>gone</tl>\ntail\n"),
        # a name followed by a word that begins with a quote (a forgotten '='): a valueless attribute and another name
        ("/* <", "> */", f"let a = 1;\n/* <rm name=\"x\"> */\nlet b = 2;\n/* </rm> */\n/* <tl to \"2001-01-01 00:00:00\"> */\nlet c = 3;\n/* </tl> */\n"
                         f"/* <rm name 'x'> */\nlet d = 4;\n/* </rm> */\nlet e = 5;\n"),
        # the whole file is one element
        ("<", ">", f"<tl {e}></tl>"), ("<", ">", f"<tl {f}><tl {e}>old</tl></tl>"), ("<", ">", f"<tl {e}>x</tl>"),
    ]
    for ds, de, s in w:
        docs.append((ds, de, s, c))
    return docs
