use chiritori::chiritori::*;
use std::collections::HashSet;
use std::rc::Rc;
use chrono::TimeZone;
fn cfg(targets: &[&str]) -> ChiritoriConfiguration {
    ChiritoriConfiguration {
        time_limited_configuration: TimeLimitedConfiguration { tag_name: "tl".into(), time_offset: "+00:00".into(), current: chrono::Local.timestamp_opt(1_000_000_000, 0).unwrap() },
        removal_marker_configuration: RemovalMarkerConfiguration { tag_name: "rm".into(), targets: targets.iter().map(|s| s.to_string()).collect::<HashSet<_>>() },
    }
}
fn run(name: &str, src: &str, ds: &str, de: &str) {
    let s = src.to_string(); let ds=ds.to_string(); let de=de.to_string();
    let r = std::panic::catch_unwind(move || clean(Rc::new(s), (ds, de), cfg(&["x"])));
    println!("{name}: clean {:?}", r.map_err(|_| "PANIC"));
}
fn runl(name: &str, src: &str, ds: &str, de: &str) {
    let s = src.to_string(); let ds=ds.to_string(); let de=de.to_string();
    let r = std::panic::catch_unwind(move || list_all(Rc::new(s), (ds, de), cfg(&["x"]), ListFormat::JSON).unwrap());
    println!("{name}: list_all {:?}", r.map_err(|_| "PANIC"));
}
fn main() {
    std::panic::set_hook(Box::new(|_| {}));
    let e = "to=\"2000-01-01 00:00:00\"";
    let f = "to=\"2100-01-01 00:00:00\"";
    run("P1", "x<aあ", "<", ">");
    run("P2", "a< >b", "<", ">");
    run("P3", &format!("a\n<tl {e} unwrap-block>\n{{ <tl {e}>\nx\n</tl> }}\n</tl>\nb"), "<", ">");
    run("F4", &format!("//* <tl {e}> */x/* </tl> */"), "/* <", "> */");
    run("F5", &format!("a<tl {e}\nskip>x</tl>b"), "<", ">");
    run("F7", &format!("a\n<tl {e} unwrap-block>\n{{\n}}\n</tl>\nb"), "<", ">");
    run("F7b", &format!("foo(<tl {e} unwrap-block>\n{{\n}}\n</tl>)"), "<", ">");
    run("F8", &format!("a\n<tl {e} unwrap-block>\n{{\n  <tl {e} unwrap-block>\n  {{\n    x\n  }}\n  </tl>\n}}\n</tl>\nb"), "<", ">");
    run("F8c", &format!("a\n<tl {e} unwrap-block>\n{{\n  <tl {e} unwrap-block>\n  {{\n    <tl {e} unwrap-block>\n    {{\n      x\n    }}\n    </tl>\n  }}\n  </tl>\n}}\n</tl>\nb"), "<", ">");
    run("F9", &format!("  <tl {e}>\n  x\n  </tl>\n  foo"), "<", ">");
    runl("F9l", &format!("\n<tl {e}>\nx\n</tl>\nfoo"), "<", ">");
    runl("F10", &format!("<tl {f}>\na\n</tl>\n<tl {f}>\nb\n</tl>\n<tl {e}>\nc\n</tl>\n"), "<", ">");
}
