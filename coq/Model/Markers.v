(** Model of chiritori/src/code/remover.rs, remover/marker/**, remover/removal_evaluator/**,
    and of build_remover in chiritori.rs. *)
From Coq Require Import List NArith ZArith Arith Bool Lia.
Import ListNotations.
From Chiri Require Import Base.Bytes Base.Res Model.Tokenizer Model.TagParser Model.TreeParser
     Model.Chrono Model.Finders.

Record config := mkConfig {
  tl_tag : str;          (* time_limited_configuration.tag_name *)
  tl_offset : str;       (* time_limited_configuration.time_offset *)
  now : Z;               (* time_limited_configuration.current, seconds since the epoch *)
  rm_tag : str;          (* removal_marker_configuration.tag_name *)
  targets : list str     (* removal_marker_configuration.targets *)
}.

Definition S_TO : str := [116; 111]%N.                                    (* "to" *)
Definition S_NAME : str := [110; 97; 109; 101]%N.                         (* "name" *)
Definition S_SKIP : str := [115; 107; 105; 112]%N.                        (* "skip" *)
Definition S_UNWRAP : str := [117; 110; 119; 114; 97; 112; 45; 98; 108; 111; 99; 107]%N. (* "unwrap-block" *)

Definition find_attr (name : str) (attrs : list (str * option str)) : option (str * option str) :=
  find (fun a => str_eqb (fst a) name) attrs.
Definition has_attr (name : str) (attrs : list (str * option str)) : bool :=
  existsb (fun a => str_eqb (fst a) name) attrs.

(** TimeLimitedEvaluator::is_removal *)
Definition time_is_removal (offset : str) (now : Z) (el : element) : bool :=
  match find_attr S_TO (el_attrs el) with
  | Some (_, Some v) =>
    match parse_datetime (v ++ [SP] ++ offset) with
    | Some expires => negb (now <? expires)%Z
    | None => false
    end
  | _ => false
  end.

(** MarkerEvaluator::is_removal *)
Definition marker_is_removal (targets : list str) (el : element) : bool :=
  match find_attr S_NAME (el_attrs el) with
  | Some (_, Some v) => existsb (str_eqb v) targets
  | _ => false
  end.

(** The evaluator registry: the removal-marker entry is inserted last and wins on equal names. *)
Definition evaluator (cfg : config) (name : str) : option (element -> bool) :=
  if str_eqb name (rm_tag cfg) then Some (marker_is_removal (targets cfg))
  else if str_eqb name (tl_tag cfg) then Some (time_is_removal (tl_offset cfg) (now cfg))
  else None.

Definition is_skip (el : element) : bool := has_attr S_SKIP (el_attrs el).

Definition range := (nat * nat)%type.
Definition removable_range := (range * option range)%type.

(** UnwrapBlockMarkerBuilder::build *)
Definition unwrap_build (content : str) (st et : token) : removable_range :=
  let end_pos :=
    match find_next_lb content (tk_bend st) false with
    | Some pos => find_next_lb content (pos + 1) false
    | None => None
    end in
  let start_pos :=
    match find_prev_lb content (tk_bstart et) false with
    | Some pos => find_prev_lb content pos false
    | None => None
    end in
  match end_pos, start_pos with
  | Some e, Some s =>
    if e <? s then ((tk_bstart st, e), Some (s + 1, tk_bend et))
    else if s =? e then ((tk_bstart st, tk_bend et), None)
    else ((tk_bstart st, tk_bstart st), None)
  | _, _ => ((tk_bstart st, tk_bstart st), None)
  end.

(** factory::create with the two strategies of build_remover *)
Definition create (content : str) (el : element) (st et : token) : removable_range :=
  if has_attr S_UNWRAP (el_attrs el) then unwrap_build content st et
  else ((tk_bstart st, tk_bend et), None).

Inductive rtree := RT (r : removable_range) (children : list rtree).

(** The decision of collect_removable_ranges for one element: [None] = neither ready nor pending
    (skip, or tag name not registered), [Some true] = ready, [Some false] = pending. *)
Definition status (cfg : config) (el : element) : option bool :=
  if is_skip el then None
  else match evaluator cfg (el_name el) with
       | None => None
       | Some ev => Some (ev el)
       end.

(** The range of one element, with the [!range.is_empty()] filter. *)
Definition element_range (cfg : config) (content : str) (pending : bool)
           (el : element) (st et : token) : option (removable_range * bool) :=
  let r :=
    match status cfg el with
    | Some true => Some (create content el st et, true)
    | Some false => if pending then Some (create content el st et, false) else None
    | None => None
    end in
  match r with
  | Some (((a, b), closed), is_removal) => if a <? b then r else None
  | None => None
  end.

(** collect_removable_ranges *)
Fixpoint collect_part (cfg : config) (content : str) (pending : bool) (p : part)
  : list rtree * list rtree :=
  match p with
  | PText _ => ([], [])
  | PElem el st et children =>
    let '(ch, pch) :=
      fold_left (fun acc c => let '(x, y) := collect_part cfg content pending c in
                              (fst acc ++ x, snd acc ++ y)) children ([], []) in
    match element_range cfg content pending el st et with
    | Some (r, true) => ([RT r ch], pch)
    | Some (r, false) => (ch, [RT r pch])
    | None => (ch, pch)
    end
  end.

Definition collect (cfg : config) (content : str) (pending : bool) (parts : list part)
  : list rtree * list rtree :=
  fold_left (fun acc c => let '(x, y) := collect_part cfg content pending c in
                          (fst acc ++ x, snd acc ++ y)) parts ([], []).

Definition marker := (range * option nat)%type.

Definition contains (r : range) (x : nat) : bool := (fst r <=? x) && (x <? snd r).

(** merge_child_markers: returns the grown marker and the number of children absorbed. *)
Fixpoint merge_child_markers (children : list marker) (m : range) (cursor : nat) : range * nat :=
  match children with
  | [] => (m, cursor)
  | (c, _) :: rest =>
    if contains m (fst c) || contains m (snd c)
    then merge_child_markers rest (Nat.min (fst m) (fst c), Nat.max (snd m) (snd c)) (S cursor)
    else (m, cursor)
  end.

Definition in_range (a b i : nat) : bool := (a <=? i) && (i <? b).

(** merge_markers *)
Fixpoint merge_tree (acc : list marker) (t : rtree) {struct t} : res (list marker) :=
  match t with
  | RT (m, epair) children =>
    child_markers <-
      (fix go (l : list rtree) (a : list marker) : res (list marker) :=
         match l with
         | [] => Ok a
         | x :: l' => a' <- merge_tree a x ;; go l' a'
         end) children [] ;;
    let '(m, start_cursor) := merge_child_markers child_markers m 0 in
    match epair with
    | Some end_marker =>
      let '(end_marker, n) := merge_child_markers (rev child_markers) end_marker 0 in
      end_cursor <- csub (length child_markers) n ;;
      let current := length acc in
      if end_cursor <? start_cursor then
        Ok (acc ++ [((fst m, snd end_marker), None)])
      else
        kept <- slice_list child_markers start_cursor end_cursor ;;
        rebased <- foldM (fun l (c : marker) =>
                     let '(r, idx) := c in
                     match idx with
                     | Some i =>
                       if in_range start_cursor end_cursor i
                       then j <- csub i start_cursor ;; Ok (l ++ [(r, Some (j + current + 1))])
                       else Ok (l ++ [(r, None)])
                     | None => Ok (l ++ [(r, None)])
                     end) kept [] ;;
        Ok (acc ++ [(m, Some (current + length kept + 1))] ++ rebased ++ [(end_marker, Some current)])
    | None => Ok (acc ++ [(m, None)])
    end
  end.

Definition merge_markers (ranges : list rtree) : res (list marker) := foldM merge_tree ranges [].

(** Remover::build_remove_marker *)
Definition build_remove_marker (cfg : config) (content : str) (parts : list part)
  : res (list marker) :=
  merge_markers (fst (collect cfg content false parts)).

(** The inner [while let] of build_remove_marker_all for one ready range: consumes pending ranges
    that start before [snd r]; returns (listed before, listed after, remaining). *)
Fixpoint take_pending (r : range) (pend : list marker) (before after : list (marker * bool))
  : list (marker * bool) * list (marker * bool) * list marker :=
  match pend with
  | [] => (before, after, [])
  | (p, pidx) :: rest =>
    if snd r <=? fst p then (before, after, pend)
    else if contains r (fst p) && contains r (snd p) then take_pending r rest before after
    else if fst p <? fst r then take_pending r rest (before ++ [((p, pidx), false)]) after
    else take_pending r rest before (after ++ [((p, pidx), false)])
  end.

Fixpoint merge_all (ranges : list marker) (pend : list marker) (merged : list (marker * bool))
  : list (marker * bool) :=
  match ranges with
  | [] => merged ++ map (fun v => (v, false)) pend
  | (r, idx) :: rest =>
    let '(before, after, pend') := take_pending r pend [] [] in
    merge_all rest pend' (merged ++ before ++ [((r, idx), true)] ++ after)
  end.

(** Remover::build_remove_marker_all *)
Definition build_remove_marker_all (cfg : config) (content : str) (parts : list part)
  : res (list (marker * bool)) :=
  let '(ranges, ranges_pending) := collect cfg content true parts in
  ranges <- merge_markers ranges ;;
  ranges_pending <- merge_markers ranges_pending ;;
  Ok (merge_all ranges ranges_pending []).

(** Remover::remove: replace_range over the markers in reverse order *)
Definition remove_markers (raw : str) (markers : list marker) : res str :=
  foldM (fun content (m : marker) => replace_range content (fst (fst m)) (snd (fst m)))
        (rev markers) raw.

(** get_removed_pos *)
Definition get_removed_pos (markers : list marker) : res (list (nat * option nat)) :=
  '(positions, _) <-
    foldM (fun (acc : list (nat * option nat) * nat) (m : marker) =>
             let '(positions, removed_len) := acc in
             let '((a, b), pair_pos) := m in
             p <- csub a removed_len ;;
             l <- csub b a ;;
             Ok (positions ++ [(p, pair_pos)], removed_len + l)) markers ([], 0) ;;
  Ok positions.
