(** Model of the one use of chrono 0.4.38 in the code:
    [DateTime::parse_from_str(s, "%Y-%m-%d %H:%M:%S %z")] and the ordering of instants.
    Instants are seconds since 1970-01-01T00:00:00Z in [Z].  A parsed second of 60 (leap-second
    representation) orders after :59 plus any fraction and before the next second, which is what
    an integer :59 + 1 gives against a current time with a sub-second fraction below one second. *)
From Coq Require Import List NArith ZArith Arith Bool Lia.
Import ListNotations.
From Chiri Require Import Base.Bytes.
Local Open Scope Z_scope.

Definition is_digit (b : byte) : bool := (48 <=? b)%N && (b <=? 57)%N.
Definition digit_val (b : byte) : Z := Z.of_N b - 48.

(** [char::is_whitespace] on the front of a UTF-8 string: number of bytes of the whitespace
    character at the front, 0 if there is none. *)
Definition ws_len (s : str) : nat :=
  match s with
  | b :: r =>
    if ((9 <=? b)%N && (b <=? 13)%N) || (b =? 32)%N then 1%nat
    else match b, r with
    | 194%N, c :: _ => if (c =? 133)%N || (c =? 160)%N then 2%nat else 0%nat
    | 225%N, 154%N :: 128%N :: _ => 3%nat
    | 226%N, 128%N :: c :: _ =>
        if ((128 <=? c)%N && (c <=? 138)%N) || (c =? 168)%N || (c =? 169)%N || (c =? 175)%N
        then 3%nat else 0%nat
    | 226%N, 129%N :: 159%N :: _ => 3%nat
    | 227%N, 128%N :: 128%N :: _ => 3%nat
    | _, _ => 0%nat
    end
  | [] => 0%nat
  end.

Fixpoint trim_ws_fuel (fuel : nat) (s : str) : str :=
  match fuel with
  | O => s
  | S f => match ws_len s with
           | O => s
           | n => trim_ws_fuel f (skipn n s)
           end
  end.
Definition trim_ws (s : str) : str := trim_ws_fuel (length s) s.

(** [scan::number(s, 1, max)]: at least one digit, at most [max]; i64 overflow is an error. *)
Definition I64_MAX : Z := 9223372036854775807.
Fixpoint number_loop (max : nat) (s : str) (n : Z) (seen : bool) : option (str * Z) :=
  match max with
  | O => if seen then Some (s, n) else None
  | S m =>
    match s with
    | b :: r =>
      if is_digit b then
        let n' := n * 10 + digit_val b in
        if n' >? I64_MAX then None else number_loop m r n' true
      else if seen then Some (s, n) else None
    | [] => if seen then Some (s, n) else None
    end
  end.
(** [max = None] stands for usize::MAX. *)
Definition number (s : str) (max : option nat) : option (str * Z) :=
  match s with
  | [] => None            (* TOO_SHORT *)
  | _ => number_loop (match max with Some m => m | None => length s end) s 0 false
  end.

Definition numeric (s : str) (width : nat) (signed : bool) : option (str * Z) :=
  let s := trim_ws s in
  if signed then
    match s with
    | 45%N :: r => match number r None with Some (r', v) => Some (r', - v) | None => None end
    | 43%N :: r => number r None
    | _ => number s (Some width)
    end
  else number s (Some width).

Definition literal (c : byte) (s : str) : option str :=
  match s with
  | b :: r => if beq b c then Some r else None
  | [] => None
  end.

(** [scan::colon_or_space] *)
Fixpoint colon_or_space_fuel (fuel : nat) (s : str) : str :=
  match fuel with
  | O => s
  | S f =>
    match s with
    | 58%N :: r => colon_or_space_fuel f r
    | _ => match ws_len s with
           | O => s
           | n => colon_or_space_fuel f (skipn n s)
           end
    end
  end.

(** [scan::timezone_offset(s.trim_start(), colon_or_space, false, false, true)] *)
Definition timezone_offset (s : str) : option (str * Z) :=
  let s := trim_ws s in
  let neg_rest :=
    match s with
    | 43%N :: r => Some (false, r)
    | 45%N :: r => Some (true, r)
    | 226%N :: 136%N :: 146%N :: r => Some (true, r)     (* U+2212 MINUS SIGN *)
    | _ => None
    end in
  match neg_rest with
  | None => None
  | Some (negative, s) =>
    match s with
    | h1 :: h2 :: s =>
      if is_digit h1 && is_digit h2 then
        let hours := digit_val h1 * 10 + digit_val h2 in
        let s := colon_or_space_fuel (length s) s in
        match s with
        | m1 :: m2 :: s =>
          if is_digit m1 && is_digit m2 && (m1 <=? 53)%N then
            let minutes := digit_val m1 * 10 + digit_val m2 in
            let seconds := hours * 3600 + minutes * 60 in
            Some (s, if negative then - seconds else seconds)
          else None
        | _ => None
        end
      else None
    | _ => None
    end
  end.

(** Civil calendar. *)
Definition is_leap (y : Z) : bool :=
  ((y mod 4 =? 0) && negb (y mod 100 =? 0)) || (y mod 400 =? 0).
Definition days_in_month (y m : Z) : Z :=
  if (m =? 2) then (if is_leap y then 29 else 28)
  else if (m =? 4) || (m =? 6) || (m =? 9) || (m =? 11) then 30 else 31.

(** Days from 1970-01-01 to y-m-d in the proleptic Gregorian calendar (the standard
    era-based formula). *)
Definition days_from_civil (y m d : Z) : Z :=
  let y := if m <=? 2 then y - 1 else y in
  let era := y / 400 in
  let yoe := y - era * 400 in
  let mp := (m + 9) mod 12 in
  let doy := (153 * mp + 2) / 5 + d - 1 in
  let doe := yoe * 365 + yoe / 4 - yoe / 100 + doy in
  era * 146097 + doe - 719468.

Definition MIN_YEAR : Z := -262143.
Definition MAX_YEAR : Z := 262142.

(** The whole parse: [Some instant] iff chrono returns [Ok]. *)
Definition parse_datetime (s : str) : option Z :=
  match numeric s 4 true with None => None | Some (s, year) =>
  match literal 45%N s with None => None | Some s =>
  match numeric s 2 false with None => None | Some (s, month) =>
  if negb ((1 <=? month) && (month <=? 12)) then None else
  match literal 45%N s with None => None | Some s =>
  match numeric s 2 false with None => None | Some (s, day) =>
  if negb ((1 <=? day) && (day <=? 31)) then None else
  let s := trim_ws s in
  match numeric s 2 false with None => None | Some (s, hour) =>
  if negb (hour <=? 23) then None else
  match literal 58%N s with None => None | Some s =>
  match numeric s 2 false with None => None | Some (s, minute) =>
  if negb (minute <=? 59) then None else
  match literal 58%N s with None => None | Some s =>
  match numeric s 2 false with None => None | Some (s, second) =>
  if negb (second <=? 60) then None else
  let s := trim_ws s in
  match timezone_offset s with None => None | Some (s, offset) =>
  match s with _ :: _ => None | [] =>
  if negb ((MIN_YEAR <=? year) && (year <=? MAX_YEAR)) then None else
  if negb (day <=? days_in_month year month) then None else
  if negb ((-86400 <? offset) && (offset <? 86400)) then None else
  let local := days_from_civil year month day * 86400 + hour * 3600 + minute * 60
               + (if second =? 60 then 59 else second) in
  let utc := local - offset in
  (* from_local_datetime: the UTC value must stay inside NaiveDateTime's range *)
  if (utc <? days_from_civil MIN_YEAR 1 1 * 86400) || (days_from_civil (MAX_YEAR + 1) 1 1 * 86400 <=? utc)
  then None
  else Some (utc + (if second =? 60 then 1 else 0))
  end end end end end end end end end end end end.
