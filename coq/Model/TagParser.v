(** Model of chiritori/src/element_parser.rs (parse). *)
From Coq Require Import List NArith Arith Bool Lia.
Import ListNotations.
From Chiri Require Import Base.Bytes Base.Res Model.Tokenizer.

Record element := mkElement {
  el_name : str;
  el_attrs : list (str * option str)
}.

Inductive pstate :=
| NameBegin
| Name (start : nat)
| NameEnd
| ValueBegin
| ValueWithNoQuote
| ValueWithDoubleQuote (start : nat)
| ValueWithSingleQuote (start : nat)
| ParseError.

(** [str::trim_start_matches(p)] / [trim_end_matches(p)] for a non-empty pattern. *)
Fixpoint trim_start_matches (fuel : nat) (p s : str) : str :=
  match fuel with
  | 0 => s
  | S f => if prefix p s then trim_start_matches f p (skipn (length p) s) else s
  end.
Definition trim_start (p s : str) : str :=
  match p with [] => s | _ => trim_start_matches (length s) p s end.
Definition trim_end (p s : str) : str := rev (trim_start (rev p) (rev s)).

(** [pairs.last_mut().unwrap().1 = Some(v)] *)
Definition set_last_value (pairs : list (str * option str)) (v : str)
  : res (list (str * option str)) :=
  match rev pairs with
  | [] => Panic
  | (n, _) :: r => Ok (rev ((n, Some v) :: r))
  end.

Definition pstep (target : str) (acc : list (str * option str) * pstate) (pc : nat * byte)
  : res (list (str * option str) * pstate) :=
  let '(pairs, state) := acc in
  let '(pos, c) := pc in
  match state with
  | NameBegin =>
    if beq c SP || beq c NL then Ok (pairs, NameBegin)
    else if beq c EQC || beq c DQ || beq c SQ then Ok (pairs, ParseError)
    else Ok (pairs, Name pos)
  | Name start =>
    if beq c SP || beq c NL then
      v <- slice target start pos ;; Ok (pairs ++ [(v, None)], NameEnd)
    else if beq c EQC then
      v <- slice target start pos ;; Ok (pairs ++ [(v, None)], ValueBegin)
    else Ok (pairs, Name start)
  | NameEnd =>
    if beq c SP || beq c NL then Ok (pairs, NameEnd)
    else if beq c EQC then Ok (pairs, ValueBegin)
    else Ok (pairs, Name pos)
  | ValueBegin =>
    if beq c SP then Ok (pairs, ValueBegin)
    else if beq c DQ then Ok (pairs, ValueWithDoubleQuote (pos + 1))
    else if beq c SQ then Ok (pairs, ValueWithSingleQuote (pos + 1))
    else Ok (pairs, ValueWithNoQuote)
  | ValueWithDoubleQuote start =>
    if beq c DQ then
      v <- slice target start pos ;; pairs' <- set_last_value pairs v ;; Ok (pairs', NameBegin)
    else Ok (pairs, state)
  | ValueWithSingleQuote start =>
    if beq c SQ then
      v <- slice target start pos ;; pairs' <- set_last_value pairs v ;; Ok (pairs', NameBegin)
    else Ok (pairs, state)
  | ValueWithNoQuote =>
    if beq c SP then Ok (pairs, NameBegin) else Ok (pairs, ValueWithNoQuote)
  | ParseError => Ok (pairs, ParseError)
  end.

Definition is_parse_error (s : pstate) : bool :=
  match s with ParseError => true | _ => false end.

(** The attribute scan of [parse] on the text between the delimiters. *)
Definition parse_target (target : str) : res (option element) :=
  '(pairs, last_state) <- foldM (pstep target) (char_indices target) ([], NameBegin) ;;
  pairs <- match last_state with
           | Name start => v <- slice_from target start ;; Ok (pairs ++ [(v, None)])
           | _ => Ok pairs
           end ;;
  if is_parse_error last_state then Ok None
  else match pairs with
       | [] => Ok None
       | (name, _) :: attrs => Ok (Some (mkElement name attrs))
       end.

(** [parse] on the text of an Element token, given the delimiters stored in the token. *)
Definition parse_value (ds de value : str) : res (option element) :=
  parse_target (trim_end de (trim_start ds value)).

Definition parse_token (ds de : str) (t : token) : res (option element) :=
  if tk_elem t then parse_value ds de (tk_value t) else Ok None.
