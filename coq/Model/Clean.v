(** Model of chiritori::chiritori::clean and of the marker stage shared with list / list_all. *)
From Coq Require Import List NArith ZArith Arith Bool Lia.
Import ListNotations.
From Chiri Require Import Base.Bytes Base.Res Model.Tokenizer Model.TagParser Model.TreeParser
     Model.Markers Model.Format.

Definition front_end (ds de s : str) : res (list part) :=
  tokens <- tokenize s ds de ;;
  parse_tree ds de tokens.

Definition markers_of (cfg : config) (ds de s : str) : res (list marker) :=
  parsed <- front_end ds de s ;;
  build_remove_marker cfg s parsed.

Definition markers_all_of (cfg : config) (ds de s : str) : res (list (marker * bool)) :=
  parsed <- front_end ds de s ;;
  build_remove_marker_all cfg s parsed.

Definition clean (cfg : config) (ds de s : str) : res str :=
  markers <- markers_of cfg ds de s ;;
  removed <- remove_markers s markers ;;
  removed_pos <- get_removed_pos markers ;;
  format removed removed_pos.
