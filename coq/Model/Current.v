(** Model of the parse of --time-limited-current in chiritori-cli/src/main.rs:
    [args.time_limited_current.parse::<chrono::DateTime<chrono::Local>>()], i.e. chrono 0.4.38's
    [impl FromStr for DateTime<FixedOffset>] (format::parse::parse_rfc3339_relaxed, then only white space may
    follow, then Parsed::to_datetime) followed by [with_timezone(&Local)], which does not change the instant.
    The result is the instant in whole seconds since the epoch (the fraction of a second never changes a
    comparison with an expiry, which is a whole second) and a flag telling that the seconds field was 60: an
    instant inside a leap second has no counterpart in the integer model of [Model.Chrono] and [Model.Markers]. *)
From Coq Require Import List NArith ZArith Arith Bool Lia.
Import ListNotations.
From Chiri Require Import Base.Bytes Model.Chrono.
Local Open Scope Z_scope.

(** [s.trim_start_matches(|c| c.is_ascii_digit())] *)
Fixpoint skip_digits (s : str) : str :=
  match s with
  | b :: r => if is_digit b then skip_digits r else s
  | [] => []
  end.

(** [Fixed::Nanosecond]: nothing unless the text begins with '.'; then [scan::nanosecond]: one to nine digits
    are the value, further digits are skipped.  Only the rest of the text matters here. *)
Definition nanosecond_item (s : str) : option str :=
  match s with
  | 46%N :: r =>
    match number r (Some 9%nat) with
    | Some (r', _) => Some (skip_digits r')
    | None => None
    end
  | _ => Some s
  end.

Definition is_utc3 (a b c : byte) : bool :=
  ((a =? 85) || (a =? 117))%N && ((b =? 84) || (b =? 116))%N && ((c =? 67) || (c =? 99))%N.

(** the offset of the relaxed form: "UTC" in any case, or [scan::timezone_offset] with Z / z allowed *)
Definition current_offset (s : str) : option (str * Z) :=
  let s := trim_ws s in
  match s with
  | a :: b :: c :: r =>
    if is_utc3 a b c then Some (r, 0)
    else if ((a =? 90) || (a =? 122))%N then Some (b :: c :: r, 0)
    else timezone_offset s
  | a :: r => if ((a =? 90) || (a =? 122))%N then Some (r, 0) else timezone_offset s
  | [] => timezone_offset s
  end.

Definition parse_current (s : str) : option (Z * bool) :=
  match numeric s 4 true with None => None | Some (s, year) =>
  let s := trim_ws s in
  match literal 45%N s with None => None | Some s =>
  match numeric s 2 false with None => None | Some (s, month) =>
  if negb ((1 <=? month) && (month <=? 12)) then None else
  let s := trim_ws s in
  match literal 45%N s with None => None | Some s =>
  match numeric s 2 false with None => None | Some (s, day) =>
  if negb ((1 <=? day) && (day <=? 31)) then None else
  match s with
  | [] => None
  | sep :: s =>
  if negb ((sep =? 116) || (sep =? 84) || (sep =? 32))%N then None else
  match numeric s 2 false with None => None | Some (s, hour) =>
  if negb (hour <=? 23) then None else
  let s := trim_ws s in
  match literal 58%N s with None => None | Some s =>
  match numeric s 2 false with None => None | Some (s, minute) =>
  if negb (minute <=? 59) then None else
  let s := trim_ws s in
  match literal 58%N s with None => None | Some s =>
  match numeric s 2 false with None => None | Some (s, second) =>
  if negb (second <=? 60) then None else
  match nanosecond_item s with None => None | Some s =>
  match current_offset s with None => None | Some (s, offset) =>
  match trim_ws s with _ :: _ => None | [] =>
  if negb ((MIN_YEAR <=? year) && (year <=? MAX_YEAR)) then None else
  if negb (day <=? days_in_month year month) then None else
  if negb ((-86400 <? offset) && (offset <? 86400)) then None else
  let local := days_from_civil year month day * 86400 + hour * 3600 + minute * 60
               + (if second =? 60 then 59 else second) in
  let utc := local - offset in
  if (utc <? days_from_civil MIN_YEAR 1 1 * 86400) || (days_from_civil (MAX_YEAR + 1) 1 1 * 86400 <=? utc)
  then None
  else Some (utc, second =? 60)
  end end end end end end end end end end end end end end.

(** [.parse().unwrap_or(Local::now())]: a text that does not parse stands for the wall clock *)
Definition current_of_arg (arg : str) (wall_clock : Z) : Z :=
  match parse_current arg with Some (t, _) => t | None => wall_clock end.
