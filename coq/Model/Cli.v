(** Model of chiritori-cli/src/main.rs from the parsed [Args] record on.  clap's mapping from argv to
    [Args] is not modelled: the caller supplies the record (with clap's declared defaults filled in by
    [default_args]).  The current instant is a field of the record; [run_text] at the end takes the text of
    --time-limited-current instead and reads it with the model of chrono's parser in Model/Current.v. *)
From Coq Require Import List NArith ZArith Arith Bool Lia.
Import ListNotations.
From Chiri Require Import Base.Bytes Base.Res Model.Markers Model.Clean Model.ListRender Model.Current.

Record args := mkArgs {
  a_filename : option str;
  a_output : option str;
  a_delimiter_start : str;
  a_delimiter_end : str;
  a_time_limited_tag_name : str;
  a_time_limited_time_offset : str;
  a_current : Z;                               (* --time-limited-current, already an instant *)
  a_removal_marker_tag_name : str;
  a_removal_marker_target_name : list str;
  a_removal_marker_target_config : option str;
  a_list : bool;
  a_list_all : bool;
  a_list_json : bool
}.

(** The defaults declared in the clap attributes. *)
Definition D_DELIM_START : str := [60; 33; 45; 45; 32; 60]%N.          (* "<!-- <" *)
Definition D_DELIM_END : str := [62; 32; 45; 45; 62]%N.                (* "> -->" *)
Definition D_TL_TAG : str := [116;105;109;101;45;108;105;109;105;116;101;100]%N.  (* "time-limited" *)
Definition D_OFFSET : str := [43; 48; 48; 58; 48; 48]%N.               (* "+00:00" *)
Definition D_RM_TAG : str := [114;101;109;111;118;97;108;45;109;97;114;107;101;114]%N. (* "removal-marker" *)

Definition default_args (current : Z) : args :=
  mkArgs None None D_DELIM_START D_DELIM_END D_TL_TAG D_OFFSET current D_RM_TAG [] None false false false.

(** [BufRead::lines]: pieces end at '\n'; the '\n' and one preceding '\r' are dropped; a final piece
    without '\n' is a line; no final empty line. *)
Definition strip_cr (l : str) : str :=
  match rev l with
  | b :: r => if beq b CR then rev r else l
  | [] => l
  end.
Fixpoint buf_lines (s : str) (cur : str) : list str :=
  match s with
  | [] => match cur with [] => [] | _ => [cur] end
  | b :: s' => if beq b NL then strip_cr cur :: buf_lines s' [] else buf_lines s' (cur ++ [b])
  end.

Inductive outcome :=
| Exit (code : nat) (stdout : str) (written : option (str * str))   (* exit status, stdout, file written *)
| Crash.                                                            (* panic: exit status 101 *)

Definition config_of (a : args) (file_targets : list str) : config :=
  mkConfig (a_time_limited_tag_name a) (a_time_limited_time_offset a) (a_current a)
           (a_removal_marker_tag_name a) (file_targets ++ a_removal_marker_target_name a).

Definition NO_INPUT : str :=
  [78;111;32;105;110;112;117;116;32;102;105;108;101;32;111;114;32;115;116;100;105;110;46;32;77;111;114;101;32;
   105;110;102;111;114;109;97;116;105;111;110;58;32;45;45;104;101;108;112;10]%N.
  (* "No input file or stdin. More information: --help\n" *)

(** The library call selected by the mode flags. *)
Definition dispatch (a : args) (cfg : config) (content : str) : res str :=
  let ds := a_delimiter_start a in
  let de := a_delimiter_end a in
  if a_list a then
    (if a_list_json a then list_json cfg ds de content else list_pretty cfg ds de content)
  else if a_list_all a then
    (if a_list_json a then list_all_json cfg ds de content else list_all_pretty cfg ds de content)
  else clean cfg ds de content.

(** [stdin]: [None] when standard input is a terminal; [fs]: the files that can be read. *)
Definition run (a : args) (stdin : option str) (fs : str -> option str) : outcome :=
  let input :=
    match a_filename a with
    | None => match stdin with Some c => inl (Some c) | None => inr tt end
    | Some f => inl (fs f)
    end in
  match input with
  | inr _ => Exit 1 NO_INPUT None
  | inl None => Crash                                   (* expect("file not found") *)
  | inl (Some content) =>
    let file_targets :=
      match a_removal_marker_target_config a with
      | None => Some []
      | Some f => match fs f with Some c => Some (buf_lines c []) | None => None end
      end in
    match file_targets with
    | None => Crash
    | Some ft =>
      match dispatch a (config_of a ft) content with
      | Panic => Crash
      | Ok output =>
        match a_output a with
        | Some f => Exit 0 [] (Some (f, output))
        | None => Exit 0 output None
        end
      end
    end
  end.

(** main.rs with the text of --time-limited-current: [.parse::<DateTime<Local>>().unwrap_or(Local::now())].
    [wall_clock] stands for [Local::now()], the only place where the process environment enters. *)
Definition with_current (a : args) (t : Z) : args :=
  mkArgs (a_filename a) (a_output a) (a_delimiter_start a) (a_delimiter_end a) (a_time_limited_tag_name a)
         (a_time_limited_time_offset a) t (a_removal_marker_tag_name a) (a_removal_marker_target_name a)
         (a_removal_marker_target_config a) (a_list a) (a_list_all a) (a_list_json a).

Definition run_text (a : args) (current_text : str) (wall_clock : Z) (stdin : option str) (fs : str -> option str) : outcome :=
  run (with_current a (current_of_arg current_text wall_clock)) stdin fs.
