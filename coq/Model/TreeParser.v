(** Model of chiritori/src/parser.rs (tree, parse). *)
From Coq Require Import List NArith Arith Bool Lia.
Import ListNotations.
From Chiri Require Import Base.Bytes Base.Res Model.Tokenizer Model.TagParser.

Inductive part :=
| PElem (start_el : element) (start_tok end_tok : token) (children : list part)
| PText (tok : token).

(** [name.trim_start_matches("/")] *)
Fixpoint trim_slashes (s : str) : str :=
  match s with
  | b :: s' => if beq b SLASH then trim_slashes s' else s
  | [] => []
  end.
Definition starts_with_slash (s : str) : bool :=
  match s with b :: _ => beq b SLASH | [] => false end.

(** [tree]: returns (cursor, parts, closing tag that ended the call).  [parents] are the names of
    the open ancestors.  One unit of fuel per loop iteration and per recursive call. *)
Fixpoint tree (fuel : nat) (ds de : str) (tokens : list token) (cursor : nat)
         (parts : list part) (parents : list str)
  : res (nat * list part * option (token * element)) :=
  match fuel with
  | 0 => Panic
  | S f =>
    match nth_error tokens cursor with
    | None => Ok (cursor + 1, parts, None)
    | Some t =>
      let cursor := cursor + 1 in
      pel <- parse_token ds de t ;;
      match pel with
      | None => tree f ds de tokens cursor (parts ++ [PText t]) parents
      | Some el =>
        if starts_with_slash (el_name el)
           && existsb (fun p => str_eqb p (trim_slashes (el_name el))) parents
        then Ok (cursor, parts, Some (t, el))
        else
          '(new_cursor, children, end_part) <-
             tree f ds de tokens cursor [] (parents ++ [el_name el]) ;;
          match end_part with
          | Some (end_token, end_el) =>
            if str_eqb (el_name el) (trim_slashes (el_name end_el))
            then tree f ds de tokens new_cursor
                      (parts ++ [PElem el t end_token children]) parents
            else Ok (new_cursor, parts ++ PText t :: children, Some (end_token, end_el))
          | None =>
            tree f ds de tokens new_cursor (parts ++ PText t :: children) parents
          end
      end
    end
  end.

Definition parse_tree (ds de : str) (tokens : list token) : res (list part) :=
  '(_, parts, _) <- tree (2 * length tokens + 2) ds de tokens 0 [] [] ;;
  Ok parts.

(** All elements of a tree, at every depth, in document order. *)
Fixpoint elements_of (p : part) : list (element * token * token) :=
  match p with
  | PText _ => []
  | PElem el st et children => (el, st, et) :: flat_map elements_of children
  end.
Definition all_elements (parts : list part) : list (element * token * token) :=
  flat_map elements_of parts.

(** Induction principle for the nested inductive [part]. *)
Fixpoint part_ind' (P : part -> Prop)
         (HT : forall t, P (PText t))
         (HE : forall el st et ch, Forall P ch -> P (PElem el st et ch))
         (p : part) : P p :=
  match p with
  | PText t => HT t
  | PElem el st et ch =>
    HE el st et ch
       ((fix go (l : list part) : Forall P l :=
           match l with
           | [] => Forall_nil P
           | c :: l' => Forall_cons c (part_ind' P HT HE c) (go l')
           end) ch)
  end.
