(** Model of chiritori/src/code/formatter.rs and formatter/*.rs. *)
From Coq Require Import List NArith Arith Bool Lia.
Import ListNotations.
From Chiri Require Import Base.Bytes Base.Res Model.Finders.

Definition range := (nat * nat)%type.

(** IndentRemover::format: the backward loop, structural on the cursor. *)
Fixpoint indent_loop (s : str) (cursor : nat) : option nat :=
  match cursor with
  | 0 => None
  | S c =>
    if is_boundary s c then
      match nth_error s c with
      | Some b => if beq b SP || beq b TAB then indent_loop s c
                  else if beq b NL then Some (S c) else None
      | None => None
      end
    else indent_loop s c
  end.

Definition indent_remover (s : str) (pos : nat) : res range :=
  if (length s <=? pos) || negb (is_boundary s pos)
     || negb (match nth_error s pos with Some b => beq b NL | None => false end)
  then Ok (pos, pos)
  else match indent_loop s pos with
       | Some c => Ok (c, pos)
       | None => Ok (pos, pos)
       end.

Definition two_next (s : str) (pos : nat) : option nat :=
  match find_next_lb s pos true with
  | Some p => find_next_lb s (p + 1) true
  | None => None
  end.
Definition two_prev (s : str) (pos : nat) : option nat :=
  match find_prev_lb s pos true with
  | Some p => find_prev_lb s p true
  | None => None
  end.

Definition is_none {A} (o : option A) : bool := match o with None => true | Some _ => false end.

(** [content[..byte_pos].trim_end_matches(' ' | '\t')] is empty or ends with a line break: scanning
    back from [cursor] over blanks reaches the start of the string or a line break. *)
Fixpoint residue_is_blank (s : str) (cursor : nat) : bool :=
  match cursor with
  | 0 => true
  | S c => match nth_error s c with
           | Some b => if is_blank b then residue_is_blank s c else beq b NL
           | None => false
           end
  end.

(** Everything in front of [pos] is spaces and tabs (the position is on the first line of the file and
    that line is blank so far): [content.bytes().take(pos).all(blank)] in format_block and in
    BlockIndentRemover. *)
Definition all_blank_before (s : str) (pos : nat) : bool := forallb is_blank (firstn pos s).

(** EmptyLineRemover::format *)
Definition empty_line_remover (s : str) (pos : nat) : res range :=
  if negb (is_boundary s pos) then Panic
  else if negb (match nth_error s pos with Some b => beq b NL | None => false end)
  then Ok (pos, pos)
  else if negb (residue_is_blank s pos) then Ok (pos, pos)
  else if is_none (two_next s pos) && is_none (two_prev s pos) then Ok (pos, pos + 1)
  else Ok (pos, pos).

(** PrevLineBreakRemover::format *)
Definition prev_line_break_remover (s : str) (pos : nat) : res range :=
  match two_prev s pos with
  | Some lb => Ok (lb + 1, pos)
  | None => Ok (pos, pos)
  end.

(** NextLineBreakRemover::format *)
Definition next_line_break_remover (s : str) (pos : nat) : res range :=
  if negb (is_boundary s pos) then Ok (pos, pos)
  else if negb (residue_is_blank s pos) then Ok (pos, pos)
  else match two_next s pos with
       | Some lb => Ok (pos, lb)
       | None => Ok (pos, pos)
       end.

(** build_formatters, in order *)
Definition seam_formatters : list (str -> nat -> res range) :=
  [indent_remover; empty_line_remover; prev_line_break_remover; next_line_break_remover].

(** format_block: the hull of the four seam ranges; when a line break is removed (the hull ends
    behind [pos]) and only blanks stand between the start of the file and the hull, they go too. *)
Definition seam_hull_of (s : str) (pos : nat) : res range :=
  foldM (fun (r : range) f =>
           '(a, b) <- f s pos ;;
           Ok (Nat.min a (fst r), Nat.max b (snd r))) seam_formatters (pos, pos).
Definition format_block (s : str) (pos : nat) : res range :=
  r <- seam_hull_of s pos ;;
  if (pos <? snd r) && all_blank_before s (fst r) then Ok (0, snd r) else Ok r.

(** block_indent_remover::get_indent_len *)
Definition get_indent_len (s : str) (pos : nat) : res nat :=
  match find_prev_lb s pos false with
  | Some p => match find_next_char s (p + 1) with
              | Some e => x <- csub e p ;; csub x 1
              | None => Ok 0
              end
  | None => Ok 0
  end.

Fixpoint block_loop (fuel : nat) (s : str) (end_pos current_pos ofs len : nat)
         (positions : list range) : list range :=
  match fuel with
  | 0 => positions
  | S f =>
    if current_pos <? end_pos then
      match find_next_lb s current_pos false with
      | Some lb =>
        let pos := lb + 1 in
        if end_pos <? pos then positions
        else
          let positions' :=
            match find_next_char s current_pos with
            | Some indent_pos =>
              let a := Nat.min (current_pos + ofs) indent_pos in
              let b := Nat.min (a + len) indent_pos in
              if a =? b then positions else positions ++ [(a, b)]
            | None => positions
            end in
          block_loop f s end_pos pos ofs len positions'
      | None => positions
      end
    else positions
  end.

(** BlockIndentRemover::format *)
Definition block_indent_remover (s : str) (start_pos end_pos : nat) : res (list range) :=
  ofs <- match find_prev_lb s start_pos true with
         | Some pos => x <- csub start_pos pos ;; csub x 1
         | None => Ok (if all_blank_before s start_pos then start_pos else 0)
         end ;;
  let current_pos := match find_next_lb s start_pos false with
                     | Some pos => pos + 1
                     | None => length s
                     end in
  first <- get_indent_len s current_pos ;;
  let len := first - ofs in          (* saturating_sub *)
  Ok (block_loop (S (length s)) s end_pos current_pos ofs len []).

(** Stable insertion sort by range start: [sort_by_key(|r| r.start)]. *)
Fixpoint insert_sorted (r : range) (l : list range) : list range :=
  match l with
  | [] => [r]
  | x :: l' => if fst r <=? fst x then r :: l else x :: insert_sorted r l'
  end.
Definition sort_ranges (l : list range) : list range :=
  fold_right insert_sorted [] l.

(** The cursor walk of merge_ranges. *)
Fixpoint seek (ranges : list range) (c : nat) (new_start : nat) : res (option nat) :=
  r <- index ranges c ;;
  if fst r <? new_start then Ok (Some c)
  else match c with
       | 0 => Ok None
       | S c' => seek ranges c' new_start
       end.

Definition insert_at {A} (l : list A) (i : nat) (x : A) : res (list A) :=
  if i <=? length l then Ok (firstn i l ++ x :: skipn i l) else Panic.

(** merge_ranges: [rev_new] is [new_ranges] in popping order (last first). *)
Fixpoint merge_ranges_loop (ranges : list range) (cursor : option nat) (rev_new : list range)
  : res (list range) :=
  match rev_new with
  | [] => Ok ranges
  | nr :: rest =>
    cursor' <- match cursor with
               | Some c => seek ranges c (fst nr)
               | None => Ok None
               end ;;
    ranges' <- match cursor' with
               | Some c => insert_at ranges (c + 1) nr
               | None => insert_at ranges 0 nr
               end ;;
    merge_ranges_loop ranges' cursor' rest
  end.

Definition merge_ranges (ranges new_ranges : list range) : res (list range) :=
  match ranges with
  | [] => Ok ranges
  | _ => merge_ranges_loop ranges (Some (length ranges - 1)) (rev new_ranges)
  end.

(** merge_overlapped_ranges *)
Definition merge_overlapped_ranges (ranges : list range) : list range :=
  match ranges with
  | [] => []
  | r0 :: rest =>
    let '(done, cur) :=
      fold_left (fun (acc : list range * range) (r : range) =>
                   let '(done, cur) := acc in
                   if fst r <=? snd cur then (done, (fst cur, Nat.max (snd cur) (snd r)))
                   else (done ++ [cur], r)) rest ([], r0) in
    done ++ [cur]
  end.

(** The ranges [format] deletes, before the reverse [replace_range] fold. *)
Definition format_ranges (s : str) (removed_pos : list (nat * option nat)) : res (list range) :=
  '(ranges, open) <-
    foldM (fun (acc : list range * list range) (pp : nat * option nat) =>
             let '(ranges, open) := acc in
             let '(pos, pair_idx) := pp in
             r <- format_block s pos ;;
             let ranges := ranges ++ [r] in
             match pair_idx with
             | Some pi =>
               '(pair_start, _) <- index removed_pos pi ;;
               if pos <? pair_start then
                 rs <- block_indent_remover s pos pair_start ;;
                 Ok (ranges, open ++ rs)
               else Ok (ranges, open)
             | None => Ok (ranges, open)
             end) removed_pos ([], []) ;;
  ranges <- merge_ranges ranges (sort_ranges open) ;;
  Ok (merge_overlapped_ranges ranges).

Definition delete_ranges_rev (s : str) (ranges : list range) : res str :=
  foldM (fun content (r : range) => replace_range content (fst r) (snd r)) (rev ranges) s.

(** formatter::format *)
Definition format (s : str) (removed_pos : list (nat * option nat)) : res str :=
  ranges <- format_ranges s removed_pos ;;
  delete_ranges_rev s ranges.
