(** Model of chiritori/src/tokenizer.rs (tokenize). *)
From Coq Require Import List NArith Arith Bool Lia.
Import ListNotations.
From Chiri Require Import Base.Bytes Base.Res.

Record token := mkToken {
  tk_elem : bool;          (* TokenKind::Element (true) or TokenKind::Text (false) *)
  tk_value : str;
  tk_start : nat;
  tk_bstart : nat;
  tk_end : nat;
  tk_bend : nat
}.

(** The closure computing [element]: leftmost start delimiter, one body character, first end
    delimiter that begins after that character. *)
Definition find_element (s ds de : str) (byte_pos : nat) : res (option (nat * nat)) :=
  r <- slice_from s byte_pos ;;
  match find_sub ds r with
  | None => Ok None
  | Some i =>
    let element_start := byte_pos + i in
    let body_start := element_start + length ds in
    r2 <- slice_from s body_start ;;
    match r2 with
    | [] => Ok None
    | b :: _ =>
      let search_from := body_start + char_len b in
      r3 <- slice_from s search_from ;;
      match find_sub de r3 with
      | None => Ok None
      | Some j => Ok (Some (element_start, search_from + j + length de))
      end
    end
  end.

(** One round of the [for (kind, byte_start, byte_end) in spans] loop body. *)
Definition push_span (s : str) (st : list token * nat * nat) (span : bool * nat * nat)
  : res (list token * nat * nat) :=
  let '(tokens, pos, byte_pos) := st in
  let '(kind, byte_start, byte_end) := span in
  if byte_start <? byte_end then
    value <- slice s byte_start byte_end ;;
    let e := pos + count_chars value in
    Ok (tokens ++ [mkToken kind value pos byte_start e byte_end], e, byte_end)
  else Ok st.

Fixpoint tok_loop (fuel : nat) (s ds de : str) (tokens : list token) (pos byte_pos : nat)
  : res (list token) :=
  match fuel with
  | 0 => Panic
  | S f =>
    if byte_pos <? length s then
      element <- find_element s ds de byte_pos ;;
      let spans :=
        match element with
        | Some (es, ee) => [(false, byte_pos, es); (true, es, ee)]
        | None => [(false, byte_pos, byte_pos); (false, byte_pos, length s)]
        end in
      '(tokens', pos', byte_pos') <- foldM (push_span s) spans (tokens, pos, byte_pos) ;;
      tok_loop f s ds de tokens' pos' byte_pos'
    else Ok tokens
  end.

Definition tokenize (s ds de : str) : res (list token) :=
  tok_loop (S (length s)) s ds de [] 0 0.
