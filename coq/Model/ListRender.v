(** Model of chiritori/src/code/list.rs and of chiritori::chiritori::{list, list_all},
    including serde_json's compact serialisation of Vec<ListItem>. *)
From Coq Require Import List NArith ZArith Arith Bool Lia.
Import ListNotations.
From Chiri Require Import Base.Bytes Base.Res Model.Finders Model.Markers Model.Clean.

(** Decimal rendering of a number ([usize::to_string], [{}]). *)
Fixpoint dec_loop (fuel : nat) (n : N) (acc : str) : str :=
  match fuel with
  | 0 => acc
  | S f =>
    let acc' := (48 + n mod 10)%N :: acc in
    if (n <? 10)%N then acc' else dec_loop f (n / 10)%N acc'
  end.
Definition dec (n : nat) : str := dec_loop (S n) (N.of_nat n) [].

Definition repeat_str (s : str) (n : nat) : str := concat (repeat s n).

(** [format!("{:7} |", i)] *)
Definition line_column (i : nat) : str :=
  let d := dec i in repeat SP (7 - length d) ++ d ++ [SP; 124%N].

(** [str::lines]: split at '\n' (no final empty piece); a piece that ended in '\n' also loses one
    trailing '\r'. *)
Definition strip_cr (l : str) : str :=
  match rev l with
  | b :: r => if beq b CR then rev r else l
  | [] => l
  end.
Fixpoint lines_loop (s : str) (cur : str) : list str :=
  match s with
  | [] => match cur with [] => [] | _ => [cur] end
  | b :: s' => if beq b NL then strip_cr cur :: lines_loop s' [] else lines_loop s' (cur ++ [b])
  end.
Definition lines (s : str) : list str := lines_loop s [].

Fixpoint join_nl (ls : list str) : str :=
  match ls with
  | [] => []
  | [l] => l
  | l :: rest => l ++ [NL] ++ join_nl rest
  end.

Definition replace_tabs (s : str) : str :=
  flat_map (fun b => if beq b TAB then [SP; SP; SP; SP] else [b]) s.

Definition MARKER_START : str := [95; 115; 116; 97; 114; 116]%N.              (* "_start" *)
Definition MARKER_END : str := [226; 128; 190; 101; 110; 100]%N.              (* "‾end" *)
Definition COL_GREEN : str := [27; 91; 51; 50; 109]%N.                        (* ESC[32m *)
Definition COL_RED : str := [27; 91; 51; 49; 109]%N.                          (* ESC[31m *)
Definition COL_YELLOW : str := [27; 91; 51; 51; 109]%N.                       (* ESC[33m *)
Definition COL_RESET : str := [27; 91; 48; 109]%N.                            (* ESC[0m *)
Definition LINE_COLUMN_WIDTH : nat := 9.

(** build_pretty_string_item *)
Definition build_item (content : str) (start end_ : nat) (is_removal coloring : bool)
           (line_range : option (nat * nat)) : res str :=
  d <- csub end_ start ;;
  if (d =? 0) || (match content with [] => true | _ => false end) then Ok [] else
  e1 <- csub end_ 1 ;;
  let line_start := match find_prev_lb content start false with Some v => v + 1 | None => 0 end in
  let line_end_start_pos :=
    match find_prev_lb content e1 false with Some v => v + 1 | None => 0 end in
  let line_end :=
    match find_next_lb content e1 false with Some v => v | None => length content end in
  let color_start := start in
  let color_end := Nat.min end_ line_end in
  let '(msc, mec, sc, rc) :=
    if coloring then (COL_GREEN, COL_GREEN, if is_removal then COL_RED else COL_YELLOW, COL_RESET)
    else ([], [], [], []) in
  _ <- csub line_end line_start ;;                               (* capacity arithmetic *)
  colored <- slice content color_start color_end ;;
  before <- slice content line_start color_start ;;
  after <- slice content color_end line_end ;;
  let removed :=
    before ++ join_nl (map (fun l => sc ++ l ++ rc) (lines colored)) ++ after ++ [NL] in
  let '(code_block, line_number_ofs) :=
    match line_range with
    | Some (a, b) =>
      (let fix go (n : nat) (i : nat) (ls : list str) : str :=
         match n with
         | 0 => []
         | S n' => match ls with
                   | l :: ls' => line_column i ++ l ++ [NL] ++ go n' (S i) ls'
                   | [] => go n' (S i) []
                   end
         end in go (S b - a) a (lines removed), LINE_COLUMN_WIDTH)
    | None => (removed, 0)
    end in
  marker_start_ofs_len <- csub start line_start ;;
  pre_start <- slice content line_start start ;;
  let marker_start_tab_len := count_tabspace pre_start in
  x <- csub end_ line_end_start_pos ;;
  marker_end_ofs_len <- csub x 1 ;;
  pre_end <- slice content line_end_start_pos end_ ;;
  let marker_end_tab_len := count_tabspace pre_end in
  start_sp <- csub (line_number_ofs + marker_start_ofs_len) marker_start_tab_len ;;
  _ <- csub (marker_end_ofs_len + line_number_ofs) marker_end_tab_len ;;   (* capacity arithmetic *)
  end_sp <- csub (marker_end_ofs_len + line_number_ofs) marker_end_tab_len ;;
  Ok (repeat_str [SP; SP; SP; SP] marker_start_tab_len ++ repeat SP start_sp
      ++ msc ++ MARKER_START ++ rc ++ [NL]
      ++ replace_tabs code_block
      ++ repeat_str [SP; SP; SP; SP] marker_end_tab_len ++ repeat SP end_sp
      ++ mec ++ MARKER_END ++ rc).

(** get_line_range *)
Definition get_line_range (line_map : list nat) (r : range) : res (nat * nat) :=
  e1 <- csub (snd r) 1 ;;
  Ok (find_line line_map (fst r), find_line line_map e1).

Definition HEAD_START : str := [10; 45; 45; 45; 45; 45; 45; 45; 45; 32; 91; 32]%N.  (* "\n-------- [ " *)
Definition HEAD_READY : str := [32; 93; 32; 32; 82; 101; 97; 100; 121; 32; 32]%N.   (* " ]  Ready  " *)
Definition HEAD_PENDING : str := [32; 93; 32; 80; 101; 110; 100; 105; 110; 103; 32]%N. (* " ] Pending " *)
Definition HEAD_END : str := [45; 45; 45; 45; 45; 45; 45; 45; 10]%N.                (* "--------\n" *)

(** build_pretty_string *)
Definition build_pretty_string (content : str) (markers : list (marker * bool)) : res str :=
  let line_map := build_line_map content in
  '(out, _) <-
    foldM (fun (acc : str * nat) (m : marker * bool) =>
             let '(out, idx) := acc in
             let '((r, _), is_removal) := m in
             lr <- get_line_range line_map r ;;
             item <- build_item content (fst r) (snd r) is_removal true (Some lr) ;;
             Ok (out ++ HEAD_START ++ dec idx ++ (if is_removal then HEAD_READY else HEAD_PENDING)
                     ++ HEAD_END ++ item, S idx)) markers ([], 1) ;;
  Ok (out ++ [NL]).

Record list_item := mkItem {
  li_first : nat; li_last : nat; li_block : str; li_ready : bool
}.

(** build_list *)
Definition build_list (content : str) (markers : list (marker * bool)) : res (list list_item) :=
  let line_map := build_line_map content in
  foldM (fun (acc : list list_item) (m : marker * bool) =>
           let '((r, _), is_removal) := m in
           lr <- get_line_range line_map r ;;
           text <- build_item content (fst r) (snd r) is_removal false (Some lr) ;;
           Ok (acc ++ [mkItem (fst lr) (snd lr) text is_removal])) markers [].

(** serde_json string escaping (CompactFormatter). *)
Definition hex_digit (n : N) : byte := if (n <? 10)%N then (48 + n)%N else (87 + n)%N.
Definition json_escape_byte (b : byte) : str :=
  if (b =? 34)%N then [92; 34]%N
  else if (b =? 92)%N then [92; 92]%N
  else if (b =? 8)%N then [92; 98]%N
  else if (b =? 9)%N then [92; 116]%N
  else if (b =? 10)%N then [92; 110]%N
  else if (b =? 12)%N then [92; 102]%N
  else if (b =? 13)%N then [92; 114]%N
  else if (b <? 32)%N then [92; 117; 48; 48; hex_digit (b / 16); hex_digit (b mod 16)]%N
  else [b].
Definition json_string (s : str) : str := [DQ] ++ flat_map json_escape_byte s ++ [DQ].

Definition J_LINE_RANGE : str :=
  [123; 34; 108; 105; 110; 101; 95; 114; 97; 110; 103; 101; 34; 58; 91]%N.   (* {"line_range":[ *)
Definition J_BLOCK : str :=
  [93; 44; 34; 97; 110; 110; 111; 116; 97; 116; 101; 100; 95; 99; 111; 100; 101; 95; 98; 108;
   111; 99; 107; 34; 58]%N.                                                  (* ],"annotated_code_block": *)
Definition J_STATUS : str :=
  [44; 34; 99; 117; 114; 114; 101; 110; 116; 95; 115; 116; 97; 116; 117; 115; 34; 58]%N.
                                                                              (* ,"current_status": *)
Definition J_READY : str := [34; 82; 101; 97; 100; 121; 34; 125]%N.            (* "Ready"} *)
Definition J_PENDING : str := [34; 80; 101; 110; 100; 105; 110; 103; 34; 125]%N. (* "Pending"} *)

Definition json_item (it : list_item) : str :=
  J_LINE_RANGE ++ dec (li_first it) ++ [44%N] ++ dec (li_last it) ++ J_BLOCK
  ++ json_string (li_block it) ++ J_STATUS ++ (if li_ready it then J_READY else J_PENDING).

Fixpoint join_comma (ls : list str) : str :=
  match ls with
  | [] => []
  | [l] => l
  | l :: rest => l ++ [44%N] ++ join_comma rest
  end.
Definition json_list (items : list list_item) : str :=
  [91%N] ++ join_comma (map json_item items) ++ [93%N].

(** chiritori::list / list_all *)
Definition list_markers (cfg : config) (ds de s : str) : res (list (marker * bool)) :=
  markers <- markers_of cfg ds de s ;;
  Ok (map (fun v => (v, true)) markers).

Definition list_pretty (cfg : config) (ds de s : str) : res str :=
  markers <- list_markers cfg ds de s ;; build_pretty_string s markers.
Definition list_json (cfg : config) (ds de s : str) : res str :=
  markers <- list_markers cfg ds de s ;; items <- build_list s markers ;; Ok (json_list items).
Definition list_all_pretty (cfg : config) (ds de s : str) : res str :=
  markers <- markers_all_of cfg ds de s ;; build_pretty_string s markers.
Definition list_all_json (cfg : config) (ds de s : str) : res str :=
  markers <- markers_all_of cfg ds de s ;; items <- build_list s markers ;; Ok (json_list items).
