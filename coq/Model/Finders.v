(** Model of chiritori/src/code/utils/{line_break_pos_finder,char_pos_finder,blank_counter,line_map}.rs *)
From Coq Require Import List NArith Arith Bool Lia.
Import ListNotations.
From Chiri Require Import Base.Bytes Base.Res.

Inductive check_result := CSkip | CFound | CNone.

(** line_break_pos_finder::check at a cursor known to be < len. *)
Definition check_lb (s : str) (cursor : nat) : check_result :=
  if negb (is_boundary s cursor) then CSkip
  else match nth_error s cursor with
       | Some b => if beq b SP || beq b TAB then CSkip
                   else if beq b NL then CFound else CNone
       | None => CNone
       end.

(** [find_next_line_break_pos]; [fuel] bounds the number of loop iterations. *)
Fixpoint find_next_lb_loop (fuel : nat) (s : str) (cursor : nat) (pause : bool) : option nat :=
  match fuel with
  | 0 => None
  | S f =>
    if length s <=? cursor then None
    else match check_lb s cursor with
         | CSkip => find_next_lb_loop f s (S cursor) pause
         | CFound => Some cursor
         | CNone => if pause then None else find_next_lb_loop f s (S cursor) pause
         end
  end.
Definition find_next_lb (s : str) (pos : nat) (pause : bool) : option nat :=
  find_next_lb_loop (S (length s - pos)) s pos pause.

(** [find_prev_line_break_pos]: structural on the cursor. *)
Fixpoint find_prev_lb (s : str) (cursor : nat) (pause : bool) : option nat :=
  match cursor with
  | 0 => None
  | S c =>
    if length s <=? c then None
    else match check_lb s c with
         | CSkip => find_prev_lb s c pause
         | CFound => Some c
         | CNone => if pause then None else find_prev_lb s c pause
         end
  end.

(** char_pos_finder::check and [find_next_char_pos] (which keeps its [cursor == 0] test). *)
Definition check_char (s : str) (cursor : nat) : check_result :=
  if negb (is_boundary s cursor) then CSkip
  else match nth_error s cursor with
       | Some b => if beq b SP || beq b TAB then CSkip else CFound
       | None => CNone
       end.

Fixpoint find_next_char_loop (fuel : nat) (s : str) (cursor : nat) : option nat :=
  match fuel with
  | 0 => None
  | S f =>
    if (length s <=? cursor) || (cursor =? 0) then None
    else match check_char s cursor with
         | CSkip => find_next_char_loop f s (S cursor)
         | CFound => Some cursor
         | CNone => None
         end
  end.
Definition find_next_char (s : str) (pos : nat) : option nat :=
  find_next_char_loop (S (length s - pos)) s pos.

(** blank_counter::count_tabspace *)
Definition count_tabspace (s : str) : nat := length (filter (fun b => beq b TAB) s).

(** line_map::build_line_map / find_line *)
Fixpoint build_line_map_from (i : nat) (s : str) : list nat :=
  match s with
  | [] => []
  | b :: s' => if beq b NL then i :: build_line_map_from (S i) s' else build_line_map_from (S i) s'
  end.
Definition build_line_map (s : str) : list nat := build_line_map_from 0 s.

Fixpoint position_gt (m : list nat) (needle : nat) (i : nat) : option nat :=
  match m with
  | [] => None
  | v :: m' => if needle <? v then Some i else position_gt m' needle (S i)
  end.
Definition find_line (m : list nat) (needle : nat) : nat :=
  match position_gt m needle 0 with
  | Some found => found + 1
  | None => length m + 1
  end.
