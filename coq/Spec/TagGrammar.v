(** C09: the tag grammar: an abstract tag and its printer. *)
From Coq Require Import List NArith Arith Bool Lia.
Import ListNotations.
From Chiri Require Import Base.Bytes.

Inductive quote := QDouble | QSingle.
Definition quote_byte (q : quote) : byte := match q with QDouble => DQ | QSingle => SQ end.

(** An attribute: a bare word, or name=value with spaces allowed around '='. *)
Record attr_ast := mkAttr {
  at_sep : list byte;                      (* separator printed before the attribute *)
  at_name : str;
  at_value : option (nat * nat * quote * str)   (* spaces before '=', spaces after '=', quote, value *)
}.

Record tag_ast := mkTag {
  tg_pad_left : nat;                       (* spaces inside the start delimiter *)
  tg_name : str;
  tg_attrs : list attr_ast;
  tg_pad_right : list byte                 (* spaces / line breaks before the end delimiter *)
}.

Definition print_attr (a : attr_ast) : str :=
  at_sep a ++ at_name a ++
  match at_value a with
  | None => []
  | Some (n1, n2, q, v) => repeat SP n1 ++ [EQC] ++ repeat SP n2 ++ [quote_byte q] ++ v ++ [quote_byte q]
  end.

(** The text between the delimiters. *)
Definition print_body (t : tag_ast) : str :=
  repeat SP (tg_pad_left t) ++ tg_name t ++ flat_map print_attr (tg_attrs t) ++ tg_pad_right t.

Definition is_sep_byte (b : byte) : bool := beq b SP || beq b NL.

(** A name: non-empty, no space / line break / '=', not starting with a quote. *)
Definition wf_name (n : str) : bool :=
  match n with
  | [] => false
  | b :: _ => negb (beq b DQ) && negb (beq b SQ)
              && forallb (fun c => negb (is_sep_byte c) && negb (beq c EQC)) n
  end.

Definition wf_attr (a : attr_ast) : bool :=
  match at_sep a with [] => false | _ => forallb is_sep_byte (at_sep a) end
  && wf_name (at_name a)
  && match at_value a with
     | None => true
     | Some (_, _, q, v) => forallb (fun c => negb (beq c (quote_byte q))) v
     end.

(** After a quoted value the next attribute needs no separator for the parser, but the grammar
    always prints one.  The right padding consists of separators only. *)
Definition wf_tag (t : tag_ast) : bool :=
  wf_name (tg_name t) && forallb wf_attr (tg_attrs t) && forallb is_sep_byte (tg_pad_right t).

(** What the tag means: its name and, in order, the attribute names and values. *)
Definition attrs_of (t : tag_ast) : list (str * option str) :=
  map (fun a => (at_name a, match at_value a with
                           | None => None
                           | Some (_, _, _, v) => Some v
                           end)) (tg_attrs t).
