(** C02 / C03: the removable extents of the ready elements of a parsed document. *)
From Coq Require Import List NArith ZArith Arith Bool Lia.
Import ListNotations.
From Chiri Require Import Base.Bytes Base.Res Model.Tokenizer Model.TagParser Model.TreeParser
     Model.Markers Spec.Ranges Spec.Forest.

(** The removable extent of one element: nothing unless the element is ready (condition holds, no
    skip) and its range is non-empty; the whole element (first byte of the opening tag to last byte
    of the closing tag) for the default strategy; the two parts built for an unwrap-block. *)
Definition element_extent (cfg : config) (content : str) (e : element * token * token)
  : list Ranges.range :=
  let '(el, st, et) := e in
  match element_range cfg content false el st et with
  | Some (r, true) => rr_ranges r
  | _ => []
  end.

(** All extents, of every ready element at every depth, in document order. *)
Definition extents (cfg : config) (content : str) (parts : list part) : list Ranges.range :=
  flat_map (element_extent cfg content) (all_elements parts).

(** The non-whitespace bytes of a string. *)
Definition nonws (s : str) : str := filter (fun b => negb (is_ws b)) s.
