(** C17: what list_all must contain, given the ready and the pending regions. *)
From Coq Require Import List NArith Arith Bool Lia.
Import ListNotations.
From Chiri Require Import Base.Bytes Model.Markers Spec.Ranges.

(** A pending region is squashed when it lies inside a ready region (its start and its end both
    fall inside the half-open ready range). *)
Definition squashed (ready : list marker) (p : marker) : bool :=
  existsb (fun r => contains (fst r) (fst (fst p)) && contains (fst r) (snd (fst p))) ready.

(** Items in source order: non-decreasing start offsets. *)
Fixpoint starts_sorted (l : list (marker * bool)) : Prop :=
  match l with
  | a :: ((b :: _) as rest) => fst (fst (fst a)) <= fst (fst (fst b)) /\ starts_sorted rest
  | _ => True
  end.
