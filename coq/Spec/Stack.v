(** C10: the reference reading of pairing: a one-pass stack machine over the token sequence.
    [cls t] is the parsed tag of token [t] ([None] for text tokens and for tag tokens that do not
    parse to an element). *)
From Coq Require Import List NArith Arith Bool Lia.
Import ListNotations.
From Chiri Require Import Base.Bytes Model.Tokenizer Model.TagParser Model.TreeParser.

Record frame := mkFrame {
  fr_tok : token;               (* the opening tag token *)
  fr_el : element;              (* its parsed tag *)
  fr_children : list part       (* the parts collected so far, in document order *)
}.

(** The machine state: open frames, innermost first, and the parts at top level. *)
Definition mstate := (list frame * list part)%type.

(** Append parts to the innermost open frame, or to the top level when no frame is open. *)
Definition push_parts (st : mstate) (ps : list part) : mstate :=
  match st with
  | ([], root) => ([], root ++ ps)
  | (f :: fs, root) => (mkFrame (fr_tok f) (fr_el f) (fr_children f ++ ps) :: fs, root)
  end.

(** Close the innermost frame named [name] with the closing token [t].  Frames above it are
    demoted: an unclosed opener becomes a text node followed by its former children, and these
    parts ([carry]) go to the end of the frame below. *)
Fixpoint close_frame (name : str) (t : token) (stack : list frame) (root : list part)
         (carry : list part) : mstate :=
  match stack with
  | [] => ([], root ++ carry)
  | f :: fs =>
    let children := fr_children f ++ carry in
    if str_eqb (el_name (fr_el f)) name
    then push_parts (fs, root) [PElem (fr_el f) (fr_tok f) t children]
    else close_frame name t fs root (PText (fr_tok f) :: children)
  end.

Definition is_closer (el : element) (stack : list frame) : bool :=
  starts_with_slash (el_name el)
  && existsb (fun f => str_eqb (el_name (fr_el f)) (trim_slashes (el_name el))) stack.

Definition mstep (cls : token -> option element) (st : mstate) (t : token) : mstate :=
  match cls t with
  | None => push_parts st [PText t]
  | Some el =>
    if is_closer el (fst st)
    then close_frame (trim_slashes (el_name el)) t (fst st) (snd st) []
    else (mkFrame t el [] :: fst st, snd st)
  end.

(** At the end of the input every open frame is demoted. *)
Fixpoint finish (stack : list frame) (root : list part) (carry : list part) : list part :=
  match stack with
  | [] => root ++ carry
  | f :: fs => finish fs root (PText (fr_tok f) :: fr_children f ++ carry)
  end.

Definition stack_tree (cls : token -> option element) (tokens : list token) : list part :=
  let '(stack, root) := fold_left (mstep cls) tokens ([], []) in finish stack root [].

(** Every token of a tree, in document order. *)
Fixpoint flatten_part (p : part) : list token :=
  match p with
  | PText t => [t]
  | PElem _ st et children => st :: flat_map flatten_part children ++ [et]
  end.
Definition flatten (ps : list part) : list token := flat_map flatten_part ps.
