(** C18: abstract documents and their rendering with a delimiter spelling. *)
From Coq Require Import List NArith Arith Bool Lia.
Import ListNotations.
From Chiri Require Import Base.Bytes.

Inductive item :=
| Txt (t : str)        (* text between tags *)
| Tag (body : str).    (* the text between the delimiters of a tag *)

Definition render_item (ds de : str) (i : item) : str :=
  match i with Txt t => t | Tag body => ds ++ body ++ de end.
Definition render (ds de : str) (doc : list item) : str := flat_map (render_item ds de) doc.

(** Spans (is_tag, byte_start, byte_end) of the rendered items, starting at offset [pos]. *)
Fixpoint spans_of (ds de : str) (pos : nat) (doc : list item) : list (bool * nat * nat) :=
  match doc with
  | [] => []
  | i :: rest =>
    let n := length (render_item ds de i) in
    (match i with Txt _ => false | Tag _ => true end, pos, pos + n) :: spans_of ds de (pos + n) rest
  end.

(** The delimiters' bytes occur nowhere else: not in texts, not in tag bodies. *)
Definition disjoint_from (ds de x : str) : Prop := forall b, In b x -> ~ In b ds /\ ~ In b de.

(** Normal form: texts and tag bodies are non-empty and no two texts are adjacent. *)
Fixpoint normal (doc : list item) : Prop :=
  match doc with
  | [] => True
  | Txt t :: rest => t <> [] /\ match rest with Txt _ :: _ => False | _ => True end /\ normal rest
  | Tag b :: rest => b <> [] /\ normal rest
  end.

Definition doc_disjoint (ds de : str) (doc : list item) : Prop :=
  forall i, In i doc -> match i with Txt t => disjoint_from ds de t | Tag b => disjoint_from ds de b end.
