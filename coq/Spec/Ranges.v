(** Byte ranges, sets of positions, and deletion of positions from a string. *)
From Coq Require Import List NArith Arith Bool Lia.
Import ListNotations.
From Chiri Require Import Base.Bytes.

Definition range := (nat * nat)%type.      (* [a, b) *)

Definition in_range (r : range) (i : nat) : Prop := fst r <= i /\ i < snd r.
Definition in_ranges (rs : list range) (i : nat) : Prop := exists r, In r rs /\ in_range r i.

Definition in_rangeb (r : range) (i : nat) : bool := (fst r <=? i) && (i <? snd r).
Definition in_rangesb (rs : list range) (i : nat) : bool := existsb (fun r => in_rangeb r i) rs.

(** Ranges in ascending order without overlap, all at or after [lo]; empty ranges are allowed. *)
Fixpoint sorted_from (lo : nat) (rs : list range) : Prop :=
  match rs with
  | [] => True
  | (a, b) :: rest => lo <= a /\ a <= b /\ sorted_from b rest
  end.

(** The same with non-empty ranges only. *)
Fixpoint sorted_nonempty_from (lo : nat) (rs : list range) : Prop :=
  match rs with
  | [] => True
  | (a, b) :: rest => lo <= a /\ a < b /\ sorted_nonempty_from b rest
  end.

(** Ranges separated by at least one kept position (what merge_overlapped_ranges produces). *)
Fixpoint separated_from (lo : nat) (rs : list range) : Prop :=
  match rs with
  | [] => True
  | (a, b) :: rest => lo <= a /\ a <= b /\ separated_from (S b) rest
  end.

Definition bounded_by (hi : nat) (rs : list range) : Prop := forall r, In r rs -> snd r <= hi.

Definition on_boundaries (s : str) (rs : list range) : Prop :=
  forall r, In r rs -> is_boundary s (fst r) = true /\ is_boundary s (snd r) = true.

(** Deleting the positions selected by a predicate. *)
Fixpoint delete_where_from (i : nat) (P : nat -> bool) (s : str) : str :=
  match s with
  | [] => []
  | b :: s' => if P i then delete_where_from (S i) P s' else b :: delete_where_from (S i) P s'
  end.
Definition delete_where (P : nat -> bool) (s : str) : str := delete_where_from 0 P s.
Definition delete_ranges (rs : list range) (s : str) : str := delete_where (in_rangesb rs) s.

(** The number of positions below [i] that survive the deletion: the new index of old index [i]. *)
Fixpoint rank_from (k : nat) (P : nat -> bool) (n : nat) : nat :=
  match n with
  | 0 => 0
  | S n' => (if P k then 0 else 1) + rank_from (S k) P n'
  end.
Definition rank (P : nat -> bool) (i : nat) : nat := rank_from 0 P i.

(** Every selected position holds a whitespace byte. *)
Definition only_ws (s : str) (P : nat -> bool) : Prop :=
  forall i b, P i = true -> nth_error s i = Some b -> is_ws b = true.

Definition ranges_only_ws (s : str) (rs : list range) : Prop :=
  forall r i b, In r rs -> in_range r i -> nth_error s i = Some b -> is_ws b = true.

Definition ranges_only_blank (s : str) (rs : list range) : Prop :=
  forall r i b, In r rs -> in_range r i -> nth_error s i = Some b -> is_blank b = true.
