(** C07 / C08: the reference reading of "tag tokens": a textbook left-to-right scan.
    Spans are (is_tag, byte_start, byte_end). *)
From Coq Require Import List NArith Arith Bool Lia.
Import ListNotations.
From Chiri Require Import Base.Bytes.

(** [occurs_at p s i]: the string [p] occurs in [s] at byte offset [i]. *)
Definition occurs_at (p s : str) (i : nat) : Prop := i <= length s /\ prefix p (skipn i s) = true.

(** [leftmost p s i]: [i] is the offset of the leftmost occurrence of [p] in [s]. *)
Definition leftmost (p s : str) (i : nat) : Prop :=
  occurs_at p s i /\ forall j, j < i -> ~ occurs_at p s j.

(** The scan of [rest] (which starts at absolute offset [pos]): leftmost start delimiter, one body
    character, the first end delimiter that begins after that character; continue behind the
    span; when no tag is found the remainder is one text span. *)
Fixpoint scan (fuel : nat) (ds de : str) (pos : nat) (rest : str) : list (bool * nat * nat) :=
  match fuel with
  | 0 => []
  | S f =>
    match rest with
    | [] => []
    | _ =>
      let text_to_end := [(false, pos, pos + length rest)] in
      match find_sub ds rest with
      | None => text_to_end
      | Some i =>
        match skipn (i + length ds) rest with
        | [] => text_to_end
        | b :: _ =>
          let body := i + length ds + char_len b in
          match find_sub de (skipn body rest) with
          | None => text_to_end
          | Some j =>
            let e := body + j + length de in
            (if i =? 0 then [] else [(false, pos, pos + i)])
              ++ (true, pos + i, pos + e) :: scan f ds de (pos + e) (skipn e rest)
          end
        end
      end
    end
  end.

Definition scan_spans (s ds de : str) : list (bool * nat * nat) := scan (S (length s)) ds de 0 s.
