(** C05: wall-clock times as strings, and what they mean. *)
From Coq Require Import List NArith ZArith Arith Bool Lia.
Import ListNotations.
From Chiri Require Import Base.Bytes Model.Chrono.
Local Open Scope Z_scope.

Definition digit (n : Z) : byte := Z.to_N (48 + n).
Definition render2 (n : Z) : str := [digit (n / 10); digit (n mod 10)].
Definition render4 (n : Z) : str :=
  [digit (n / 1000); digit ((n / 100) mod 10); digit ((n / 10) mod 10); digit (n mod 10)].

(** "YYYY-MM-DD HH:MM:SS" *)
Definition render_to (y m d h mi s : Z) : str :=
  render4 y ++ [45%N] ++ render2 m ++ [45%N] ++ render2 d ++ [SP]
  ++ render2 h ++ [58%N] ++ render2 mi ++ [58%N] ++ render2 s.

(** "+HH:MM" / "+HHMM" / "-HH:MM" / "-HHMM" *)
Definition render_offset (negative colon : bool) (oh om : Z) : str :=
  [if negative then 45%N else 43%N] ++ render2 oh ++ (if colon then [58%N] else []) ++ render2 om.

Definition offset_seconds (negative : bool) (oh om : Z) : Z :=
  (if negative then -1 else 1) * (oh * 3600 + om * 60).

Definition valid_civil (y m d h mi s : Z) : Prop :=
  0 <= y <= 9999 /\ 1 <= m <= 12 /\ 1 <= d <= days_in_month y m /\
  0 <= h <= 23 /\ 0 <= mi <= 59 /\ 0 <= s <= 59.

Definition valid_offset (oh om : Z) : Prop := 0 <= oh <= 23 /\ 0 <= om <= 59.

(** The instant (seconds since 1970-01-01T00:00:00Z) denoted by a wall-clock time read at an offset. *)
Definition instant (y m d h mi s : Z) (negative : bool) (oh om : Z) : Z :=
  days_from_civil y m d * 86400 + h * 3600 + mi * 60 + s - offset_seconds negative oh om.

(** The next calendar day. *)
Definition next_day (y m d : Z) : Z * Z * Z :=
  if d <? days_in_month y m then (y, m, d + 1)
  else if m <? 12 then (y, m + 1, 1) else (y + 1, 1, 1).
