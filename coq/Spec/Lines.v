(** Line structure of a byte string: line breaks around a position, indentation. *)
From Coq Require Import List NArith Arith Bool Lia.
Import ListNotations.
From Chiri Require Import Base.Bytes.

(** [is_next_nl s i p]: [p] is the first index >= i holding a line break. *)
Definition is_next_nl (s : str) (i p : nat) : Prop :=
  i <= p /\ nth_error s p = Some NL /\ forall j, i <= j -> j < p -> nth_error s j <> Some NL.
Definition no_nl_from (s : str) (i : nat) : Prop := forall j, i <= j -> nth_error s j <> Some NL.

(** [is_prev_nl s i p]: [p] is the last index < i holding a line break. *)
Definition is_prev_nl (s : str) (i p : nat) : Prop :=
  p < i /\ nth_error s p = Some NL /\ forall j, p < j -> j < i -> nth_error s j <> Some NL.
Definition no_nl_before (s : str) (i : nat) : Prop := forall j, j < i -> nth_error s j <> Some NL.

(** Number of leading blanks (spaces / tabs) of a string. *)
Fixpoint leading_blanks (l : str) : nat :=
  match l with
  | b :: l' => if is_blank b then S (leading_blanks l') else 0
  | [] => 0
  end.

(** [line_start s ls]: [ls] is the start of a line (the start of the string or just after a line break). *)
Definition is_line_start (s : str) (ls : nat) : Prop :=
  ls = 0 \/ (exists p, ls = S p /\ nth_error s p = Some NL).
