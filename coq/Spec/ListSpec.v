(** C15 / C16: what a list item must look like. *)
From Coq Require Import List NArith Arith Bool Lia.
Import ListNotations.
From Chiri Require Import Base.Bytes Base.Res Model.ListRender.

(** The source split at line breaks: piece k (0-based) is line k+1.  A final line break yields a
    final empty piece (which no region can touch). *)
Fixpoint split_nl (s : str) (cur : str) : list str :=
  match s with
  | [] => [cur]
  | b :: s' => if beq b NL then cur :: split_nl s' [] else split_nl s' (cur ++ [b])
  end.
Definition source_lines (s : str) : list str := split_nl s [].
Definition nth_line (s : str) (n : nat) : str := nth (n - 1) (source_lines s) [].

(** Start of the line containing byte [i]: the position after the last line break before [i]. *)
Fixpoint line_start_from (k : nat) (s : str) (i : nat) (acc : nat) : nat :=
  match s with
  | [] => acc
  | b :: s' => if i <=? k then acc
               else line_start_from (S k) s' i (if beq b NL then S k else acc)
  end.
Definition line_start_of (s : str) (i : nat) : nat := line_start_from 0 s i 0.

(** A marker line: as many spaces as the line-number column (9) plus the tab-expanded width of the
    text left of the marked character, then the marker word. *)
Definition marker_line (prefix : str) (word : str) : str :=
  repeat SP (LINE_COLUMN_WIDTH + length (replace_tabs prefix)) ++ word.

(** The plain (uncoloured) item for the region [a, b) whose first and last characters are on lines
    [first] and [last]. *)
Definition expected_item (content : str) (a b first last : nat) : str :=
  marker_line (sub content (line_start_of content a) a) MARKER_START ++ [NL]
  ++ flat_map (fun k => line_column k ++ replace_tabs (nth_line content k) ++ [NL])
              (seq first (S last - first))
  ++ marker_line (sub content (line_start_of content (b - 1)) (b - 1)) MARKER_END.

(** Removing the colour escape sequences of the pretty form. *)
Fixpoint strip_colors (fuel : nat) (s : str) : str :=
  match fuel with
  | 0 => s
  | S f =>
    match s with
    | [] => []
    | b :: s' =>
      if prefix COL_GREEN s then strip_colors f (skipn (length COL_GREEN) s)
      else if prefix COL_RED s then strip_colors f (skipn (length COL_RED) s)
      else if prefix COL_YELLOW s then strip_colors f (skipn (length COL_YELLOW) s)
      else if prefix COL_RESET s then strip_colors f (skipn (length COL_RESET) s)
      else b :: strip_colors f s'
    end
  end.
Definition uncolored (s : str) : str := strip_colors (length s) s.
