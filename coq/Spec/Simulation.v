(** C18: the conditions under which two spellings of one abstract document are compared, and the
    correspondence of byte positions between the two renderings. *)
From Coq Require Import List NArith Arith Bool Lia.
Import ListNotations.
From Chiri Require Import Base.Bytes Spec.Rename.

(** A delimiter pair that can be compared: non-empty, well-formed UTF-8, no line break inside, the
    start delimiter does not begin with whitespace and the end delimiter does not end with it. *)
Definition good_delims (ds de : str) : Prop :=
  ds <> [] /\ de <> [] /\ wf_utf8 ds = true /\ wf_utf8 de = true /\
  ~ In NL ds /\ ~ In NL de /\
  match ds with b :: _ => is_ws b = false | [] => False end /\
  match rev de with b :: _ => is_ws b = false | [] => False end.

(** A document that can be rendered with a spelling: normal form, the delimiter bytes occur
    nowhere else, texts and tag bodies are well-formed UTF-8. *)
Definition good_doc (ds de : str) (doc : list item) : Prop :=
  normal doc /\ doc_disjoint ds de doc /\
  (forall t, In (Txt t) doc -> wf_utf8 t = true) /\
  (forall b, In (Tag b) doc -> wf_utf8 b = true).

(** Abstract positions of a document: inside a text, at the start of a tag, inside a tag body, or
    at the end of the document.  Positions inside the delimiters themselves have no counterpart. *)
Inductive apos :=
| InTxt (i k : nat)      (* item i is a text, offset k < its length *)
| TagStart (i : nat)     (* item i is a tag: the first byte of its start delimiter *)
| InBody (i k : nat)     (* item i is a tag: offset k < length of its body *)
| DocEnd.

Definition item_len (ds de : str) (it : item) : nat := length (render_item ds de it).

(** Byte offset of the start of item i in the rendering. *)
Fixpoint item_start (ds de : str) (doc : list item) (i : nat) : nat :=
  match i, doc with
  | 0, _ => 0
  | S i', it :: rest => item_len ds de it + item_start ds de rest i'
  | S _, [] => 0
  end.

Definition valid_apos (doc : list item) (a : apos) : Prop :=
  match a with
  | InTxt i k => exists t, nth_error doc i = Some (Txt t) /\ k < length t
  | TagStart i => exists b, nth_error doc i = Some (Tag b)
  | InBody i k => exists b, nth_error doc i = Some (Tag b) /\ k < length b
  | DocEnd => True
  end.

(** The concrete byte position of an abstract position under a spelling. *)
Definition cpos (ds de : str) (doc : list item) (a : apos) : nat :=
  match a with
  | InTxt i k => item_start ds de doc i + k
  | TagStart i => item_start ds de doc i
  | InBody i k => item_start ds de doc i + length ds + k
  | DocEnd => length (render ds de doc)
  end.
