(** The range trees handed to merge_markers: what they cover and when they are well formed. *)
From Coq Require Import List NArith Arith Bool Lia.
Import ListNotations.
From Chiri Require Import Base.Bytes Model.Markers Spec.Ranges.

(** The ranges of one element: its (opening) part and, for an unwrap-block, its closing part. *)
Definition rr_ranges (r : removable_range) : list Ranges.range :=
  fst r :: match snd r with Some t => [t] | None => [] end.

Fixpoint rtree_ranges (t : rtree) : list Ranges.range :=
  match t with RT r ch => rr_ranges r ++ flat_map rtree_ranges ch end.
Definition forest_ranges (f : list rtree) : list Ranges.range := flat_map rtree_ranges f.

(** The last byte position (exclusive) of the element a tree stands for. *)
Definition rr_hi (r : removable_range) : nat :=
  match snd r with Some t => snd t | None => snd (fst r) end.
Definition rtree_hi (t : rtree) : nat := match t with RT r _ => rr_hi r end.

(** A tree is well formed within [lo, hi]: its opening part is non-empty and starts at or after
    [lo]; its closing part, if any, is non-empty and does not start before the end of the opening
    part; the element ends at or before [hi]; its children are well formed, in order, and lie
    strictly inside the element (after its first byte, before its last byte). *)
Fixpoint wf_rtree (lo hi : nat) (t : rtree) {struct t} : Prop :=
  match t with
  | RT (h, cl) ch =>
    let span_hi := match cl with Some tl => snd tl | None => snd h end in
    lo <= fst h /\ fst h < snd h /\ span_hi <= hi /\
    match cl with Some tl => snd h <= fst tl /\ fst tl < snd tl | None => True end /\
    (fix wf_children (lo' : nat) (l : list rtree) {struct l} : Prop :=
       match l with
       | [] => True
       | c :: l' => wf_rtree lo' (span_hi - 1) c /\ wf_children (rtree_hi c) l'
       end) (S (fst h)) ch
  end.

Fixpoint wf_forest (lo hi : nat) (f : list rtree) : Prop :=
  match f with
  | [] => True
  | t :: f' => wf_rtree lo hi t /\ wf_forest (rtree_hi t) hi f'
  end.

(** The pair indices of a marker list are consistent: a marker that names a partner names a
    different, existing marker that names it back. *)
Definition pairs_consistent (ms : list marker) : Prop :=
  forall k r p, nth_error ms k = Some (r, Some p) ->
    p <> k /\ exists r', nth_error ms p = Some (r', Some k).
