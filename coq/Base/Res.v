(** Results with an explicit panic outcome: every Rust operation that can panic (slicing,
    [replace_range], indexing, [unwrap], checked [usize] subtraction, [panic!]) yields [Panic]. *)
From Coq Require Import List NArith Arith Bool Lia.
Import ListNotations.
From Chiri Require Import Base.Bytes.

Inductive res (A : Type) : Type :=
| Ok (a : A)
| Panic.
Arguments Ok {A} a.
Arguments Panic {A}.

Definition bind {A B} (r : res A) (f : A -> res B) : res B :=
  match r with Ok a => f a | Panic => Panic end.

Notation "x <- e ;; f" := (bind e (fun x => f))
  (at level 61, e at next level, right associativity).
Notation "' p <- e ;; f" := (bind e (fun x => match x with p => f end))
  (at level 61, p pattern, e at next level, right associativity).

Definition is_ok {A} (r : res A) : bool := match r with Ok _ => true | Panic => false end.

(** Checked [usize] subtraction (overflow checks are on in the dev profile). *)
Definition csub (a b : nat) : res nat := if b <=? a then Ok (a - b) else Panic.

(** [&s[a..b]]: panics unless a <= b <= len and both are character boundaries. *)
Definition sub (s : str) (a b : nat) : str := firstn (b - a) (skipn a s).
Definition slice (s : str) (a b : nat) : res str :=
  if (a <=? b) && (b <=? length s) && is_boundary s a && is_boundary s b
  then Ok (sub s a b) else Panic.
Definition slice_from (s : str) (a : nat) : res str := slice s a (length s).

(** [String::replace_range(a..b, "")]. *)
Definition replace_range (s : str) (a b : nat) : res str :=
  if (a <=? b) && (b <=? length s) && is_boundary s a && is_boundary s b
  then Ok (firstn a s ++ skipn b s) else Panic.

Definition index {A} (l : list A) (i : nat) : res A :=
  match nth_error l i with Some x => Ok x | None => Panic end.

(** [&l[a..b]] on a vector. *)
Definition slice_list {A} (l : list A) (a b : nat) : res (list A) :=
  if (a <=? b) && (b <=? length l) then Ok (firstn (b - a) (skipn a l)) else Panic.

(** Monadic left fold. *)
Fixpoint foldM {A B} (f : A -> B -> res A) (l : list B) (a : A) : res A :=
  match l with
  | [] => Ok a
  | x :: l' => a' <- f a x ;; foldM f l' a'
  end.
