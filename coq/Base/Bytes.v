(** Bytes, strings as byte lists, UTF-8 structure as Rust's [str] sees it. *)
From Coq Require Import List NArith Arith Bool Lia.
Import ListNotations.

Definition byte := N.
Definition str := list byte.

Definition SP : byte := 32%N.
Definition NL : byte := 10%N.
Definition TAB : byte := 9%N.
Definition CR : byte := 13%N.
Definition EQC : byte := 61%N.
Definition DQ : byte := 34%N.
Definition SQ : byte := 39%N.
Definition SLASH : byte := 47%N.

Definition beq (a b : byte) : bool := N.eqb a b.

Fixpoint str_eqb (a b : str) : bool :=
  match a, b with
  | [], [] => true
  | x :: a', y :: b' => beq x y && str_eqb a' b'
  | _, _ => false
  end.

(** A UTF-8 continuation byte 10xxxxxx. *)
Definition is_cont (b : byte) : bool := (128 <=? b)%N && (b <? 192)%N.

(** [str::is_char_boundary]: 0 and len are boundaries, an index beyond len is not,
    otherwise the byte at the index must not be a continuation byte. *)
Definition is_boundary (s : str) (i : nat) : bool :=
  match i with
  | 0 => true
  | _ => match nth_error s i with
         | Some b => negb (is_cont b)
         | None => Nat.eqb i (length s)
         end
  end.

(** [char::len_utf8] of the character whose first byte is [b] (in well-formed UTF-8). *)
Definition char_len (b : byte) : nat :=
  if (b <? 128)%N then 1 else if (b <? 224)%N then 2 else if (b <? 240)%N then 3 else 4.

(** [str::chars().count()]. *)
Definition count_chars (s : str) : nat := length (filter (fun b => negb (is_cont b)) s).

(** [str::char_indices()], as (byte position, first byte of the character).  All characters the
    code compares against are ASCII, so a character is identified by its first byte. *)
Fixpoint char_indices_from (i : nat) (s : str) : list (nat * byte) :=
  match s with
  | [] => []
  | b :: s' => if is_cont b then char_indices_from (S i) s'
               else (i, b) :: char_indices_from (S i) s'
  end.
Definition char_indices (s : str) : list (nat * byte) := char_indices_from 0 s.

(** Prefix test and leftmost substring search: [str::starts_with], [str::find]. *)
Fixpoint prefix (p s : str) : bool :=
  match p, s with
  | [], _ => true
  | a :: p', b :: s' => beq a b && prefix p' s'
  | _ :: _, [] => false
  end.

Fixpoint find_sub (p s : str) : option nat :=
  if prefix p s then Some 0
  else match s with
       | [] => None
       | _ :: s' => option_map S (find_sub p s')
       end.

(** Well-formed UTF-8 in the sense the code relies on: a sequence of characters, each a lead
    byte followed by exactly [char_len lead - 1] continuation bytes.  Every valid UTF-8 string
    (RFC 3629) satisfies this; the converse is not needed. *)
Definition is_lead (b : byte) : bool :=
  (b <? 128)%N || ((192 <=? b)%N && (b <? 248)%N).

Fixpoint all_cont (n : nat) (s : str) : option str :=
  match n with
  | 0 => Some s
  | S n' => match s with
            | b :: s' => if is_cont b then all_cont n' s' else None
            | [] => None
            end
  end.

Fixpoint wf_utf8_fuel (fuel : nat) (s : str) : bool :=
  match s with
  | [] => true
  | b :: s' =>
    match fuel with
    | 0 => false
    | S f => is_lead b &&
             match all_cont (char_len b - 1) s' with
             | Some rest => wf_utf8_fuel f rest
             | None => false
             end
    end
  end.
Definition wf_utf8 (s : str) : bool := wf_utf8_fuel (length s) s.

Definition is_ws (b : byte) : bool := beq b SP || beq b TAB || beq b NL.
Definition is_blank (b : byte) : bool := beq b SP || beq b TAB.
