(** C13 Block-style removal keeps lines intact and leaves no blank-line residue. *)
From Coq Require Import List NArith Arith Bool.
Import ListNotations.
From Chiri Require Import Base.Bytes Base.Res Model.Finders Model.Format Spec.Ranges Spec.Lines
     Model.TagParser Model.Markers Model.Clean Spec.Rename Spec.Simulation
     Proofs.FormatterProofs Proofs.SeamProofs Proofs.RenameProofs Proofs.BlockDoc
     Proofs.WellNested Proofs.AstCollect Proofs.MultiBlock.

(** After a block of whole lines has been deleted, what is left of it is the indentation of the
    opening tag's line (blanks, [ls, p)) and the line break that ended the closing tag's line (at p).
    The four seam formatters together delete exactly:
      neither neighbour line blank : the residue and its line break  - the block leaves no line;
      only the previous line blank : that blank line and the residue (the line break stays)  - b blank lines stay b;
      only the next line blank     : the residue, the line break and the content of the next line  - a stay a;
      both blank                   : the previous blank line, the residue, the line break and the next
                                     line's content  - a + b blank lines become a + b - 1.
    (Hypothesis 1 <= ls: the tag line is not the first line of the file; see C13_first_line_block_fixed.) *)
Theorem C13_seam_hull_partial :
  forall s ls p,
    wf_utf8 s = true -> nth_error s p = Some NL -> is_boundary s p = true ->
    1 <= ls -> ls <= p -> nth_error s (ls - 1) = Some NL ->
    (forall i b, ls <= i -> i < p -> nth_error s i = Some b -> is_blank b = true) ->
    (prev_line_not_blank s ls -> next_line_not_blank s p -> format_block s p = Ok (ls, p + 1)) /\
    (forall q, prev_line_blank s ls q -> next_line_not_blank s p -> format_block s p = Ok (q + 1, p)) /\
    (forall q', prev_line_not_blank s ls -> next_line_blank s p q' -> format_block s p = Ok (ls, q')) /\
    (forall q q', prev_line_blank s ls q -> next_line_blank s p q' -> format_block s p = Ok (q + 1, q')).
Proof. exact seam_hull. Qed.
Print Assumptions C13_seam_hull_partial.

(** Whatever the layout, a seam range covers only spaces, tabs and line breaks, contains the seam,
    stays inside the string and lies on character boundaries: surviving lines are never cut. *)
Theorem C13_seam_range_is_whitespace :
  forall s pos a b,
    wf_utf8 s = true -> is_boundary s pos = true -> pos <= length s -> format_block s pos = Ok (a, b) ->
    a <= pos /\ pos <= b /\ b <= length s /\ ranges_only_ws s [(a, b)] /\
    is_boundary s a = true /\ is_boundary s b = true.
Proof. exact format_block_spec. Qed.
Print Assumptions C13_seam_range_is_whitespace.

(** A removal inside a line (the seam is not at a line break) triggers neither the indentation nor
    the empty-line remover. *)
Theorem C13_inline_seam_untouched :
  forall s p b, nth_error s p = Some b -> b <> NL ->
    indent_remover s p = Ok (p, p) /\ (is_boundary s p = true -> empty_line_remover s p = Ok (p, p)).
Proof. exact seam_not_at_line_break. Qed.
Print Assumptions C13_inline_seam_untouched.

(** The repair of known finding KF1 (listed in known_findings.json), as a theorem about the faithful
    model: when the tag line is the first line of the file and indented, the indentation residue is
    deleted together with the line break (before the repair the result was [Ok (p, p + 1)]: the line
    break went, the residue stayed and the next surviving line was joined to it). *)
Theorem C13_first_line_block_fixed :
  forall s p,
    wf_utf8 s = true -> nth_error s p = Some NL -> is_boundary s p = true -> 1 <= p ->
    (forall i b, i < p -> nth_error s i = Some b -> is_blank b = true) ->
    next_line_not_blank s p ->
    format_block s p = Ok (0, p + 1).
Proof. exact seam_at_file_start_fixed. Qed.
Print Assumptions C13_first_line_block_fixed.

(** The first-line companion for a blank next line: the blanks of the first line, the line break and
    the content of the blank next line go, the line break of the latter stays. *)
Theorem C13_first_line_block_next_blank :
  forall s p q',
    wf_utf8 s = true -> nth_error s p = Some NL -> is_boundary s p = true ->
    (forall i b, i < p -> nth_error s i = Some b -> is_blank b = true) ->
    next_line_blank s p q' ->
    format_block s p = Ok (0, q').
Proof. exact seam_at_file_start_next_blank. Qed.
Print Assumptions C13_first_line_block_next_blank.

(** Document level, ONE block (Proofs/BlockDoc.v): the document is
      A ++ "\n" ++ ind ++ <opening tag> ++ mid ++ <closing tag> ++ "\n" ++ Z
    with exactly one element, ready, default strategy, both tags standing alone on their lines
    ([ind] is the opening tag line's indentation, [mid] everything between the tags).  The whole
    pipeline is run symbolically: the element is deleted with both tags and what the four seam
    formatters delete is exactly what the seam lemma above says, so
      - when the last line of A and the first line of Z are not blank the output is A ++ "\n" ++ Z:
        every other line byte for byte, the block's lines gone, NO blank line left behind;
      - with blank lines around, the output is A and Z with one blank neighbour line less when both
        neighbours are blank (a + b - 1), and all blank lines kept when only one side has them. *)
Theorem C13_single_block_document :
  forall cfg ds de A ind b1 mid b2 Z el1 el2,
    let doc := block_doc A ind b1 mid b2 Z in
    good_delims ds de -> good_doc ds de doc -> bodies_ok doc ->
    parse_target b1 = Ok (Some el1) -> parse_target b2 = Ok (Some el2) -> closes el2 el1 ->
    status cfg el1 = Some true -> has_attr S_UNWRAP (el_attrs el1) = false ->
    let s' := A ++ NL :: ind ++ NL :: Z in
    let p := length A + 1 + length ind in
    exists a b, format_block s' p = Ok (a, b) /\
       clean cfg ds de (render ds de doc) = Ok (firstn a s' ++ skipn b s').
Proof. exact clean_single_block. Qed.
Print Assumptions C13_single_block_document.

Theorem C13_single_block_leaves_no_residue :
  forall cfg ds de A ind b1 mid b2 Z el1 el2,
    let doc := block_doc A ind b1 mid b2 Z in
    good_delims ds de -> good_doc ds de doc -> bodies_ok doc ->
    parse_target b1 = Ok (Some el1) -> parse_target b2 = Ok (Some el2) -> closes el2 el1 ->
    status cfg el1 = Some true -> has_attr S_UNWRAP (el_attrs el1) = false ->
    Forall (fun c => is_blank c = true) ind ->
    last_line_not_blank A -> first_line_not_blank Z ->
    clean cfg ds de (render ds de doc) = Ok (A ++ NL :: Z).
Proof. exact clean_single_block_code_lines. Qed.
Print Assumptions C13_single_block_leaves_no_residue.

Theorem C13_single_block_blank_lines_both_sides :
  forall cfg ds de A ind b1 mid b2 Z el1 el2 q q',
    let doc := block_doc A ind b1 mid b2 Z in
    good_delims ds de -> good_doc ds de doc -> bodies_ok doc ->
    parse_target b1 = Ok (Some el1) -> parse_target b2 = Ok (Some el2) -> closes el2 el1 ->
    status cfg el1 = Some true -> has_attr S_UNWRAP (el_attrs el1) = false ->
    Forall (fun c => is_blank c = true) ind ->
    let s' := A ++ NL :: ind ++ NL :: Z in
    let ls := length A + 1 in
    let p := length A + 1 + length ind in
    prev_line_blank s' ls q -> next_line_blank s' p q' ->
    clean cfg ds de (render ds de doc) = Ok (firstn (q + 1) s' ++ skipn q' s') /\
    firstn (q + 1) s' ++ skipn q' s' = firstn (q + 1) A ++ skipn (q' - (p + 1)) Z.
Proof. exact clean_single_block_both. Qed.
Print Assumptions C13_single_block_blank_lines_both_sides.

Theorem C13_single_block_blank_line_before_only :
  forall cfg ds de A ind b1 mid b2 Z el1 el2 q,
    let doc := block_doc A ind b1 mid b2 Z in
    good_delims ds de -> good_doc ds de doc -> bodies_ok doc ->
    parse_target b1 = Ok (Some el1) -> parse_target b2 = Ok (Some el2) -> closes el2 el1 ->
    status cfg el1 = Some true -> has_attr S_UNWRAP (el_attrs el1) = false ->
    Forall (fun c => is_blank c = true) ind ->
    let s' := A ++ NL :: ind ++ NL :: Z in
    let ls := length A + 1 in
    let p := length A + 1 + length ind in
    prev_line_blank s' ls q -> next_line_not_blank s' p ->
    clean cfg ds de (render ds de doc) = Ok (firstn (q + 1) s' ++ skipn p s') /\
    firstn (q + 1) s' ++ skipn p s' = firstn (q + 1) A ++ NL :: Z.
Proof. exact clean_single_block_prev. Qed.
Print Assumptions C13_single_block_blank_line_before_only.

Theorem C13_single_block_blank_line_after_only :
  forall cfg ds de A ind b1 mid b2 Z el1 el2 q',
    let doc := block_doc A ind b1 mid b2 Z in
    good_delims ds de -> good_doc ds de doc -> bodies_ok doc ->
    parse_target b1 = Ok (Some el1) -> parse_target b2 = Ok (Some el2) -> closes el2 el1 ->
    status cfg el1 = Some true -> has_attr S_UNWRAP (el_attrs el1) = false ->
    Forall (fun c => is_blank c = true) ind ->
    let s' := A ++ NL :: ind ++ NL :: Z in
    let ls := length A + 1 in
    let p := length A + 1 + length ind in
    prev_line_not_blank s' ls -> next_line_blank s' p q' ->
    clean cfg ds de (render ds de doc) = Ok (firstn ls s' ++ skipn q' s') /\
    firstn ls s' ++ skipn q' s' = A ++ NL :: skipn (q' - (p + 1)) Z.
Proof. exact clean_single_block_next. Qed.
Print Assumptions C13_single_block_blank_line_after_only.

(** Non-vacuity of the document-level theorems: "a\n  <tl to='2000-01-01 00:00:00'>\n  x\n  </tl>\nb"
    satisfies every premise and cleans to "a\nb" (obtained from the theorem, not by running). *)
Example C13_single_block_example : _ := block_example.

(** Document level, SEVERAL blocks (Proofs/MultiBlock.v):  s = T0 B1 T1 B2 T2 ... Bn Tn  with every
    [Bi] the rendering of a ready default-strategy element (children arbitrary, deleted wholesale)
    whose opening tag is preceded on its line only by blanks and whose closing tag is followed by a
    line break (the first block may start the file, the last may end it), the [Ti] plain text, and
    consecutive blocks separated by a surviving non-blank line ([chain_ok]).  The seam formatter is
    LOCAL ([format_block_local]): at a seam it depends only on the stretch between the nearest
    non-blank lines, so the seam ranges are disjoint, nothing is merged, and the output is the fold of
    the two-text join [J] - defined on the texts alone by the four cases of the seam lemma. *)
Theorem C13_several_blocks_document :
  forall cfg ds de T0 bs,
    let f := mb_ast T0 bs in
    good_delims ds de -> good_doc ds de (doc_of f) -> bodies_ok (doc_of f) ->
    Forall ast_ok f -> no_unwrap f -> Forall (blk_ready cfg) bs ->
    chain_ok T0 (mb_texts bs) ->
    let Ts := mb_texts bs in
    let s' := mb_rest T0 bs in
    let ps := seams (length T0) Ts in
    let rs := cuts (length T0) T0 Ts in
    fb_all s' ps = Ok rs /\ separated_from 0 rs /\
    format_ranges s' (map (fun p => (p, @None nat)) ps) = Ok rs /\
    clean cfg ds de (T0 ++ mb_render ds de bs) = Ok (delete_ranges rs s') /\
    delete_ranges rs s' = fold_left J Ts T0.
Proof. exact clean_multi_block. Qed.
Print Assumptions C13_several_blocks_document.

(** (a) Every non-blank line of the texts is a line of the output, byte for byte, in order, and the
    output has no other non-blank line ([nbl] = the lines that are not blank). *)
Theorem C13_surviving_lines_are_kept_verbatim :
  forall cfg ds de T0 bs,
    let f := mb_ast T0 bs in
    good_delims ds de -> good_doc ds de (doc_of f) -> bodies_ok (doc_of f) ->
    Forall ast_ok f -> no_unwrap f -> Forall (blk_ready cfg) bs ->
    chain_ok T0 (mb_texts bs) ->
    exists out, clean cfg ds de (T0 ++ mb_render ds de bs) = Ok out /\
      out = fold_left J (mb_texts bs) T0 /\
      nbl out = nbl T0 ++ concat (map nbl (mb_texts bs)).
Proof. exact clean_multi_block_lines. Qed.
Print Assumptions C13_surviving_lines_are_kept_verbatim.

(** (b) The blank-line count at one seam, for any a and b: with b blank lines [BA] after the last
    non-blank line [la] in front of the block and a blank lines [BZ] before the first non-blank
    line [lz] behind it, a + b - [a > 0 and b > 0] blank lines remain between la and lz, and the
    indentation residue is gone. *)
Theorem C13_blank_line_count :
  forall A0 ind Zt LA la BA BZ lz LZ,
    blanks ind ->
    MultiBlock.lines A0 = LA ++ [la] ++ BA -> has_nonblank la -> all_blank_lines BA ->
    MultiBlock.lines Zt = BZ ++ [lz] ++ LZ -> has_nonblank lz -> all_blank_lines BZ ->
    exists M, MultiBlock.lines (J (A0 ++ NL :: ind) (NL :: Zt)) = LA ++ [la] ++ M ++ [lz] ++ LZ /\
      all_blank_lines M /\
      length M = length BZ + length BA -
                 (if (0 <? length BZ) && (0 <? length BA) then 1 else 0).
Proof. exact J_blank_count. Qed.
Print Assumptions C13_blank_line_count.

(** No residue: when every text starts and ends with a code line the output is the input with the
    blocks' lines removed and nothing else. *)
Theorem C13_several_blocks_leave_no_residue :
  forall cfg ds de C0 ind0 bs mid Cn,
    let T0 := C0 ++ NL :: ind0 in
    let f := mb_ast T0 bs in
    good_delims ds de -> good_doc ds de (doc_of f) -> bodies_ok (doc_of f) ->
    Forall ast_ok f -> no_unwrap f -> Forall (blk_ready cfg) bs ->
    blanks ind0 -> last_code C0 -> mb_texts bs = nr_texts mid Cn -> nr_ok mid -> first_code Cn ->
    clean cfg ds de (T0 ++ mb_render ds de bs) = Ok (C0 ++ nr_out mid Cn).
Proof. exact clean_multi_block_no_residue. Qed.
Print Assumptions C13_several_blocks_leave_no_residue.

(** The separation hypothesis is necessary: "a\n" B "\n" B "\nb" (two blocks with nothing between them)
    cleans to "a\n\nb" - each seam takes the other's residue line for a blank neighbour - a blank line
    that is no input line.  The property excludes this case. *)
Example C13_unseparated_blocks : _ := mbx_unseparated.

(** Non-vacuity: three blocks (one at the start of the file, blank lines around the second, the
    second and third separated by one code line): premises, output by the theorem and by running. *)
Example C13_several_blocks_example : _ := mbx_clean.

(** NOT proved at document level: blocks inside pending elements / tags inside the texts between the
    blocks (covered by the seam lemma and C02/C03, validated by the oracle of this check on generated
    block documents). *)

(** Non-vacuity: "x\n  \ny" (block removed between x and y, residue "  "): the whole residue line goes;
    "  \ny" at the start of the file: the residue and the line break go (KF1 repaired; it was (2, 3)). *)
Example C13_example :
  format_block [120;10;32;32;10;121]%N 4 = Ok (2, 5) /\ format_block [32;32;10;121]%N 2 = Ok (0, 3).
Proof. vm_compute. split; reflexivity. Qed.
