(** C13 Block-style removal keeps lines intact and leaves no blank-line residue. *)
From Coq Require Import List NArith Arith Bool.
Import ListNotations.
From Chiri Require Import Base.Bytes Base.Res Model.Finders Model.Format Spec.Ranges Spec.Lines
     Proofs.FormatterProofs Proofs.SeamProofs.

(** After a block of whole lines has been deleted, what is left of it is the indentation of the
    opening tag's line (blanks, [ls, p)) and the line break that ended the closing tag's line (at p).
    The four seam formatters together delete exactly:
      neither neighbour line blank : the residue and its line break  - the block leaves no line;
      only the previous line blank : that blank line and the residue (the line break stays)  - b blank lines stay b;
      only the next line blank     : the residue, the line break and the content of the next line  - a stay a;
      both blank                   : the previous blank line, the residue, the line break and the next
                                     line's content  - a + b blank lines become a + b - 1.
    (Hypothesis 1 <= ls: the tag line is not the first line of the file; see C13_known_finding_KF1.) *)
Theorem C13_seam_hull_partial :
  forall s ls p,
    wf_utf8 s = true -> nth_error s p = Some NL -> is_boundary s p = true ->
    1 <= ls -> ls <= p -> nth_error s (ls - 1) = Some NL ->
    (forall i b, ls <= i -> i < p -> nth_error s i = Some b -> is_blank b = true) ->
    (prev_line_not_blank s ls -> next_line_not_blank s p -> format_block s p = Ok (ls, p + 1)) /\
    (forall q, prev_line_blank s ls q -> next_line_not_blank s p -> format_block s p = Ok (q + 1, p)) /\
    (forall q', prev_line_not_blank s ls -> next_line_blank s p q' -> format_block s p = Ok (ls, q')) /\
    (forall q q', prev_line_blank s ls q -> next_line_blank s p q' -> format_block s p = Ok (q + 1, q')).
Proof. exact seam_hull. Qed.
Print Assumptions C13_seam_hull_partial.

(** Whatever the layout, a seam range covers only spaces, tabs and line breaks, contains the seam,
    stays inside the string and lies on character boundaries: surviving lines are never cut. *)
Theorem C13_seam_range_is_whitespace :
  forall s pos a b,
    wf_utf8 s = true -> is_boundary s pos = true -> pos <= length s -> format_block s pos = Ok (a, b) ->
    a <= pos /\ pos <= b /\ b <= length s /\ ranges_only_ws s [(a, b)] /\
    is_boundary s a = true /\ is_boundary s b = true.
Proof. exact format_block_spec. Qed.
Print Assumptions C13_seam_range_is_whitespace.

(** A removal inside a line (the seam is not at a line break) triggers neither the indentation nor
    the empty-line remover. *)
Theorem C13_inline_seam_untouched :
  forall s p b, nth_error s p = Some b -> b <> NL ->
    indent_remover s p = Ok (p, p) /\ (is_boundary s p = true -> empty_line_remover s p = Ok (p, p)).
Proof. exact seam_not_at_line_break. Qed.
Print Assumptions C13_inline_seam_untouched.

(** Known finding KF1 (listed in known_findings.json), as a theorem about the faithful model: when
    the tag line is the first line of the file and indented, the line break is deleted but the
    indentation residue is not, so the next surviving line is joined to the residue. *)
Theorem C13_known_finding_KF1 :
  forall s p,
    wf_utf8 s = true -> nth_error s p = Some NL -> is_boundary s p = true -> 1 <= p ->
    (forall i b, i < p -> nth_error s i = Some b -> is_blank b = true) ->
    next_line_not_blank s p ->
    format_block s p = Ok (p, p + 1).
Proof. exact seam_at_file_start. Qed.
Print Assumptions C13_known_finding_KF1.

(** The full document-level statement (every surviving non-blank input line appears byte for byte on
    a line of its own, in order, and a + b - [a > 0 and b > 0] blank lines remain) is the composition
    of this seam lemma over all seams with C02/C03 (Properties/C02.v); that composition is validated
    by the oracle of this check on generated block documents, not proved. *)

(** Non-vacuity: "x\n  \ny" (block removed between x and y, residue "  "): the whole residue line goes;
    "  \ny" at the start of the file: only the line break goes (KF1). *)
Example C13_example :
  format_block [120;10;32;32;10;121]%N 4 = Ok (2, 5) /\ format_block [32;32;10;121]%N 2 = Ok (2, 3).
Proof. vm_compute. split; reflexivity. Qed.
