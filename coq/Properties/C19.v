(** C19 Cleaning is idempotent and composes over time. *)
From Coq Require Import List NArith ZArith Arith Bool.
Import ListNotations.
From Chiri Require Import Base.Bytes Base.Res Model.Tokenizer Model.TreeParser Model.Markers Model.Clean
     Spec.Ranges Spec.Extents Spec.Rename Spec.Simulation Proofs.C04Proofs Proofs.C05Proofs Proofs.CollectProofs Proofs.CleanProofs
     Proofs.RenameProofs Proofs.SimStrings Proofs.WellNested Proofs.DocMask Proofs.AstCollect Proofs.Idempotent Proofs.CliProofs Proofs.Compose Proofs.SimFlat Proofs.IdempotentUnwrap Proofs.ComposeUnwrap Proofs.ChainUnwrap.
Local Open Scope Z_scope.

(** The full statements (kept visible; NOT proved in full):
    idempotence - cleaning the output again with the same configuration changes nothing;
    composition - cleaning step by step at increasing times / growing target sets and cleaning once
    with the final configuration give the same text up to whitespace. *)
Definition C19_idempotence_statement : Prop :=
  forall cfg ds de s out,
    wf_utf8 s = true -> wf_utf8 ds = true -> wf_utf8 de = true -> ds <> [] -> de <> [] ->
    clean cfg ds de s = Ok out -> clean cfg ds de out = Ok out.
Definition C19_composition_statement : Prop :=
  forall cfg now2 ds de s out1 out12 out2,
    now cfg <= now2 ->
    clean cfg ds de s = Ok out1 -> clean (with_now cfg now2) ds de out1 = Ok out12 ->
    clean (with_now cfg now2) ds de s = Ok out2 ->
    nonws out12 = nonws out2.
(** As stated (for EVERY well-formed source) idempotence is not what the property claims: its domain is
    sources in which delimiter strings occur only as parts of tags, generated from ASTs.  Proved below:
    idempotence for AST documents without unwrap-block elements and, in the strict domain of the
    generators (no tags on wrapper lines, single-line tags), with unwrap-block elements; composition
    over growing readiness for AST documents without unwrap-block elements and, when every wrapper
    line of an unwrap-block carries code, with them.  With BLANK wrapper lines composition FAILS on the
    real code: known finding KF3 below.  Chains of 1..4 configurations are also run by this check. *)

(** PROVED (Proofs/Idempotent.v): idempotence for every document that is the rendering of an
    abstract syntax tree (texts, comment tags, properly nested elements: Proofs/WellNested.v) in which
    no element uses unwrap-block, with delimiter bytes occurring only in tags (the property's own
    restriction).  One run deletes one mask that respects the tree (whole elements, whitespace inside
    texts), so the output is again the rendering of a tree whose elements are the input's elements
    outside every ready element; none of them is ready, so the second run deletes nothing. *)
Theorem C19_idempotent_default_strategy :
  forall cfg ds de f out,
    good_delims ds de -> good_doc ds de (doc_of f) -> bodies_ok (doc_of f) ->
    Forall ast_ok f -> no_unwrap f ->
    clean cfg ds de (render ds de (doc_of f)) = Ok out ->
    clean cfg ds de out = Ok out.
Proof. exact clean_idempotent_default. Qed.
Print Assumptions C19_idempotent_default_strategy.

(** The output of a run is the rendering of a tree whose elements are exactly the input's elements
    that do not lie in the span of a ready element, in order ("output contains only text and
    non-ready elements, which re-tokenize to themselves"). *)
Theorem C19_output_is_a_tree_of_the_surviving_elements :
  forall cfg ds de f out,
    good_delims ds de -> good_doc ds de (doc_of f) -> bodies_ok (doc_of f) ->
    Forall ast_ok f -> no_unwrap f ->
    clean cfg ds de (render ds de (doc_of f)) = Ok out ->
    exists f2, out = render ds de (doc_of f2) /\ Forall ast_ok f2 /\
      good_doc ds de (doc_of f2) /\ bodies_ok (doc_of f2) /\
      map node_bodies (ast_nodes 0 f2) =
      map node_bodies (filter (fun n => negb (del1 cfg f (fstart (doc_of f) (node_open n))))
                              (ast_nodes 0 f)).
Proof. exact clean_output_ast_keep. Qed.
Print Assumptions C19_output_is_a_tree_of_the_surviving_elements.

(** Non-vacuity: "a\n<!rm name='g'>\n  p\n  <!rm name='f'>q<!/rm>\n  r\n<!/rm>\nc" (a ready element on
    its own indented line inside a pending one) satisfies the premises; the first run removes the
    line, the second run is the identity. *)
Example C19_idempotent_example :
  clean ac_cfg id_ds id_de (render id_ds id_de (doc_of id_ast)) = Ok id_out /\
  clean ac_cfg id_ds id_de id_out = Ok id_out.
Proof. split; [exact id_first | exact id_second]. Qed.

(** PROVED (Proofs/IdempotentUnwrap.v): idempotence WITH unwrap-block elements, in the strict domain
    of the generated documents: (S1) the wrapper lines of an unwrap-block carry no tags - its children
    are one text, or a first and a last text with at least two line breaks each around anything;
    (S2) no tag body contains a line break; and the end delimiter does not begin with a blank (KF2).
    The output is again the rendering of a tree; its elements are the input's elements whose tags were
    kept, each of them "settled": not ready, or a ready unwrap-block with at most two line breaks
    between its tags, which cannot be unwrapped whatever surrounds it - also after the run. *)
Theorem C19_idempotent_with_unwrap_blocks :
  forall cfg ds de f out,
    good_delims ds de -> de_nb de -> good_doc ds de (doc_of f) -> bodies_ok (doc_of f) ->
    Forall ast_ok f -> strict f ->
    clean cfg ds de (render ds de (doc_of f)) = Ok out ->
    clean cfg ds de out = Ok out.
Proof. exact clean_idempotent_strict. Qed.
Print Assumptions C19_idempotent_with_unwrap_blocks.

Theorem C19_output_tree_with_unwrap_blocks :
  forall cfg ds de f out,
    good_delims ds de -> de_nb de -> good_doc ds de (doc_of f) -> bodies_ok (doc_of f) ->
    Forall ast_ok f -> strict f ->
    clean cfg ds de (render ds de (doc_of f)) = Ok out ->
    exists f2, out = render ds de (doc_of f2) /\ Forall ast_ok f2 /\
      good_doc ds de (doc_of f2) /\ bodies_ok (doc_of f2) /\ settled cfg f2 /\
      map node_bodies (ast_nodes 0 f2) =
      map node_bodies (filter (fun n => negb (tdel cfg f (node_open n))) (ast_nodes 0 f)).
Proof. exact clean_output_ast_strict. Qed.
Print Assumptions C19_output_tree_with_unwrap_blocks.

(** Non-vacuity: a ready unwrap-block containing a ready default element and a pending one, followed
    by a ready unwrap-block with a one-line body (not removable): first run computed, second run
    the identity. *)
Example C19_unwrap_example :
  clean ac_cfg id_ds id_de (render id_ds id_de (doc_of ux_ast)) = Ok ux_out /\
  clean ac_cfg id_ds id_de ux_out = Ok ux_out /\ strict ux_ast.
Proof. split; [exact ux_first | split; [exact ux_second | exact ux_strict]]. Qed.

(** PROVED (Proofs/Compose.v), same documents: composition over growing readiness.  Cleaning step by
    step and cleaning once with the final configuration give the same text up to whitespace - in
    fact the same sequence of tags and the same non-whitespace text ([same_skeleton]) - and no tag of
    a ready element is stranded: the step-by-step output is the rendering of a tree all of whose
    elements are elements of the input that are not ready under the final configuration, and it is a
    fixed point of cleaning. *)
Theorem C19_composition_default_strategy :
  forall cfg1 cfg2 ds de f out1 out12 out2,
    good_delims ds de -> good_doc ds de (doc_of f) -> bodies_ok (doc_of f) -> Forall ast_ok f ->
    no_unwrap f ->
    (forall el, status cfg1 el = Some true -> status cfg2 el = Some true) ->
    clean cfg1 ds de (render ds de (doc_of f)) = Ok out1 ->
    clean cfg2 ds de out1 = Ok out12 ->
    clean cfg2 ds de (render ds de (doc_of f)) = Ok out2 ->
    nonws out12 = nonws out2.
Proof. exact clean_composes_default. Qed.
Print Assumptions C19_composition_default_strategy.

Theorem C19_composition_over_time :
  forall cfg now2 ds de f out1 out12 out2,
    good_delims ds de -> good_doc ds de (doc_of f) -> bodies_ok (doc_of f) -> Forall ast_ok f ->
    no_unwrap f -> (now cfg <= now2)%Z ->
    clean cfg ds de (render ds de (doc_of f)) = Ok out1 ->
    clean (with_now cfg now2) ds de out1 = Ok out12 ->
    clean (with_now cfg now2) ds de (render ds de (doc_of f)) = Ok out2 ->
    nonws out12 = nonws out2.
Proof. exact clean_composes_time. Qed.
Print Assumptions C19_composition_over_time.

Theorem C19_composition_over_target_sets :
  forall cfg t2 ds de f out1 out12 out2,
    good_delims ds de -> good_doc ds de (doc_of f) -> bodies_ok (doc_of f) -> Forall ast_ok f ->
    no_unwrap f -> (forall v, In v (targets cfg) -> In v t2) ->
    clean cfg ds de (render ds de (doc_of f)) = Ok out1 ->
    clean (with_targets cfg t2) ds de out1 = Ok out12 ->
    clean (with_targets cfg t2) ds de (render ds de (doc_of f)) = Ok out2 ->
    nonws out12 = nonws out2.
Proof. exact clean_composes_targets. Qed.
Print Assumptions C19_composition_over_target_sets.

(** Any number of steps: [clean_chain (c :: cs)] runs the configurations one after the other. *)
Theorem C19_composition_chain :
  forall cs c ds de f outn out,
    good_delims ds de -> good_doc ds de (doc_of f) -> bodies_ok (doc_of f) ->
    Forall ast_ok f -> no_unwrap f -> grows c cs ->
    clean_chain (c :: cs) ds de (render ds de (doc_of f)) = Ok outn ->
    clean (last cs c) ds de (render ds de (doc_of f)) = Ok out ->
    nonws outn = nonws out.
Proof. exact clean_chain_composes. Qed.
Print Assumptions C19_composition_chain.

Theorem C19_no_tag_is_stranded :
  forall cfg1 cfg2 ds de f out1 out12,
    good_delims ds de -> good_doc ds de (doc_of f) -> bodies_ok (doc_of f) -> Forall ast_ok f ->
    no_unwrap f ->
    (forall el, status cfg1 el = Some true -> status cfg2 el = Some true) ->
    clean cfg1 ds de (render ds de (doc_of f)) = Ok out1 ->
    clean cfg2 ds de out1 = Ok out12 ->
    (exists f12, out12 = render ds de (doc_of f12) /\ Forall ast_ok f12 /\
       forall b1 b2 o c, In (b1, b2, o, c) (ast_nodes 0 f12) ->
         In (b1, b2) (map node_bodies (ast_nodes 0 f)) /\ status cfg2 (el_of b1) <> Some true) /\
    clean cfg2 ds de out12 = Ok out12.
Proof. exact clean_steps_not_stranded. Qed.
Print Assumptions C19_no_tag_is_stranded.

(** "Up to whitespace" cannot be dropped: two sibling elements on lines of their own,
    "a\n<A t1>x</A>\n<B t2>y</B>\nc": step by step gives "a\nc", the single run at t2 "a\n\nc". *)
Example C19_whitespace_may_differ : _ := cs_differ.

(** PROVED (Proofs/ComposeUnwrap.v): composition WITH unwrap-block elements, in the domain [strict2]:
    [strict] plus "each wrapper line of an unwrap-block contains a code (non-whitespace) byte".  The
    proof shows that a run never deletes a line break that follows a kept code byte through blanks
    only ([nl_after_code_kept]), so the wrapper lines of a block that is not yet ready are still its
    wrapper lines after the run. *)
Theorem C19_composition_with_unwrap_blocks :
  forall cfg1 cfg2 ds de f out1 out12 out2,
    good_delims ds de -> de_nb de -> good_doc ds de (doc_of f) -> bodies_ok (doc_of f) ->
    Forall ast_ok f -> strict2 f ->
    (forall el, status cfg1 el = Some true -> status cfg2 el = Some true) ->
    clean cfg1 ds de (render ds de (doc_of f)) = Ok out1 ->
    clean cfg2 ds de out1 = Ok out12 ->
    clean cfg2 ds de (render ds de (doc_of f)) = Ok out2 ->
    nonws out12 = nonws out2.
Proof. exact clean_composes_strict. Qed.
Print Assumptions C19_composition_with_unwrap_blocks.

(** Any number of steps with unwrap-block elements, and the tree form of "no tag is stranded"
    (Proofs/ChainUnwrap.v: [strict2] is preserved by a run). *)
Theorem C19_composition_chain_with_unwrap_blocks :
  forall cs c ds de f outn out,
    good_delims ds de -> de_nb de -> good_doc ds de (doc_of f) -> bodies_ok (doc_of f) ->
    Forall ast_ok f -> strict2 f -> grows c cs ->
    clean_chain (c :: cs) ds de (render ds de (doc_of f)) = Ok outn ->
    clean (last cs c) ds de (render ds de (doc_of f)) = Ok out ->
    nonws outn = nonws out.
Proof. exact clean_chain_composes_strict. Qed.
Print Assumptions C19_composition_chain_with_unwrap_blocks.

Theorem C19_no_tag_is_stranded_with_unwrap_blocks :
  forall cfg1 cfg2 ds de f out1 out12,
    good_delims ds de -> de_nb de -> good_doc ds de (doc_of f) -> bodies_ok (doc_of f) ->
    Forall ast_ok f -> strict2 f ->
    (forall el, status cfg1 el = Some true -> status cfg2 el = Some true) ->
    clean cfg1 ds de (render ds de (doc_of f)) = Ok out1 ->
    clean cfg2 ds de out1 = Ok out12 ->
    (exists f12, out12 = render ds de (doc_of f12) /\ Forall ast_ok f12 /\ settled cfg2 f12 /\
       forall p, In p (ast_pairs f12) -> In p (ast_pairs f)) /\
    clean cfg2 ds de out12 = Ok out12.
Proof. exact clean_steps_not_stranded_strict. Qed.
Print Assumptions C19_no_tag_is_stranded_with_unwrap_blocks.

(** Known finding KF3 (known_findings.json), as a theorem about the faithful model: the hypothesis on
    the wrapper lines cannot be dropped.  "a\n<!tl to='2010-01-01 00:00:00' unwrap-block>\n\n<!tl
    to='2000-01-01 00:00:00'>q<!/tl>\n\n<!/tl>\nc" (both wrapper lines empty): cleaning in 2001 removes
    the inner element and the blank-line tidying leaves one empty line between the tags; cleaning that
    in 2011 changes nothing - both tags of the now expired unwrap-block are stranded - while cleaning
    the source once in 2011 gives "a\n\nc". *)
Theorem C19_known_finding_KF3 :
  clean cc_cfg1 id_ds id_de cx_src = Ok cx_out1 /\
  clean cc_cfg2 id_ds id_de cx_out1 = Ok cx_out1 /\
  clean cc_cfg2 id_ds id_de cx_src = Ok cx_out2 /\
  nonws cx_out1 <> nonws cx_out2 /\
  Forall ast_ok cx_ast /\ strict cx_ast.
Proof.
  split; [exact cx_first|]. split; [exact cx_second|]. split; [exact cx_direct|].
  split; [exact cx_not_composes|]. split; [exact cx_ok | exact cx_strict].
Qed.
Print Assumptions C19_known_finding_KF3.

(** Known finding KF4 (known_findings.json), as a theorem about the faithful model.  Delimiters "/* <"
    and "> */".  The source  x /*<T2000>gone</T> <b ⏎ <T2100>keep</T> ⏎ end  contains the delimiter
    strings only as parts of tags.  Cleaning in 2011 removes the first element and JOINS "x /*" with
    " <b": the output contains the start delimiter "/* <" outside any tag.  Cleaning that output in 2111
    changes nothing - "/* <b ⏎ /* <tl to=…> */" is now one bogus tag, the opening tag of the expired
    element is swallowed and its closing tag is stranded - while cleaning the source once in 2111
    removes the element.  (The tree-level theorems above exclude this through [good_doc]: the delimiter
    BYTES occur nowhere else, which is stronger than the property's condition on delimiter strings.) *)
Definition kf4_ds : str := [47; 42; 32; 60]%N.
Definition kf4_de : str := [62; 32; 42; 47]%N.
Definition kf4_cfg (now : Z) : config := mkConfig [116;108]%N [43;48;48;58;48;48]%N now [114;109]%N [].
Definition kf4_src : str := [120; 32; 47; 42; 47; 42; 32; 60; 116; 108; 32; 116; 111; 61; 34; 50; 48; 48; 48; 45; 48; 49; 45; 48; 49; 32; 48; 48; 58; 48; 48; 58; 48; 48; 34; 62; 32; 42; 47; 103; 111; 110; 101; 47; 42; 32; 60; 47; 116; 108; 62; 32; 42; 47; 32; 60; 98; 10; 47; 42; 32; 60; 116; 108; 32; 116; 111; 61; 34; 50; 49; 48; 48; 45; 48; 49; 45; 48; 49; 32; 48; 48; 58; 48; 48; 58; 48; 48; 34; 62; 32; 42; 47; 107; 101; 101; 112; 47; 42; 32; 60; 47; 116; 108; 62; 32; 42; 47; 10; 101; 110; 100; 10]%N.
Definition kf4_out1 : str := [120; 32; 47; 42; 32; 60; 98; 10; 47; 42; 32; 60; 116; 108; 32; 116; 111; 61; 34; 50; 49; 48; 48; 45; 48; 49; 45; 48; 49; 32; 48; 48; 58; 48; 48; 58; 48; 48; 34; 62; 32; 42; 47; 107; 101; 101; 112; 47; 42; 32; 60; 47; 116; 108; 62; 32; 42; 47; 10; 101; 110; 100; 10]%N.
Definition kf4_out2 : str := [120; 32; 47; 42; 32; 60; 98; 10; 101; 110; 100; 10]%N.
Theorem C19_known_finding_KF4 :
  clean (kf4_cfg 1293840000) kf4_ds kf4_de kf4_src = Ok kf4_out1 /\
  clean (kf4_cfg 4449513600) kf4_ds kf4_de kf4_out1 = Ok kf4_out1 /\
  clean (kf4_cfg 4449513600) kf4_ds kf4_de kf4_src = Ok kf4_out2 /\
  nonws kf4_out1 <> nonws kf4_out2.
Proof.
  split; [vm_compute; reflexivity|]. split; [vm_compute; reflexivity|].
  split; [vm_compute; reflexivity|]. vm_compute. discriminate.
Qed.
Print Assumptions C19_known_finding_KF4.

(** KF4, severe form: the text behind the removed element reads like the body of an expired tag.  The
    first run (2011) joins "x /*" with " <tl to="2000-…" x"; the second run with the SAME configuration
    takes "/* <tl to="2000-…" x ⏎ /* <tl to="2100-…"> */" for the opening tag of an expired element, whose
    closing tag is the closing tag of the pending element: "keep", valid until 2100, is deleted. *)
Definition kf4i_src : str := [120; 32; 47; 42; 47; 42; 32; 60; 116; 108; 32; 116; 111; 61; 34; 50; 48; 48; 48; 45; 48; 49; 45; 48; 49; 32; 48; 48; 58; 48; 48; 58; 48; 48; 34; 62; 32; 42; 47; 103; 111; 110; 101; 47; 42; 32; 60; 47; 116; 108; 62; 32; 42; 47; 32; 60; 116; 108; 32; 116; 111; 61; 34; 50; 48; 48; 48; 45; 48; 49; 45; 48; 49; 32; 48; 48; 58; 48; 48; 58; 48; 48; 34; 32; 120; 10; 47; 42; 32; 60; 116; 108; 32; 116; 111; 61; 34; 50; 49; 48; 48; 45; 48; 49; 45; 48; 49; 32; 48; 48; 58; 48; 48; 58; 48; 48; 34; 62; 32; 42; 47; 107; 101; 101; 112; 47; 42; 32; 60; 47; 116; 108; 62; 32; 42; 47; 10; 101; 110; 100; 10]%N.
Definition kf4i_out1 : str := [120; 32; 47; 42; 32; 60; 116; 108; 32; 116; 111; 61; 34; 50; 48; 48; 48; 45; 48; 49; 45; 48; 49; 32; 48; 48; 58; 48; 48; 58; 48; 48; 34; 32; 120; 10; 47; 42; 32; 60; 116; 108; 32; 116; 111; 61; 34; 50; 49; 48; 48; 45; 48; 49; 45; 48; 49; 32; 48; 48; 58; 48; 48; 58; 48; 48; 34; 62; 32; 42; 47; 107; 101; 101; 112; 47; 42; 32; 60; 47; 116; 108; 62; 32; 42; 47; 10; 101; 110; 100; 10]%N.
Definition kf4i_out2 : str := [120; 32; 10; 101; 110; 100; 10]%N.
Theorem C19_known_finding_KF4_idempotence :
  clean (kf4_cfg 1293840000) kf4_ds kf4_de kf4i_src = Ok kf4i_out1 /\
  clean (kf4_cfg 1293840000) kf4_ds kf4_de kf4i_out1 = Ok kf4i_out2 /\
  kf4i_out1 <> kf4i_out2.
Proof. split; [vm_compute; reflexivity|]. split; [vm_compute; reflexivity|]. discriminate. Qed.
Print Assumptions C19_known_finding_KF4_idempotence.

(** The older partial results, for arbitrary sources.  (1) A second run is the identity as soon as the first output contains no ready
    element (C04 applied to the output). *)
Theorem C19_second_run_identity_partial :
  forall cfg ds de out parts,
    front_end ds de out = Ok parts ->
    (forall e, In e (all_elements parts) -> not_ready cfg out e) ->
    clean cfg ds de out = Ok out.
Proof. exact noop_identity. Qed.
Print Assumptions C19_second_run_identity_partial.

(** (2) Up to whitespace a run is the deletion of the extents of the ready elements - the
    characterisation through which runs compose. *)
Theorem C19_run_is_deletion_of_extents_partial :
  forall cfg ds de s parts out,
    wf_utf8 s = true -> wf_utf8 ds = true -> wf_utf8 de = true -> ds <> [] -> de <> [] ->
    front_end ds de s = Ok parts -> clean cfg ds de s = Ok out ->
    nonws out = nonws (delete_ranges (extents cfg s parts) s).
Proof. exact clean_nonws. Qed.
Print Assumptions C19_run_is_deletion_of_extents_partial.

(** (3) Readiness is monotone in the current time, so a later run removes a superset of the
    elements of an earlier one on the same tree. *)
Theorem C19_readiness_monotone_partial :
  forall cfg now2 el,
    now cfg <= now2 -> status cfg el = Some true -> status (with_now cfg now2) el = Some true.
Proof. exact status_monotone. Qed.
Print Assumptions C19_readiness_monotone_partial.

(** Non-vacuity: "a\n<tl to='2000-01-01 00:00:00'>\nx\n</tl>\nb" cleans to "a\nb", and cleaning "a\nb" again
    is the identity. *)
Definition ex_src : str :=
  [97;10;60;116;108;32;116;111;61;39;50;48;48;48;45;48;49;45;48;49;32;48;48;58;48;48;58;48;48;39;62;10;120;10;60;47;116;108;62;10;98]%N.
Definition ex_cfg : config := mkConfig [116;108]%N [43;48;48;58;48;48]%N 1000000000%Z [114;109]%N [].
Example C19_example :
  clean ex_cfg [60%N] [62%N] ex_src = Ok [97;10;98]%N /\ clean ex_cfg [60%N] [62%N] [97;10;98]%N = Ok [97;10;98]%N.
Proof. split; vm_compute; reflexivity. Qed.
