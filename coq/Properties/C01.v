(** C01 Totality: clean, list and list_all never panic on any UTF-8 input.
    In the model every Rust operation that can panic - slicing off a boundary or out of range,
    replace_range, indexing, unwrap of None, checked usize subtraction, the explicit panic! of the
    empty-line remover, exhausted loop fuel - yields [Panic]; so "= Ok" below is panic-freedom of the
    model, and the differential run (dev profile, overflow checks on) ties the model to the code.
    [wf_utf8] is the structural well-formedness every valid UTF-8 string satisfies (Base/Bytes.v). *)
From Coq Require Import List NArith ZArith Arith Bool.
Import ListNotations.
From Chiri Require Import Base.Bytes Base.Res Model.Tokenizer Model.TagParser Model.TreeParser Model.Markers
     Model.Format Model.Clean Model.ListRender
     Proofs.TokenizerProofs Proofs.TagProofs Proofs.CollectProofs Proofs.CleanProofs Proofs.ListAllProofs
     Proofs.FormatterProofs Proofs.ListOutputs.

(** clean returns normally, with a well-formed UTF-8 string, for every well-formed source, every
    pair of non-empty delimiters and every configuration. *)
Theorem C01_clean_total :
  forall cfg ds de s,
    wf_utf8 s = true -> wf_utf8 ds = true -> wf_utf8 de = true -> ds <> [] -> de <> [] ->
    exists out, clean cfg ds de s = Ok out /\ wf_utf8 out = true.
Proof. exact clean_total. Qed.
Print Assumptions C01_clean_total.

(** list and list_all, pretty and JSON, return normally. *)
Theorem C01_list_total :
  forall cfg ds de s,
    wf_utf8 s = true -> wf_utf8 ds = true -> wf_utf8 de = true -> ds <> [] -> de <> [] ->
    (exists o, list_pretty cfg ds de s = Ok o) /\ (exists o, list_json cfg ds de s = Ok o) /\
    (exists o, list_all_pretty cfg ds de s = Ok o) /\ (exists o, list_all_json cfg ds de s = Ok o).
Proof. exact list_total. Qed.
Print Assumptions C01_list_total.

(** ... and what they return is well-formed UTF-8. *)
Theorem C01_list_outputs_well_formed :
  forall cfg ds de s o,
    wf_utf8 s = true ->
    (list_pretty cfg ds de s = Ok o \/ list_json cfg ds de s = Ok o \/
     list_all_pretty cfg ds de s = Ok o \/ list_all_json cfg ds de s = Ok o) ->
    wf_utf8 o = true.
Proof. exact list_outputs_wf. Qed.
Print Assumptions C01_list_outputs_well_formed.

(** The stages behind it. *)
Theorem C01_tokenize_total :
  forall s ds de, wf_utf8 s = true -> wf_utf8 ds = true -> wf_utf8 de = true ->
                  ds <> [] -> de <> [] -> exists ts, tokenize s ds de = Ok ts.
Proof. exact tokenize_total. Qed.
Print Assumptions C01_tokenize_total.

Theorem C01_tag_parser_total :
  forall ds de value, wf_utf8 value = true -> wf_utf8 ds = true -> wf_utf8 de = true ->
                      exists o, parse_value ds de value = Ok o.
Proof. exact parse_value_total. Qed.
Print Assumptions C01_tag_parser_total.

Theorem C01_front_end_total :
  forall ds de s, wf_utf8 s = true -> wf_utf8 ds = true -> wf_utf8 de = true -> ds <> [] -> de <> [] ->
                  exists parts, front_end ds de s = Ok parts.
Proof. exact front_end_total. Qed.
Print Assumptions C01_front_end_total.

Theorem C01_seam_formatters_total :
  forall f s pos, In f seam_formatters -> is_boundary s pos = true -> exists r, f s pos = Ok r.
Proof. exact seam_formatter_total. Qed.
Print Assumptions C01_seam_formatters_total.

Theorem C01_block_formatter_total : forall s a b, exists rs, block_indent_remover s a b = Ok rs.
Proof. exact block_indent_total. Qed.
Print Assumptions C01_block_formatter_total.

(** Not covered by any theorem: stack exhaustion on extremely deep nesting, memory exhaustion.
    ([wf_utf8] is structural well-formedness, weaker than RFC 3629 validity; the differential run
    decodes every output of the implementation as UTF-8.) *)

(** Non-vacuity: the three panic classes of the pinned tree now return normally in the model:
    last character multi-byte with an unterminated tag; blank tag body; a child on both wrapper lines. *)
Definition cfg0 : config := mkConfig [116;108]%N [43;48;48;58;48;48]%N 1000000000%Z [114;109]%N [].
Example C01_examples :
  clean cfg0 [60%N] [62%N] [120;60;97;227;129;130]%N = Ok [120;60;97;227;129;130]%N /\
  clean cfg0 [60%N] [62%N] [97;60;32;62;98]%N = Ok [97;60;32;62;98]%N.
Proof. split; vm_compute; reflexivity. Qed.
