(** C20 The CLI is a faithful wrapper: I/O paths, config file and defaults.
    These are theorems about Model/Cli.v, the model of chiritori-cli/src/main.rs from the parsed
    argument record on, and about Model/Current.v, the model of the parse of --time-limited-current.  Independence of the process environment (TZ, locale) and the OS routing of
    files and pipes are facts about the runtime that no theorem about this model can show; they are
    covered by the differential run of the real binary (under four TZ settings) only. *)
From Coq Require Import List NArith ZArith Arith Bool.
Import ListNotations.
From Chiri Require Import Base.Bytes Base.Res Model.Markers Model.Clean Model.ListRender Model.Cli Model.Chrono Model.Current Spec.CivilTime
     Proofs.CliProofs Proofs.ChronoPadding Proofs.CurrentCli Proofs.CurrentProofs.

(** The same options give the same result whether the source comes from --filename or stdin. *)
Theorem C20_input_route :
  forall a stdin fs f content,
    fs f = Some content ->
    run (set_filename a (Some f)) stdin fs = run (set_filename a None) (Some content) fs.
Proof. exact run_input_route. Qed.
Print Assumptions C20_input_route.

(** --output changes where the bytes go, not the bytes - also when it names the input file (the
    input is read completely before the output file is created). *)
Theorem C20_output_route :
  forall a stdin fs f out,
    run (set_output a None) stdin fs = Exit 0 out None ->
    run (set_output a (Some f)) stdin fs = Exit 0 [] (Some (f, out)).
Proof. exact run_output_route_ok. Qed.
Print Assumptions C20_output_route.

(** The result is the library result for the corresponding configuration. *)
Theorem C20_is_the_library_call :
  forall a stdin fs content ft,
    (match a_filename a with None => stdin | Some f => fs f end) = Some content ->
    (match a_removal_marker_target_config a with
     | None => Some []
     | Some f => option_map (fun c => buf_lines c []) (fs f)
     end) = Some ft ->
    a_output a = None ->
    run a stdin fs = match dispatch a (config_of a ft) content with
                     | Ok out => Exit 0 out None
                     | Panic => Crash
                     end.
Proof. exact run_is_library_call. Qed.
Print Assumptions C20_is_the_library_call.

(** Mode dispatch: --list wins over --list-all; --list-json selects the format; otherwise clean. *)
Theorem C20_mode_dispatch :
  forall a cfg c,
    (a_list a = true -> dispatch a cfg c =
       if a_list_json a then list_json cfg (a_delimiter_start a) (a_delimiter_end a) c
       else list_pretty cfg (a_delimiter_start a) (a_delimiter_end a) c) /\
    (a_list a = false -> a_list_all a = true -> dispatch a cfg c =
       if a_list_json a then list_all_json cfg (a_delimiter_start a) (a_delimiter_end a) c
       else list_all_pretty cfg (a_delimiter_start a) (a_delimiter_end a) c) /\
    (a_list a = false -> a_list_all a = false -> dispatch a cfg c =
       clean cfg (a_delimiter_start a) (a_delimiter_end a) c).
Proof. exact dispatch_modes. Qed.
Print Assumptions C20_mode_dispatch.

(** The library depends on the target set only through membership (so a HashSet, a list with
    duplicates, or any order give the same result). *)
Theorem C20_targets_only_by_membership :
  forall cfg t1 t2 ds de s,
    (forall v, In v t1 <-> In v t2) ->
    clean (with_targets cfg t1) ds de s = clean (with_targets cfg t2) ds de s /\
    list_pretty (with_targets cfg t1) ds de s = list_pretty (with_targets cfg t2) ds de s /\
    list_json (with_targets cfg t1) ds de s = list_json (with_targets cfg t2) ds de s /\
    list_all_pretty (with_targets cfg t1) ds de s = list_all_pretty (with_targets cfg t2) ds de s /\
    list_all_json (with_targets cfg t1) ds de s = list_all_json (with_targets cfg t2) ds de s.
Proof. exact targets_only_by_membership. Qed.
Print Assumptions C20_targets_only_by_membership.

(** A config file with one name per line (LF or CR LF) is equivalent to giving the names as flags. *)
Theorem C20_config_file_equals_flags :
  forall a stdin fs names (crlf : bool) cfgfile,
    a_removal_marker_target_config a = None ->
    (forall n, In n names -> ~ In NL n /\ (forall pre, n <> pre ++ [CR])) ->
    fs cfgfile = Some (flat_map (fun n => n ++ (if crlf then [CR; NL] else [NL])) names) ->
    run (set_targets a (a_removal_marker_target_name a) (Some cfgfile)) stdin fs
    = run (set_targets a (names ++ a_removal_marker_target_name a) None) stdin fs.
Proof. exact config_file_equals_flags. Qed.
Print Assumptions C20_config_file_equals_flags.

(** Option defaults contribute no targets and exactly the documented delimiters and tag names. *)
Theorem C20_defaults :
  forall now,
    a_removal_marker_target_name (default_args now) = [] /\
    a_removal_marker_target_config (default_args now) = None /\
    targets (config_of (default_args now) []) = [] /\
    a_delimiter_start (default_args now) = D_DELIM_START /\ a_delimiter_end (default_args now) = D_DELIM_END /\
    a_time_limited_tag_name (default_args now) = D_TL_TAG /\ a_removal_marker_tag_name (default_args now) = D_RM_TAG /\
    a_time_limited_time_offset (default_args now) = D_OFFSET.
Proof. exact defaults_are_documented. Qed.
Print Assumptions C20_defaults.

(** The current time given explicitly.  A text that parses fixes the instant: the wall clock - the only place where
    the process environment enters main.rs - is not consulted, and the result is the run at that instant. *)
Theorem C20_explicit_current_ignores_the_clock :
  forall a text t leap clock1 clock2 stdin fs,
    parse_current text = Some (t, leap) ->
    run_text a text clock1 stdin fs = run_text a text clock2 stdin fs
    /\ run_text a text clock1 stdin fs = run (with_current a t) stdin fs.
Proof. exact explicit_current_ignores_the_clock. Qed.
Print Assumptions C20_explicit_current_ignores_the_clock.

(** Two texts that read as the same instant give the same result. *)
Theorem C20_same_instant_same_result :
  forall a text1 text2 t leap1 leap2 clock stdin fs,
    parse_current text1 = Some (t, leap1) -> parse_current text2 = Some (t, leap2) ->
    run_text a text1 clock stdin fs = run_text a text2 clock stdin fs.
Proof. exact same_instant_same_result. Qed.
Print Assumptions C20_same_instant_same_result.

(** Every accepted spelling of a wall-clock time at an offset reads as the instant it denotes: T, t or a blank
    between date and time, an optional fraction of a second, white space in front of the offset, the offset as
    +HH:MM or +HHMM with either sign ... *)
Theorem C20_current_text_is_its_instant :
  forall y m d h mi s sep frac gap negative colon oh om,
    valid_civil y m d h mi s -> valid_offset oh om ->
    is_sep sep = true -> is_frac frac = true -> forallb ascii_ws gap = true ->
    parse_current (render_date y m d ++ [sep] ++ render_time h mi s ++ frac ++ gap ++ render_offset negative colon oh om)
    = Some (instant y m d h mi s negative oh om, false).
Proof. exact current_rendered. Qed.
Print Assumptions C20_current_text_is_its_instant.

(** ... or as Z, z, UTC in any letter case for offset zero ... *)
Theorem C20_current_text_zulu :
  forall y m d h mi s sep frac gap z,
    valid_civil y m d h mi s -> is_sep sep = true -> is_frac frac = true -> forallb ascii_ws gap = true -> is_zulu z = true ->
    parse_current (render_date y m d ++ [sep] ++ render_time h mi s ++ frac ++ gap ++ z)
    = Some (instant y m d h mi s false 0 0, false).
Proof. exact current_rendered_zulu. Qed.
Print Assumptions C20_current_text_zulu.

(** ... with white space around the whole text ignored (for every text, accepted or not) ... *)
Theorem C20_current_text_outer_padding :
  forall w1 w2 t,
    forallb ascii_ws w1 = true -> forallb ascii_ws w2 = true ->
    parse_current (w1 ++ t ++ w2) = parse_current t.
Proof. exact current_outer_padding. Qed.
Print Assumptions C20_current_text_outer_padding.

(** ... so the same instant written in two zones reads the same. *)
Theorem C20_current_text_zone_independent :
  forall y m d h mi s y' m' d' h' mi' s' sep sep' negative colon oh om negative' colon' oh' om',
    valid_civil y m d h mi s -> valid_civil y' m' d' h' mi' s' -> valid_offset oh om -> valid_offset oh' om' ->
    is_sep sep = true -> is_sep sep' = true ->
    instant y m d h mi s negative oh om = instant y' m' d' h' mi' s' negative' oh' om' ->
    parse_current (render_date y m d ++ [sep] ++ render_time h mi s ++ render_offset negative colon oh om)
    = parse_current (render_date y' m' d' ++ [sep'] ++ render_time h' mi' s' ++ render_offset negative' colon' oh' om').
Proof. exact current_zone_independent. Qed.
Print Assumptions C20_current_text_zone_independent.

(** Non-vacuity: with default options and stdin "a<!-- <removal-marker name="vec![]"> -->x<!-- </removal-marker> -->b"
    nothing is removed (no default target), and the output goes to stdout. *)
Definition ex_src : str :=
  [97;60;33;45;45;32;60;114;101;109;111;118;97;108;45;109;97;114;107;101;114;32;110;97;109;101;61;34;118;101;99;33;91;93;34;
   62;32;45;45;62;120;60;33;45;45;32;60;47;114;101;109;111;118;97;108;45;109;97;114;107;101;114;62;32;45;45;62;98]%N.
Example C20_example : run (default_args 1000000000%Z) (Some ex_src) (fun _ => None) = Exit 0 ex_src None.
Proof. vm_compute. reflexivity. Qed.

(** "2001-09-09 10:46:40.5 +0900" is the instant 1000000000; the same run whatever the clock says *)
Definition ex_text : str :=
  [50;48;48;49;45;48;57;45;48;57;32;49;48;58;52;54;58;52;48;46;53;32;43;48;57;48;48]%N.
Example C20_current_example :
  parse_current ex_text = Some (1000000000%Z, false) /\
  run_text (default_args 0%Z) ex_text 5%Z (Some ex_src) (fun _ => None) = Exit 0 ex_src None.
Proof. vm_compute. split; reflexivity. Qed.
