(** C11 Unwrap-block removes the two tag lines and the two wrapper lines, nothing else. *)
From Coq Require Import List NArith Arith Bool.
Import ListNotations.
From Chiri Require Import Base.Bytes Base.Res Model.Tokenizer Model.Finders Model.Markers Spec.Lines
     Proofs.UnwrapProofs.

(** Exact characterisation of the removable parts of an unwrap-block element (the marker level).
    With n1, n2 the first two line breaks at or after the end of the opening tag and p1, p2 the last
    two line breaks before the closing tag:
      n2 < p2 : opening part = [start of the opening tag, n2) - the rest of the opening-tag line and
                the whole next line (the opening wrapper line) without its line break; closing part =
                [p2 + 1, end of the closing tag) - the whole line before the closing tag (the closing
                wrapper line), its line break and the closing-tag line up to the end of the tag.  When
                each tag stands alone on its line these are exactly the four lines, and every line
                strictly between the wrapper lines lies outside both parts (it survives by C02);
      n2 = p2 : exactly two lines between the tags: the whole element is one range (all four lines);
      n2 > p2, or a line break is missing: the range is empty - by C04 the element is left untouched. *)
Theorem C11_unwrap_parts :
  forall s st et,
    wf_utf8 s = true -> tk_bstart et <= length s ->
    (forall n1 n2 p1 p2,
       is_next_nl s (tk_bend st) n1 -> is_next_nl s (S n1) n2 ->
       is_prev_nl s (tk_bstart et) p1 -> is_prev_nl s p1 p2 ->
       unwrap_build s st et =
         if n2 <? p2 then ((tk_bstart st, n2), Some (S p2, tk_bend et))
         else if p2 =? n2 then ((tk_bstart st, tk_bend et), None)
         else ((tk_bstart st, tk_bstart st), None))
    /\
    ((no_nl_from s (tk_bend st) \/ (exists n1, is_next_nl s (tk_bend st) n1 /\ no_nl_from s (S n1)) \/
      no_nl_before s (tk_bstart et) \/ (exists p1, is_prev_nl s (tk_bstart et) p1 /\ no_nl_before s p1)) ->
     unwrap_build s st et = ((tk_bstart st, tk_bstart st), None)).
Proof. exact unwrap_build_spec. Qed.
Print Assumptions C11_unwrap_parts.

(** The finders the builder uses return the first line break at or after / the last before a position. *)
Theorem C11_next_line_break :
  forall s i, wf_utf8 s = true ->
    match find_next_lb s i false with Some p => is_next_nl s i p | None => no_nl_from s i end.
Proof. exact find_next_lb_is_next_nl. Qed.
Print Assumptions C11_next_line_break.

Theorem C11_prev_line_break :
  forall s i, wf_utf8 s = true -> i <= length s ->
    match find_prev_lb s i false with Some p => is_prev_nl s i p | None => no_nl_before s i end.
Proof. exact find_prev_lb_is_prev_nl. Qed.
Print Assumptions C11_prev_line_break.

(** Non-vacuity: "<t>\n{\nx\n}\n</t>" with tokens <t> = [0,3) and </t> = [10,14): parts [0,5) and [8,14). *)
Definition ex_s : str := [60;116;62;10;123;10;120;10;125;10;60;47;116;62]%N.
Example C11_example :
  unwrap_build ex_s (mkToken true [60;116;62]%N 0 0 3 3) (mkToken true [60;47;116;62]%N 10 10 14 14)
  = ((0, 5), Some (8, 14)).
Proof. vm_compute. reflexivity. Qed.
