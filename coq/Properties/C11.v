(** C11 Unwrap-block removes the two tag lines and the two wrapper lines, nothing else. *)
From Coq Require Import List NArith Arith Bool.
Import ListNotations.
From Chiri Require Import Base.Bytes Base.Res Model.Tokenizer Model.TagParser Model.Finders Model.Markers
     Model.Clean Spec.Lines Spec.Rename Spec.Simulation
     Proofs.UnwrapProofs Proofs.RenameProofs Proofs.BlockDoc Proofs.UnwrapDoc.

(** Exact characterisation of the removable parts of an unwrap-block element (the marker level).
    With n1, n2 the first two line breaks at or after the end of the opening tag and p1, p2 the last
    two line breaks before the closing tag:
      n2 < p2 : opening part = [start of the opening tag, n2) - the rest of the opening-tag line and
                the whole next line (the opening wrapper line) without its line break; closing part =
                [p2 + 1, end of the closing tag) - the whole line before the closing tag (the closing
                wrapper line), its line break and the closing-tag line up to the end of the tag.  When
                each tag stands alone on its line these are exactly the four lines, and every line
                strictly between the wrapper lines lies outside both parts (it survives by C02);
      n2 = p2 : exactly two lines between the tags: the whole element is one range (all four lines);
      n2 > p2, or a line break is missing: the range is empty - by C04 the element is left untouched. *)
Theorem C11_unwrap_parts :
  forall s st et,
    wf_utf8 s = true -> tk_bstart et <= length s ->
    (forall n1 n2 p1 p2,
       is_next_nl s (tk_bend st) n1 -> is_next_nl s (S n1) n2 ->
       is_prev_nl s (tk_bstart et) p1 -> is_prev_nl s p1 p2 ->
       unwrap_build s st et =
         if n2 <? p2 then ((tk_bstart st, n2), Some (S p2, tk_bend et))
         else if p2 =? n2 then ((tk_bstart st, tk_bend et), None)
         else ((tk_bstart st, tk_bstart st), None))
    /\
    ((no_nl_from s (tk_bend st) \/ (exists n1, is_next_nl s (tk_bend st) n1 /\ no_nl_from s (S n1)) \/
      no_nl_before s (tk_bstart et) \/ (exists p1, is_prev_nl s (tk_bstart et) p1 /\ no_nl_before s p1)) ->
     unwrap_build s st et = ((tk_bstart st, tk_bstart st), None)).
Proof. exact unwrap_build_spec. Qed.
Print Assumptions C11_unwrap_parts.

(** The finders the builder uses return the first line break at or after / the last before a position. *)
Theorem C11_next_line_break :
  forall s i, wf_utf8 s = true ->
    match find_next_lb s i false with Some p => is_next_nl s i p | None => no_nl_from s i end.
Proof. exact find_next_lb_is_next_nl. Qed.
Print Assumptions C11_next_line_break.

Theorem C11_prev_line_break :
  forall s i, wf_utf8 s = true -> i <= length s ->
    match find_prev_lb s i false with Some p => is_prev_nl s i p | None => no_nl_before s i end.
Proof. exact find_prev_lb_is_prev_nl. Qed.
Print Assumptions C11_prev_line_break.

(** Non-vacuity: "<t>\n{\nx\n}\n</t>" with tokens <t> = [0,3) and </t> = [10,14): parts [0,5) and [8,14). *)
Definition ex_s : str := [60;116;62;10;123;10;120;10;125;10;60;47;116;62]%N.
Example C11_example :
  unwrap_build ex_s (mkToken true [60;116;62]%N 0 0 3 3) (mkToken true [60;47;116;62]%N 10 10 14 14)
  = ((0, 5), Some (8, 14)).
Proof. vm_compute. reflexivity. Qed.

(** Document level, ONE unwrap-block (Proofs/UnwrapDoc.v).  The document is
      A "\n" ind <open> "\n" w1 "\n" inner "\n" w2 "\n" ind2 <close> "\n" Z
    with one ready unwrap-block element: [w1] / [w2] are the wrapper lines, [inner] the lines
    strictly between them.  Exactly the four lines go: the markers are [open tag .. line break after
    w1) and [first byte of w2 .. end of the close tag), and with code on the neighbouring lines the
    output is A, the inner lines (dedented, Properties/C12.v) and Z. *)
Theorem C11_single_unwrap_block_markers :
  forall cfg ds de A ind b1 w1 inner w2 ind2 b2 Z el1 el2,
    let doc := unwrap_doc A ind b1 w1 inner w2 ind2 b2 Z in
    good_delims ds de -> good_doc ds de doc -> bodies_ok doc ->
    parse_target b1 = Ok (Some el1) -> parse_target b2 = Ok (Some el2) -> closes el2 el1 ->
    status cfg el1 = Some true -> has_attr S_UNWRAP (el_attrs el1) = true ->
    ~ In NL w1 -> ~ In NL w2 -> ~ In NL ind2 ->
    let p1 := length A + 1 + length ind in
    let e1 := p1 + length (ds ++ b1 ++ de) + 1 + length w1 in
    let s2 := e1 + 1 + length inner + 1 in
    let k2 := s2 + length w2 + 1 + length ind2 + length (ds ++ b2 ++ de) in
    markers_of cfg ds de (render ds de doc) = Ok [((p1, e1), Some 1); ((s2, k2), Some 0)].
Proof. exact unwrap_markers. Qed.
Print Assumptions C11_single_unwrap_block_markers.

Theorem C11_single_unwrap_block_document :
  forall cfg ds de A ind b1 w1 inner w2 ind2 b2 Z el1 el2,
    let doc := unwrap_doc A ind b1 w1 inner w2 ind2 b2 Z in
    good_delims ds de -> good_doc ds de doc -> bodies_ok doc ->
    parse_target b1 = Ok (Some el1) -> parse_target b2 = Ok (Some el2) -> closes el2 el1 ->
    status cfg el1 = Some true -> has_attr S_UNWRAP (el_attrs el1) = true ->
    ~ In NL w1 -> ~ In NL w2 -> ~ In NL ind2 ->
    Forall (fun c => is_blank c = true) ind -> last_line_not_blank A -> first_line_not_blank Z ->
    first_line_has_code inner -> last_line_has_code inner ->
    clean cfg ds de (render ds de doc) = Ok (A ++ NL :: dedent (length ind) inner ++ NL :: Z).
Proof. exact clean_unwrap_block_code_lines. Qed.
Print Assumptions C11_single_unwrap_block_document.

(** The boundary: exactly two lines between the tags - all four lines go; one line, or no line
    break at all between the tags - the element is left completely untouched, tags included. *)
Theorem C11_two_lines_between_the_tags :
  forall cfg ds de A ind b1 w1 w2 ind2 b2 Z el1 el2,
    let doc := block_doc A ind b1 (NL :: w1 ++ NL :: w2 ++ NL :: ind2) b2 Z in
    good_delims ds de -> good_doc ds de doc -> bodies_ok doc ->
    parse_target b1 = Ok (Some el1) -> parse_target b2 = Ok (Some el2) -> closes el2 el1 ->
    status cfg el1 = Some true -> has_attr S_UNWRAP (el_attrs el1) = true ->
    ~ In NL w1 -> ~ In NL w2 -> ~ In NL ind2 ->
    Forall (fun c => is_blank c = true) ind -> last_line_not_blank A -> first_line_not_blank Z ->
    clean cfg ds de (render ds de doc) = Ok (A ++ NL :: Z).
Proof. exact clean_unwrap_two_lines_code_lines. Qed.
Print Assumptions C11_two_lines_between_the_tags.

Theorem C11_one_line_between_the_tags_untouched :
  forall cfg ds de A ind b1 w1 ind2 b2 Z el1 el2,
    let doc := block_doc A ind b1 (NL :: w1 ++ NL :: ind2) b2 Z in
    good_delims ds de -> good_doc ds de doc -> bodies_ok doc ->
    parse_target b1 = Ok (Some el1) -> parse_target b2 = Ok (Some el2) -> closes el2 el1 ->
    status cfg el1 = Some true -> has_attr S_UNWRAP (el_attrs el1) = true ->
    ~ In NL w1 -> ~ In NL ind2 ->
    clean cfg ds de (render ds de doc) = Ok (render ds de doc).
Proof. exact clean_unwrap_one_line. Qed.
Print Assumptions C11_one_line_between_the_tags_untouched.

Theorem C11_single_line_element_untouched :
  forall cfg ds de A ind b1 mid b2 Z el1 el2,
    let doc := block_doc A ind b1 mid b2 Z in
    good_delims ds de -> good_doc ds de doc -> bodies_ok doc ->
    parse_target b1 = Ok (Some el1) -> parse_target b2 = Ok (Some el2) -> closes el2 el1 ->
    status cfg el1 = Some true -> has_attr S_UNWRAP (el_attrs el1) = true ->
    ~ In NL mid ->
    clean cfg ds de (render ds de doc) = Ok (render ds de doc).
Proof. exact clean_unwrap_no_line. Qed.
Print Assumptions C11_single_line_element_untouched.

(** Non-vacuity: "a\n  <tl to='2000-01-01 00:00:00' unwrap-block>\n  {\n    x\n\n      y\n  }\n  </tl>\nb"
    satisfies every premise; markers and output are obtained from the theorems. *)
Example C11_single_unwrap_block_example : _ := unwrap_example.

(** NOT proved at document level: several unwrap-blocks, nesting, elements among the inner lines
    (validated by the oracle of this check on generated unwrap documents). *)
