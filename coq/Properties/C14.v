(** C14 Whitespace changes are confined to the borders of removals. *)
From Coq Require Import List NArith ZArith Arith Bool.
Import ListNotations.
From Chiri Require Import Base.Bytes Base.Res Model.Tokenizer Model.TreeParser Model.Markers Model.Format
     Model.Clean Spec.Ranges Spec.Lines Spec.Extents
     Proofs.CollectProofs Proofs.FormatAssembly Proofs.CleanProofs Proofs.ConfinedProofs Proofs.SeamProofs.

(** The tidying step works on the text left after the removals ([s] below) and the seam positions
    [rpos] (where a removed range used to be).  Every byte it deletes is either
      (i)  connected to a seam by whitespace only (all bytes between it and the seam are spaces,
           tabs or line breaks) - the border of a removal -, or
      (ii) one of the leading blanks of a line lying between the two seams of an unwrapped element
           (everything from the start of its line up to it is blank).
    Hence a maximal stretch without removed characters keeps everything but leading / trailing
    whitespace, and inside an unwrapped body each line keeps everything but leading blanks. *)
Theorem C14_tidying_is_confined :
  forall s rpos rs,
    wf_utf8 s = true ->
    (forall p pi, In (p, pi) rpos -> p <= length s /\ is_boundary s p = true) ->
    (forall p pi, In (p, Some pi) rpos -> pi < length rpos) ->
    format_ranges s rpos = Ok rs ->
    forall i, in_ranges rs i ->
      (exists p pi, In (p, pi) rpos /\
         forall j b, ((i <= j /\ j < p) \/ (p <= j /\ j <= i)) -> nth_error s j = Some b -> is_ws b = true)
      \/
      (exists p pi q qi ls, In (p, Some pi) rpos /\ nth_error rpos pi = Some (q, qi) /\ p < i /\ i < q /\
         is_line_start s ls /\ ls <= i /\
         forall j b, ls <= j -> j <= i -> nth_error s j = Some b -> is_blank b = true).
Proof. exact format_confined. Qed.
Print Assumptions C14_tidying_is_confined.

(** The tidying step deletes whitespace only, in strictly separated ranges on character boundaries,
    and its result is exactly the deletion of those ranges. *)
Theorem C14_tidying_deletes_whitespace_only :
  forall s rpos,
    wf_utf8 s = true ->
    (forall p pi, In (p, pi) rpos -> p <= length s /\ is_boundary s p = true) ->
    (forall p pi, In (p, Some pi) rpos -> pi < length rpos) ->
    exists rs, format_ranges s rpos = Ok rs /\ separated_from 0 rs /\ bounded_by (length s) rs /\
               on_boundaries s rs /\ ranges_only_ws s rs /\
               format s rpos = Ok (delete_ranges rs s) /\ wf_utf8 (delete_ranges rs s) = true.
Proof. exact format_spec. Qed.
Print Assumptions C14_tidying_deletes_whitespace_only.

(** End to end: everything clean deletes outside the extents is whitespace (C02), so every
    non-whitespace byte of every stretch survives in order. *)
Theorem C14_outside_extents_only_whitespace_goes :
  forall cfg ds de s parts out,
    wf_utf8 s = true -> wf_utf8 ds = true -> wf_utf8 de = true -> ds <> [] -> de <> [] ->
    front_end ds de s = Ok parts -> clean cfg ds de s = Ok out ->
    exists P : nat -> bool, out = delete_where P s /\
      (forall i b, P i = true -> nth_error s i = Some b ->
                   in_ranges (extents cfg s parts) i \/ is_ws b = true) /\
      (forall i, i < length s -> in_ranges (extents cfg s parts) i -> P i = true).
Proof. exact clean_only_deletes. Qed.
Print Assumptions C14_outside_extents_only_whitespace_goes.

(** A removal position that is preceded by code on its own line is left completely alone by the
    tidying step - whatever follows: the line break after an inline removal at the end of a line is
    kept, a following blank line is not merged, the line is not joined with the next one. *)
Theorem C14_seam_after_code_is_untouched :
  forall s p i b,
    wf_utf8 s = true -> is_boundary s p = true -> p <= length s ->
    i < p -> nth_error s i = Some b -> is_blank b = false -> b <> NL ->
    (forall j c, i < j -> j < p -> nth_error s j = Some c -> is_blank c = true) ->
    format_block s p = Ok (p, p).
Proof. exact seam_after_code_untouched. Qed.
Print Assumptions C14_seam_after_code_is_untouched.

(** Non-vacuity: "x\n  \ny" with a seam at 4 (a removed block line, residue "  "): the residue line
    goes; "x  \n  y" with a seam at 3 (an inline removal before the line break): nothing is deleted. *)
Example C14_example :
  format_ranges [120;10;32;32;10;121]%N [(4, None)] = Ok [(2, 5)] /\
  format_ranges [120;32;32;10;32;32;121]%N [(3, None)] = Ok [(3, 3)].
Proof. vm_compute. split; reflexivity. Qed.
