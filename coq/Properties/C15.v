(** C15 list reports exactly what clean deletes, and changes nothing. *)
From Coq Require Import List NArith ZArith Arith Bool.
Import ListNotations.
From Chiri Require Import Base.Bytes Base.Res Model.Finders Model.Markers Model.Format Model.Clean
     Model.ListRender Spec.Ranges Spec.Forest Proofs.C15Proofs Proofs.MarkerShape Proofs.HighlightProofs.

(** The regions of the list are, in order and with the same count, the markers that clean removes
    before whitespace tidying, all with status Ready. *)
Theorem C15_list_regions_are_clean_markers :
  forall cfg ds de s ms,
    markers_of cfg ds de s = Ok ms ->
    list_markers cfg ds de s = Ok (map (fun v => (v, true)) ms).
Proof. exact list_regions_are_clean_markers. Qed.
Print Assumptions C15_list_regions_are_clean_markers.

Theorem C15_clean_deletes_the_listed_regions :
  forall cfg ds de s ms,
    list_markers cfg ds de s = Ok ms ->
    exists markers, ms = map (fun v => (v, true)) markers /\
      clean cfg ds de s =
        (removed <- remove_markers s markers ;; removed_pos <- get_removed_pos markers ;;
         format removed removed_pos).
Proof. exact clean_uses_list_regions. Qed.
Print Assumptions C15_clean_deletes_the_listed_regions.

(** Line numbers: the line of byte [i] is one plus the number of line breaks among bytes 0..i;
    when byte [i] is not itself a line break this is the 1-based number of the line containing it. *)
Theorem C15_line_numbers :
  forall s needle, find_line (build_line_map s) needle = 1 + count_nl (firstn (S needle) s).
Proof. exact find_line_counts_line_breaks. Qed.
Print Assumptions C15_line_numbers.

(** Count and shape of the regions: when no child region touches the opening or closing part of an
    unwrapped element (tags do not sit on wrapper lines), the regions are, in order: one per
    default-strategy element (regions nested inside it are not listed); for an unwrapped element its
    opening part, the regions of its children, and its closing part. *)
Theorem C15_region_count_and_order :
  forall f lo hi ms,
    wf_forest lo hi f -> Forall untouched f -> merge_markers f = Ok ms ->
    map fst ms = flat_map flat_ranges_tree f.
Proof. exact merge_markers_shape. Qed.
Print Assumptions C15_region_count_and_order.

(** The highlighted text: for a region that does not end in a line break (in a source without CR) the
    coloured part is the whole region, and its per-line segments joined by line breaks are exactly the
    text of the region. *)
Theorem C15_highlighted_text_is_the_region :
  forall content a b,
    wf_utf8 content = true -> a < b -> b <= length content ->
    is_boundary content a = true -> is_boundary content b = true ->
    (forall i, nth_error content i <> Some CR) ->
    nth_error content (b - 1) <> Some NL ->
    let line_end := match find_next_lb content (b - 1) false with Some v => v | None => length content end in
    Nat.min b line_end = b /\
    join_nl (lines (sub content a b)) = sub content a b.
Proof. exact highlighted_text_is_region_text. Qed.
Print Assumptions C15_highlighted_text_is_the_region.

(** Listing is a function of source and configuration only (the model is a Gallina function; the
    implementation's purity is covered by the differential run). *)
Example C15_line_numbers_example :
  find_line (build_line_map [97;10;98;10;99]%N) 2 = 2 /\ find_line (build_line_map [97;10;98;10;99]%N) 4 = 3.
Proof. vm_compute. split; reflexivity. Qed.
