(** C16 List items render the right lines, numbers, columns and valid JSON. *)
From Coq Require Import List NArith Arith Bool.
Import ListNotations.
From Chiri Require Import Base.Bytes Base.Res Model.Finders Model.ListRender Spec.ListSpec
     Proofs.C15Proofs Proofs.ListProofs Proofs.JsonProofs Proofs.ListTabEnd.

(** The (uncoloured) item of a region [a, b) is exactly the specification of Spec/ListSpec.v: a
    `_start` marker line indented by the line-number column (9) plus the tab-expanded width of the
    text left of the first removed character, then the source lines first..last, each prefixed by
    its 1-based number in a 7-column field and " |" with tabs expanded to four spaces, then an
    `‾end` marker line in the column of the last removed character.  Hypotheses: the region is
    non-empty, on character boundaries of a well-formed source without carriage returns, and neither
    its first nor its last byte is a line break (the C15 space), the last byte is not a tab. *)
Theorem C16_item_is_the_specification :
  forall content a b first last is_removal,
    wf_utf8 content = true -> a < b -> b <= length content ->
    is_boundary content a = true -> is_boundary content b = true ->
    (forall i, nth_error content i <> Some CR) ->
    nth_error content a <> Some NL -> nth_error content (b - 1) <> Some NL ->
    nth_error content (b - 1) <> Some TAB ->
    get_line_range (build_line_map content) (a, b) = Ok (first, last) ->
    build_item content a b is_removal false (Some (first, last)) = Ok (expected_item content a b first last).
Proof. exact build_item_plain. Qed.
Print Assumptions C16_item_is_the_specification.

(** The same without the last hypothesis: when the last removed character is a tab, it occupies four columns and the
    `‾end` marker stands under the last of them (three columns right of the tab's first column); otherwise the
    specification is the one above [expected_item_any_no_tab]. *)
Theorem C16_item_is_the_specification_any :
  forall content a b first last is_removal,
    wf_utf8 content = true -> a < b -> b <= length content ->
    is_boundary content a = true -> is_boundary content b = true ->
    (forall i, nth_error content i <> Some CR) ->
    nth_error content a <> Some NL -> nth_error content (b - 1) <> Some NL ->
    get_line_range (build_line_map content) (a, b) = Ok (first, last) ->
    build_item content a b is_removal false (Some (first, last)) = Ok (expected_item_any content a b first last).
Proof. exact build_item_plain_any. Qed.
Print Assumptions C16_item_is_the_specification_any.

Theorem C16_specification_any_without_tab :
  forall content a b first last,
    nth_error content (b - 1) <> Some TAB ->
    expected_item_any content a b first last = expected_item content a b first last.
Proof. exact expected_item_any_no_tab. Qed.
Print Assumptions C16_specification_any_without_tab.

(** first / last are the 1-based numbers of the lines holding the first and the last character. *)
Theorem C16_line_numbers :
  forall content a b first last,
    a < b -> b <= length content ->
    nth_error content a <> Some NL -> nth_error content (b - 1) <> Some NL ->
    get_line_range (build_line_map content) (a, b) = Ok (first, last) ->
    first = 1 + count_nl (firstn a content) /\ last = 1 + count_nl (firstn (b - 1) content) /\ first <= last.
Proof. exact line_range_spec. Qed.
Print Assumptions C16_line_numbers.

(** The JSON code block (uncoloured rendering) equals the pretty form with the colour codes
    stripped (for sources without ESC and CR bytes; with CR LF line ends the weaker condition of
    ListProofs.build_item_uncolored_crlf applies, and Example build_item_uncolored_counterexample
    there shows a region ending in a CR where the two differ by that CR). *)
Theorem C16_json_block_is_uncoloured_pretty :
  forall content a b lr is_removal x y,
    (forall i, nth_error content i <> Some 27%N) -> (forall i, nth_error content i <> Some CR) ->
    build_item content a b is_removal true lr = Ok x ->
    build_item content a b is_removal false lr = Ok y ->
    uncolored x = y.
Proof. exact build_item_uncolored. Qed.
Print Assumptions C16_json_block_is_uncoloured_pretty.

(** The JSON form is valid JSON of the documented shape: a reader for exactly that shape (an array of
    objects with the keys line_range (two numbers), annotated_code_block (a string literal with the
    standard escapes) and current_status ("Ready" or "Pending"), in this order) recovers every item. *)
Theorem C16_json_round_trip : forall items, json_read_list (json_list items) = Some items.
Proof. exact json_list_round_trip. Qed.
Print Assumptions C16_json_round_trip.

(** Fixed-width line-number column (for line numbers below 10^7). *)
Theorem C16_line_number_column_width :
  forall i, (N.of_nat i < 10000000)%N -> length (line_column i) = 9.
Proof. exact line_column_width. Qed.
Print Assumptions C16_line_number_column_width.

(** Non-vacuity: "ab\n\t cd<x>\nef</x> g\nh", region <x>..</x> = [7, 17), lines 2..3. *)
Definition ex_c : str := [97;98;10;9;32;99;100;60;120;62;10;101;102;60;47;120;62;32;103;10;104]%N.
Example C16_example :
  get_line_range (build_line_map ex_c) (7, 17) = Ok (2, 3) /\
  build_item ex_c 7 17 true false (Some (2, 3)) = Ok (expected_item ex_c 7 17 2 3).
Proof. vm_compute. split; reflexivity. Qed.
