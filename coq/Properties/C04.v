(** C04 No-op identity when nothing is ready. *)
From Coq Require Import List NArith ZArith Arith Bool.
Import ListNotations.
From Chiri Require Import Base.Bytes Base.Res Model.Tokenizer Model.TagParser Model.TreeParser
     Model.Markers Model.Format Model.Clean Proofs.C04Proofs.

(** If no element of the parsed tree - at any depth - has a ready, non-empty removable range, the
    output of clean is byte-for-byte the input (and in particular clean does not panic). *)
Theorem C04_noop_identity :
  forall cfg ds de s parts,
    front_end ds de s = Ok parts ->
    (forall e, In e (all_elements parts) -> not_ready cfg s e) ->
    clean cfg ds de s = Ok s.
Proof. exact noop_identity. Qed.
Print Assumptions C04_noop_identity.

(** The whitespace tidying never runs on its own: with no markers the formatter is the identity. *)
Theorem C04_no_markers_no_tidying :
  forall cfg ds de s, markers_of cfg ds de s = Ok [] -> clean cfg ds de s = Ok s.
Proof. exact clean_no_markers. Qed.
Print Assumptions C04_no_markers_no_tidying.

(** What makes an element not ready: skip, unregistered name, condition false (status), or an
    unwrap-block that cannot be unwrapped (empty range). *)
Theorem C04_not_ready_by_status :
  forall cfg content el st et, status cfg el <> Some true -> not_ready cfg content (el, st, et).
Proof. exact not_ready_by_status. Qed.
Print Assumptions C04_not_ready_by_status.

Theorem C04_not_ready_by_empty_range :
  forall cfg content el st et,
    (let '((a, b), _) := create content el st et in b <= a) -> not_ready cfg content (el, st, et).
Proof. exact not_ready_by_empty_range. Qed.
Print Assumptions C04_not_ready_by_empty_range.

(** Non-vacuity: a document with a future element, a skip element and junk meets the hypotheses.
    "a <tl to='2100-01-01 00:00:00'>\n x \n</tl> > ) <tl skip to='2000-01-01 00:00:00'>y</tl>" *)
Definition ex_src : str :=
  [97;32;60;116;108;32;116;111;61;39;50;49;48;48;45;48;49;45;48;49;32;48;48;58;48;48;58;48;48;39;
   62;10;32;120;32;10;60;47;116;108;62;32;62;32;41;32;60;116;108;32;115;107;105;112;32;116;111;61;
   39;50;48;48;48;45;48;49;45;48;49;32;48;48;58;48;48;58;48;48;39;62;121;60;47;116;108;62]%N.
Definition ex_cfg : config := mkConfig [116;108]%N [43;48;48;58;48;48]%N 1000000000%Z [114;109]%N [[120%N]].

Example C04_hypotheses_satisfiable :
  exists parts, front_end [60%N] [62%N] ex_src = Ok parts /\ length (all_elements parts) = 2 /\
                (forall e, In e (all_elements parts) -> not_ready ex_cfg ex_src e).
Proof.
  eexists. split; [vm_compute; reflexivity|]. split; [vm_compute; reflexivity|].
  intros e He. vm_compute in He.
  destruct He as [<-|[<-|[]]]; apply not_ready_by_status; vm_compute; discriminate.
Qed.
