(** C12 Unwrap-block dedents the surviving body uniformly and safely. *)
From Coq Require Import List NArith Arith Bool.
Import ListNotations.
From Chiri Require Import Base.Bytes Base.Res Model.Finders Model.Format Spec.Ranges Spec.Lines
     Proofs.FormatterProofs Proofs.BlockProofs Proofs.UnwrapDoc.

(** Exact formula for the block formatter between the two seams of an unwrapped element:
    ofs = the indentation of the head seam's line (the column of the opening tag) when only blanks
    precede the seam on its line (back to a line break, or back to the start of the file: then the
    offset is the seam's position itself), else 0; the first body line is the line after the seam's line;
    len = (its leading blanks) - ofs, never negative; every body line that ends before the closing
    seam and has ib leading blanks loses exactly the bytes [ls + min ofs ib, ls + min (ofs+len) ib):
    i.e. min len (ib - ofs) blanks (0 if ib <= ofs), never anything left of the tag's column. *)
Theorem C12_dedent_formula :
  forall s start_pos end_pos,
    wf_utf8 s = true ->
    block_indent_remover s start_pos end_pos =
    Ok (let ofs := match find_prev_lb s start_pos true with
                     | Some p => start_pos - p - 1
                     | None => if all_blank_before s start_pos then start_pos else 0
                     end in
        let first := match find_next_lb s start_pos false with Some p => S p | None => length s end in
        let len := leading_blanks (skipn first s) - ofs in
        dedent_lines (S (length s)) s end_pos first ofs len).
Proof. exact block_indent_exact. Qed.
Print Assumptions C12_dedent_formula.

(** The offset is the number of blanks between the previous line break and the seam. *)
Theorem C12_offset_is_the_tag_column :
  forall s start_pos p, wf_utf8 s = true -> is_boundary s start_pos = true -> start_pos <= length s ->
    find_prev_lb s start_pos true = Some p ->
    is_prev_nl s start_pos p /\
    (forall i b, p < i -> i < start_pos -> nth_error s i = Some b -> is_blank b = true).
Proof. exact indent_offset_spec. Qed.
Print Assumptions C12_offset_is_the_tag_column.

(** The first line of the file: when only blanks stand in front of the seam, no line break is found
    and the offset is the seam's position (the number of those blanks, the tag's column).  Before the
    repair of the block formatter the offset was 0 there. *)
Theorem C12_offset_on_the_first_line :
  forall s start_pos end_pos,
    wf_utf8 s = true -> all_blank_before s start_pos = true ->
    find_prev_lb s start_pos true = None /\
    block_indent_remover s start_pos end_pos =
    Ok (let ofs := start_pos in
        let first := match find_next_lb s start_pos false with Some p => S p | None => length s end in
        let len := leading_blanks (skipn first s) - ofs in
        dedent_lines (S (length s)) s end_pos first ofs len).
Proof.
  intros s a e Hs H. split.
  - apply indent_offset_first_line. exact H.
  - apply block_indent_exact_first_line; assumption.
Qed.
Print Assumptions C12_offset_on_the_first_line.

(** Only spaces and tabs are consumed, they are leading blanks of their line, at most len of them,
    starting exactly min ofs (leading blanks) bytes after the line start. *)
Theorem C12_only_leading_blanks :
  forall fuel s end_pos ls ofs len r,
    wf_utf8 s = true -> is_line_start s ls -> In r (dedent_lines fuel s end_pos ls ofs len) ->
    exists ls', is_line_start s ls' /\ ls' <= fst r /\ fst r < snd r /\
                (forall i b, ls' <= i -> i < snd r -> nth_error s i = Some b -> is_blank b = true) /\
                snd r - fst r <= len /\ fst r - ls' = Nat.min ofs (leading_blanks (skipn ls' s)).
Proof. exact dedent_lines_leading. Qed.
Print Assumptions C12_only_leading_blanks.

(** Safety whatever the layout: ranges are non-empty, ascending, after the seam, before the closing
    seam, inside the string, blank-only, on character boundaries; the formatter never panics. *)
Theorem C12_block_ranges_safe :
  forall s a b rs, wf_utf8 s = true -> block_indent_remover s a b = Ok rs ->
    sorted_nonempty_from (S a) rs /\
    (forall r, In r rs -> snd r < b /\ snd r <= length s /\ ranges_only_blank s [r] /\
                          is_boundary s (fst r) = true /\ is_boundary s (snd r) = true).
Proof. exact block_indent_spec. Qed.
Print Assumptions C12_block_ranges_safe.

(** The pairing of the two seams at every nesting depth (pair indices consistent) is
    Properties/C02.v, C02_markers_are_the_extents (pairs_consistent).  Known finding KF1 (block on the
    first line of the file with an indented tag) is repaired: Properties/C13.v,
    C13_first_line_block_fixed, and C12_offset_on_the_first_line above (the offset is the tag's column
    there too; before the repair it was 0 because the start of the file was not accepted as a line
    start). *)


(** Document level, ONE unwrap-block (Proofs/UnwrapDoc.v): in the output of
    C11_single_unwrap_block_document (Properties/C11.v) the inner lines are [dedent ofs inner] with
    ofs = the opening tag's indentation: with len = (leading blanks of the first inner line) - ofs,
    every line with ib leading blanks keeps its first min ofs ib blanks and loses the next
    min len (ib - ofs) of them; everything behind the leading blanks is kept byte for byte. *)
Theorem C12_dedent_is_line_wise :
  forall ofs inner,
    lines (dedent ofs inner) = map (dedent_line ofs (leading_blanks inner - ofs)) (lines inner).
Proof. exact dedent_lines_map. Qed.
Print Assumptions C12_dedent_is_line_wise.

Theorem C12_first_inner_line_lands_on_the_tag_column :
  forall ofs inner, leading_blanks (dedent ofs inner) = Nat.min ofs (leading_blanks inner).
Proof. exact dedent_first_line. Qed.
Print Assumptions C12_first_inner_line_lands_on_the_tag_column.

(** Everything behind the leading blanks of a line is kept byte for byte; exactly
    min len (ib - ofs) blanks go; a line at or left of the tag's column is untouched. *)
Theorem C12_line_keeps_its_text :
  forall ofs len l,
    skipn (leading_blanks (dedent_line ofs len l)) (dedent_line ofs len l) = skipn (leading_blanks l) l.
Proof. exact dedent_line_suffix. Qed.
Print Assumptions C12_line_keeps_its_text.

Theorem C12_line_at_or_left_of_the_tag_column_untouched :
  forall ofs len l, leading_blanks l <= ofs -> dedent_line ofs len l = l.
Proof. exact dedent_line_shallow. Qed.
Print Assumptions C12_line_at_or_left_of_the_tag_column_untouched.

(** Non-vacuity of the first-line case: "  <\n    a\n  >" with the seams 2 and 13 (the tag bytes
    stand for themselves): offset 2, the body line loses 2 of its 4 blanks. *)
Example C12_first_line_example :
  block_indent_remover [32;32;60;10;32;32;32;32;97;10;32;32;62]%N 2 12 = Ok [(6, 8)].
Proof. vm_compute. reflexivity. Qed.

(** Non-vacuity: "foo\n\n  fuga\n  piyo\n\nbar" between the seams 4 and 19: [5,7) and [12,14). *)
Example C12_example :
  block_indent_remover [102;111;111;10;10;32;32;102;117;103;97;10;32;32;112;105;121;111;10;10;98;97;114]%N 4 19
  = Ok [(5, 7); (12, 14)].
Proof. vm_compute. reflexivity. Qed.
