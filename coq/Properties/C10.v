(** C10 Tags pair by name with stack discipline; stray tags are inert text. *)
From Coq Require Import List NArith Arith Bool.
Import ListNotations.
From Chiri Require Import Base.Bytes Base.Res Model.Tokenizer Model.TagParser Model.TreeParser
     Spec.Stack Proofs.TreeProofs.

(** Whenever no tag parse panics (Properties/C09.v shows it never does on well-formed UTF-8), the
    recursive-descent parser returns exactly the tree of the one-pass stack machine of Spec/Stack.v:
    a closing tag closes the innermost open element with that name, the openers above it become
    text followed by their former children, unmatched closers and unclosed openers become text. *)
Theorem C10_tree_is_the_stack_machine :
  forall ds de tokens,
    (forall t, In t tokens -> exists o, parse_token ds de t = Ok o) ->
    parse_tree ds de tokens = Ok (stack_tree (cls_of ds de) tokens).
Proof. exact parse_tree_stack. Qed.
Print Assumptions C10_tree_is_the_stack_machine.

(** Every token appears exactly once, in document order. *)
Theorem C10_every_token_once_in_order :
  forall ds de tokens parts,
    (forall t, In t tokens -> exists o, parse_token ds de t = Ok o) ->
    parse_tree ds de tokens = Ok parts -> flatten parts = tokens.
Proof. exact parse_tree_flatten. Qed.
Print Assumptions C10_every_token_once_in_order.

Theorem C10_stack_machine_flatten : forall cls tokens, flatten (stack_tree cls tokens) = tokens.
Proof. exact stack_tree_flatten. Qed.
Print Assumptions C10_stack_machine_flatten.

(** Every element of the tree is an opener that parses to that element, paired with a closer whose
    name (leading slashes removed) is the opener's name: stray tags never become elements. *)
Theorem C10_elements_are_matched_pairs :
  forall cls tokens el st et,
    In (el, st, et) (all_elements (stack_tree cls tokens)) ->
    cls st = Some el /\ exists el', cls et = Some el' /\ starts_with_slash (el_name el') = true /\
                                    trim_slashes (el_name el') = el_name el.
Proof. exact stack_tree_elements_wellformed. Qed.
Print Assumptions C10_elements_are_matched_pairs.

(** Non-vacuity: crossing tags "<a><b></a></b>": b is demoted to text inside a; "</b>" is stray. *)
Example C10_crossing_example :
  exists ts parts, tokenize [60;97;62;60;98;62;60;47;97;62;60;47;98;62]%N [60%N] [62%N] = Ok ts /\
    parse_tree [60%N] [62%N] ts = Ok parts /\
    map (fun p => match p with PElem _ _ _ ch => length ch | PText _ => 99 end) parts = [1; 99].
Proof. eexists. eexists. split; [vm_compute; reflexivity|]. split; vm_compute; reflexivity. Qed.
