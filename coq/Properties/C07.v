(** C07 Tokenization is a lossless partition with consistent offsets. *)
From Coq Require Import List NArith Arith Bool.
Import ListNotations.
From Chiri Require Import Base.Bytes Base.Res Model.Tokenizer Proofs.TokenizerProofs.

(** For every source and delimiter pair (no hypothesis beyond a normal return): the token texts
    concatenate to the source; tokens are contiguous in both offset systems starting at 0 and end at
    the source length; no two text tokens are adjacent; and every token is non-empty, is the source
    span it claims, lies on character boundaries, has character length = number of characters of its
    text, and - for tag tokens - begins with the start and ends with the end delimiter. *)
Theorem C07_lossless_partition :
  forall s ds de ts, tokenize s ds de = Ok ts ->
    concat (map tk_value ts) = s /\ chained 0 0 ts /\ last_bend 0 ts = length s /\
    no_adjacent_text ts /\ (forall t, In t ts -> token_ok s ds de t).
Proof. exact tokenize_partition. Qed.
Print Assumptions C07_lossless_partition.

(** ... and the normal return is guaranteed on well-formed UTF-8 with non-empty delimiters
    (every slice of the tokenizer is in range and on a character boundary, in particular the last
    token of a source whose last character is multi-byte). *)
Theorem C07_tokenize_never_panics :
  forall s ds de, wf_utf8 s = true -> wf_utf8 ds = true -> wf_utf8 de = true ->
                  ds <> [] -> de <> [] -> exists ts, tokenize s ds de = Ok ts.
Proof. exact tokenize_total. Qed.
Print Assumptions C07_tokenize_never_panics.

(** Non-vacuity: "x<aあ" (last character multi-byte, unterminated tag) is one text token 0..6. *)
Example C07_example :
  tokenize [120;60;97;227;129;130]%N [60%N] [62%N]
  = Ok [mkToken false [120;60;97;227;129;130]%N 0 0 4 6].
Proof. vm_compute. reflexivity. Qed.
