(** C09 Tag grammar: name and attributes round-trip; quoted values are opaque. *)
From Coq Require Import List NArith Arith Bool.
Import ListNotations.
From Chiri Require Import Base.Bytes Base.Res Model.Tokenizer Model.TagParser Spec.TagGrammar Proofs.TagProofs Proofs.StripCopies.

(** A well-formed tag (Spec/TagGrammar.v: a name, then attributes each preceded by a non-empty
    separator of spaces / line breaks, bare or name=value with optional spaces around '=' and the
    value in single or double quotes not containing its own quote, optional padding) parses to
    exactly its name and, in order, its attribute names and values. *)
Theorem C09_round_trip :
  forall t, wf_tag t = true -> wf_utf8 (print_body t) = true ->
            parse_target (print_body t) = Ok (Some (mkElement (tg_name t) (attrs_of t))).
Proof. exact parse_printed_tag. Qed.
Print Assumptions C09_round_trip.

(** Quoted values are opaque: the name and the attribute names (hence the presence of `skip`,
    `unwrap-block`, `to`, `name`) do not depend on any value - whatever spaces, '=', other quote,
    line breaks, keywords or start delimiters the values contain. *)
Theorem C09_values_are_opaque :
  forall t el, wf_tag t = true -> wf_utf8 (print_body t) = true ->
               parse_target (print_body t) = Ok (Some el) ->
               el_name el = tg_name t /\ map fst (el_attrs el) = map at_name (tg_attrs t).
Proof. exact parsed_names_independent_of_values. Qed.
Print Assumptions C09_values_are_opaque.

(** Exactly one copy of each delimiter is stripped from the token text. *)
Theorem C09_delimiters_stripped :
  forall ds de t, ds <> [] -> de <> [] -> wf_tag t = true -> wf_utf8 (print_body t) = true ->
    prefix ds (print_body t ++ de) = false -> prefix (rev de) (rev (print_body t)) = false ->
    parse_value ds de (ds ++ print_body t ++ de) = Ok (Some (mkElement (tg_name t) (attrs_of t))).
Proof. exact parse_value_printed. Qed.
Print Assumptions C09_delimiters_stripped.

(** Every further copy of a delimiter at the ends of the tag text is stripped as well (the code trims with
    trim_start_matches / trim_end_matches): a tag written with a doubled delimiter - <<marker name='x'>, [[marker]] -
    parses exactly like the tag with one copy. *)
Theorem C09_doubled_start_delimiter :
  forall ds de v, ds <> [] -> parse_value ds de (ds ++ v) = parse_value ds de v.
Proof. exact doubled_start_delimiter. Qed.
Print Assumptions C09_doubled_start_delimiter.

Theorem C09_doubled_end_delimiter :
  forall ds de v, ds <> [] -> de <> [] ->
    prefix ds (trim_start ds v ++ de) = false ->
    parse_value ds de (v ++ de) = parse_value ds de v.
Proof. exact doubled_end_delimiter. Qed.
Print Assumptions C09_doubled_end_delimiter.

(** The tag parser never panics on well-formed UTF-8 (a blank body parses to "not an element"). *)
Theorem C09_tag_parser_never_panics :
  forall ds de value, wf_utf8 value = true -> wf_utf8 ds = true -> wf_utf8 de = true ->
                      exists o, parse_value ds de value = Ok o.
Proof. exact parse_value_total. Qed.
Print Assumptions C09_tag_parser_never_panics.

(** Non-vacuity: tl to="2000-01-01 00:00:00"<newline>c='skip = "x" <'<newline> skip *)
Definition ex_tag : tag_ast :=
  mkTag 1 [116;108]%N
        [mkAttr [SP] [116;111]%N (Some (0, 0, QDouble, [50;48;48;48;45;48;49;45;48;49;32;48;48;58;48;48;58;48;48]%N));
         mkAttr [NL] [99%N] (Some (1, 1, QSingle, [115;107;105;112;32;61;32;34;120;34;32;60]%N));
         mkAttr [NL; SP] [115;107;105;112]%N None]
        [SP].
Example C09_example :
  wf_tag ex_tag = true /\ wf_utf8 (print_body ex_tag) = true /\
  parse_target (print_body ex_tag) = Ok (Some (mkElement [116;108]%N (attrs_of ex_tag))) /\
  parse_target [SP] = Ok None.
Proof. vm_compute. repeat split; reflexivity. Qed.

(** <<b> and [[b]] read as the tag b *)
Example C09_doubled_example :
  parse_value [60%N] [62%N] [60;60;98;62]%N = Ok (Some (mkElement [98%N] [])) /\
  parse_value [91%N] [93%N] [91;91;98;93;93]%N = Ok (Some (mkElement [98%N] [])).
Proof. vm_compute. split; reflexivity. Qed.
