(** C02 No over-removal: text outside ready elements survives, in order. *)
From Coq Require Import List NArith ZArith Arith Bool.
Import ListNotations.
From Chiri Require Import Base.Bytes Base.Res Model.Tokenizer Model.TagParser Model.TreeParser Model.Markers
     Model.Clean Spec.Ranges Spec.Forest Spec.Extents Proofs.CollectProofs Proofs.CleanProofs.

(** For every well-formed UTF-8 source and non-empty well-formed delimiters: the output of clean is
    the input with a set of byte positions deleted (so everything kept is kept in its original
    order), and every deleted byte lies in the removable extent of a ready element (Spec/Extents.v:
    whole element for the default strategy, the two parts of the builder for unwrap-block) or is a
    space, tab or line break.  (The third conjunct is C03.) *)
Theorem C02_clean_only_deletes :
  forall cfg ds de s parts out,
    wf_utf8 s = true -> wf_utf8 ds = true -> wf_utf8 de = true -> ds <> [] -> de <> [] ->
    front_end ds de s = Ok parts -> clean cfg ds de s = Ok out ->
    exists P : nat -> bool, out = delete_where P s /\
      (forall i b, P i = true -> nth_error s i = Some b ->
                   in_ranges (extents cfg s parts) i \/ is_ws b = true) /\
      (forall i, i < length s -> in_ranges (extents cfg s parts) i -> P i = true).
Proof. exact clean_only_deletes. Qed.
Print Assumptions C02_clean_only_deletes.

(** The marker stage: the deleted ranges are non-empty, strictly ordered, disjoint, inside the
    source, on character boundaries, and cover exactly the extents. *)
Theorem C02_markers_are_the_extents :
  forall cfg ds de s parts,
    wf_utf8 s = true -> wf_utf8 ds = true -> wf_utf8 de = true -> ds <> [] -> de <> [] ->
    front_end ds de s = Ok parts ->
    exists ms, markers_of cfg ds de s = Ok ms /\
      sorted_nonempty_from 0 (map fst ms) /\ bounded_by (length s) (map fst ms) /\
      on_boundaries s (map fst ms) /\ pairs_consistent ms /\
      (forall i, in_ranges (map fst ms) i <-> in_ranges (extents cfg s parts) i).
Proof. exact markers_spec. Qed.
Print Assumptions C02_markers_are_the_extents.

(** Non-vacuity: "a <tl to='2000-01-01 00:00:00'>x</tl>\n b" cleans to "a \n b" (the line break after an inline removal is kept): clean returns, and the
    extent is the element [2, 38). *)
Definition ex_src : str :=
  [97;32;60;116;108;32;116;111;61;39;50;48;48;48;45;48;49;45;48;49;32;48;48;58;48;48;58;48;48;39;62;120;60;47;116;108;62;10;32;98]%N.
Definition ex_cfg : config := mkConfig [116;108]%N [43;48;48;58;48;48]%N 1000000000%Z [114;109]%N [].
Example C02_example :
  wf_utf8 ex_src = true /\
  (exists parts, front_end [60%N] [62%N] ex_src = Ok parts /\ extents ex_cfg ex_src parts = [(2, 37)]) /\
  clean ex_cfg [60%N] [62%N] ex_src = Ok [97;32;10;32;98]%N.
Proof.
  split. { vm_compute. reflexivity. }
  split. { eexists. split. { vm_compute. reflexivity. } vm_compute. reflexivity. }
  vm_compute. reflexivity.
Qed.
