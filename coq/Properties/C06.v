(** C06 Marker and skip decision: exact name membership; skip always wins. *)
From Coq Require Import List NArith ZArith Arith Bool.
Import ListNotations.
From Chiri Require Import Base.Bytes Base.Res Model.TagParser Model.Chrono Model.Markers Proofs.C06Proofs.

(** An element is ready exactly when it carries no `skip` attribute and either it is a
    removal-marker whose first `name` attribute has a value that is a member of the target set, or
    it is a time-limited element (with a name different from the removal-marker name) that expired. *)
Theorem C06_ready_iff :
  forall cfg el,
    status cfg el = Some true <->
    is_skip el = false /\
    ((el_name el = rm_tag cfg /\ marker_is_removal (targets cfg) el = true) \/
     (el_name el <> rm_tag cfg /\ el_name el = tl_tag cfg /\
      time_is_removal (tl_offset cfg) (now cfg) el = true)).
Proof. exact status_ready_iff. Qed.
Print Assumptions C06_ready_iff.

(** Membership is membership of the whole byte string (case-sensitive by construction). *)
Theorem C06_marker_ready_iff :
  forall targets el,
    marker_is_removal targets el = true <->
    exists v, find_attr S_NAME (el_attrs el) = Some (S_NAME, Some v) /\ In v targets.
Proof. exact marker_ready_iff. Qed.
Print Assumptions C06_marker_ready_iff.

Theorem C06_empty_target_set :
  forall cfg el, targets cfg = [] -> el_name el = rm_tag cfg -> status cfg el <> Some true.
Proof. exact empty_targets_never. Qed.
Print Assumptions C06_empty_target_set.

(** `skip` anywhere among the attributes: never ready (nor pending) on its own account. *)
Theorem C06_skip_wins :
  forall cfg el v, In (S_SKIP, v) (el_attrs el) -> status cfg el = None.
Proof. exact skip_wins. Qed.
Print Assumptions C06_skip_wins.

(** Only an attribute *named* skip counts; values are not inspected. *)
Theorem C06_skip_only_by_attribute_name :
  forall el, (forall v, ~ In (S_SKIP, v) (el_attrs el)) -> is_skip el = false.
Proof. exact skip_only_by_name. Qed.
Print Assumptions C06_skip_only_by_attribute_name.

Theorem C06_unregistered_never :
  forall cfg el, el_name el <> rm_tag cfg -> el_name el <> tl_tag cfg -> status cfg el = None.
Proof. exact unregistered_never. Qed.
Print Assumptions C06_unregistered_never.

(** Non-vacuity: <rm c="skip" name="x"> with targets {x} is ready; with `skip` as attribute it is not. *)
Definition ex_cfg : config := mkConfig [116;108]%N [43;48;48;58;48;48]%N 1000000000%Z [114;109]%N [[120%N]].
Definition ex_el : element :=
  mkElement [114;109]%N [([99%N], Some S_SKIP); (S_NAME, Some [120%N])].
Example C06_ready_example : status ex_cfg ex_el = Some true.
Proof. vm_compute. reflexivity. Qed.
Example C06_skip_example :
  status ex_cfg (mkElement [114;109]%N [(S_NAME, Some [120%N]); (S_SKIP, None)]) = None.
Proof. apply C06_skip_wins with (v := None). simpl. right. left. reflexivity. Qed.
