(** C18 Behaviour is independent of the spelling of delimiters and tag names. *)
From Coq Require Import List NArith ZArith Arith Bool.
Import ListNotations.
From Chiri Require Import Base.Bytes Base.Res Model.Tokenizer Model.TagParser Model.Markers Model.Clean
     Spec.Scan Spec.Rename Proofs.TokenizerProofs Proofs.RenameProofs Proofs.C06Proofs.

(** The full statement (kept visible; NOT proved in full): rewriting source and configuration
    consistently to another spelling yields the correspondingly rewritten output. *)
Definition C18_full_statement : Prop :=
  forall cfg ds de ds' de' doc doc',
    ds <> [] -> de <> [] -> ds' <> [] -> de' <> [] -> normal doc ->
    doc_disjoint ds de doc -> doc_disjoint ds' de' doc -> bodies_ok doc ->
    clean cfg ds de (render ds de doc) = Ok (render ds de doc') ->
    clean cfg ds' de' (render ds' de' doc) = Ok (render ds' de' doc').
(** What is proved (the `_partial` theorems below): for documents in which the delimiter bytes occur
    nowhere else, the token sequence (kinds, order, spans = the items' spans) and every parsed tag
    are the same function of the abstract document whatever the spelling, and the decisions depend
    on tag names only through equality with the configured names.  So the tree, readiness and marker
    structure are spelling-independent.  What is missing for the full statement is the formatting
    layer (a simulation argument over the position map: the whitespace scanners see delimiters only
    as non-blank bytes); that layer is validated differentially (metamorphic pairs over 18 delimiter
    spellings x 4 tag-name pairs) in the check of this property. *)

Theorem C18_tokens_are_the_items_partial :
  forall ds de doc ts,
    ds <> [] -> de <> [] -> normal doc -> doc_disjoint ds de doc -> bodies_ok doc ->
    tokenize (render ds de doc) ds de = Ok ts ->
    map span_of ts = spans_of ds de 0 doc.
Proof. exact tokenize_rendered. Qed.
Print Assumptions C18_tokens_are_the_items_partial.

Theorem C18_token_kinds_independent_partial :
  forall ds de ds' de' doc ts ts',
    ds <> [] -> de <> [] -> ds' <> [] -> de' <> [] -> normal doc ->
    doc_disjoint ds de doc -> doc_disjoint ds' de' doc -> bodies_ok doc ->
    tokenize (render ds de doc) ds de = Ok ts -> tokenize (render ds' de' doc) ds' de' = Ok ts' ->
    map tk_elem ts = map tk_elem ts' /\ length ts = length doc.
Proof. exact token_kinds_independent. Qed.
Print Assumptions C18_token_kinds_independent_partial.

(** Exactly one copy of each delimiter is stripped: the parsed tag depends on the body only. *)
Theorem C18_tag_depends_on_body_only_partial :
  forall ds de body,
    ds <> [] -> de <> [] -> body <> [] -> disjoint_from ds de body ->
    parse_value ds de (ds ++ body ++ de) = parse_target body.
Proof. exact parse_value_rendered. Qed.
Print Assumptions C18_tag_depends_on_body_only_partial.

(** Tag names enter the decision only through equality with the configured names (C06_ready_iff). *)
Theorem C18_names_only_by_equality_partial :
  forall cfg el,
    status cfg el = Some true <->
    is_skip el = false /\
    ((el_name el = rm_tag cfg /\ marker_is_removal (targets cfg) el = true) \/
     (el_name el <> rm_tag cfg /\ el_name el = tl_tag cfg /\
      time_is_removal (tl_offset cfg) (now cfg) el = true)).
Proof. exact status_ready_iff. Qed.
Print Assumptions C18_names_only_by_equality_partial.

(** The premise [bodies_ok] (the first character of each tag body lies inside the body; implied by
    well-formed UTF-8) is needed: *)
Example C18_bodies_ok_needed :
  scan_spans (render [60%N] [62%N] [Tag [200%N]]) [60%N] [62%N] <> spans_of [60%N] [62%N] 0 [Tag [200%N]].
Proof. vm_compute. discriminate. Qed.

(** Non-vacuity: "a<t>b" and "a/* <t> */b" are the same document. *)
Example C18_example :
  let doc := [Txt [97%N]; Tag [116%N]; Txt [98%N]] in
  normal doc /\ doc_disjoint [60%N] [62%N] doc /\ bodies_ok doc /\
  scan_spans (render [60%N] [62%N] doc) [60%N] [62%N] = [(false, 0, 1); (true, 1, 4); (false, 4, 5)].
Proof.
  cbv zeta. split; [cbn; repeat split; discriminate|].
  split; [intros i [<-|[<-|[<-|[]]]] b [<-|[]]; split; intros [E|[]]; discriminate|].
  split; [intros b [E|[E|[E|[]]]]; inversion E; subst; cbn; auto|].
  vm_compute. reflexivity.
Qed.
