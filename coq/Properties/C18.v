(** C18 Behaviour is independent of the spelling of delimiters and tag names. *)
From Coq Require Import List NArith ZArith Arith Bool.
Import ListNotations.
From Chiri Require Import Base.Bytes Base.Res Model.Tokenizer Model.TagParser Model.Finders Model.Markers
     Model.Format Model.Clean Spec.Scan Spec.Rename Spec.Simulation
     Proofs.TokenizerProofs Proofs.RenameProofs Proofs.C06Proofs Proofs.SimFlat Proofs.SimStrings
     Model.ListRender Spec.TagGrammar Proofs.SimFront Proofs.SimClean Proofs.SimList
     Proofs.WellNested Proofs.DocMask Proofs.AstCollect Proofs.Idempotent Proofs.RespellBodies Proofs.RenameTags
     Proofs.RenameClean Proofs.IdempotentUnwrap Proofs.SimBodyUnwrap Proofs.RespellUnwrap Proofs.RenameList.

(** The full statement for delimiters (kept visible): one abstract document (texts and tag bodies,
    Spec/Rename.v) rendered with two spellings of the delimiters cleans to the two renderings of ONE
    sequence of symbols (bytes, start-delimiter, end-delimiter: Proofs/SimFlat.v) - "rewriting the
    source and the configuration consistently to another pair of delimiters yields exactly the
    correspondingly rewritten output". *)
Definition C18_delimiters_full_statement : Prop :=
  forall cfg dsA deA dsB deB doc,
    good_delims dsA deA -> good_delims dsB deB -> good_doc dsA deA doc -> good_doc dsB deB doc ->
    bodies_ok doc ->
    dedent_ok deA doc -> dedent_ok deB doc ->          (* excludes known finding KF2, see below *)
    exists l', clean cfg dsA deA (render dsA deA doc) = Ok (rs dsA deA l') /\
               clean cfg dsB deB (render dsB deB doc) = Ok (rs dsB deB l').

(** PROVED for cleaning, with [de_nb] (the end delimiter does not begin with a blank) in place of the
    weaker [dedent_ok] (... or no line of blanks runs into an end delimiter): the whole pipeline -
    tokenizer, tag parser, tree, collection of ranges, merge, removal, the four seam formatters, the
    block dedenter, merge of the whitespace ranges, deletion - run on a rendering is the rendering of
    the abstract pipeline [a_clean], which does not mention the delimiters (Proofs/SimFront.v,
    MonoMap.v, SimClean.v). *)
Theorem C18_clean_is_rendering_of_abstract_clean :
  forall cfg ds de doc,
    good_delims ds de -> good_doc ds de doc -> bodies_ok doc -> de_nb de ->
    exists l', a_clean cfg doc = Ok l' /\ clean cfg ds de (render ds de doc) = Ok (rs ds de l').
Proof. exact clean_rendered_ok. Qed.
Print Assumptions C18_clean_is_rendering_of_abstract_clean.

Theorem C18_clean_two_spellings :
  forall cfg dsA deA dsB deB doc,
    good_delims dsA deA -> good_delims dsB deB -> good_doc dsA deA doc -> good_doc dsB deB doc ->
    bodies_ok doc -> de_nb deA -> de_nb deB ->
    exists l', clean cfg dsA deA (render dsA deA doc) = Ok (rs dsA deA l') /\
               clean cfg dsB deB (render dsB deB doc) = Ok (rs dsB deB l').
Proof. exact clean_two_spellings. Qed.
Print Assumptions C18_clean_two_spellings.

(** Non-vacuity of the two theorems: an unwrap-block document (the run goes through the unwrap
    builder and the block dedenter, a tag survives) under "<!" ">" and "{{" "}}". *)
Example C18_two_spellings_example :
  a_clean SimClean.ex_cfg SimClean.ex_doc = Ok SimClean.ex_out /\
  0 < length SimClean.ex_out /\ length SimClean.ex_out < length (flat SimClean.ex_doc) /\
  clean SimClean.ex_cfg [60;33]%N [62]%N (render [60;33]%N [62]%N SimClean.ex_doc) = Ok (rs [60;33]%N [62]%N SimClean.ex_out) /\
  clean SimClean.ex_cfg [123;123]%N [125;125]%N (render [123;123]%N [125;125]%N SimClean.ex_doc) = Ok (rs [123;123]%N [125;125]%N SimClean.ex_out).
Proof. exact a_clean_example. Qed.

(** PROVED for the listing functions (list and list_all, no [de_nb] needed): the line ranges and
    statuses of the list items are a function [a_item_keys] / [a_item_keys_all] of the configuration
    and the abstract document only (Proofs/SimList.v: [merge_all] commutes with monotone position
    maps; line numbers of a rendering count the line-break symbols, the delimiters contain none). *)
Theorem C18_list_line_ranges_are_abstract :
  forall cfg ds de doc,
    good_delims ds de -> good_doc ds de doc -> bodies_ok doc ->
    (exists items,
       (ms <- list_markers cfg ds de (render ds de doc) ;; build_list (render ds de doc) ms) = Ok items /\
       map item_key items = a_item_keys cfg doc) /\
    (exists items,
       (ms <- markers_all_of cfg ds de (render ds de doc) ;; build_list (render ds de doc) ms) = Ok items /\
       map item_key items = a_item_keys_all cfg doc).
Proof. intros; split; [apply list_rendered | apply list_all_rendered]; assumption. Qed.
Print Assumptions C18_list_line_ranges_are_abstract.

Theorem C18_list_two_spellings :
  forall cfg dsA deA dsB deB doc,
    good_delims dsA deA -> good_delims dsB deB -> good_doc dsA deA doc -> good_doc dsB deB doc ->
    bodies_ok doc ->
    exists itemsA itemsB itemsA' itemsB',
      (ms <- list_markers cfg dsA deA (render dsA deA doc) ;; build_list (render dsA deA doc) ms) = Ok itemsA /\
      (ms <- list_markers cfg dsB deB (render dsB deB doc) ;; build_list (render dsB deB doc) ms) = Ok itemsB /\
      map item_key itemsA = map item_key itemsB /\
      (ms <- markers_all_of cfg dsA deA (render dsA deA doc) ;; build_list (render dsA deA doc) ms) = Ok itemsA' /\
      (ms <- markers_all_of cfg dsB deB (render dsB deB doc) ;; build_list (render dsB deB doc) ms) = Ok itemsB' /\
      map item_key itemsA' = map item_key itemsB'.
Proof. exact list_two_spellings. Qed.
Print Assumptions C18_list_two_spellings.

(** Non-vacuity: a ready unwrap-block and a pending element; keys (first line, last line, ready). *)
Example C18_list_example :
  a_item_keys SimClean.ex_cfg ex_doc2 = [(2, 3, true); (5, 6, true)] /\
  a_item_keys_all SimClean.ex_cfg ex_doc2 = [(2, 3, true); (5, 6, true); (7, 8, false)].
Proof. split; vm_compute; reflexivity. Qed.

(** PROVED for the TAG NAMES (Proofs/SimBody.v, RespellBodies.v, RenameTags.v, RenameClean.v), for
    documents that are renderings of trees of structured tags (Spec/TagGrammar.v) without unwrap-block
    elements: renaming the tag names by an injective [rho] - in every element tag ([rename_tast]:
    "tl" -> rho "tl", "/tl" -> "/" ++ rho "tl") and in the configuration ([rename_cfg]) - commutes with
    cleaning: the output of the renamed document has the same texts and the same sequence of tags,
    each surviving element tag renamed ([P_any rho]: the tag printed with the renamed name), comment
    tags unchanged.  Conditions on [rho]: on the names that occur (set D) it yields well-formed,
    slash-free names, is injective, and the new names contain no delimiter byte. *)
Theorem C18_clean_commutes_with_renaming_tag_names :
  forall D rho cfg ds de f out,
    admissible D rho -> cfg_ok D cfg -> tast_ok f -> names_in D f -> no_unwrap (to_ast f) ->
    good_delims ds de ->
    good_doc ds de (doc_of (to_ast f)) ->
    (forall t, In t (openers_of f) -> disjoint_from ds de (rho (tg_name t))) ->
    clean cfg ds de (render ds de (doc_of (to_ast f))) = Ok out ->
    exists d d', out = render ds de d /\
      clean (rename_cfg rho cfg) ds de (render ds de (doc_of (to_ast (rename_tast rho f)))) = Ok (render ds de d') /\
      kinds_of d' = kinds_of d /\
      texts_of d' = texts_of d /\
      Forall2 (P_any rho) (tags_of d) (tags_of d').
Proof. exact clean_rename_output. Qed.
Print Assumptions C18_clean_commutes_with_renaming_tag_names.

(** The general core: cleaning commutes with ANY respelling of the tag bodies that keeps the tree
    and the removal decisions (trees without unwrap-block). *)
Theorem C18_clean_commutes_with_respelling_of_tags :
  forall (P : str -> str -> Prop) cfg cfg' ds de f f' out,
    good_delims ds de ->
    good_doc ds de (doc_of f) -> bodies_ok (doc_of f) -> Forall ast_ok f -> no_unwrap f ->
    good_doc ds de (doc_of f') -> bodies_ok (doc_of f') -> Forall ast_ok f' -> no_unwrap f' ->
    RespellBodies.same_tree P f f' ->
    (forall b b', P b b' -> el_readyb cfg b = el_readyb cfg' b') ->
    clean cfg ds de (render ds de (doc_of f)) = Ok out ->
    exists g g', out = render ds de (doc_of g) /\
                 clean cfg' ds de (render ds de (doc_of f')) = Ok (render ds de (doc_of g')) /\
                 RespellBodies.same_tree P g g' /\ Forall ast_ok g /\ Forall ast_ok g'.
Proof. exact clean_respell. Qed.
Print Assumptions C18_clean_commutes_with_respelling_of_tags.

(** Non-vacuity: a pending "tl" element containing a ready "rm" element, an unconfigured "div" and a
    comment tag, renamed by tl -> time-limited, rm -> removal-marker, other names prefixed with "x-":
    the decisions agree, the outputs are the renderings of a tree and of the renamed tree, and the OLD
    configuration removes nothing from the renamed document. *)
Example C18_renaming_example :
  decisions RenameTags.ex_cfg (to_ast ex2_tast) = [false; true; false] /\
  decisions (rename_cfg rho_ex RenameTags.ex_cfg) (to_ast (rename_tast rho_ex ex2_tast)) = [false; true; false] /\
  clean RenameTags.ex_cfg id_ds id_de (render id_ds id_de (doc_of (to_ast ex2_tast))) =
    Ok (render id_ds id_de (doc_of (to_ast ex2_out))) /\
  clean (rename_cfg rho_ex RenameTags.ex_cfg) id_ds id_de
        (render id_ds id_de (doc_of (to_ast (rename_tast rho_ex ex2_tast)))) =
    Ok (render id_ds id_de (doc_of (to_ast (rename_tast rho_ex ex2_out)))).
Proof.
  split; [exact (proj1 ex2_decisions)|]. split; [exact (proj1 (proj2 ex2_decisions))|].
  split; [exact ex2_first | exact ex2_second_computed].
Qed.

(** The same WITH unwrap-block elements (Proofs/SimBodyUnwrap.v, RespellUnwrap.v), in the strict domain
    of Properties/C19.v (wrapper lines carry no tags, no line break inside a tag body) and for an end
    delimiter that does not begin with a blank: the unwrap builder, the block dedenter and the paired
    whitespace stage only look for line breaks and for the first non-blank symbol of a line, so they
    commute with the respelling of single-line tags. *)
Theorem C18_renaming_tag_names_with_unwrap_blocks :
  forall D rho cfg ds de f out,
    admissible D rho -> cfg_ok D cfg -> tast_ok f -> names_in D f -> strict (to_ast f) ->
    good_delims ds de -> de_nb de ->
    good_doc ds de (doc_of (to_ast f)) ->
    (forall t, In t (openers_of f) -> disjoint_from ds de (rho (tg_name t))) ->
    clean cfg ds de (render ds de (doc_of (to_ast f))) = Ok out ->
    exists d d', out = render ds de d /\
      clean (rename_cfg rho cfg) ds de (render ds de (doc_of (to_ast (rename_tast rho f)))) = Ok (render ds de d') /\
      kinds_of d' = kinds_of d /\
      texts_of d' = texts_of d /\
      Forall2 (P_any rho) (tags_of d) (tags_of d').
Proof. exact clean_rename_output_unwrap. Qed.
Print Assumptions C18_renaming_tag_names_with_unwrap_blocks.

Theorem C18_respelling_of_tags_with_unwrap_blocks :
  forall (P : str -> str -> Prop) cfg cfg' ds de f f' out,
    good_delims ds de -> de_nb de ->
    good_doc ds de (doc_of f) -> bodies_ok (doc_of f) -> Forall ast_ok f -> strict f ->
    good_doc ds de (doc_of f') -> bodies_ok (doc_of f') -> Forall ast_ok f' -> strict f' ->
    RespellBodies.same_tree P f f' ->
    (forall b b', P b b' -> el_readyb cfg b = el_readyb cfg' b' /\ is_unwrap b = is_unwrap b') ->
    clean cfg ds de (render ds de (doc_of f)) = Ok out ->
    exists g g', out = render ds de (doc_of g) /\
                 clean cfg' ds de (render ds de (doc_of f')) = Ok (render ds de (doc_of g')) /\
                 RespellBodies.same_tree P g g' /\ Forall ast_ok g /\ Forall ast_ok g'.
Proof. exact clean_respell_unwrap. Qed.
Print Assumptions C18_respelling_of_tags_with_unwrap_blocks.

(** Non-vacuity: a ready "rm … unwrap-block" element containing a pending "tl" element, renamed. *)
Example C18_renaming_unwrap_example :
  clean RenameTags.ex_cfg id_ds id_de (render id_ds id_de (doc_of (to_ast ru_tast))) =
    Ok (render id_ds id_de (doc_of (to_ast ru_out))) /\
  clean (rename_cfg rho_ex RenameTags.ex_cfg) id_ds id_de
        (render id_ds id_de (doc_of (to_ast (rename_tast rho_ex ru_tast)))) =
    Ok (render id_ds id_de (doc_of (to_ast (rename_tast rho_ex ru_out)))).
Proof. split; [exact ru_first | exact ru_second_computed]. Qed.

(** The listing functions under renaming of the tag names (Proofs/RenameList.v): [list] and [list_all]
    on the original and on the renamed rendering give items with the same (first line, last line,
    status) keys - and the JSON outputs are the renderings of those items.  With unwrap-block
    elements ([strict]) and without; no condition on the end delimiter is needed for listing. *)
Theorem C18_listing_under_renaming_of_tag_names :
  forall D rho cfg ds de f,
    admissible D rho -> cfg_ok D cfg -> tast_ok f -> names_in D f -> strict (to_ast f) ->
    good_delims ds de ->
    good_doc ds de (doc_of (to_ast f)) ->
    (forall t, In t (openers_of f) -> disjoint_from ds de (rho (tg_name t))) ->
    same_listing cfg (rename_cfg rho cfg) ds de
                 (doc_of (to_ast f)) (doc_of (to_ast (rename_tast rho f))).
Proof. exact list_rename_tag_names_unwrap. Qed.
Print Assumptions C18_listing_under_renaming_of_tag_names.

Theorem C18_listing_under_renaming_without_unwrap :
  forall D rho cfg ds de f,
    admissible D rho -> cfg_ok D cfg -> tast_ok f -> names_in D f -> no_unwrap (to_ast f) ->
    good_delims ds de ->
    good_doc ds de (doc_of (to_ast f)) ->
    (forall t, In t (openers_of f) -> disjoint_from ds de (rho (tg_name t))) ->
    same_listing cfg (rename_cfg rho cfg) ds de
                 (doc_of (to_ast f)) (doc_of (to_ast (rename_tast rho f))).
Proof. exact list_rename_tag_names. Qed.
Print Assumptions C18_listing_under_renaming_without_unwrap.

(** A respelling that changes the number of line breaks inside a tag changes the line ranges:
    "rm name='f'" respelled as "rm\nname='f'" lists [2,2] against [2,3] (same tree, same decisions). *)
Example C18_line_breaks_in_tags_matter : _ := rl_line_break_counterexample.

(** What is NOT proved: (1) the case of an end delimiter that begins with a blank when no line of
    blanks runs into it ([dedent_ok] rather than [de_nb]); (2) for the listing functions only the
    line ranges and statuses are compared (as the property says), not the highlighted text of the
    items; (3) respelling of the tag names for documents with tags on wrapper
    lines / multi-line tags inside unwrapped bodies.  (1)-(3) are validated differentially (metamorphic pairs over 18 delimiter
    spellings x 11 tag-name pairs incl. names that are prefixes / suffixes of each other, clean and
    list) in the check of this property.  The older stage-wise theorems are kept below. *)

Theorem C18_tokens_are_the_items_partial :
  forall ds de doc ts,
    ds <> [] -> de <> [] -> normal doc -> doc_disjoint ds de doc -> bodies_ok doc ->
    tokenize (render ds de doc) ds de = Ok ts ->
    map span_of ts = spans_of ds de 0 doc.
Proof. exact tokenize_rendered. Qed.
Print Assumptions C18_tokens_are_the_items_partial.

Theorem C18_token_kinds_independent_partial :
  forall ds de ds' de' doc ts ts',
    ds <> [] -> de <> [] -> ds' <> [] -> de' <> [] -> normal doc ->
    doc_disjoint ds de doc -> doc_disjoint ds' de' doc -> bodies_ok doc ->
    tokenize (render ds de doc) ds de = Ok ts -> tokenize (render ds' de' doc) ds' de' = Ok ts' ->
    map tk_elem ts = map tk_elem ts' /\ length ts = length doc.
Proof. exact token_kinds_independent. Qed.
Print Assumptions C18_token_kinds_independent_partial.

(** Exactly one copy of each delimiter is stripped: the parsed tag depends on the body only. *)
Theorem C18_tag_depends_on_body_only_partial :
  forall ds de body,
    ds <> [] -> de <> [] -> body <> [] -> disjoint_from ds de body ->
    parse_value ds de (ds ++ body ++ de) = parse_target body.
Proof. exact parse_value_rendered. Qed.
Print Assumptions C18_tag_depends_on_body_only_partial.

(** Tag names enter the decision only through equality with the configured names (C06_ready_iff). *)
Theorem C18_names_only_by_equality_partial :
  forall cfg el,
    status cfg el = Some true <->
    is_skip el = false /\
    ((el_name el = rm_tag cfg /\ marker_is_removal (targets cfg) el = true) \/
     (el_name el <> rm_tag cfg /\ el_name el = tl_tag cfg /\
      time_is_removal (tl_offset cfg) (now cfg) el = true)).
Proof. exact status_ready_iff. Qed.
Print Assumptions C18_names_only_by_equality_partial.

(** String-level simulation (Proofs/SimFlat.v, SimStrings.v). [xvalid] extends [valid_apos] by the
    position of the first byte of an end delimiter, which range ends can take. *)
Theorem C18_sim_find_next_lb_partial :
  forall dsA deA dsB deB doc,
    good_delims dsA deA -> good_delims dsB deB -> good_doc dsA deA doc -> good_doc dsB deB doc ->
    forall a pause, xvalid doc a ->
    exists r : option apos,
      (match r with Some b => valid_apos doc b | None => True end) /\
      find_next_lb (render dsA deA doc) (cpos dsA deA doc a) pause = option_map (cpos dsA deA doc) r /\
      find_next_lb (render dsB deB doc) (cpos dsB deB doc a) pause = option_map (cpos dsB deB doc) r.
Proof. exact sim_find_next_lb. Qed.
Print Assumptions C18_sim_find_next_lb_partial.

Theorem C18_sim_find_prev_lb_partial :
  forall dsA deA dsB deB doc,
    good_delims dsA deA -> good_delims dsB deB -> good_doc dsA deA doc -> good_doc dsB deB doc ->
    forall a pause, xvalid doc a ->
    exists r : option apos,
      (match r with Some b => valid_apos doc b | None => True end) /\
      find_prev_lb (render dsA deA doc) (cpos dsA deA doc a) pause = option_map (cpos dsA deA doc) r /\
      find_prev_lb (render dsB deB doc) (cpos dsB deB doc a) pause = option_map (cpos dsB deB doc) r.
Proof. exact sim_find_prev_lb. Qed.
Print Assumptions C18_sim_find_prev_lb_partial.

Theorem C18_sim_seam_formatters_partial :
  forall dsA deA dsB deB doc,
    good_delims dsA deA -> good_delims dsB deB -> good_doc dsA deA doc -> good_doc dsB deB doc ->
    forall a, xvalid doc a ->
    exists r : option (apos * apos),
      (match r with Some (x, y) => xvalid doc x /\ xvalid doc y | None => True end) /\
      format_block (render dsA deA doc) (cpos dsA deA doc a) =
        match r with Some (x, y) => Ok (cpos dsA deA doc x, cpos dsA deA doc y) | None => Panic end /\
      format_block (render dsB deB doc) (cpos dsB deB doc a) =
        match r with Some (x, y) => Ok (cpos dsB deB doc x, cpos dsB deB doc y) | None => Panic end.
Proof. exact sim_format_block. Qed.
Print Assumptions C18_sim_seam_formatters_partial.

(** The block formatter: under [dedent_ok] (the end delimiter does not begin with a blank, or no
    line of blanks runs into an end delimiter) - i.e. outside known finding KF2. *)
Theorem C18_sim_block_formatter_partial :
  forall dsA deA dsB deB doc,
    good_delims dsA deA -> good_delims dsB deB -> good_doc dsA deA doc -> good_doc dsB deB doc ->
    dedent_ok deA doc -> dedent_ok deB doc ->
    forall a b, xvalid doc a -> xvalid doc b ->
    exists rs : list (apos * apos),
      Forall (fun r => xvalid doc (fst r) /\ xvalid doc (snd r)) rs /\
      block_indent_remover (render dsA deA doc) (cpos dsA deA doc a) (cpos dsA deA doc b) =
        Ok (map (fun r => (cpos dsA deA doc (fst r), cpos dsA deA doc (snd r))) rs) /\
      block_indent_remover (render dsB deB doc) (cpos dsB deB doc a) (cpos dsB deB doc b) =
        Ok (map (fun r => (cpos dsB deB doc (fst r), cpos dsB deB doc (snd r))) rs).
Proof. exact sim_block_indent. Qed.
Print Assumptions C18_sim_block_formatter_partial.

(** Known finding KF2 (known_findings.json), as a theorem about the faithful model: with the end
    delimiter " -->" (it begins with a blank) against "*/", a tag body that ends with a line of
    blanks makes the block formatter return ranges of different lengths under the two spellings: the
    leading blank of the end delimiter is counted as indentation. *)
Theorem C18_known_finding_KF2 :
  let doc := [Txt [120]%N; Tag [97; 10; 32; 32]%N;
              Txt [10; 32; 32; 32; 32; 121; 10; 32; 32; 32; 32; 122; 10]%N; Tag [101]%N] in
  let dsA := [60; 33; 45; 45]%N in let deA := [32; 45; 45; 62]%N in
  let dsB := [47; 42]%N in let deB := [42; 47]%N in
  good_delims dsA deA /\ good_delims dsB deB /\
  find_next_char (render dsA deA doc) (cpos dsA deA doc (InBody 1 2)) = Some (cpos dsA deA doc (InBody 1 4) + 1) /\
  find_next_char (render dsB deB doc) (cpos dsB deB doc (InBody 1 2)) = Some (cpos dsB deB doc (InBody 1 4)) /\
  block_indent_remover (render dsA deA doc) (cpos dsA deA doc (TagStart 1)) (cpos dsA deA doc DocEnd) =
    Ok [(7, 10); (14, 17); (20, 23)] /\
  block_indent_remover (render dsB deB doc) (cpos dsB deB doc (TagStart 1)) (cpos dsB deB doc DocEnd) =
    Ok [(5, 7); (10, 12); (16, 18)].
Proof. exact block_indent_diverges. Qed.
Print Assumptions C18_known_finding_KF2.

(** The same for a START delimiter that begins with a blank (" <" against "[["): the pending tag that
    stands first on a line of the unwrapped body loses the blank of its delimiter and is no tag any
    more, while under "[[" it is kept (with its indentation). *)
Definition kf2s_cfg : config := mkConfig [116;108]%N [43;48;48;58;48;48]%N 1300000000%Z [114;109]%N [].
Definition kf2s_srcA : str := [97; 10; 32; 60; 116; 108; 32; 116; 111; 61; 34; 50; 48; 48; 48; 45; 48; 49; 45; 48; 49; 32; 48; 48; 58; 48; 48; 58; 48; 48; 34; 32; 117; 110; 119; 114; 97; 112; 45; 98; 108; 111; 99; 107; 62; 10; 123; 10; 32; 32; 32; 32; 120; 10; 32; 32; 32; 60; 116; 108; 32; 116; 111; 61; 34; 50; 49; 48; 48; 45; 48; 49; 45; 48; 49; 32; 48; 48; 58; 48; 48; 58; 48; 48; 34; 62; 10; 32; 32; 32; 32; 121; 10; 32; 32; 32; 60; 47; 116; 108; 62; 10; 125; 10; 32; 60; 47; 116; 108; 62; 10; 98; 10]%N.
Definition kf2s_srcB : str := [97; 10; 91; 91; 116; 108; 32; 116; 111; 61; 34; 50; 48; 48; 48; 45; 48; 49; 45; 48; 49; 32; 48; 48; 58; 48; 48; 58; 48; 48; 34; 32; 117; 110; 119; 114; 97; 112; 45; 98; 108; 111; 99; 107; 93; 93; 10; 123; 10; 32; 32; 32; 32; 120; 10; 32; 32; 91; 91; 116; 108; 32; 116; 111; 61; 34; 50; 49; 48; 48; 45; 48; 49; 45; 48; 49; 32; 48; 48; 58; 48; 48; 58; 48; 48; 34; 93; 93; 10; 32; 32; 32; 32; 121; 10; 32; 32; 91; 91; 47; 116; 108; 93; 93; 10; 125; 10; 91; 91; 47; 116; 108; 93; 93; 10; 98; 10]%N.
Definition kf2s_outA : str := [97; 10; 120; 10; 60; 116; 108; 32; 116; 111; 61; 34; 50; 49; 48; 48; 45; 48; 49; 45; 48; 49; 32; 48; 48; 58; 48; 48; 58; 48; 48; 34; 62; 10; 121; 10; 60; 47; 116; 108; 62; 10; 98; 10]%N.
Definition kf2s_outB : str := [97; 10; 120; 10; 91; 91; 116; 108; 32; 116; 111; 61; 34; 50; 49; 48; 48; 45; 48; 49; 45; 48; 49; 32; 48; 48; 58; 48; 48; 58; 48; 48; 34; 93; 93; 10; 121; 10; 91; 91; 47; 116; 108; 93; 93; 10; 98; 10]%N.
Theorem C18_known_finding_KF2_start_delimiter :
  clean kf2s_cfg [32;60]%N [62]%N kf2s_srcA = Ok kf2s_outA /\
  clean kf2s_cfg [91;91]%N [93;93]%N kf2s_srcB = Ok kf2s_outB /\
  (exists ts, tokenize kf2s_outA [32;60]%N [62]%N = Ok ts /\ forallb (fun t => negb (tk_elem t)) ts = true) /\
  (exists ts, tokenize kf2s_outB [91;91]%N [93;93]%N = Ok ts /\ existsb tk_elem ts = true).
Proof.
  split; [vm_compute; reflexivity|]. split; [vm_compute; reflexivity|].
  split; eexists; split; vm_compute; reflexivity.
Qed.
Print Assumptions C18_known_finding_KF2_start_delimiter.

(** The premise [bodies_ok] (the first character of each tag body lies inside the body; implied by
    well-formed UTF-8) is needed: *)
Example C18_bodies_ok_needed :
  scan_spans (render [60%N] [62%N] [Tag [200%N]]) [60%N] [62%N] <> spans_of [60%N] [62%N] 0 [Tag [200%N]].
Proof. vm_compute. discriminate. Qed.

(** Non-vacuity: "a<t>b" and "a/* <t> */b" are the same document. *)
Example C18_example :
  let doc := [Txt [97%N]; Tag [116%N]; Txt [98%N]] in
  normal doc /\ doc_disjoint [60%N] [62%N] doc /\ bodies_ok doc /\
  scan_spans (render [60%N] [62%N] doc) [60%N] [62%N] = [(false, 0, 1); (true, 1, 4); (false, 4, 5)].
Proof.
  cbv zeta. split; [cbn; repeat split; discriminate|].
  split; [intros i [<-|[<-|[<-|[]]]] b [<-|[]]; split; intros [E|[]]; discriminate|].
  split; [intros b [E|[E|[E|[]]]]; inversion E; subst; cbn; auto|].
  vm_compute. reflexivity.
Qed.
