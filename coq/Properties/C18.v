(** C18 Behaviour is independent of the spelling of delimiters and tag names. *)
From Coq Require Import List NArith ZArith Arith Bool.
Import ListNotations.
From Chiri Require Import Base.Bytes Base.Res Model.Tokenizer Model.TagParser Model.Finders Model.Markers
     Model.Format Model.Clean Spec.Scan Spec.Rename Spec.Simulation
     Proofs.TokenizerProofs Proofs.RenameProofs Proofs.C06Proofs Proofs.SimFlat Proofs.SimStrings.

(** The full statement (kept visible; NOT proved in full): rewriting source and configuration
    consistently to another spelling yields the correspondingly rewritten output. *)
Definition C18_full_statement : Prop :=
  forall cfg ds de ds' de' doc doc',
    good_delims ds de -> good_delims ds' de' -> good_doc ds de doc -> good_doc ds' de' doc ->
    bodies_ok doc ->
    dedent_ok de doc -> dedent_ok de' doc ->          (* excludes known finding KF2, see below *)
    clean cfg ds de (render ds de doc) = Ok (render ds de doc') ->
    clean cfg ds' de' (render ds' de' doc) = Ok (render ds' de' doc').
(** What is proved (the `_partial` theorems below): for documents in which the delimiter bytes occur
    nowhere else, the token sequence (kinds, order, spans = the items' spans) and every parsed tag
    are the same function of the abstract document whatever the spelling, and the decisions depend
    on tag names only through equality with the configured names.  So the tree, readiness and marker
    structure are spelling-independent.  For the formatting layer the string-level half is proved
    (the C18_sim_* theorems below: every finder, the four seam formatters with their hull, and the
    block formatter return corresponding positions when run on the two renderings of one document at
    corresponding positions - Spec/Simulation.v defines the correspondence [cpos]).  What is missing
    for the full statement is the pipeline-level composition (markers, the removed text as a
    rendering of a residual document, the merge of ranges); it is validated differentially
    (metamorphic pairs over 18 delimiter spellings x 4 tag-name pairs) in the check of this property. *)

Theorem C18_tokens_are_the_items_partial :
  forall ds de doc ts,
    ds <> [] -> de <> [] -> normal doc -> doc_disjoint ds de doc -> bodies_ok doc ->
    tokenize (render ds de doc) ds de = Ok ts ->
    map span_of ts = spans_of ds de 0 doc.
Proof. exact tokenize_rendered. Qed.
Print Assumptions C18_tokens_are_the_items_partial.

Theorem C18_token_kinds_independent_partial :
  forall ds de ds' de' doc ts ts',
    ds <> [] -> de <> [] -> ds' <> [] -> de' <> [] -> normal doc ->
    doc_disjoint ds de doc -> doc_disjoint ds' de' doc -> bodies_ok doc ->
    tokenize (render ds de doc) ds de = Ok ts -> tokenize (render ds' de' doc) ds' de' = Ok ts' ->
    map tk_elem ts = map tk_elem ts' /\ length ts = length doc.
Proof. exact token_kinds_independent. Qed.
Print Assumptions C18_token_kinds_independent_partial.

(** Exactly one copy of each delimiter is stripped: the parsed tag depends on the body only. *)
Theorem C18_tag_depends_on_body_only_partial :
  forall ds de body,
    ds <> [] -> de <> [] -> body <> [] -> disjoint_from ds de body ->
    parse_value ds de (ds ++ body ++ de) = parse_target body.
Proof. exact parse_value_rendered. Qed.
Print Assumptions C18_tag_depends_on_body_only_partial.

(** Tag names enter the decision only through equality with the configured names (C06_ready_iff). *)
Theorem C18_names_only_by_equality_partial :
  forall cfg el,
    status cfg el = Some true <->
    is_skip el = false /\
    ((el_name el = rm_tag cfg /\ marker_is_removal (targets cfg) el = true) \/
     (el_name el <> rm_tag cfg /\ el_name el = tl_tag cfg /\
      time_is_removal (tl_offset cfg) (now cfg) el = true)).
Proof. exact status_ready_iff. Qed.
Print Assumptions C18_names_only_by_equality_partial.

(** String-level simulation (Proofs/SimFlat.v, SimStrings.v). [xvalid] extends [valid_apos] by the
    position of the first byte of an end delimiter, which range ends can take. *)
Theorem C18_sim_find_next_lb_partial :
  forall dsA deA dsB deB doc,
    good_delims dsA deA -> good_delims dsB deB -> good_doc dsA deA doc -> good_doc dsB deB doc ->
    forall a pause, xvalid doc a ->
    exists r : option apos,
      (match r with Some b => valid_apos doc b | None => True end) /\
      find_next_lb (render dsA deA doc) (cpos dsA deA doc a) pause = option_map (cpos dsA deA doc) r /\
      find_next_lb (render dsB deB doc) (cpos dsB deB doc a) pause = option_map (cpos dsB deB doc) r.
Proof. exact sim_find_next_lb. Qed.
Print Assumptions C18_sim_find_next_lb_partial.

Theorem C18_sim_find_prev_lb_partial :
  forall dsA deA dsB deB doc,
    good_delims dsA deA -> good_delims dsB deB -> good_doc dsA deA doc -> good_doc dsB deB doc ->
    forall a pause, xvalid doc a ->
    exists r : option apos,
      (match r with Some b => valid_apos doc b | None => True end) /\
      find_prev_lb (render dsA deA doc) (cpos dsA deA doc a) pause = option_map (cpos dsA deA doc) r /\
      find_prev_lb (render dsB deB doc) (cpos dsB deB doc a) pause = option_map (cpos dsB deB doc) r.
Proof. exact sim_find_prev_lb. Qed.
Print Assumptions C18_sim_find_prev_lb_partial.

Theorem C18_sim_seam_formatters_partial :
  forall dsA deA dsB deB doc,
    good_delims dsA deA -> good_delims dsB deB -> good_doc dsA deA doc -> good_doc dsB deB doc ->
    forall a, xvalid doc a ->
    exists r : option (apos * apos),
      (match r with Some (x, y) => xvalid doc x /\ xvalid doc y | None => True end) /\
      format_block (render dsA deA doc) (cpos dsA deA doc a) =
        match r with Some (x, y) => Ok (cpos dsA deA doc x, cpos dsA deA doc y) | None => Panic end /\
      format_block (render dsB deB doc) (cpos dsB deB doc a) =
        match r with Some (x, y) => Ok (cpos dsB deB doc x, cpos dsB deB doc y) | None => Panic end.
Proof. exact sim_format_block. Qed.
Print Assumptions C18_sim_seam_formatters_partial.

(** The block formatter: under [dedent_ok] (the end delimiter does not begin with a blank, or no
    line of blanks runs into an end delimiter) - i.e. outside known finding KF2. *)
Theorem C18_sim_block_formatter_partial :
  forall dsA deA dsB deB doc,
    good_delims dsA deA -> good_delims dsB deB -> good_doc dsA deA doc -> good_doc dsB deB doc ->
    dedent_ok deA doc -> dedent_ok deB doc ->
    forall a b, xvalid doc a -> xvalid doc b ->
    exists rs : list (apos * apos),
      Forall (fun r => xvalid doc (fst r) /\ xvalid doc (snd r)) rs /\
      block_indent_remover (render dsA deA doc) (cpos dsA deA doc a) (cpos dsA deA doc b) =
        Ok (map (fun r => (cpos dsA deA doc (fst r), cpos dsA deA doc (snd r))) rs) /\
      block_indent_remover (render dsB deB doc) (cpos dsB deB doc a) (cpos dsB deB doc b) =
        Ok (map (fun r => (cpos dsB deB doc (fst r), cpos dsB deB doc (snd r))) rs).
Proof. exact sim_block_indent. Qed.
Print Assumptions C18_sim_block_formatter_partial.

(** Known finding KF2 (known_findings.json), as a theorem about the faithful model: with the end
    delimiter " -->" (it begins with a blank) against "*/", a tag body that ends with a line of
    blanks makes the block formatter return ranges of different lengths under the two spellings: the
    leading blank of the end delimiter is counted as indentation. *)
Theorem C18_known_finding_KF2 :
  let doc := [Txt [120]%N; Tag [97; 10; 32; 32]%N;
              Txt [10; 32; 32; 32; 32; 121; 10; 32; 32; 32; 32; 122; 10]%N; Tag [101]%N] in
  let dsA := [60; 33; 45; 45]%N in let deA := [32; 45; 45; 62]%N in
  let dsB := [47; 42]%N in let deB := [42; 47]%N in
  good_delims dsA deA /\ good_delims dsB deB /\
  find_next_char (render dsA deA doc) (cpos dsA deA doc (InBody 1 2)) = Some (cpos dsA deA doc (InBody 1 4) + 1) /\
  find_next_char (render dsB deB doc) (cpos dsB deB doc (InBody 1 2)) = Some (cpos dsB deB doc (InBody 1 4)) /\
  block_indent_remover (render dsA deA doc) (cpos dsA deA doc (TagStart 1)) (cpos dsA deA doc DocEnd) =
    Ok [(7, 10); (14, 17); (20, 23)] /\
  block_indent_remover (render dsB deB doc) (cpos dsB deB doc (TagStart 1)) (cpos dsB deB doc DocEnd) =
    Ok [(5, 7); (10, 12); (16, 18)].
Proof. exact block_indent_diverges. Qed.
Print Assumptions C18_known_finding_KF2.

(** The premise [bodies_ok] (the first character of each tag body lies inside the body; implied by
    well-formed UTF-8) is needed: *)
Example C18_bodies_ok_needed :
  scan_spans (render [60%N] [62%N] [Tag [200%N]]) [60%N] [62%N] <> spans_of [60%N] [62%N] 0 [Tag [200%N]].
Proof. vm_compute. discriminate. Qed.

(** Non-vacuity: "a<t>b" and "a/* <t> */b" are the same document. *)
Example C18_example :
  let doc := [Txt [97%N]; Tag [116%N]; Txt [98%N]] in
  normal doc /\ doc_disjoint [60%N] [62%N] doc /\ bodies_ok doc /\
  scan_spans (render [60%N] [62%N] doc) [60%N] [62%N] = [(false, 0, 1); (true, 1, 4); (false, 4, 5)].
Proof.
  cbv zeta. split; [cbn; repeat split; discriminate|].
  split; [intros i [<-|[<-|[<-|[]]]] b [<-|[]]; split; intros [E|[]]; discriminate|].
  split; [intros b [E|[E|[E|[]]]]; inversion E; subst; cbn; auto|].
  vm_compute. reflexivity.
Qed.
