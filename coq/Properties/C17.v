(** C17 list_all = Ready regions + outstanding Pending regions, once each, in order. *)
From Coq Require Import List NArith ZArith Arith Bool.
Import ListNotations.
From Chiri Require Import Base.Bytes Base.Res Model.Tokenizer Model.TreeParser Model.Markers Model.Clean
     Spec.Ranges Spec.MergeSpec Proofs.CollectProofs Proofs.MergeAllProofs Proofs.ListTotal Proofs.ListAllProofs.

(** For every well-formed source: the regions of list_all are [merge_all ready pend []] where
    [ready] are exactly the markers of the plain list / of clean and [pend] the merged markers of the
    pending forest (elements whose tag name is registered, not marked skip, whose condition does not
    hold and whose range is non-empty; a pending element inside a larger pending default-strategy
    element is absorbed by the merge).  In it every Ready region occurs exactly once, in order;
    the Pending regions are exactly those of [pend] that do not lie inside a Ready region, in order;
    items are in source order; and every region is non-empty, inside the source, on boundaries. *)
Theorem C17_list_all_regions :
  forall cfg ds de s parts,
    wf_utf8 s = true -> wf_utf8 ds = true -> wf_utf8 de = true -> ds <> [] -> de <> [] ->
    front_end ds de s = Ok parts ->
    exists ready pend,
      markers_of cfg ds de s = Ok ready /\
      merge_markers (snd (collect cfg s true parts)) = Ok pend /\
      sorted_nonempty_from 0 (map fst pend) /\
      markers_all_of cfg ds de s = Ok (merge_all ready pend []) /\
      map fst (filter (fun x => snd x) (merge_all ready pend [])) = ready /\
      map fst (filter (fun x => negb (snd x)) (merge_all ready pend []))
        = filter (fun p => negb (squashed ready p)) pend /\
      starts_sorted (merge_all ready pend []) /\
      regions_ok s (merge_all ready pend []).
Proof. exact markers_all_spec. Qed.
Print Assumptions C17_list_all_regions.

(** The merge itself, for any two sorted lists of non-empty ranges. *)
Theorem C17_merge_specification :
  forall (ready pend : list marker) lo lo',
    sorted_nonempty_from lo (map fst ready) -> sorted_nonempty_from lo' (map fst pend) ->
    let out := merge_all ready pend [] in
    map fst (filter (fun x => snd x) out) = ready /\
    map fst (filter (fun x => negb (snd x)) out) = filter (fun p => negb (squashed ready p)) pend /\
    starts_sorted out.
Proof. exact merge_all_spec. Qed.
Print Assumptions C17_merge_specification.

(** Elements marked skip or with unregistered names are in neither forest: Properties/C06.v
    (status = None); unwrap-blocks that cannot be unwrapped have an empty range and are dropped by
    element_range. *)

(** Non-vacuity: two pending regions before a ready one, one pending inside it, one after. *)
Example C17_example :
  merge_all [((20, 30), None)] [((1, 3), None); ((5, 8), None); ((22, 25), None); ((40, 41), None)] []
  = [(((1, 3), None), false); (((5, 8), None), false); (((20, 30), None), true); (((40, 41), None), false)].
Proof. vm_compute. reflexivity. Qed.
