(** C03 No under-removal: every ready element disappears completely. *)
From Coq Require Import List NArith ZArith Arith Bool.
Import ListNotations.
From Chiri Require Import Base.Bytes Base.Res Model.Tokenizer Model.TagParser Model.TreeParser Model.Markers
     Model.Clean Spec.Ranges Spec.Forest Spec.Extents Proofs.CollectProofs Proofs.CleanProofs.

(** The extents are those of every ready element of the tree at every depth ([all_elements]): nested
    in pending, skipped or unregistered elements, in another ready element, or in the body of an
    unwrap-block.  Every byte of every extent is deleted ... *)
Theorem C03_every_extent_is_deleted :
  forall cfg ds de s parts out,
    wf_utf8 s = true -> wf_utf8 ds = true -> wf_utf8 de = true -> ds <> [] -> de <> [] ->
    front_end ds de s = Ok parts -> clean cfg ds de s = Ok out ->
    exists P : nat -> bool, out = delete_where P s /\
      (forall i b, P i = true -> nth_error s i = Some b ->
                   in_ranges (extents cfg s parts) i \/ is_ws b = true) /\
      (forall i, i < length s -> in_ranges (extents cfg s parts) i -> P i = true).
Proof. exact clean_only_deletes. Qed.
Print Assumptions C03_every_extent_is_deleted.

(** ... consequently the non-whitespace text of the output equals the non-whitespace text of the
    input minus the union of the removable extents of all ready elements. *)
Theorem C03_nonwhitespace_text :
  forall cfg ds de s parts out,
    wf_utf8 s = true -> wf_utf8 ds = true -> wf_utf8 de = true -> ds <> [] -> de <> [] ->
    front_end ds de s = Ok parts -> clean cfg ds de s = Ok out ->
    nonws out = nonws (delete_ranges (extents cfg s parts) s).
Proof. exact clean_nonws. Qed.
Print Assumptions C03_nonwhitespace_text.

(** The ranges handed to the merge step are exactly the extents, in document order: the traversal
    visits the children of every element whatever its own status. *)
Theorem C03_traversal_collects_every_ready_element :
  forall cfg s parts, forest_ranges (fst (collect cfg s false parts)) = extents cfg s parts.
Proof. exact collect_ranges_are_extents. Qed.
Print Assumptions C03_traversal_collects_every_ready_element.

(** Non-vacuity: a ready element inside a skipped one inside an unregistered one is removed:
    "<u><tl skip to='2000-01-01 00:00:00'><tl to='2000-01-01 00:00:00'>x</tl></tl></u>" *)
Definition ex_src : str :=
  [60;117;62;60;116;108;32;115;107;105;112;32;116;111;61;39;50;48;48;48;45;48;49;45;48;49;32;48;48;58;48;48;58;48;48;39;62;
   60;116;108;32;116;111;61;39;50;48;48;48;45;48;49;45;48;49;32;48;48;58;48;48;58;48;48;39;62;120;60;47;116;108;62;60;47;116;108;62;60;47;117;62]%N.
Definition ex_cfg : config := mkConfig [116;108]%N [43;48;48;58;48;48]%N 1000000000%Z [114;109]%N [].
Example C03_example :
  exists parts, front_end [60%N] [62%N] ex_src = Ok parts /\ extents ex_cfg ex_src parts = [(37, 72)].
Proof. eexists. split. { vm_compute. reflexivity. } vm_compute. reflexivity. Qed.
