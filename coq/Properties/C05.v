(** C05 Expiry decision. *)
From Coq Require Import List NArith ZArith Arith Bool.
Import ListNotations.
From Chiri Require Import Base.Bytes Base.Res Model.TagParser Model.Chrono Model.Markers Spec.CivilTime
     Proofs.C05Proofs Proofs.ChronoProofs Proofs.ChronoPadding.
Local Open Scope Z_scope.

(** Ready exactly when the first `to` attribute has a value which, followed by a space and the
    configured offset, parses to an instant at or before the current instant (equality = expired). *)
Theorem C05_ready_iff :
  forall offset now el,
    time_is_removal offset now el = true <->
    exists v expires,
      find_attr S_TO (el_attrs el) = Some (S_TO, Some v) /\
      parse_datetime (v ++ [SP] ++ offset) = Some expires /\ expires <= now.
Proof. exact time_ready_iff. Qed.
Print Assumptions C05_ready_iff.

Theorem C05_missing_to_never_ready :
  forall offset now el, find_attr S_TO (el_attrs el) = None -> time_is_removal offset now el = false.
Proof. exact time_missing_to. Qed.
Print Assumptions C05_missing_to_never_ready.

Theorem C05_valueless_to_never_ready :
  forall offset now el a,
    find_attr S_TO (el_attrs el) = Some (a, None) -> time_is_removal offset now el = false.
Proof. exact time_valueless_to. Qed.
Print Assumptions C05_valueless_to_never_ready.

Theorem C05_unparseable_never_ready :
  forall offset now el a v,
    find_attr S_TO (el_attrs el) = Some (a, Some v) ->
    parse_datetime (v ++ [SP] ++ offset) = None -> time_is_removal offset now el = false.
Proof. exact time_unparseable. Qed.
Print Assumptions C05_unparseable_never_ready.

(** For a fixed source the set of ready elements only grows as the current time advances. *)
Theorem C05_monotone_in_time :
  forall cfg now2 el,
    now cfg <= now2 -> status cfg el = Some true -> status (with_now cfg now2) el = Some true.
Proof. exact status_monotone. Qed.
Print Assumptions C05_monotone_in_time.

(** A well-formed wall-clock time "YYYY-MM-DD HH:MM:SS" at a well-formed offset ("+HH:MM" or
    "+HHMM", either sign) parses to the instant it denotes ... *)
Theorem C05_rendered_time_parses_to_its_instant :
  forall y m d h mi s negative colon oh om,
    valid_civil y m d h mi s -> valid_offset oh om ->
    parse_datetime (render_to y m d h mi s ++ [SP] ++ render_offset negative colon oh om)
    = Some (instant y m d h mi s negative oh om).
Proof. exact parse_rendered. Qed.
Print Assumptions C05_rendered_time_parses_to_its_instant.

(** ... hence the element is ready exactly when the current instant is at or after it. *)
Theorem C05_decision_is_instant_comparison :
  forall y m d h mi s negative colon oh om now name,
    valid_civil y m d h mi s -> valid_offset oh om ->
    time_is_removal (render_offset negative colon oh om) now
                    (mkElement name [(S_TO, Some (render_to y m d h mi s))])
    = (instant y m d h mi s negative oh om <=? now).
Proof. exact rendered_decision. Qed.
Print Assumptions C05_decision_is_instant_comparison.

(** The civil-time function is the calendar: 1970-01-01 is day 0 and the next calendar day
    (month lengths and the Gregorian leap rule included) is one more; these two facts determine it. *)
Theorem C05_epoch : days_from_civil 1970 1 1 = 0.
Proof. exact days_from_civil_epoch. Qed.
Print Assumptions C05_epoch.

Theorem C05_next_day :
  forall y m d, 1 <= m <= 12 -> 1 <= d <= days_in_month y m ->
    let '(y', m', d') := next_day y m d in days_from_civil y' m' d' = days_from_civil y m d + 1.
Proof. exact days_from_civil_next_day. Qed.
Print Assumptions C05_next_day.

(** Malformed classes never parse, whatever the remaining fields are. *)
Theorem C05_malformed_date_separators :
  forall y m d h mi s off sep,
    valid_civil y m d h mi s -> (sep = 47%N \/ sep = 46%N) ->
    parse_datetime (render4 y ++ [sep] ++ render2 m ++ [sep] ++ render2 d ++ [SP] ++ render2 h ++ [58%N]
                    ++ render2 mi ++ [58%N] ++ render2 s ++ [SP] ++ off) = None.
Proof. exact malformed_separators. Qed.
Print Assumptions C05_malformed_date_separators.

Theorem C05_malformed_T_separator :
  forall y m d h mi s off,
    valid_civil y m d h mi s ->
    parse_datetime (render4 y ++ [45%N] ++ render2 m ++ [45%N] ++ render2 d ++ [84%N] ++ render2 h ++ [58%N]
                    ++ render2 mi ++ [58%N] ++ render2 s ++ [SP] ++ off) = None.
Proof. exact malformed_T_separator. Qed.
Print Assumptions C05_malformed_T_separator.

Theorem C05_malformed_missing_time :
  forall y m d negative colon oh om,
    0 <= y <= 9999 -> 1 <= m <= 12 -> 1 <= d <= 31 -> valid_offset oh om ->
    parse_datetime (render4 y ++ [45%N] ++ render2 m ++ [45%N] ++ render2 d ++ [SP]
                    ++ render_offset negative colon oh om) = None.
Proof. exact malformed_missing_time. Qed.
Print Assumptions C05_malformed_missing_time.

(** month 0/13.., day 0 or beyond the month (29 Feb in non-leap years included), hour 24..,
    minute 60.., second 61.. (a second of 60 is chrono's leap-second representation and is accepted). *)
Theorem C05_malformed_out_of_range :
  forall y m d h mi s negative colon oh om,
    0 <= y <= 9999 -> 0 <= m <= 99 -> 0 <= d <= 99 -> 0 <= h <= 99 -> 0 <= mi <= 99 -> 0 <= s <= 99 ->
    valid_offset oh om ->
    ~ (1 <= m <= 12 /\ 1 <= d <= days_in_month y m /\ h <= 23 /\ mi <= 59 /\ s <= 60) ->
    parse_datetime (render_to y m d h mi s ++ [SP] ++ render_offset negative colon oh om) = None.
Proof. exact malformed_out_of_range. Qed.
Print Assumptions C05_malformed_out_of_range.

(** A zone (or anything that does not begin with a whitespace character) after the time never parses. *)
Theorem C05_malformed_trailing_zone :
  forall y m d h mi s negative colon oh om zone,
    valid_civil y m d h mi s -> valid_offset oh om -> zone <> [] -> ws_len zone = 0%nat ->
    parse_datetime (render_to y m d h mi s ++ zone ++ [SP] ++ render_offset negative colon oh om) = None.
Proof. exact malformed_trailing_zone. Qed.
Print Assumptions C05_malformed_trailing_zone.

(** Offsets "", "UTC", "+9", "0900", "+24:00", "+09:60" never parse. *)
Theorem C05_malformed_offsets :
  forall y m d h mi s off,
    valid_civil y m d h mi s ->
    In off [ []; [85;84;67]%N; [43;57]%N; [48;57;48;48]%N; [43;50;52;58;48;48]%N; [43;48;57;58;54;48]%N ] ->
    parse_datetime (render_to y m d h mi s ++ [SP] ++ off) = None.
Proof. exact malformed_offsets. Qed.
Print Assumptions C05_malformed_offsets.

(** A seconds field of 60 (accepted in any minute as leap-second notation) denotes the second after :59: the
    element is ready from that second on and not at :59 itself. *)
Theorem C05_second_60_is_the_second_after_59 :
  forall y m d h mi negative colon oh om,
    valid_civil y m d h mi 59 -> valid_offset oh om ->
    parse_datetime (render_to y m d h mi 60 ++ [SP] ++ render_offset negative colon oh om)
    = Some (instant y m d h mi 59 negative oh om + 1).
Proof. exact parse_rendered_leap_second. Qed.
Print Assumptions C05_second_60_is_the_second_after_59.

(** White space inside the quotes is not part of the wall-clock time: ASCII white space in front of the year and
    behind the seconds is skipped, and any run of it between the date and the time reads as the single blank - the
    parse result (success or failure, and the instant) is that of the plain value, whatever the offset string. *)
Theorem C05_padding_is_skipped :
  forall w1 w2 y m d h mi s off,
    forallb ascii_ws w1 = true -> forallb ascii_ws w2 = true ->
    0 <= y <= 9999 -> 0 <= m <= 99 -> 0 <= d <= 99 -> 0 <= h <= 99 -> 0 <= mi <= 99 -> 0 <= s <= 99 ->
    parse_datetime (w1 ++ render_to y m d h mi s ++ w2 ++ [SP] ++ off)
    = parse_datetime (render_to y m d h mi s ++ [SP] ++ off).
Proof. exact padding_is_skipped. Qed.
Print Assumptions C05_padding_is_skipped.

Theorem C05_inner_padding_is_skipped :
  forall w y m d h mi s off,
    forallb ascii_ws w = true ->
    0 <= y <= 9999 -> 0 <= m <= 99 -> 0 <= d <= 99 -> 0 <= h <= 99 -> 0 <= mi <= 99 -> 0 <= s <= 99 ->
    parse_datetime (render4 y ++ [45%N] ++ render2 m ++ [45%N] ++ render2 d ++ w ++ [SP]
                    ++ render2 h ++ [58%N] ++ render2 mi ++ [58%N] ++ render2 s ++ [SP] ++ off)
    = parse_datetime (render_to y m d h mi s ++ [SP] ++ off).
Proof. exact inner_padding_is_skipped. Qed.
Print Assumptions C05_inner_padding_is_skipped.

(** Non-vacuity / boundary: to="2001-09-09 01:46:40" at +00:00 is the instant 1000000000;
    ready at that instant, not ready one second earlier; at +09:00 the same wall-clock reading
    expires nine hours earlier. *)
Definition to_str : str := [50;48;48;49;45;48;57;45;48;57;32;48;49;58;52;54;58;52;48]%N.
Definition utc : str := [43;48;48;58;48;48]%N.
Definition jst : str := [43;48;57;48;48]%N.
Example C05_boundary :
  parse_datetime (to_str ++ [SP] ++ utc) = Some 1000000000 /\
  parse_datetime (to_str ++ [SP] ++ jst) = Some (1000000000 - 32400) /\
  time_is_removal utc 1000000000 (mkElement [116%N] [(S_TO, Some to_str)]) = true /\
  time_is_removal utc 999999999 (mkElement [116%N] [(S_TO, Some to_str)]) = false.
Proof. vm_compute. repeat split; reflexivity. Qed.
