(** C05 Expiry decision. *)
From Coq Require Import List NArith ZArith Arith Bool.
Import ListNotations.
From Chiri Require Import Base.Bytes Base.Res Model.TagParser Model.Chrono Model.Markers Proofs.C05Proofs.
Local Open Scope Z_scope.

(** Ready exactly when the first `to` attribute has a value which, followed by a space and the
    configured offset, parses to an instant at or before the current instant (equality = expired). *)
Theorem C05_ready_iff :
  forall offset now el,
    time_is_removal offset now el = true <->
    exists v expires,
      find_attr S_TO (el_attrs el) = Some (S_TO, Some v) /\
      parse_datetime (v ++ [SP] ++ offset) = Some expires /\ expires <= now.
Proof. exact time_ready_iff. Qed.
Print Assumptions C05_ready_iff.

Theorem C05_missing_to_never_ready :
  forall offset now el, find_attr S_TO (el_attrs el) = None -> time_is_removal offset now el = false.
Proof. exact time_missing_to. Qed.
Print Assumptions C05_missing_to_never_ready.

Theorem C05_valueless_to_never_ready :
  forall offset now el a,
    find_attr S_TO (el_attrs el) = Some (a, None) -> time_is_removal offset now el = false.
Proof. exact time_valueless_to. Qed.
Print Assumptions C05_valueless_to_never_ready.

Theorem C05_unparseable_never_ready :
  forall offset now el a v,
    find_attr S_TO (el_attrs el) = Some (a, Some v) ->
    parse_datetime (v ++ [SP] ++ offset) = None -> time_is_removal offset now el = false.
Proof. exact time_unparseable. Qed.
Print Assumptions C05_unparseable_never_ready.

(** For a fixed source the set of ready elements only grows as the current time advances. *)
Theorem C05_monotone_in_time :
  forall cfg now2 el,
    now cfg <= now2 -> status cfg el = Some true -> status (with_now cfg now2) el = Some true.
Proof. exact status_monotone. Qed.
Print Assumptions C05_monotone_in_time.

(** Non-vacuity / boundary: to="2001-09-09 01:46:40" at +00:00 is the instant 1000000000;
    ready at that instant, not ready one second earlier; at +09:00 the same wall-clock reading
    expires nine hours earlier. *)
Definition to_str : str := [50;48;48;49;45;48;57;45;48;57;32;48;49;58;52;54;58;52;48]%N.
Definition utc : str := [43;48;48;58;48;48]%N.
Definition jst : str := [43;48;57;48;48]%N.
Example C05_boundary :
  parse_datetime (to_str ++ [SP] ++ utc) = Some 1000000000 /\
  parse_datetime (to_str ++ [SP] ++ jst) = Some (1000000000 - 32400) /\
  time_is_removal utc 1000000000 (mkElement [116%N] [(S_TO, Some to_str)]) = true /\
  time_is_removal utc 999999999 (mkElement [116%N] [(S_TO, Some to_str)]) = false.
Proof. vm_compute. repeat split; reflexivity. Qed.
