(** C08 Tags are recognised wherever they occur (leftmost-shortest delimiter match). *)
From Coq Require Import List NArith Arith Bool.
Import ListNotations.
From Chiri Require Import Base.Bytes Base.Res Model.Tokenizer Spec.Scan Proofs.TokenizerProofs.

(** The substring search used by both the model and the reference scan finds the leftmost
    occurrence, and reports none only if there is none. *)
Theorem C08_find_is_leftmost : forall p s i, find_sub p s = Some i -> leftmost p s i.
Proof. exact find_sub_leftmost. Qed.
Print Assumptions C08_find_is_leftmost.

Theorem C08_find_none : forall p s, find_sub p s = None -> forall i, ~ occurs_at p s i.
Proof. exact find_sub_none. Qed.
Print Assumptions C08_find_none.

(** The tokens are exactly the spans of the textbook scan (Spec/Scan.v): leftmost start delimiter,
    one body character, first end delimiter beginning after it; continue behind the span; the rest
    is text. *)
Theorem C08_tokens_are_the_scan :
  forall s ds de ts, tokenize s ds de = Ok ts -> map span_of ts = scan_spans s ds de.
Proof. exact tokenize_scan. Qed.
Print Assumptions C08_tokens_are_the_scan.

(** Non-vacuity: a tag preceded by a delimiter prefix is recognised: "//* <t> */" with "/* <", "> */". *)
Example C08_prefix_example :
  scan_spans [47;47;42;32;60;116;62;32;42;47]%N [47;42;32;60]%N [62;32;42;47]%N
  = [(false, 0, 1); (true, 1, 10)].
Proof. vm_compute. reflexivity. Qed.
