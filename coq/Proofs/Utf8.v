(** Facts about [wf_utf8] and [is_boundary]: a fuel-free inductive characterisation of
    well-formedness, and the boundary facts the tokenizer relies on. *)
From Coq Require Import List NArith Arith Bool Lia PeanoNat.
Import ListNotations.
From Chiri Require Import Base.Bytes Proofs.BytesLemmas.

(* ------------------------------------------------------------------------- *)
(** * Bytes *)

Lemma char_len_pos b : 1 <= char_len b.
Proof.
  unfold char_len.
  destruct (b <? 128)%N; [lia|]. destruct (b <? 224)%N; [lia|]. destruct (b <? 240)%N; lia.
Qed.

Lemma lead_not_cont b : is_lead b = true -> is_cont b = false.
Proof.
  unfold is_lead, is_cont. intros H.
  destruct (N.ltb_spec b 128) as [L1|L1].
  - destruct (N.leb_spec 128 b) as [L2|L2]; [lia | reflexivity].
  - cbn [orb] in H. apply andb_true_iff in H. destruct H as [H1 _].
    apply N.leb_le in H1.
    destruct (N.ltb_spec b 192) as [L3|L3]; [lia|]. apply andb_false_r.
Qed.

(* ------------------------------------------------------------------------- *)
(** * Lists *)

Lemma skipn_add {A} (a b : nat) (l : list A) : skipn a (skipn b l) = skipn (b + a) l.
Proof.
  revert l. induction b as [|b IH]; intros l; [reflexivity|].
  destruct l as [|x l]; cbn [skipn Nat.add].
  - destruct a; reflexivity.
  - apply IH.
Qed.

Lemma app_inv_length {A} (a a' b b' : list A) :
  length a = length a' -> a ++ b = a' ++ b' -> a = a' /\ b = b'.
Proof.
  revert a'. induction a as [|x a IH]; intros [|y a'] Hl H; cbn [length] in Hl; try discriminate Hl.
  - cbn [app] in H. auto.
  - cbn [app] in H. inversion H; subst. destruct (IH a') as [-> ->]; [lia | assumption | auto].
Qed.

Lemma nth_error_skipn {A} (l : list A) i : nth_error l i = nth_error (skipn i l) 0.
Proof.
  revert l. induction i as [|i IH]; intros l; [reflexivity|].
  destruct l as [|x l]; [reflexivity|]. cbn [nth_error skipn]. apply IH.
Qed.

Lemma skipn_cons_nth {A} (l : list A) i b tl : skipn i l = b :: tl -> nth_error l i = Some b.
Proof. intros H. rewrite nth_error_skipn, H. reflexivity. Qed.

Lemma nth_skipn_cons {A} (l : list A) i b : nth_error l i = Some b -> exists tl, skipn i l = b :: tl.
Proof.
  rewrite nth_error_skipn. destruct (skipn i l) as [|x tl]; cbn [nth_error]; intros H;
    [discriminate H|]. inversion H; subst. exists tl. reflexivity.
Qed.

(* ------------------------------------------------------------------------- *)
(** * Inductive characterisation of [wf_utf8] *)

Inductive WF : str -> Prop :=
| WF_nil : WF []
| WF_char : forall b cs rest,
    is_lead b = true -> length cs = char_len b - 1 -> forallb is_cont cs = true ->
    WF rest -> WF (b :: cs ++ rest).

Lemma all_cont_some n : forall s rest, all_cont n s = Some rest ->
  exists cs, s = cs ++ rest /\ length cs = n /\ forallb is_cont cs = true.
Proof.
  induction n as [|n IH]; intros s rest H; cbn [all_cont] in H.
  - inversion H; subst. exists []. auto.
  - destruct s as [|b s']; [discriminate H|].
    destruct (is_cont b) eqn:C; [|discriminate H].
    apply IH in H. destruct H as (cs & -> & Hl & Hc).
    exists (b :: cs). cbn [app length forallb]. rewrite C, Hc, Hl. auto.
Qed.

Lemma all_cont_intro cs rest : forallb is_cont cs = true ->
  all_cont (length cs) (cs ++ rest) = Some rest.
Proof.
  induction cs as [|b cs IH]; intros H; [reflexivity|].
  cbn [forallb] in H. apply andb_true_iff in H. destruct H as [Hb Hc].
  cbn [length app all_cont]. rewrite Hb. apply IH. exact Hc.
Qed.

Lemma wf_fuel_WF : forall f s, wf_utf8_fuel f s = true -> WF s.
Proof.
  induction f as [|f IH]; intros s H.
  - destruct s as [|b s']; [constructor | discriminate H].
  - destruct s as [|b s']; [constructor|]. cbn [wf_utf8_fuel] in H.
    apply andb_true_iff in H. destruct H as [Hl H].
    destruct (all_cont (char_len b - 1) s') as [rest|] eqn:A; [|discriminate H].
    apply all_cont_some in A. destruct A as (cs & -> & Hlen & Hc).
    apply WF_char; auto.
Qed.

Lemma WF_wf_fuel s : WF s -> forall f, length s <= f -> wf_utf8_fuel f s = true.
Proof.
  induction 1 as [|b cs rest Hl Hlen Hc Hrest IH]; intros f Hf.
  - destruct f; reflexivity.
  - cbn [length] in Hf. rewrite app_length in Hf.
    destruct f as [|f]; [lia|]. cbn [wf_utf8_fuel]. rewrite Hl. cbn [andb].
    rewrite <- Hlen, all_cont_intro by exact Hc. apply IH. lia.
Qed.

Lemma wf_utf8_WF s : wf_utf8 s = true <-> WF s.
Proof.
  unfold wf_utf8. split.
  - apply wf_fuel_WF.
  - intros H. apply WF_wf_fuel; [exact H | lia].
Qed.

Lemma WF_cons_inv b s : WF (b :: s) ->
  is_lead b = true /\
  exists cs rest, s = cs ++ rest /\ length cs = char_len b - 1 /\
                  forallb is_cont cs = true /\ WF rest.
Proof.
  intros H. inversion H as [|b' cs rest Hl Hlen Hc Hrest [Eb Es]]; subst.
  split; [exact Hl|]. exists cs, rest. auto.
Qed.

Lemma WF_head_not_cont b s : WF (b :: s) -> is_cont b = false.
Proof. intros H. apply WF_cons_inv in H. destruct H as [H _]. apply lead_not_cont. exact H. Qed.

(** Parsing is deterministic: a well-formed prefix leaves a well-formed rest. *)
Lemma WF_app_inv a : WF a -> forall r, WF (a ++ r) -> WF r.
Proof.
  induction 1 as [|b cs rest Hl Hlen Hc Hrest IH]; intros r H; [exact H|].
  cbn [app] in H. rewrite <- app_assoc in H.
  apply WF_cons_inv in H. destruct H as (_ & cs' & rest' & E & Hlen' & _ & Hrest').
  apply app_inv_length in E; [|lia]. destruct E as [_ <-]. apply IH. exact Hrest'.
Qed.

Lemma WF_app a b : WF a -> WF b -> WF (a ++ b).
Proof.
  induction 1 as [|c cs rest Hl Hlen Hc Hrest IH]; intros Hb; [exact Hb|].
  cbn [app]. rewrite <- app_assoc. apply WF_char; auto.
Qed.

(** Skipping the first character. *)
Lemma WF_skip_char b tl : WF (b :: tl) ->
  char_len b <= length (b :: tl) /\ WF (skipn (char_len b) (b :: tl)).
Proof.
  intros H. apply WF_cons_inv in H. destruct H as (_ & cs & rest & -> & Hlen & _ & Hrest).
  pose proof (char_len_pos b) as Hp.
  replace (char_len b) with (S (length cs)) by lia.
  cbn [length skipn]. rewrite app_length. split; [lia|].
  rewrite skipn_app, skipn_all, Nat.sub_diag. exact Hrest.
Qed.

(** Cutting a well-formed string at a non-continuation byte leaves a well-formed rest. *)
Lemma WF_skipn_noncont r : WF r -> forall i b,
  nth_error r i = Some b -> is_cont b = false -> WF (skipn i r).
Proof.
  induction 1 as [|b0 cs rest Hl Hlen Hc Hrest IH]; intros i b Hn Hb.
  - destruct i; discriminate Hn.
  - destruct i as [|i]; [cbn [skipn]; apply WF_char; auto|].
    cbn [nth_error skipn] in *.
    destruct (Nat.lt_ge_cases i (length cs)) as [L|L].
    + rewrite nth_error_app1 in Hn by exact L.
      apply nth_error_In in Hn. rewrite forallb_forall in Hc. apply Hc in Hn. congruence.
    + rewrite nth_error_app2 in Hn by exact L.
      rewrite skipn_app, skipn_all2 by exact L. cbn [app].
      apply (IH _ b); assumption.
Qed.

(* ------------------------------------------------------------------------- *)
(** * Boundaries *)

Lemma is_boundary_length s : is_boundary s (length s) = true.
Proof.
  unfold is_boundary. destruct (length s) as [|n] eqn:E; [reflexivity|].
  rewrite <- E.
  destruct (nth_error s (length s)) as [b|] eqn:N.
  - assert (nth_error s (length s) <> None) as Hn by congruence.
    apply nth_error_Some in Hn. lia.
  - apply Nat.eqb_refl.
Qed.

(** A position whose remainder is well-formed is a character boundary. *)
Lemma WF_boundary s i : i <= length s -> WF (skipn i s) -> is_boundary s i = true.
Proof.
  intros Hi H. unfold is_boundary. destruct i as [|i]; [reflexivity|].
  destruct (nth_error s (S i)) as [b|] eqn:N.
  - apply nth_skipn_cons in N. destruct N as [tl E]. rewrite E in H.
    apply WF_head_not_cont in H. rewrite H. reflexivity.
  - apply nth_error_None in N. apply Nat.eqb_eq. lia.
Qed.

(** In a well-formed string, a boundary splits it into two well-formed strings. *)
Lemma boundary_WF_skipn s i : WF s -> is_boundary s i = true -> WF (skipn i s).
Proof.
  intros H Hb. unfold is_boundary in Hb. destruct i as [|i]; [exact H|].
  destruct (nth_error s (S i)) as [b|] eqn:N.
  - apply (WF_skipn_noncont s H (S i) b N). destruct (is_cont b); [discriminate Hb | reflexivity].
  - apply Nat.eqb_eq in Hb. rewrite Hb, skipn_all. constructor.
Qed.

Lemma boundary_le s i : is_boundary s i = true -> i <= length s.
Proof.
  unfold is_boundary. destruct i as [|i]; [lia|].
  destruct (nth_error s (S i)) as [b|] eqn:N; intros H.
  - assert (nth_error s (S i) <> None) as Hn by congruence. apply nth_error_Some in Hn. lia.
  - apply Nat.eqb_eq in H. lia.
Qed.

(** An occurrence of a non-empty well-formed pattern in a well-formed string starts and ends
    on character boundaries (expressed through well-formedness of the remainders). *)
Lemma WF_occurrence s p i : WF s -> WF p -> p <> [] -> prefix p (skipn i s) = true ->
  WF (skipn i s) /\ WF (skipn (i + length p) s) /\ i + length p <= length s.
Proof.
  intros Hs Hp Hne Hpre. apply prefix_spec in Hpre. destruct Hpre as [r Hr].
  destruct p as [|d p']; [congruence|].
  assert (WF (skipn i s)) as Hw.
  { apply (WF_skipn_noncont s Hs i d).
    - apply (skipn_cons_nth s i d (p' ++ r)). exact Hr.
    - apply (WF_head_not_cont d p'). exact Hp. }
  split; [exact Hw|]. split.
  - rewrite <- skipn_add, Hr.
    rewrite skipn_app, skipn_all, Nat.sub_diag. cbn [app skipn].
    apply (WF_app_inv (d :: p') Hp r). rewrite <- Hr. exact Hw.
  - apply (f_equal (@length byte)) in Hr. rewrite skipn_length, app_length in Hr.
    cbn [length] in *. lia.
Qed.

(** The boundary formulation of the same facts. *)
Lemma wf_occurrence_boundaries s p i :
  wf_utf8 s = true -> wf_utf8 p = true -> p <> [] -> i <= length s ->
  prefix p (skipn i s) = true ->
  is_boundary s i = true /\ is_boundary s (i + length p) = true /\ i + length p <= length s.
Proof.
  intros Hs Hp Hne Hi Hpre. apply wf_utf8_WF in Hs. apply wf_utf8_WF in Hp.
  destruct (WF_occurrence s p i Hs Hp Hne Hpre) as (H1 & H2 & H3).
  split; [apply WF_boundary; assumption|]. split; [apply WF_boundary; assumption | exact H3].
Qed.

(** [char_len b] bytes after a boundary at lead byte [b] is a boundary within the string. *)
Lemma wf_next_char_boundary s i b :
  wf_utf8 s = true -> is_boundary s i = true -> nth_error s i = Some b ->
  i + char_len b <= length s /\ is_boundary s (i + char_len b) = true.
Proof.
  intros Hs Hb Hn. apply wf_utf8_WF in Hs.
  pose proof (boundary_WF_skipn s i Hs Hb) as Hw.
  apply nth_skipn_cons in Hn. destruct Hn as [tl E]. rewrite E in Hw.
  apply WF_skip_char in Hw. destruct Hw as [Hl Hw]. rewrite <- E in Hl, Hw.
  rewrite skipn_length in Hl. rewrite skipn_add in Hw.
  assert (i < length s) as Hlt.
  { apply (f_equal (@length byte)) in E. rewrite skipn_length in E. cbn [length] in E. lia. }
  split; [lia|]. apply WF_boundary; [lia | exact Hw].
Qed.
