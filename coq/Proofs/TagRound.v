(** C09: round trip of the tag grammar through the attribute scan. *)
From Coq Require Import List NArith Arith Bool Lia.
Import ListNotations.
From Chiri Require Import Base.Bytes Base.Res Model.Tokenizer Model.TagParser Spec.TagGrammar
     Proofs.ResLemmas Proofs.BytesLemmas Proofs.Utf8Lemmas Proofs.TagTotal.

(** * Slicing the middle of a concatenation *)

Lemma skipn_length_app {A} (a b : list A) : skipn (length a) (a ++ b) = b.
Proof. induction a as [|x a IH]; [reflexivity | exact IH]. Qed.

Lemma firstn_length_app {A} (a b : list A) : firstn (length a) (a ++ b) = a.
Proof. induction a as [|x a IH]; [reflexivity|]. cbn [length app firstn]. rewrite IH. reflexivity. Qed.

Lemma sub_mid (b0 x rest : str) : sub (b0 ++ x ++ rest) (length b0) (length b0 + length x) = x.
Proof.
  unfold sub. rewrite skipn_length_app.
  replace (length b0 + length x - length b0) with (length x) by lia.
  apply firstn_length_app.
Qed.

Lemma slice_mid target b0 x rest a b :
  target = b0 ++ x ++ rest -> a = length b0 -> b = a + length x ->
  bstart (x ++ rest) = true -> bstart rest = true ->
  slice target a b = Ok x.
Proof.
  intros -> -> -> H1 H2. rewrite slice_ok.
  - rewrite sub_mid. reflexivity.
  - lia.
  - rewrite !app_length. lia.
  - apply is_boundary_app. exact H1.
  - rewrite app_assoc. rewrite <- app_length. apply is_boundary_app. exact H2.
Qed.

(** * Running the scan over a chunk of the target *)

Definition pacc := (list (str * option str) * pstate)%type.

Definition run (target : str) (k : nat) (chunk : str) (st : pacc) : res pacc :=
  foldM (pstep target) (char_indices_from k chunk) st.

Lemma run_nil target k st : run target k [] st = Ok st.
Proof. reflexivity. Qed.

Lemma run_app target k a b st :
  run target k (a ++ b) st = bind (run target k a st) (run target (k + length a) b).
Proof. unfold run. rewrite char_indices_from_app. apply foldM_app. Qed.

Lemma run_cons target k c r st :
  is_cont c = false ->
  run target k (c :: r) st = bind (pstep target st (k, c)) (run target (S k) r).
Proof. intros H. unfold run. cbn [char_indices_from]. rewrite H. reflexivity. Qed.

Lemma run_cons_cont target k c r st :
  is_cont c = true -> run target k (c :: r) st = run target (S k) r st.
Proof. intros H. unfold run. cbn [char_indices_from]. rewrite H. reflexivity. Qed.

Lemma run_stable (P : byte -> bool) target p st :
  (forall k c, P c = true -> pstep target (p, st) (k, c) = Ok (p, st)) ->
  forall l k, forallb P l = true -> run target k l (p, st) = Ok (p, st).
Proof.
  intros Hstep. induction l as [|c l IH]; intros k Hall; [reflexivity|].
  cbn [forallb] in Hall. apply andb_true_iff in Hall. destruct Hall as [Hc Hall].
  destruct (is_cont c) eqn:Ec.
  - rewrite run_cons_cont by exact Ec. apply IH. exact Hall.
  - rewrite run_cons by exact Ec. rewrite Hstep by exact Hc. cbn [bind]. apply IH. exact Hall.
Qed.

(** * Byte classes of the grammar *)

Definition namech (c : byte) : bool := negb (is_sep_byte c) && negb (beq c EQC).

Definition vstate (q : quote) (s : nat) : pstate :=
  match q with QDouble => ValueWithDoubleQuote s | QSingle => ValueWithSingleQuote s end.

Lemma sep_cases c : is_sep_byte c = true -> c = SP \/ c = NL.
Proof.
  unfold is_sep_byte. intros H. apply orb_true_iff in H. destruct H as [H|H]; apply beq_eq in H; auto.
Qed.

Lemma sep_ascii c : is_sep_byte c = true -> (c <? 128)%N = true.
Proof. intros H. destruct (sep_cases c H); subst; reflexivity. Qed.

Lemma sep_not_cont c : is_sep_byte c = true -> is_cont c = false.
Proof. intros H. apply ascii_not_cont. apply sep_ascii. exact H. Qed.

Lemma quote_ascii q : (quote_byte q <? 128)%N = true.
Proof. destruct q; reflexivity. Qed.

Lemma quote_not_cont q : is_cont (quote_byte q) = false.
Proof. destruct q; reflexivity. Qed.

Lemma EQC_not_cont : is_cont EQC = false.
Proof. reflexivity. Qed.

Lemma SP_not_cont : is_cont SP = false.
Proof. reflexivity. Qed.

Lemma forallb_repeat_SP (P : byte -> bool) n : P SP = true -> forallb P (repeat SP n) = true.
Proof. intros H. induction n as [|n IH]; [reflexivity|]. cbn [repeat forallb]. rewrite H, IH. reflexivity. Qed.

(** * Single steps *)

Lemma step_gap_sep target p st k c :
  st = NameBegin \/ st = NameEnd -> is_sep_byte c = true ->
  pstep target (p, st) (k, c) = Ok (p, st).
Proof.
  intros Hst Hc. unfold is_sep_byte in Hc. destruct Hst; subst st; cbn [pstep]; rewrite Hc; reflexivity.
Qed.

Lemma step_name_sep target p s k c :
  is_sep_byte c = true ->
  pstep target (p, Name s) (k, c) = (v <- slice target s k ;; Ok (p ++ [(v, None)], NameEnd)).
Proof. intros Hc. unfold is_sep_byte in Hc. cbn [pstep]. rewrite Hc. reflexivity. Qed.

Lemma step_name_eq target p s k :
  pstep target (p, Name s) (k, EQC) = (v <- slice target s k ;; Ok (p ++ [(v, None)], ValueBegin)).
Proof. reflexivity. Qed.

Lemma namech_inv c : namech c = true -> (beq c SP || beq c NL) = false /\ beq c EQC = false.
Proof.
  unfold namech, is_sep_byte. intros H. apply andb_true_iff in H. destruct H as [H1 H2].
  apply negb_true_iff in H1. apply negb_true_iff in H2. auto.
Qed.

Lemma step_name_namech target p s k c :
  namech c = true -> pstep target (p, Name s) (k, c) = Ok (p, Name s).
Proof. intros H. apply namech_inv in H. destruct H as [H1 H2]. cbn [pstep]. rewrite H1, H2. reflexivity. Qed.

Lemma step_gap_namech target p st k c :
  st = NameBegin \/ st = NameEnd -> namech c = true -> beq c DQ = false -> beq c SQ = false ->
  pstep target (p, st) (k, c) = Ok (p, Name k).
Proof.
  intros Hst H HD HS. apply namech_inv in H. destruct H as [H1 H2].
  destruct Hst; subst st; cbn [pstep]; rewrite H1, H2, ?HD, ?HS; reflexivity.
Qed.

Lemma step_nameend_eq target p k : pstep target (p, NameEnd) (k, EQC) = Ok (p, ValueBegin).
Proof. reflexivity. Qed.

Lemma step_valuebegin_sp target p k c :
  beq c SP = true -> pstep target (p, ValueBegin) (k, c) = Ok (p, ValueBegin).
Proof. intros H. cbn [pstep]. rewrite H. reflexivity. Qed.

Lemma step_valuebegin_quote target p k q :
  pstep target (p, ValueBegin) (k, quote_byte q) = Ok (p, vstate q (k + 1)).
Proof. destruct q; reflexivity. Qed.

Lemma step_value_other target p q s k c :
  negb (beq c (quote_byte q)) = true -> pstep target (p, vstate q s) (k, c) = Ok (p, vstate q s).
Proof.
  intros H. apply negb_true_iff in H. destruct q; cbn [vstate pstep quote_byte] in *; rewrite H; reflexivity.
Qed.

Lemma step_value_quote target p q s k :
  pstep target (p, vstate q s) (k, quote_byte q) =
  (v <- slice target s k ;; pairs' <- set_last_value p v ;; Ok (pairs', NameBegin)).
Proof. destruct q; reflexivity. Qed.

Lemma set_last_value_snoc p n o v : set_last_value (p ++ [(n, o)]) v = Ok (p ++ [(n, Some v)]).
Proof.
  unfold set_last_value. rewrite rev_app_distr. cbn [rev app].
  rewrite rev_involutive. reflexivity.
Qed.

(** * Pieces of the grammar *)

Ltac solve_len := subst; repeat rewrite app_length; repeat rewrite repeat_length; cbn [length]; lia.
Ltac solve_eq := subst; repeat rewrite app_nil_r; repeat rewrite <- app_assoc; cbn [app]; reflexivity.

Lemma run_gap_seps target k l p st :
  st = NameBegin \/ st = NameEnd -> forallb is_sep_byte l = true ->
  run target k l (p, st) = Ok (p, st).
Proof.
  intros Hst Hl. apply run_stable with (P := is_sep_byte); [|exact Hl].
  intros k' c Hc. apply step_gap_sep; assumption.
Qed.

Lemma run_name_rest target k l p s :
  forallb namech l = true -> run target k l (p, Name s) = Ok (p, Name s).
Proof.
  intros Hl. apply run_stable with (P := namech); [|exact Hl].
  intros k' c Hc. apply step_name_namech; assumption.
Qed.

Lemma wf_name_inv n :
  wf_name n = true ->
  exists b n', n = b :: n' /\ beq b DQ = false /\ beq b SQ = false /\ forallb namech n = true.
Proof.
  unfold wf_name. destruct n as [|b n']; [discriminate|]. intros H.
  apply andb_true_iff in H. destruct H as [H H3]. apply andb_true_iff in H. destruct H as [H1 H2].
  apply negb_true_iff in H1. apply negb_true_iff in H2. exists b, n'. auto.
Qed.

Lemma wf_name_not_nil n : wf_name n = true -> n <> [].
Proof. destruct n; [discriminate|congruence]. Qed.

Lemma run_name target k n p st :
  st = NameBegin \/ st = NameEnd -> wf_name n = true -> bstart n = true ->
  run target k n (p, st) = Ok (p, Name k).
Proof.
  intros Hst Hwf Hb. destruct (wf_name_inv n Hwf) as [b [n' [-> [HD [HS Hall]]]]].
  cbn [bstart] in Hb. apply negb_true_iff in Hb.
  cbn [forallb] in Hall. apply andb_true_iff in Hall. destruct Hall as [Hc Hall].
  rewrite run_cons by exact Hb. rewrite step_gap_namech by assumption. cbn [bind].
  apply run_name_rest. exact Hall.
Qed.

(** A name that has been scanned but not yet pushed is followed by optional spaces and '='. *)
Lemma run_eq target k s b0 n n1 rest p :
  target = b0 ++ n ++ (repeat SP n1 ++ EQC :: rest) -> s = length b0 -> k = s + length n ->
  bstart n = true -> n <> [] ->
  run target k (repeat SP n1 ++ [EQC]) (p, Name s) = Ok (p ++ [(n, None)], ValueBegin).
Proof.
  intros Ht Hs Hk Hb Hn.
  assert (Hsl : slice target s k = Ok n).
  { eapply slice_mid; eauto.
    - rewrite bstart_app_l by exact Hn. exact Hb.
    - destruct n1; reflexivity. }
  destruct n1 as [|n1]; cbn [repeat app].
  - rewrite run_cons by apply EQC_not_cont. rewrite step_name_eq, Hsl. reflexivity.
  - rewrite run_cons by apply SP_not_cont. rewrite step_name_sep by reflexivity.
    rewrite Hsl. cbn [bind]. rewrite run_app.
    rewrite run_gap_seps; [|auto|apply forallb_repeat_SP; reflexivity]. cbn [bind].
    rewrite run_cons by apply EQC_not_cont. rewrite step_nameend_eq. reflexivity.
Qed.

Lemma run_val target k b1 n2 q v rest p p' :
  target = b1 ++ repeat SP n2 ++ quote_byte q :: v ++ quote_byte q :: rest -> k = length b1 ->
  bstart v = true -> forallb (fun c => negb (beq c (quote_byte q))) v = true ->
  set_last_value p v = Ok p' ->
  run target k (repeat SP n2 ++ [quote_byte q] ++ v ++ [quote_byte q]) (p, ValueBegin)
  = Ok (p', NameBegin).
Proof.
  intros Ht Hk Hb Hv Hset. rewrite run_app.
  rewrite (run_stable (fun c => beq c SP)); [|intros k' c Hc; apply step_valuebegin_sp; exact Hc
                                             |apply forallb_repeat_SP; reflexivity].
  cbn [bind app]. rewrite run_cons by apply quote_not_cont.
  rewrite step_valuebegin_quote. cbn [bind]. rewrite run_app.
  rewrite (run_stable (fun c => negb (beq c (quote_byte q))));
    [|intros k' c Hc; apply step_value_other; exact Hc | exact Hv].
  cbn [bind]. rewrite run_cons by apply quote_not_cont. rewrite step_value_quote.
  assert (Hsl : slice target (k + length (repeat SP n2) + 1)
                      (S (k + length (repeat SP n2)) + length v) = Ok v).
  { apply slice_mid with (b0 := b1 ++ repeat SP n2 ++ [quote_byte q]) (rest := quote_byte q :: rest).
    - solve_eq.
    - solve_len.
    - lia.
    - destruct v as [|c v]; [cbn [app bstart]; rewrite quote_not_cont; reflexivity | exact Hb].
    - cbn [bstart]. rewrite quote_not_cont. reflexivity. }
  rewrite Hsl. cbn [bind]. rewrite Hset. reflexivity.
Qed.

(** * The state between attributes *)

(** Either everything scanned so far has been pushed, or a bare name [n] is still being scanned. *)
Definition st_ok (before : str) (st : pstate) (pairs lp : list (str * option str)) : Prop :=
  (st = NameBegin /\ lp = pairs) \/
  (exists b0 n, before = b0 ++ n /\ st = Name (length b0) /\ lp = pairs ++ [(n, None)] /\
                bstart n = true /\ n <> []).

Lemma run_sep target before c sep after k pairs st lp :
  target = before ++ (c :: sep) ++ after -> k = length before ->
  forallb is_sep_byte (c :: sep) = true -> st_ok before st pairs lp ->
  exists st', run target k (c :: sep) (pairs, st) = Ok (lp, st') /\
              (st' = NameBegin \/ st' = NameEnd).
Proof.
  intros Ht Hk Hall Hst. pose proof Hall as Hall'.
  cbn [forallb] in Hall. apply andb_true_iff in Hall. destruct Hall as [Hc Hsep].
  destruct Hst as [[-> ->]|[b0 [n [Hb [-> [-> [Hbn Hn]]]]]]].
  - exists NameBegin. split; [|auto]. apply run_gap_seps; auto.
  - exists NameEnd. split; [|auto].
    rewrite run_cons by (apply sep_not_cont; exact Hc).
    rewrite step_name_sep by exact Hc.
    assert (Hsl : slice target (length b0) k = Ok n).
    { apply slice_mid with (b0 := b0) (rest := (c :: sep) ++ after).
      - solve_eq.
      - reflexivity.
      - solve_len.
      - rewrite bstart_app_l by exact Hn. exact Hbn.
      - cbn [app bstart]. rewrite (sep_not_cont _ Hc). reflexivity. }
    rewrite Hsl. cbn [bind]. apply run_gap_seps; auto.
Qed.

Lemma WF_after_seps x sep y :
  WF (x ++ sep ++ y) -> sep <> [] -> forallb is_sep_byte sep = true -> WF y.
Proof.
  intros W Hn Hall. destruct (exists_last Hn) as [sep' [c ->]].
  rewrite forallb_app in Hall. apply andb_true_iff in Hall. destruct Hall as [_ Hc].
  cbn [forallb] in Hc. rewrite andb_true_r in Hc.
  replace (x ++ (sep' ++ [c]) ++ y) with ((x ++ sep') ++ c :: y) in W
    by (repeat rewrite <- app_assoc; reflexivity).
  eapply WF_after_ascii; [|exact W]. apply sep_ascii. exact Hc.
Qed.

Definition attr_pair (a : attr_ast) : str * option str :=
  (at_name a, match at_value a with None => None | Some (_, _, _, v) => Some v end).

Lemma run_attr target before a after k pairs st lp :
  target = before ++ print_attr a ++ after -> WF target -> wf_attr a = true ->
  k = length before -> st_ok before st pairs lp ->
  exists pairs' st',
    run target k (print_attr a) (pairs, st) = Ok (pairs', st') /\
    st_ok (before ++ print_attr a) st' pairs' (lp ++ [attr_pair a]).
Proof.
  intros Ht W Hwf Hk Hst. destruct a as [sep name val]. unfold wf_attr in Hwf.
  unfold print_attr, attr_pair in *. cbn [at_sep at_name at_value] in *.
  apply andb_true_iff in Hwf. destruct Hwf as [Hwf Hval].
  apply andb_true_iff in Hwf. destruct Hwf as [Hsep Hname].
  destruct sep as [|c sep]; [discriminate|].
  assert (Hnn : name <> []) by (apply wf_name_not_nil; exact Hname).
  (* the name starts a character *)
  assert (Hbn : bstart name = true).
  { rewrite Ht in W. rewrite <- app_assoc in W. apply WF_after_seps in W; [|discriminate|exact Hsep].
    apply WF_bstart in W. rewrite <- app_assoc in W. rewrite bstart_app_l in W by exact Hnn. exact W. }
  rewrite run_app.
  destruct (run_sep target before c sep
                    ((name ++ match val with
                              | None => []
                              | Some (n1, n2, q, v) =>
                                repeat SP n1 ++ [EQC] ++ repeat SP n2 ++ [quote_byte q] ++ v ++ [quote_byte q]
                              end) ++ after) k pairs st lp) as [st1 [E1 Hgap]]; auto.
  { solve_eq. }
  rewrite E1. cbn [bind]. rewrite run_app.
  rewrite (run_name target _ name lp st1 Hgap Hname Hbn). cbn [bind].
  destruct val as [[[[n1 n2] q] v]|].
  - (* name = value *)
    rewrite app_assoc. rewrite run_app.
    rewrite (run_eq target _ (k + length (c :: sep)) (before ++ c :: sep) name n1
                    (repeat SP n2 ++ [quote_byte q] ++ v ++ [quote_byte q] ++ after) lp);
      [|solve_eq|solve_len|lia|exact Hbn|exact Hnn].
    cbn [bind].
    assert (Hbv : bstart v = true).
    { destruct v as [|cv v]; [reflexivity|].
      replace (before ++ ((c :: sep) ++ name ++ repeat SP n1 ++ [EQC] ++ repeat SP n2 ++
                          [quote_byte q] ++ (cv :: v) ++ [quote_byte q]) ++ after)
        with ((before ++ (c :: sep) ++ name ++ repeat SP n1 ++ [EQC] ++ repeat SP n2) ++
              quote_byte q :: (cv :: v) ++ [quote_byte q] ++ after) in Ht by solve_eq.
      rewrite Ht in W. apply WF_after_ascii in W; [|apply quote_ascii].
      apply WF_bstart in W. exact W. }
    rewrite (run_val target _ (before ++ (c :: sep) ++ name ++ repeat SP n1 ++ [EQC]) n2 q v after
                     (lp ++ [(name, None)]) (lp ++ [(name, Some v)]));
      [|solve_eq|solve_len|exact Hbv|exact Hval|apply set_last_value_snoc].
    do 2 eexists. split; [reflexivity|]. left. auto.
  - (* bare name *)
    rewrite run_nil. cbn [bind]. do 2 eexists. split; [reflexivity|]. right.
    exists (before ++ c :: sep), name. repeat split; auto.
    + solve_eq.
    + f_equal. solve_len.
Qed.

Lemma run_attrs target : WF target -> forall attrs before after k pairs st lp,
  target = before ++ flat_map print_attr attrs ++ after -> forallb wf_attr attrs = true ->
  k = length before -> st_ok before st pairs lp ->
  exists pairs' st',
    run target k (flat_map print_attr attrs) (pairs, st) = Ok (pairs', st') /\
    st_ok (before ++ flat_map print_attr attrs) st' pairs' (lp ++ map attr_pair attrs).
Proof.
  intros W. induction attrs as [|a attrs IH]; intros before after k pairs st lp Ht Hwf Hk Hst.
  - cbn [flat_map map]. rewrite run_nil. exists pairs, st. split; [reflexivity|].
    rewrite !app_nil_r. exact Hst.
  - cbn [flat_map map forallb] in *. apply andb_true_iff in Hwf. destruct Hwf as [Hwa Hwf].
    rewrite run_app.
    destruct (run_attr target before a (flat_map print_attr attrs ++ after) k pairs st lp)
      as [pairs1 [st1 [E1 Hst1]]]; auto.
    { solve_eq. }
    rewrite E1. cbn [bind].
    destruct (IH (before ++ print_attr a) after (k + length (print_attr a)) pairs1 st1
                 (lp ++ [attr_pair a])) as [pairs2 [st2 [E2 Hst2]]]; auto.
    { solve_eq. }
    { solve_len. }
    rewrite E2. exists pairs2, st2. split; [reflexivity|].
    repeat rewrite <- app_assoc in Hst2. cbn [app] in Hst2. exact Hst2.
Qed.

Lemma attrs_of_map t : attrs_of t = map attr_pair (tg_attrs t).
Proof. reflexivity. Qed.

(** The scan of a whole printed tag, and the final flush. *)
Lemma scan_printed_tag t :
  wf_tag t = true -> WF (print_body t) ->
  exists pairs st,
    foldM (pstep (print_body t)) (char_indices (print_body t)) ([], NameBegin) = Ok (pairs, st) /\
    is_parse_error st = false /\
    match st with
    | Name start => v <- slice_from (print_body t) start ;; Ok (pairs ++ [(v, None)])
    | _ => Ok pairs
    end = Ok ((tg_name t, None) :: attrs_of t).
Proof.
  intros Hwf W. destruct t as [padl name attrs padr]. unfold wf_tag in Hwf.
  cbn [tg_name tg_attrs tg_pad_right] in Hwf.
  apply andb_true_iff in Hwf. destruct Hwf as [Hwf Hpadr].
  apply andb_true_iff in Hwf. destruct Hwf as [Hname Hattrs].
  rewrite attrs_of_map. cbn [tg_name tg_attrs].
  remember (print_body (mkTag padl name attrs padr)) as target eqn:Ht.
  unfold print_body in Ht. cbn [tg_pad_left tg_name tg_attrs tg_pad_right] in Ht.
  assert (Hnn : name <> []) by (apply wf_name_not_nil; exact Hname).
  assert (Hbn : bstart name = true).
  { assert (W' : WF (name ++ flat_map print_attr attrs ++ padr)).
    { destruct padl as [|padl].
      - rewrite Ht in W. exact W.
      - rewrite Ht in W. apply (WF_after_seps [] (repeat SP (S padl))) in W; auto.
        + discriminate.
        + apply forallb_repeat_SP. reflexivity. }
    apply WF_bstart in W'. rewrite bstart_app_l in W' by exact Hnn. exact W'. }
  change (foldM (pstep target) (char_indices target) ([], NameBegin))
    with (run target 0 target ([], NameBegin)).
  replace (run target 0 target ([], NameBegin))
    with (run target 0 (repeat SP padl ++ name ++ flat_map print_attr attrs ++ padr) ([], NameBegin))
    by (rewrite <- Ht; reflexivity).
  rewrite run_app.
  rewrite run_gap_seps; [|auto|apply forallb_repeat_SP; reflexivity]. cbn [bind].
  rewrite run_app. rewrite (run_name target _ name [] NameBegin); auto. cbn [bind].
  rewrite run_app.
  destruct (run_attrs target W attrs (repeat SP padl ++ name) padr
                      (0 + length (repeat SP padl) + length name) [] (Name (0 + length (repeat SP padl)))
                      [(name, None)]) as [pairs1 [st1 [E1 Hst1]]]; auto.
  { solve_eq. }
  { solve_len. }
  { right. exists (repeat SP padl), name. repeat split; auto. }
  rewrite E1. cbn [bind]. cbn [app] in Hst1.
  destruct padr as [|c padr].
  - rewrite run_nil. exists pairs1, st1. split; [reflexivity|].
    destruct Hst1 as [[-> ->]|[b0 [n [Hb [-> [-> [Hbn' Hn']]]]]]].
    + split; reflexivity.
    + split; [reflexivity|]. unfold slice_from.
      rewrite (slice_mid target b0 n [] (length b0) (length target)); auto.
      * rewrite Ht. rewrite !app_nil_r. rewrite <- Hb. solve_eq.
      * rewrite Ht. rewrite app_nil_r.
        replace (repeat SP padl ++ name ++ flat_map print_attr attrs)
          with ((repeat SP padl ++ name) ++ flat_map print_attr attrs) by solve_eq.
        rewrite Hb. rewrite app_length. lia.
      * rewrite app_nil_r. exact Hbn'.
  - destruct (run_sep target ((repeat SP padl ++ name) ++ flat_map print_attr attrs) c padr []
                      (0 + length (repeat SP padl) + length name + length (flat_map print_attr attrs))
                      pairs1 st1 ((name, None) :: map attr_pair attrs)) as [st2 [E2 Hgap]]; auto.
    { rewrite Ht. rewrite app_nil_r. solve_eq. }
    { solve_len. }
    rewrite E2. do 2 eexists. split; [reflexivity|].
    destruct Hgap; subst st2; split; reflexivity.
Qed.

Theorem parse_printed_tag_WF t :
  wf_tag t = true -> WF (print_body t) ->
  parse_target (print_body t) = Ok (Some (mkElement (tg_name t) (attrs_of t))).
Proof.
  intros Hwf W. destruct (scan_printed_tag t Hwf W) as [pairs [st [E1 [E2 E3]]]].
  unfold parse_target. rewrite E1. cbn [bind]. rewrite E3. cbn [bind]. rewrite E2. reflexivity.
Qed.
