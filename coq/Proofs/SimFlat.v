(** C18, stage 1: simulation of the string-level functions (finders and whitespace formatters) on
    a "flat" abstract document: a list of symbols, each either a byte of a text / tag body or one
    of the two delimiters.  An abstract position is an index into the symbol list; its concrete
    position under a spelling is the length of the rendering of the symbols before it.  Every
    function is characterised on the rendering by a function of the symbol list alone. *)
From Coq Require Import List NArith Arith Bool Lia PeanoNat.
Import ListNotations.
From Chiri Require Import Base.Bytes Base.Res Model.Finders Model.Format
  Proofs.ResLemmas Proofs.BytesLemmas Proofs.Utf8.

(* ------------------------------------------------------------------------- *)
(** * Symbols, rendering, positions *)

Inductive sym := B (c : byte) | DS | DE.

Definition rsym (ds de : str) (x : sym) : str :=
  match x with B c => [c] | DS => ds | DE => de end.
Definition rs (ds de : str) (l : list sym) : str := flat_map (rsym ds de) l.
Definition pos (ds de : str) (l : list sym) (j : nat) : nat := length (rs ds de (firstn j l)).

(** What the scanners need of a start delimiter: its first byte is a non-whitespace character
    start and there is no line break in it. *)
Definition ds_ok (ds : str) : Prop :=
  exists d0 ds', ds = d0 :: ds' /\ is_cont d0 = false /\ is_ws d0 = false /\ ~ In NL ds.

(** What they need of an end delimiter: it starts with a character start, its last character
    (lead byte [lead], continuation bytes [cs]) is not whitespace, and no line break. *)
Definition de_ok (de : str) : Prop :=
  exists d1 lead cs, de = d1 ++ lead :: cs /\ is_cont lead = false /\ is_ws lead = false /\
    forallb is_cont cs = true /\ ~ In NL de /\
    (forall c, hd_error de = Some c -> is_cont c = false).

Definition sp_ok (ds de : str) : Prop := ds_ok ds /\ de_ok de.

(** The extra condition needed by [find_next_char] (and the block dedenter): the end delimiter
    does not start with a blank. *)
Definition de_nb (de : str) : Prop := forall c, hd_error de = Some c -> is_blank c = false.

(** The first symbol is not a continuation byte (position 0 is always a boundary). *)
Definition head_ok (l : list sym) : Prop :=
  match l with B c :: _ => is_cont c = false | _ => True end.

(* ------------------------------------------------------------------------- *)
(** * Lists *)

Lemma nth_mid {A} (pre d post : list A) k : k < length d ->
  nth_error (pre ++ d ++ post) (length pre + k) = nth_error d k.
Proof.
  intros H. rewrite nth_error_app2 by lia.
  replace (length pre + k - length pre) with k by lia. apply nth_error_app1. exact H.
Qed.

Lemma firstn_plus {A} (a b : nat) (l : list A) : firstn (a + b) l = firstn a l ++ firstn b (skipn a l).
Proof.
  revert l. induction a as [|a IH]; intros l; [reflexivity|].
  destruct l as [|x l]; cbn [Nat.add firstn skipn app].
  - destruct b; reflexivity.
  - f_equal. apply IH.
Qed.

Lemma firstn_S_nth {A} (l : list A) j x : nth_error l j = Some x -> firstn (S j) l = firstn j l ++ [x].
Proof.
  intros H. replace (S j) with (j + 1) by lia. rewrite firstn_plus. f_equal.
  apply nth_skipn_cons in H. destruct H as [tl ->]. reflexivity.
Qed.

Lemma split_nth {A} (l : list A) j x : nth_error l j = Some x ->
  l = firstn j l ++ x :: skipn (S j) l.
Proof.
  intros H. pose proof (firstn_skipn j l) as E. apply nth_skipn_cons in H. destruct H as [tl H].
  rewrite H in E. rewrite <- E at 1. f_equal. f_equal.
  replace (S j) with (j + 1) by lia. rewrite <- skipn_add, H. reflexivity.
Qed.

(* ------------------------------------------------------------------------- *)
(** * Rendering and positions *)

Lemma rs_app ds de a b : rs ds de (a ++ b) = rs ds de a ++ rs ds de b.
Proof. apply flat_map_app. Qed.

Lemma rs_split ds de l j x : nth_error l j = Some x ->
  rs ds de l = rs ds de (firstn j l) ++ rsym ds de x ++ rs ds de (skipn (S j) l).
Proof.
  intros H. rewrite (split_nth l j x H) at 1. rewrite rs_app. reflexivity.
Qed.

Lemma pos_S ds de l j x : nth_error l j = Some x ->
  pos ds de l (S j) = pos ds de l j + length (rsym ds de x).
Proof.
  intros H. unfold pos. rewrite (firstn_S_nth l j x H), rs_app, app_length.
  cbn [rs flat_map]. rewrite app_nil_r. reflexivity.
Qed.

Lemma pos_all ds de l j : length l <= j -> pos ds de l j = length (rs ds de l).
Proof. intros H. unfold pos. rewrite firstn_all2 by exact H. reflexivity. Qed.

Lemma pos_plus ds de l j d :
  pos ds de l (j + d) = pos ds de l j + length (rs ds de (firstn d (skipn j l))).
Proof. unfold pos. rewrite firstn_plus, rs_app, app_length. reflexivity. Qed.

Lemma pos_mono ds de l j j' : j <= j' -> pos ds de l j <= pos ds de l j'.
Proof. intros H. replace j' with (j + (j' - j)) by lia. rewrite pos_plus. lia. Qed.

Lemma pos_min ds de l x y : Nat.min (pos ds de l x) (pos ds de l y) = pos ds de l (Nat.min x y).
Proof.
  destruct (Nat.le_ge_cases x y) as [H|H].
  - rewrite (Nat.min_l x y H). apply Nat.min_l. apply pos_mono. exact H.
  - rewrite (Nat.min_r x y H). apply Nat.min_r. apply pos_mono. exact H.
Qed.

Lemma pos_max ds de l x y : Nat.max (pos ds de l x) (pos ds de l y) = pos ds de l (Nat.max x y).
Proof.
  destruct (Nat.le_ge_cases x y) as [H|H].
  - rewrite (Nat.max_r x y H). apply Nat.max_r. apply pos_mono. exact H.
  - rewrite (Nat.max_l x y H). apply Nat.max_l. apply pos_mono. exact H.
Qed.

(** Non-empty delimiters. *)
Definition ne2 (ds de : str) : Prop := ds <> [] /\ de <> [].

Lemma rsym_len ds de x : ne2 ds de -> 1 <= length (rsym ds de x).
Proof.
  intros [Hds Hde]. destruct x as [c| |]; cbn [rsym length]; [lia| |].
  - destruct ds; [congruence | cbn [length]; lia].
  - destruct de; [congruence | cbn [length]; lia].
Qed.

Lemma pos_S_lt ds de l j : ne2 ds de -> j < length l -> pos ds de l j < pos ds de l (S j).
Proof.
  intros Hne H. destruct (nth_error l j) as [x|] eqn:N.
  - rewrite (pos_S ds de l j x N). pose proof (rsym_len ds de x Hne). lia.
  - apply nth_error_None in N. lia.
Qed.

Lemma pos_strict ds de l j j' : ne2 ds de -> j < j' -> j' <= length l ->
  pos ds de l j < pos ds de l j'.
Proof.
  intros Hne H1 H2. pose proof (pos_S_lt ds de l j Hne ltac:(lia)).
  pose proof (pos_mono ds de l (S j) j' ltac:(lia)). lia.
Qed.

Lemma pos_lt_iff ds de l j j' : ne2 ds de -> j <= length l -> j' <= length l ->
  (pos ds de l j < pos ds de l j' <-> j < j').
Proof.
  intros Hne H1 H2. split; intros H.
  - destruct (Nat.lt_ge_cases j j') as [L|L]; [exact L|]. pose proof (pos_mono ds de l j' j L). lia.
  - apply pos_strict; assumption.
Qed.

Lemma pos_inj ds de l j j' : ne2 ds de -> j <= length l -> j' <= length l ->
  pos ds de l j = pos ds de l j' -> j = j'.
Proof.
  intros Hne H1 H2 E. destruct (Nat.lt_trichotomy j j') as [L|[L|L]]; [|exact L|].
  - pose proof (pos_strict ds de l j j' Hne L H2). lia.
  - pose proof (pos_strict ds de l j' j Hne L H1). lia.
Qed.

Lemma pos_ge ds de l j : ne2 ds de -> j <= length l -> j <= pos ds de l j.
Proof.
  intros Hne. induction j as [|j IH]; intros H; [lia|].
  pose proof (pos_S_lt ds de l j Hne ltac:(lia)). specialize (IH ltac:(lia)). lia.
Qed.

Lemma pos_zero ds de l j : ne2 ds de -> j <= length l -> pos ds de l j = 0 -> j = 0.
Proof. intros Hne H E. pose proof (pos_ge ds de l j Hne H). lia. Qed.

Lemma len_ge ds de l : ne2 ds de -> length l <= length (rs ds de l).
Proof. intros Hne. rewrite <- (pos_all ds de l (length l)) by lia. apply pos_ge; [exact Hne | lia]. Qed.

Lemma pos_le_len ds de l j : pos ds de l j <= length (rs ds de l).
Proof.
  destruct (Nat.le_ge_cases j (length l)) as [H|H].
  - rewrite <- (pos_all ds de l (length l)) by lia. apply pos_mono. exact H.
  - rewrite pos_all by exact H. lia.
Qed.

(** The byte at the position of a byte symbol. *)
Lemma pos_byte ds de l j c : nth_error l j = Some (B c) ->
  nth_error (rs ds de l) (pos ds de l j) = Some c /\ pos ds de l (S j) = S (pos ds de l j).
Proof.
  intros H. split.
  - rewrite (rs_split ds de l j _ H). unfold pos. rewrite nth_error_app2 by lia.
    rewrite Nat.sub_diag. reflexivity.
  - rewrite (pos_S ds de l j _ H). cbn [rsym length]. lia.
Qed.

(** A run of byte symbols: positions advance one by one. *)
Definition brun (l : list sym) (a b : nat) : Prop :=
  forall i, a <= i -> i < b -> exists c, nth_error l i = Some (B c).

Lemma pos_brun ds de l a b : a <= b -> brun l a b -> pos ds de l b = pos ds de l a + (b - a).
Proof.
  intros Hab H. induction b as [|b IH]; [replace a with 0 by lia; lia|].
  destruct (Nat.eq_dec a (S b)) as [->|Hne]; [lia|].
  destruct (H b ltac:(lia) ltac:(lia)) as [c Hc].
  destruct (pos_byte ds de l b c Hc) as [_ ->]. rewrite IH; [lia | lia |].
  intros i H1 H2. apply H; lia.
Qed.

Lemma pos_brun_add ds de l a b n : brun l a b -> a + n <= b -> pos ds de l (a + n) = pos ds de l a + n.
Proof.
  intros H Hn. rewrite (pos_brun ds de l a (a + n)); [lia | lia |].
  intros i H1 H2. apply H; lia.
Qed.

Lemma min_brun ds de l a b n : a <= b -> brun l a b ->
  Nat.min (pos ds de l a + n) (pos ds de l b) = pos ds de l (Nat.min (a + n) b).
Proof.
  intros Hab H. destruct (Nat.le_ge_cases (a + n) b) as [L|L].
  - rewrite (Nat.min_l (a + n) b L). rewrite (pos_brun_add ds de l a b n H L).
    apply Nat.min_l. rewrite <- (pos_brun_add ds de l a b n H L). apply pos_mono. exact L.
  - rewrite (Nat.min_r (a + n) b L). apply Nat.min_r. rewrite (pos_brun ds de l a b Hab H). lia.
Qed.

(* ------------------------------------------------------------------------- *)
(** * Delimiter facts *)

Lemma nth_error_skipn_add' {A} (l : list A) a k : nth_error (skipn a l) k = nth_error l (a + k).
Proof.
  revert l. induction a as [|a IH]; intros l; [reflexivity|].
  destruct l as [|x l]; cbn [skipn Nat.add nth_error].
  - destruct k; reflexivity.
  - apply IH.
Qed.

Lemma cont_not_ws c : is_cont c = true -> is_ws c = false.
Proof.
  unfold is_cont, is_ws, beq, SP, TAB, NL. intros H. apply andb_true_iff in H. destruct H as [H _].
  apply N.leb_le in H.
  destruct (N.eqb_spec c 32); [lia|]. destruct (N.eqb_spec c 9); [lia|].
  destruct (N.eqb_spec c 10); [lia|]. reflexivity.
Qed.

Lemma ws_split c : is_ws c = false -> is_blank c = false /\ beq c NL = false.
Proof.
  unfold is_ws, is_blank. intros H. apply orb_false_elim in H. destruct H as [H1 H2]. auto.
Qed.

Lemma ds_ok_ne ds : ds_ok ds -> ds <> [].
Proof. intros (d0 & ds' & -> & _). discriminate. Qed.

Lemma de_ok_ne de : de_ok de -> de <> [].
Proof. intros (d1 & lead & cs & -> & _). destruct d1; discriminate. Qed.

Lemma sp_ok_ne ds de : sp_ok ds de -> ne2 ds de.
Proof. intros [H1 H2]. split; [apply ds_ok_ne | apply de_ok_ne]; assumption. Qed.

(** The last byte of an end delimiter is neither a blank nor a line break. *)
Lemma de_ok_last de : de_ok de -> exists de' x, de = de' ++ [x] /\ is_blank x = false /\ beq x NL = false.
Proof.
  intros (d1 & lead & cs & -> & Hc & Hw & Hcs & _).
  destruct (@exists_last _ (lead :: cs) ltac:(discriminate)) as (l' & x & E).
  exists (d1 ++ l'), x. rewrite <- app_assoc, <- E. split; [reflexivity|].
  apply ws_split. destruct cs as [|c0 cs'].
  - destruct l' as [|y l']; [|destruct l'; discriminate E]. cbn in E. inversion E; subst. exact Hw.
  - apply cont_not_ws. rewrite forallb_forall in Hcs. apply Hcs.
    assert (In x (lead :: c0 :: cs')) as Hin by (rewrite E; apply in_or_app; right; left; reflexivity).
    destruct Hin as [<-|Hin]; [|exact Hin].
    exfalso. assert (length (lead :: c0 :: cs') = length (l' ++ [lead])) as HL by (rewrite E; reflexivity).
    (* lead is last and first: the only way is a list of length 1 *)
    clear HL.
    assert (last (lead :: c0 :: cs') lead = lead) as HL by (rewrite E; apply last_last).
    assert (In (last (c0 :: cs') lead) (c0 :: cs')) as Hi.
    { clear. generalize c0. induction cs' as [|z cs' IH]; intros c; [left; reflexivity|].
      right. apply IH. }
    cbn [last] in HL. change (last (c0 :: cs') lead = lead) in HL. rewrite HL in Hi.
    apply Hcs in Hi. congruence.
Qed.

(* ------------------------------------------------------------------------- *)
(** * The scanners, one step at a time *)

Definition clb (c : byte) : check_result :=
  if is_cont c then CSkip else if beq c SP || beq c TAB then CSkip
  else if beq c NL then CFound else CNone.
Definition cch (c : byte) : check_result :=
  if is_cont c then CSkip else if beq c SP || beq c TAB then CSkip else CFound.

Lemma is_boundary_at s p c : nth_error s p = Some c -> (p = 0 -> is_cont c = false) ->
  is_boundary s p = negb (is_cont c).
Proof.
  intros H H0. unfold is_boundary. destruct p; [rewrite H0; reflexivity|]. rewrite H. reflexivity.
Qed.

Lemma check_lb_at s p c : nth_error s p = Some c -> (p = 0 -> is_cont c = false) ->
  check_lb s p = clb c.
Proof.
  intros H H0. unfold check_lb, clb. rewrite (is_boundary_at s p c H H0), H.
  destruct (is_cont c); reflexivity.
Qed.

Lemma check_char_at s p c : nth_error s p = Some c -> (p = 0 -> is_cont c = false) ->
  check_char s p = cch c.
Proof.
  intros H H0. unfold check_char, cch. rewrite (is_boundary_at s p c H H0), H.
  destruct (is_cont c); reflexivity.
Qed.

Lemma check_lb_found s p : check_lb s p = CFound -> nth_error s p = Some NL.
Proof.
  unfold check_lb. destruct (negb (is_boundary s p)); [discriminate|].
  destruct (nth_error s p) as [b|]; [|discriminate].
  destruct (beq b SP || beq b TAB); [discriminate|].
  destruct (beq b NL) eqn:E; [|discriminate]. apply beq_eq in E. subst. reflexivity.
Qed.

Lemma clb_nonws c : is_cont c = false -> is_ws c = false -> clb c = CNone.
Proof.
  intros H1 H2. apply ws_split in H2. destruct H2 as [H2 H3]. unfold clb.
  unfold is_blank in H2. rewrite H1, H2, H3. reflexivity.
Qed.

Lemma clb_found c : clb c = CFound -> c = NL.
Proof.
  unfold clb. destruct (is_cont c); [discriminate|]. destruct (beq c SP || beq c TAB); [discriminate|].
  destruct (beq c NL) eqn:E; [|discriminate]. intros _. apply beq_eq. exact E.
Qed.

Lemma clb_NL : clb NL = CFound.
Proof. reflexivity. Qed.

Lemma nth_lt {A} (s : list A) p c : nth_error s p = Some c -> (length s <=? p) = false.
Proof.
  intros H. apply Nat.leb_gt. apply nth_error_Some. congruence.
Qed.

Lemma find_next_lb_unfold s p pause : find_next_lb s p pause =
  if length s <=? p then None
  else match check_lb s p with
       | CSkip => find_next_lb s (S p) pause
       | CFound => Some p
       | CNone => if pause then None else find_next_lb s (S p) pause
       end.
Proof.
  unfold find_next_lb. cbn [find_next_lb_loop].
  destruct (Nat.leb_spec (length s) p) as [L|L]; [reflexivity|].
  replace (length s - p) with (S (length s - S p)) by lia. reflexivity.
Qed.

Lemma find_next_char_unfold s p : find_next_char s p =
  if (length s <=? p) || (p =? 0) then None
  else match check_char s p with
       | CSkip => find_next_char s (S p)
       | CFound => Some p
       | CNone => None
       end.
Proof.
  unfold find_next_char. cbn [find_next_char_loop].
  destruct (Nat.leb_spec (length s) p) as [L|L]; [reflexivity|]. cbn [orb].
  replace (length s - p) with (S (length s - S p)) by lia. reflexivity.
Qed.

Lemma find_next_lb_end s p pause : length s <= p -> find_next_lb s p pause = None.
Proof.
  intros H. rewrite find_next_lb_unfold. apply Nat.leb_le in H. rewrite H. reflexivity.
Qed.

(** Forward, not pausing: anything but a line break is passed. *)
Lemma fnl_step_nonl s p c : nth_error s p = Some c -> c <> NL ->
  find_next_lb s p false = find_next_lb s (S p) false.
Proof.
  intros H Hc. rewrite find_next_lb_unfold, (nth_lt s p c H).
  destruct (check_lb s p) eqn:E; try reflexivity.
  apply check_lb_found in E. congruence.
Qed.

Lemma fnl_run_nonl s n : forall p,
  (forall k, k < n -> exists c, nth_error s (p + k) = Some c /\ c <> NL) ->
  find_next_lb s p false = find_next_lb s (p + n) false.
Proof.
  induction n as [|n IH]; intros p H; [rewrite Nat.add_0_r; reflexivity|].
  destruct (H 0 ltac:(lia)) as (c & Hc & Hn). rewrite Nat.add_0_r in Hc.
  rewrite (fnl_step_nonl s p c Hc Hn). rewrite (IH (S p)).
  - f_equal. lia.
  - intros k Hk. destruct (H (S k) ltac:(lia)) as (c' & Hc' & Hn'). exists c'.
    split; [|exact Hn']. rewrite <- Hc'. f_equal. lia.
Qed.

(** Forward, pausing: a non-whitespace character start stops the scan. *)
Lemma fnl_pause_stop s p c : nth_error s p = Some c -> is_cont c = false -> is_ws c = false ->
  find_next_lb s p true = None.
Proof.
  intros H H1 H2. rewrite find_next_lb_unfold, (nth_lt s p c H).
  rewrite (check_lb_at s p c H (fun _ => H1)), (clb_nonws c H1 H2). reflexivity.
Qed.

(** Forward, pausing, through a stretch without line breaks that ends in a stopper. *)
Lemma fnl_pause_run s n : forall p c,
  (forall k, k < n -> exists x, nth_error s (p + k) = Some x /\ x <> NL) ->
  nth_error s (p + n) = Some c -> is_cont c = false -> is_ws c = false ->
  find_next_lb s p true = None.
Proof.
  induction n as [|n IH]; intros p c H Hc H1 H2.
  - rewrite Nat.add_0_r in Hc. apply (fnl_pause_stop s p c); assumption.
  - destruct (H 0 ltac:(lia)) as (x & Hx & Hn). rewrite Nat.add_0_r in Hx.
    rewrite find_next_lb_unfold, (nth_lt s p x Hx).
    assert (find_next_lb s (S p) true = None) as HI.
    { apply (IH (S p) c); try assumption.
      - intros k Hk. destruct (H (S k) ltac:(lia)) as (x' & Hx' & Hn'). exists x'.
        split; [|exact Hn']. rewrite <- Hx'. f_equal. lia.
      - rewrite <- Hc. f_equal. lia. }
    destruct (check_lb s p) eqn:E; [exact HI | | reflexivity].
    apply check_lb_found in E. congruence.
Qed.

(** Backward, not pausing. *)
Lemma fpl_run_nonl s p n :
  (forall k, k < n -> exists c, nth_error s (p + k) = Some c /\ c <> NL) ->
  find_prev_lb s (p + n) false = find_prev_lb s p false.
Proof.
  induction n as [|n IH]; intros H; [rewrite Nat.add_0_r; reflexivity|].
  replace (p + S n) with (S (p + n)) by lia. cbn [find_prev_lb].
  destruct (H n ltac:(lia)) as (c & Hc & Hn). rewrite (nth_lt s _ c Hc).
  assert (find_prev_lb s (p + n) false = find_prev_lb s p false) as HI.
  { apply IH. intros k Hk. apply H. lia. }
  destruct (check_lb s (p + n)) eqn:E; try exact HI.
  apply check_lb_found in E. congruence.
Qed.

(** Backward, pausing, through a stretch without line breaks that begins with a stopper. *)
Lemma fpl_pause_run s p c : nth_error s p = Some c -> is_cont c = false -> is_ws c = false ->
  forall n, (forall k, k < n -> exists x, nth_error s (p + k) = Some x /\ x <> NL) ->
  1 <= n -> find_prev_lb s (p + n) true = None.
Proof.
  intros Hc H1 H2. induction n as [|n IH]; intros H Hn; [lia|].
  replace (p + S n) with (S (p + n)) by lia. cbn [find_prev_lb].
  destruct (H n ltac:(lia)) as (x & Hx & Hnl). rewrite (nth_lt s _ x Hx).
  destruct n as [|n].
  - rewrite Nat.add_0_r in *. rewrite (check_lb_at s p c Hc (fun _ => H1)), (clb_nonws c H1 H2).
    reflexivity.
  - assert (find_prev_lb s (p + S n) true = None) as HI.
    { apply IH; [|lia]. intros k Hk. apply H. lia. }
    destruct (check_lb s (p + S n)) eqn:E; [exact HI | | reflexivity].
    apply check_lb_found in E. congruence.
Qed.

(** Backward, pausing, over continuation bytes down to a stopper. *)
Lemma fpl_pause_conts s p c : nth_error s p = Some c -> is_cont c = false -> is_ws c = false ->
  forall n, (forall k, k < n -> exists x, nth_error s (S p + k) = Some x /\ is_cont x = true) ->
  find_prev_lb s (S p + n) true = None.
Proof.
  intros Hc H1 H2. induction n as [|n IH]; intros H.
  - rewrite Nat.add_0_r. cbn [find_prev_lb]. rewrite (nth_lt s p c Hc).
    rewrite (check_lb_at s p c Hc (fun _ => H1)), (clb_nonws c H1 H2). reflexivity.
  - replace (S p + S n) with (S (S p + n)) by lia. cbn [find_prev_lb].
    destruct (H n ltac:(lia)) as (x & Hx & Hcx). rewrite (nth_lt s _ x Hx).
    rewrite (check_lb_at s _ x Hx) by (intros; lia). unfold clb. rewrite Hcx.
    apply IH. intros k Hk. apply H. lia.
Qed.

(** [indent_loop], one step. *)
Lemma indent_loop_at s p c : nth_error s p = Some c -> (p = 0 -> is_cont c = false) ->
  indent_loop s (S p) =
  if is_cont c then indent_loop s p
  else if beq c SP || beq c TAB then indent_loop s p
  else if beq c NL then Some (S p) else None.
Proof.
  intros H H0. cbn [indent_loop]. rewrite (is_boundary_at s p c H H0), H.
  destruct (is_cont c); reflexivity.
Qed.

Lemma il_run s p c : nth_error s p = Some c -> is_cont c = false -> is_ws c = false ->
  forall n, (forall k, k < n -> exists x, nth_error s (p + k) = Some x /\ x <> NL) ->
  1 <= n -> indent_loop s (p + n) = None.
Proof.
  intros Hc H1 H2. pose proof (ws_split c H2) as [H3 H4]. unfold is_blank in H3.
  induction n as [|n IH]; intros H Hn; [lia|].
  replace (p + S n) with (S (p + n)) by lia.
  destruct n as [|n].
  - rewrite Nat.add_0_r. rewrite (indent_loop_at s p c Hc (fun _ => H1)), H1, H3, H4. reflexivity.
  - destruct (H (S n) ltac:(lia)) as (x & Hx & Hnl).
    rewrite (indent_loop_at s _ x Hx) by (intros; lia).
    assert (indent_loop s (p + S n) = None) as HI.
    { apply IH; [|lia]. intros k Hk. apply H. lia. }
    rewrite HI. destruct (is_cont x); [reflexivity|]. destruct (beq x SP || beq x TAB); [reflexivity|].
    destruct (beq x NL) eqn:E; [|reflexivity]. apply beq_eq in E. congruence.
Qed.

Lemma il_conts s p c : nth_error s p = Some c -> is_cont c = false -> is_ws c = false ->
  forall n, (forall k, k < n -> exists x, nth_error s (S p + k) = Some x /\ is_cont x = true) ->
  indent_loop s (S p + n) = None.
Proof.
  intros Hc H1 H2. pose proof (ws_split c H2) as [H3 H4]. unfold is_blank in H3.
  induction n as [|n IH]; intros H.
  - rewrite Nat.add_0_r. rewrite (indent_loop_at s p c Hc (fun _ => H1)), H1, H3, H4. reflexivity.
  - replace (S p + S n) with (S (S p + n)) by lia.
    destruct (H n ltac:(lia)) as (x & Hx & Hcx).
    rewrite (indent_loop_at s _ x Hx) by (intros; lia). rewrite Hcx.
    apply IH. intros k Hk. apply H. lia.
Qed.

(** [residue_is_blank], one step. *)
Lemma residue_at s p c : nth_error s p = Some c ->
  residue_is_blank s (S p) = if is_blank c then residue_is_blank s p else beq c NL.
Proof. intros H. cbn [residue_is_blank]. rewrite H. reflexivity. Qed.

Lemma residue_run s p c : nth_error s p = Some c -> is_ws c = false ->
  forall n, (forall k, k < n -> exists x, nth_error s (p + k) = Some x /\ x <> NL) ->
  1 <= n -> residue_is_blank s (p + n) = false.
Proof.
  intros Hc H2. pose proof (ws_split c H2) as [H3 H4].
  induction n as [|n IH]; intros H Hn; [lia|].
  replace (p + S n) with (S (p + n)) by lia.
  destruct n as [|n].
  - rewrite Nat.add_0_r. rewrite (residue_at s p c Hc), H3, H4. reflexivity.
  - destruct (H (S n) ltac:(lia)) as (x & Hx & Hnl). rewrite (residue_at s _ x Hx).
    destruct (is_blank x).
    + apply IH; [|lia]. intros k Hk. apply H. lia.
    + apply beq_neq. exact Hnl.
Qed.

(* ------------------------------------------------------------------------- *)
(** * Bytes of the rendering at and inside a symbol *)

Lemma rs_nth_in ds de l j x k : nth_error l j = Some x -> k < length (rsym ds de x) ->
  nth_error (rs ds de l) (pos ds de l j + k) = nth_error (rsym ds de x) k.
Proof.
  intros H Hk. rewrite (rs_split ds de l j x H). unfold pos. apply nth_mid. exact Hk.
Qed.

Lemma head_ok_pos0 ds de l j c : ne2 ds de -> head_ok l -> nth_error l j = Some (B c) ->
  pos ds de l j = 0 -> is_cont c = false.
Proof.
  intros Hne Hh Hn Hp.
  assert (j < length l) as Hj by (apply nth_error_Some; congruence).
  apply pos_zero in Hp; [|exact Hne | lia]. subst j.
  destruct l as [|y l]; [discriminate Hn|]. cbn in Hn. inversion Hn; subst. exact Hh.
Qed.

Lemma nth_not_NL (d : str) k : ~ In NL d -> k < length d -> exists x, nth_error d k = Some x /\ x <> NL.
Proof.
  intros Hn Hk. destruct (nth_error d k) as [x|] eqn:E.
  - exists x. split; [reflexivity|]. intros ->. apply nth_error_In in E. contradiction.
  - apply nth_error_None in E. lia.
Qed.

Lemma ds_run ds de l j : ds_ok ds -> nth_error l j = Some DS ->
  exists d0, nth_error (rs ds de l) (pos ds de l j) = Some d0 /\ is_cont d0 = false /\ is_ws d0 = false /\
    (forall k, k < length ds -> exists x, nth_error (rs ds de l) (pos ds de l j + k) = Some x /\ x <> NL) /\
    pos ds de l (S j) = pos ds de l j + length ds /\ 1 <= length ds.
Proof.
  intros (d0 & ds' & E & Hc & Hw & Hnl) Hn. exists d0.
  pose proof (rs_nth_in ds de l j DS) as R. cbn [rsym] in R.
  split; [|split; [exact Hc | split; [exact Hw | split; [|split]]]].
  - rewrite <- (Nat.add_0_r (pos ds de l j)). rewrite (R 0 Hn); [|subst ds; cbn; lia].
    subst ds. reflexivity.
  - intros k Hk. rewrite (R k Hn Hk). apply nth_not_NL; assumption.
  - apply (pos_S ds de l j DS Hn).
  - subst ds. cbn. lia.
Qed.

Lemma de_run ds de l j : de_ok de -> nth_error l j = Some DE ->
  exists n lead m,
    length de = n + 1 + m /\
    nth_error (rs ds de l) (pos ds de l j + n) = Some lead /\ is_cont lead = false /\ is_ws lead = false /\
    (forall k, k < length de -> exists x, nth_error (rs ds de l) (pos ds de l j + k) = Some x /\ x <> NL) /\
    (forall k, k < m -> exists x, nth_error (rs ds de l) (S (pos ds de l j + n) + k) = Some x /\ is_cont x = true) /\
    pos ds de l (S j) = pos ds de l j + length de /\
    (exists c0, nth_error (rs ds de l) (pos ds de l j) = Some c0 /\ is_cont c0 = false /\
                (de_nb de -> is_blank c0 = false)) /\
    (exists x, nth_error (rs ds de l) (pos ds de l j + (n + m)) = Some x /\ is_blank x = false /\ beq x NL = false).
Proof.
  intros Hok Hn. pose proof (de_ok_last de Hok) as (de' & xl & El & Hxl1 & Hxl2).
  destruct Hok as (d1 & lead & cs & E & Hc & Hw & Hcs & Hnl & Hhd).
  exists (length d1), lead, (length cs).
  pose proof (rs_nth_in ds de l j DE) as R. cbn [rsym] in R.
  assert (length de = length d1 + 1 + length cs) as HL.
  { rewrite E, app_length. cbn [length]. lia. }
  split; [exact HL|]. split; [|split; [exact Hc | split; [exact Hw | split; [|split; [|split; [|split]]]]]].
  - rewrite (R (length d1) Hn) by lia. rewrite E, nth_error_app2 by lia.
    rewrite Nat.sub_diag. reflexivity.
  - intros k Hk. rewrite (R k Hn Hk). apply nth_not_NL; assumption.
  - intros k Hk. replace (S (pos ds de l j + length d1) + k) with (pos ds de l j + (length d1 + 1 + k)) by lia.
    rewrite (R _ Hn) by lia. rewrite E, nth_error_app2 by lia.
    replace (length d1 + 1 + k - length d1) with (S k) by lia. cbn [nth_error].
    destruct (nth_error cs k) as [x|] eqn:N.
    + exists x. split; [reflexivity|]. rewrite forallb_forall in Hcs. apply Hcs.
      apply nth_error_In in N. exact N.
    + apply nth_error_None in N. lia.
  - apply (pos_S ds de l j DE Hn).
  - destruct (nth_error de 0) as [c0|] eqn:N0; [|apply nth_error_None in N0; lia]. exists c0.
    rewrite <- (Nat.add_0_r (pos ds de l j)) at 1. rewrite (R 0 Hn) by lia.
    split; [exact N0|].
    assert (hd_error de = Some c0) as Hh0 by (destruct de; cbn in *; congruence).
    split; [apply Hhd; exact Hh0 | intros Hb; apply Hb; exact Hh0].
  - exists xl. rewrite (R _ Hn) by lia. split; [|split; assumption].
    assert (length de' = length d1 + length cs) as HL'.
    { rewrite El, app_length in HL. cbn [length] in HL. lia. }
    rewrite El, nth_error_app2 by lia. rewrite HL', Nat.sub_diag. reflexivity.
Qed.

(* ------------------------------------------------------------------------- *)
(** * The abstract finders *)

Fixpoint nlb_f (fuel : nat) (l : list sym) (j : nat) (pause : bool) : option nat :=
  match fuel with
  | 0 => None
  | S f =>
    match nth_error l j with
    | None => None
    | Some (B c) =>
      match clb c with
      | CSkip => nlb_f f l (S j) pause
      | CFound => Some j
      | CNone => if pause then None else nlb_f f l (S j) pause
      end
    | Some _ => if pause then None else nlb_f f l (S j) pause
    end
  end.
Definition a_next_lb (l : list sym) (j : nat) (pause : bool) : option nat :=
  nlb_f (length l - j) l j pause.

Fixpoint a_prev_lb (l : list sym) (j : nat) (pause : bool) : option nat :=
  match j with
  | 0 => None
  | S j' =>
    match nth_error l j' with
    | None => None
    | Some (B c) =>
      match clb c with
      | CSkip => a_prev_lb l j' pause
      | CFound => Some j'
      | CNone => if pause then None else a_prev_lb l j' pause
      end
    | Some _ => if pause then None else a_prev_lb l j' pause
    end
  end.

Fixpoint nch_f (fuel : nat) (l : list sym) (j : nat) : option nat :=
  match fuel with
  | 0 => None
  | S f =>
    match nth_error l j with
    | None => None
    | Some (B c) =>
      match cch c with
      | CSkip => nch_f f l (S j)
      | _ => Some j
      end
    | Some _ => Some j
    end
  end.
Definition a_next_char (l : list sym) (j : nat) : option nat :=
  if j =? 0 then None else nch_f (length l - j) l j.

(** ** find_next_lb *)

Lemma nlb_f_correct ds de l pause : sp_ok ds de -> head_ok l ->
  forall fuel j, length l - j <= fuel -> j <= length l ->
  find_next_lb (rs ds de l) (pos ds de l j) pause = option_map (pos ds de l) (nlb_f fuel l j pause).
Proof.
  intros Hsp Hh. pose proof (sp_ok_ne ds de Hsp) as Hne. destruct Hsp as [Hs He].
  induction fuel as [|f IH]; intros j Hf Hj.
  - cbn [nlb_f option_map]. apply find_next_lb_end. rewrite pos_all by lia. lia.
  - cbn [nlb_f]. destruct (nth_error l j) as [x|] eqn:N.
    2:{ apply nth_error_None in N. cbn [option_map]. apply find_next_lb_end. rewrite pos_all by lia. lia. }
    assert (j < length l) as Hlt by (apply nth_error_Some; congruence).
    destruct x as [c| |].
    + destruct (pos_byte ds de l j c N) as [Hb HS].
      rewrite find_next_lb_unfold, (nth_lt _ _ c Hb).
      rewrite (check_lb_at _ _ c Hb (head_ok_pos0 ds de l j c Hne Hh N)).
      rewrite <- HS. destruct (clb c); [apply IH; lia | reflexivity |].
      destruct pause; [reflexivity | apply IH; lia].
    + destruct (ds_run ds de l j Hs N) as (d0 & H0 & Hc & Hw & Hrun & HS & _).
      destruct pause.
      * cbn [option_map]. apply (fnl_pause_stop _ _ d0); assumption.
      * rewrite (fnl_run_nonl _ (length ds) _ Hrun). rewrite <- HS. apply IH; lia.
    + destruct (de_run ds de l j He N) as (n & lead & m & HL & Hlead & Hc & Hw & Hrun & _ & HS & _).
      destruct pause.
      * cbn [option_map]. apply (fnl_pause_run _ n _ lead); try assumption.
        intros k Hk. apply Hrun. lia.
      * rewrite (fnl_run_nonl _ (length de) _ Hrun). rewrite <- HS. apply IH; lia.
Qed.

Theorem next_lb_flat ds de l j pause : sp_ok ds de -> head_ok l -> j <= length l ->
  find_next_lb (rs ds de l) (pos ds de l j) pause = option_map (pos ds de l) (a_next_lb l j pause).
Proof. intros Hsp Hh Hj. apply nlb_f_correct; try assumption. lia. Qed.

Lemma nlb_f_some l pause : forall fuel j p, nlb_f fuel l j pause = Some p ->
  j <= p /\ nth_error l p = Some (B NL) /\ (pause = true -> brun l j p).
Proof.
  induction fuel as [|f IH]; intros j p H; [discriminate H|].
  cbn [nlb_f] in H. destruct (nth_error l j) as [x|] eqn:N; [|discriminate H].
  assert (forall q, nlb_f f l (S j) pause = Some q -> (pause = true -> exists c, x = B c) ->
            j <= q /\ nth_error l q = Some (B NL) /\ (pause = true -> brun l j q)) as Hrec.
  { intros q Hq Hx. destruct (IH _ _ Hq) as (I1 & I2 & I3). split; [lia|]. split; [exact I2|].
    intros Hp i Hi1 Hi2. destruct (Nat.eq_dec i j) as [->|Hne].
    - destruct (Hx Hp) as [c ->]. exists c. exact N.
    - apply (I3 Hp); lia. }
  destruct x as [c| |].
  - destruct (clb c) eqn:C.
    + apply Hrec; [exact H | intros _; exists c; reflexivity].
    + inversion H; subst p. apply clb_found in C. subst c. split; [lia|]. split; [exact N|].
      intros _ i Hi1 Hi2. lia.
    + destruct pause; [discriminate H|]. apply Hrec; [exact H | intros; discriminate].
  - destruct pause; [discriminate H|]. apply Hrec; [exact H | intros; discriminate].
  - destruct pause; [discriminate H|]. apply Hrec; [exact H | intros; discriminate].
Qed.

Lemma a_next_lb_some l j pause p : a_next_lb l j pause = Some p ->
  j <= p /\ p < length l /\ nth_error l p = Some (B NL) /\ (pause = true -> brun l j p).
Proof.
  intros H. apply nlb_f_some in H. destruct H as (H1 & H2 & H3).
  split; [exact H1|]. split; [apply nth_error_Some; congruence|]. split; assumption.
Qed.

(** ** find_prev_lb *)

Theorem prev_lb_flat ds de l pause : sp_ok ds de -> head_ok l ->
  forall j, j <= length l ->
  find_prev_lb (rs ds de l) (pos ds de l j) pause = option_map (pos ds de l) (a_prev_lb l j pause).
Proof.
  intros Hsp Hh. pose proof (sp_ok_ne ds de Hsp) as Hne. destruct Hsp as [Hs He].
  induction j as [|j IH]; intros Hj; [reflexivity|].
  cbn [a_prev_lb]. destruct (nth_error l j) as [x|] eqn:N.
  2:{ apply nth_error_None in N. lia. }
  destruct x as [c| |].
  - destruct (pos_byte ds de l j c N) as [Hb HS]. rewrite HS. cbn [find_prev_lb].
    rewrite (nth_lt _ _ c Hb), (check_lb_at _ _ c Hb (head_ok_pos0 ds de l j c Hne Hh N)).
    destruct (clb c); [apply IH; lia | reflexivity |].
    destruct pause; [reflexivity | apply IH; lia].
  - destruct (ds_run ds de l j Hs N) as (d0 & H0 & Hc & Hw & Hrun & HS & H1).
    rewrite HS. destruct pause.
    + cbn [option_map]. apply (fpl_pause_run _ _ d0); assumption.
    + rewrite (fpl_run_nonl _ _ (length ds) Hrun). apply IH. lia.
  - destruct (de_run ds de l j He N) as (n & lead & m & HL & Hlead & Hc & Hw & Hrun & Hcs & HS & _).
    rewrite HS. destruct pause.
    + cbn [option_map]. replace (pos ds de l j + length de) with (S (pos ds de l j + n) + m) by lia.
      apply (fpl_pause_conts _ _ lead); assumption.
    + rewrite (fpl_run_nonl _ _ (length de) Hrun). apply IH. lia.
Qed.

Lemma a_prev_lb_some l pause : forall j p, a_prev_lb l j pause = Some p ->
  p < j /\ nth_error l p = Some (B NL) /\ (pause = true -> brun l p j).
Proof.
  induction j as [|j IH]; intros p H; [discriminate H|].
  cbn [a_prev_lb] in H. destruct (nth_error l j) as [x|] eqn:N; [|discriminate H].
  assert (a_prev_lb l j pause = Some p -> (pause = true -> exists c, x = B c) ->
          p < S j /\ nth_error l p = Some (B NL) /\ (pause = true -> brun l p (S j))) as Hrec.
  { intros Hq Hx. destruct (IH _ Hq) as (I1 & I2 & I3). split; [lia|]. split; [exact I2|].
    intros Hp i Hi1 Hi2. destruct (Nat.eq_dec i j) as [->|Hne].
    - destruct (Hx Hp) as [c ->]. exists c. exact N.
    - apply (I3 Hp); lia. }
  destruct x as [c| |].
  - destruct (clb c) eqn:C.
    + apply Hrec; [exact H | intros _; exists c; reflexivity].
    + inversion H; subst p. apply clb_found in C. subst c. split; [lia|]. split; [exact N|].
      intros _ i Hi1 Hi2. assert (i = j) as -> by lia. exists NL. exact N.
    + destruct pause; [discriminate H|]. apply Hrec; [exact H | intros; discriminate].
  - destruct pause; [discriminate H|]. apply Hrec; [exact H | intros; discriminate].
  - destruct pause; [discriminate H|]. apply Hrec; [exact H | intros; discriminate].
Qed.

(** ** find_next_char *)

Lemma find_next_char_end s p : length s <= p -> find_next_char s p = None.
Proof.
  intros H. rewrite find_next_char_unfold. apply Nat.leb_le in H. rewrite H. reflexivity.
Qed.

Lemma fnc_found s p c : nth_error s p = Some c -> p <> 0 -> is_cont c = false -> is_blank c = false ->
  find_next_char s p = Some p.
Proof.
  intros H Hp H1 H2. rewrite find_next_char_unfold, (nth_lt s p c H).
  apply Nat.eqb_neq in Hp. rewrite Hp. cbn [orb].
  rewrite (check_char_at s p c H (fun _ => H1)). unfold cch. unfold is_blank in H2. rewrite H1, H2.
  reflexivity.
Qed.

Lemma nch_f_correct ds de l : sp_ok ds de ->
  forall fuel j, length l - j <= fuel -> j <= length l -> j <> 0 ->
  (forall e, nch_f fuel l j = Some e -> nth_error l e = Some DE -> de_nb de) ->
  find_next_char (rs ds de l) (pos ds de l j) = option_map (pos ds de l) (nch_f fuel l j).
Proof.
  intros Hsp. pose proof (sp_ok_ne ds de Hsp) as Hne. destruct Hsp as [Hs He].
  induction fuel as [|f IH]; intros j Hf Hj H0 Hnb.
  - cbn [nch_f option_map]. apply find_next_char_end. rewrite pos_all by lia. lia.
  - cbn [nch_f] in Hnb |- *. destruct (nth_error l j) as [x|] eqn:N.
    2:{ apply nth_error_None in N. cbn [option_map]. apply find_next_char_end. rewrite pos_all by lia. lia. }
    assert (j < length l) as Hlt by (apply nth_error_Some; congruence).
    assert (pos ds de l j <> 0) as Hp0.
    { intros E. apply pos_zero in E; [lia | exact Hne | lia]. }
    destruct x as [c| |].
    + destruct (pos_byte ds de l j c N) as [Hb HS].
      rewrite find_next_char_unfold, (nth_lt _ _ c Hb).
      apply Nat.eqb_neq in Hp0. rewrite Hp0. cbn [orb]. apply Nat.eqb_neq in Hp0.
      rewrite (check_char_at _ _ c Hb) by (intros; lia).
      rewrite <- HS. destruct (cch c) eqn:C; [apply IH; try lia; exact Hnb | reflexivity |].
      unfold cch in C. destruct (is_cont c); [discriminate|].
      destruct (beq c SP || beq c TAB); discriminate.
    + destruct (ds_run ds de l j Hs N) as (d0 & Hd0 & Hc & Hw & _).
      cbn [option_map]. apply (fnc_found _ _ d0); try assumption. apply ws_split in Hw. tauto.
    + destruct (de_run ds de l j He N) as (n & lead & m & _ & _ & _ & _ & _ & _ & _ & (c0 & Hc0 & Hc & Hb) & _).
      cbn [option_map]. apply (fnc_found _ _ c0); try assumption.
      apply Hb. apply (Hnb j); [reflexivity | exact N].
Qed.

(** The general form: the end delimiter may start with a blank as long as the scan does not
    end at an end delimiter. *)
Theorem next_char_flat_gen ds de l j : sp_ok ds de -> j <= length l ->
  (forall e, a_next_char l j = Some e -> nth_error l e = Some DE -> de_nb de) ->
  find_next_char (rs ds de l) (pos ds de l j) = option_map (pos ds de l) (a_next_char l j).
Proof.
  intros Hsp Hj. unfold a_next_char. destruct (Nat.eqb_spec j 0) as [->|H0]; intros Hnb.
  - cbn [option_map]. rewrite find_next_char_unfold. rewrite orb_true_r. reflexivity.
  - apply nch_f_correct; try assumption. lia.
Qed.

Theorem next_char_flat ds de l j : sp_ok ds de -> de_nb de -> j <= length l ->
  find_next_char (rs ds de l) (pos ds de l j) = option_map (pos ds de l) (a_next_char l j).
Proof. intros Hsp Hnb Hj. apply next_char_flat_gen; auto. Qed.

Lemma nch_f_some l : forall fuel j e, nch_f fuel l j = Some e ->
  j <= e /\ e < length l /\ brun l j e.
Proof.
  induction fuel as [|f IH]; intros j e H; [discriminate H|].
  cbn [nch_f] in H. destruct (nth_error l j) as [x|] eqn:N; [|discriminate H].
  assert (j < length l) as Hlt by (apply nth_error_Some; congruence).
  assert (Some j = Some e -> j <= e /\ e < length l /\ brun l j e) as Hhere.
  { intros E. inversion E; subst e. split; [lia|]. split; [exact Hlt|]. intros i H1 H2. lia. }
  destruct x as [c| |]; [|apply Hhere; exact H | apply Hhere; exact H].
  destruct (cch c); [|apply Hhere; exact H | apply Hhere; exact H].
  destruct (IH _ _ H) as (I1 & I2 & I3). split; [lia|]. split; [exact I2|].
  intros i Hi1 Hi2. destruct (Nat.eq_dec i j) as [->|Hne]; [exists c; exact N | apply I3; lia].
Qed.

Lemma a_next_char_some l j e : a_next_char l j = Some e -> j <= e /\ e < length l /\ brun l j e.
Proof.
  unfold a_next_char. destruct (j =? 0); [discriminate|]. apply nch_f_some.
Qed.

(* ------------------------------------------------------------------------- *)
(** * The pieces of the seam formatters *)

Fixpoint a_indent_loop (l : list sym) (j : nat) : option nat :=
  match j with
  | 0 => None
  | S j' =>
    match nth_error l j' with
    | Some (B c) =>
      if is_cont c then a_indent_loop l j'
      else if beq c SP || beq c TAB then a_indent_loop l j'
      else if beq c NL then Some (S j') else None
    | _ => None
    end
  end.

Fixpoint a_residue (l : list sym) (j : nat) : bool :=
  match j with
  | 0 => true
  | S j' =>
    match nth_error l j' with
    | Some (B c) => if is_blank c then a_residue l j' else beq c NL
    | _ => false
    end
  end.

Definition a_boundary (l : list sym) (j : nat) : bool :=
  match nth_error l j with Some (B c) => negb (is_cont c) | _ => true end.
Definition a_is_nl (l : list sym) (j : nat) : bool :=
  match nth_error l j with Some (B c) => beq c NL | _ => false end.

Theorem indent_loop_flat ds de l : sp_ok ds de -> head_ok l -> forall j, j <= length l ->
  indent_loop (rs ds de l) (pos ds de l j) = option_map (pos ds de l) (a_indent_loop l j).
Proof.
  intros Hsp Hh. pose proof (sp_ok_ne ds de Hsp) as Hne. destruct Hsp as [Hs He].
  induction j as [|j IH]; intros Hj; [reflexivity|].
  cbn [a_indent_loop]. destruct (nth_error l j) as [x|] eqn:N.
  2:{ apply nth_error_None in N. lia. }
  destruct x as [c| |].
  - destruct (pos_byte ds de l j c N) as [Hb HS]. rewrite HS.
    rewrite (indent_loop_at _ _ c Hb (head_ok_pos0 ds de l j c Hne Hh N)). rewrite <- HS.
    destruct (is_cont c); [apply IH; lia|]. destruct (beq c SP || beq c TAB); [apply IH; lia|].
    destruct (beq c NL); reflexivity.
  - destruct (ds_run ds de l j Hs N) as (d0 & H0 & Hc & Hw & Hrun & HS & H1).
    rewrite HS. cbn [option_map]. apply (il_run _ _ d0); assumption.
  - destruct (de_run ds de l j He N) as (n & lead & m & HL & Hlead & Hc & Hw & Hrun & Hcs & HS & _).
    rewrite HS. cbn [option_map].
    replace (pos ds de l j + length de) with (S (pos ds de l j + n) + m) by lia.
    apply (il_conts _ _ lead); assumption.
Qed.

Lemma a_indent_loop_le l : forall j c, a_indent_loop l j = Some c -> c <= j.
Proof.
  induction j as [|j IH]; intros c H; [discriminate H|].
  cbn [a_indent_loop] in H. destruct (nth_error l j) as [[x| |]|]; try discriminate H.
  destruct (is_cont x); [apply IH in H; lia|]. destruct (beq x SP || beq x TAB); [apply IH in H; lia|].
  destruct (beq x NL); [|discriminate H]. inversion H. lia.
Qed.

Theorem residue_flat ds de l : sp_ok ds de -> forall j, j <= length l ->
  residue_is_blank (rs ds de l) (pos ds de l j) = a_residue l j.
Proof.
  intros [Hs He]. induction j as [|j IH]; intros Hj; [reflexivity|].
  cbn [a_residue]. destruct (nth_error l j) as [x|] eqn:N.
  2:{ apply nth_error_None in N. lia. }
  destruct x as [c| |].
  - destruct (pos_byte ds de l j c N) as [Hb HS]. rewrite HS, (residue_at _ _ c Hb).
    destruct (is_blank c); [apply IH; lia | reflexivity].
  - destruct (ds_run ds de l j Hs N) as (d0 & H0 & Hc & Hw & Hrun & HS & H1).
    rewrite HS. apply (residue_run _ _ d0); assumption.
  - destruct (de_run ds de l j He N) as (n & lead & m & HL & _ & _ & _ & _ & _ & HS & _ & (x & Hx & Hx1 & Hx2)).
    rewrite HS. replace (pos ds de l j + length de) with (S (pos ds de l j + (n + m))) by lia.
    rewrite (residue_at _ _ x Hx), Hx1. exact Hx2.
Qed.

Theorem boundary_flat ds de l j : sp_ok ds de -> head_ok l -> j <= length l ->
  is_boundary (rs ds de l) (pos ds de l j) = a_boundary l j.
Proof.
  intros Hsp Hh Hj. pose proof (sp_ok_ne ds de Hsp) as Hne. destruct Hsp as [Hs He].
  unfold a_boundary. destruct (nth_error l j) as [x|] eqn:N.
  - destruct x as [c| |].
    + destruct (pos_byte ds de l j c N) as [Hb _].
      apply (is_boundary_at _ _ c Hb (head_ok_pos0 ds de l j c Hne Hh N)).
    + destruct (ds_run ds de l j Hs N) as (d0 & H0 & Hc & _).
      rewrite (is_boundary_at _ _ d0 H0 (fun _ => Hc)), Hc. reflexivity.
    + destruct (de_run ds de l j He N) as (n & lead & m & _ & _ & _ & _ & _ & _ & _ & (c0 & Hc0 & Hc & _) & _).
      rewrite (is_boundary_at _ _ c0 Hc0 (fun _ => Hc)), Hc. reflexivity.
  - apply nth_error_None in N. rewrite pos_all by lia. apply is_boundary_length.
Qed.

Theorem is_nl_flat ds de l j : sp_ok ds de -> j <= length l ->
  match nth_error (rs ds de l) (pos ds de l j) with Some b => beq b NL | None => false end = a_is_nl l j.
Proof.
  intros [Hs He] Hj. unfold a_is_nl. destruct (nth_error l j) as [x|] eqn:N.
  - destruct x as [c| |].
    + destruct (pos_byte ds de l j c N) as [Hb _]. rewrite Hb. reflexivity.
    + destruct (ds_run ds de l j Hs N) as (d0 & H0 & Hc & Hw & _). rewrite H0.
      apply ws_split in Hw. tauto.
    + destruct (de_run ds de l j He N) as (n & lead & m & HL & _ & _ & _ & Hrun & _).
      destruct (Hrun 0 ltac:(lia)) as (x & Hx & Hnl). rewrite Nat.add_0_r in Hx. rewrite Hx.
      apply beq_neq. exact Hnl.
  - apply nth_error_None in N. rewrite pos_all by lia.
    destruct (nth_error (rs ds de l) (length (rs ds de l))) eqn:E; [|reflexivity].
    assert (nth_error (rs ds de l) (length (rs ds de l)) <> None) as E' by congruence.
    apply nth_error_Some in E'. lia.
Qed.

Lemma len_leb_flat ds de l j : sp_ok ds de -> j <= length l ->
  (length (rs ds de l) <=? pos ds de l j) = (length l <=? j).
Proof.
  intros Hsp Hj. pose proof (sp_ok_ne ds de Hsp) as Hne.
  rewrite <- (pos_all ds de l (length l)) by lia.
  destruct (Nat.leb_spec (length l) j) as [L|L].
  - apply Nat.leb_le. apply pos_mono. exact L.
  - apply Nat.leb_gt. apply pos_strict; [exact Hne | exact L | lia].
Qed.

Lemma a_is_nl_true l j : a_is_nl l j = true -> nth_error l j = Some (B NL).
Proof.
  unfold a_is_nl. destruct (nth_error l j) as [[c| |]|]; try discriminate.
  intros H. apply beq_eq in H. subst. reflexivity.
Qed.

Lemma pos_after_nl ds de l p : nth_error l p = Some (B NL) -> pos ds de l p + 1 = pos ds de l (S p).
Proof. intros H. destruct (pos_byte ds de l p NL H) as [_ ->]. lia. Qed.

Lemma nth_lt_len {A} (l : list A) p x : nth_error l p = Some x -> p < length l.
Proof. intros H. apply nth_error_Some. congruence. Qed.

(* ------------------------------------------------------------------------- *)
(** * [all_blank_before]: only blanks in front of a position *)

(** A symbol that renders to blanks only: a blank byte.  A start delimiter begins with a
    non-whitespace byte and an end delimiter's last character is not whitespace ([ds_ok] /
    [de_ok]), so a delimiter never does. *)
Definition sym_blank (x : sym) : bool := match x with B c => is_blank c | _ => false end.
Definition a_all_blank_before (l : list sym) (j : nat) : bool := forallb sym_blank (firstn j l).

Lemma ws_false_blank c : is_ws c = false -> is_blank c = false.
Proof. intros H. apply ws_split in H. tauto. Qed.

Lemma ds_not_blank ds : ds_ok ds -> forallb is_blank ds = false.
Proof.
  intros (d0 & ds' & -> & _ & Hw & _). cbn [forallb]. rewrite (ws_false_blank d0 Hw). reflexivity.
Qed.

Lemma de_not_blank de : de_ok de -> forallb is_blank de = false.
Proof.
  intros (d1 & lead & cs & -> & _ & Hw & _). rewrite forallb_app. cbn [forallb].
  rewrite (ws_false_blank lead Hw). cbn [andb]. apply andb_false_r.
Qed.

Lemma rs_all_blank ds de : sp_ok ds de -> forall m,
  forallb is_blank (rs ds de m) = forallb sym_blank m.
Proof.
  intros [Hs He]. induction m as [|x m IH]; [reflexivity|].
  change (rs ds de (x :: m)) with (rsym ds de x ++ rs ds de m).
  rewrite forallb_app, IH. cbn [forallb]. destruct x as [c| |]; cbn [rsym sym_blank].
  - cbn [forallb]. rewrite andb_true_r. reflexivity.
  - rewrite (ds_not_blank ds Hs). reflexivity.
  - rewrite (de_not_blank de He). reflexivity.
Qed.

Lemma firstn_pos ds de l j : firstn (pos ds de l j) (rs ds de l) = rs ds de (firstn j l).
Proof.
  unfold pos. rewrite <- (firstn_skipn j l) at 2. rewrite rs_app.
  rewrite firstn_app, Nat.sub_diag, firstn_all. cbn [firstn]. apply app_nil_r.
Qed.

Theorem all_blank_before_flat ds de l j : sp_ok ds de ->
  all_blank_before (rs ds de l) (pos ds de l j) = a_all_blank_before l j.
Proof.
  intros Hsp. unfold all_blank_before, a_all_blank_before. rewrite firstn_pos.
  apply rs_all_blank. exact Hsp.
Qed.

Lemma a_all_blank_before_nth : forall l j i x, a_all_blank_before l j = true -> i < j ->
  nth_error l i = Some x -> sym_blank x = true.
Proof.
  unfold a_all_blank_before. induction l as [|y l IH]; intros j i x H Hi N; [destruct i; discriminate N|].
  destruct j as [|j]; [lia|]. cbn [firstn forallb] in H. apply andb_true_iff in H. destruct H as [H1 H2].
  destruct i as [|i]; cbn [nth_error] in N.
  - inversion N; subst x. exact H1.
  - apply (IH j i x H2); [lia | exact N].
Qed.

Lemma a_all_blank_before_brun l j : a_all_blank_before l j = true -> j <= length l -> brun l 0 j.
Proof.
  intros H Hj i _ Hi.
  destruct (nth_error l i) as [x|] eqn:N; [|apply nth_error_None in N; lia].
  pose proof (a_all_blank_before_nth l j i x H Hi N) as Hx.
  destruct x as [c| |]; [exists c; reflexivity | discriminate Hx | discriminate Hx].
Qed.

Lemma pos_0 ds de l : pos ds de l 0 = 0.
Proof. reflexivity. Qed.

(* ------------------------------------------------------------------------- *)
(** * The seam formatters and their hull *)

Definition a_two_next (l : list sym) (j : nat) : option nat :=
  match a_next_lb l j true with Some p => a_next_lb l (S p) true | None => None end.
Definition a_two_prev (l : list sym) (j : nat) : option nat :=
  match a_prev_lb l j true with Some p => a_prev_lb l p true | None => None end.

Theorem two_next_flat ds de l j : sp_ok ds de -> head_ok l -> j <= length l ->
  two_next (rs ds de l) (pos ds de l j) = option_map (pos ds de l) (a_two_next l j).
Proof.
  intros Hsp Hh Hj. unfold two_next, a_two_next. rewrite (next_lb_flat ds de l j true Hsp Hh Hj).
  destruct (a_next_lb l j true) as [p|] eqn:F; [|reflexivity]. cbn [option_map].
  apply a_next_lb_some in F. destruct F as (F1 & F2 & F3 & _).
  rewrite (pos_after_nl ds de l p F3). apply next_lb_flat; assumption.
Qed.

Theorem two_prev_flat ds de l j : sp_ok ds de -> head_ok l -> j <= length l ->
  two_prev (rs ds de l) (pos ds de l j) = option_map (pos ds de l) (a_two_prev l j).
Proof.
  intros Hsp Hh Hj. unfold two_prev, a_two_prev. rewrite (prev_lb_flat ds de l true Hsp Hh j Hj).
  destruct (a_prev_lb l j true) as [p|] eqn:F; [|reflexivity]. cbn [option_map].
  apply a_prev_lb_some in F. destruct F as (F1 & _).
  apply prev_lb_flat; try assumption. lia.
Qed.

Lemma is_none_map {A B} (f : A -> B) o : is_none (option_map f o) = is_none o.
Proof. destruct o; reflexivity. Qed.

Definition a_indent_remover (l : list sym) (j : nat) : res (nat * nat) :=
  if (length l <=? j) || negb (a_boundary l j) || negb (a_is_nl l j) then Ok (j, j)
  else match a_indent_loop l j with Some c => Ok (c, j) | None => Ok (j, j) end.

Definition a_empty_line_remover (l : list sym) (j : nat) : res (nat * nat) :=
  if negb (a_boundary l j) then Panic
  else if negb (a_is_nl l j) then Ok (j, j)
  else if negb (a_residue l j) then Ok (j, j)
  else if is_none (a_two_next l j) && is_none (a_two_prev l j) then Ok (j, S j)
  else Ok (j, j).

Definition a_prev_line_break_remover (l : list sym) (j : nat) : res (nat * nat) :=
  match a_two_prev l j with Some lb => Ok (S lb, j) | None => Ok (j, j) end.

Definition a_next_line_break_remover (l : list sym) (j : nat) : res (nat * nat) :=
  if negb (a_boundary l j) then Ok (j, j)
  else if negb (a_residue l j) then Ok (j, j)
  else match a_two_next l j with Some lb => Ok (j, lb) | None => Ok (j, j) end.

Definition a_seam_formatters : list (list sym -> nat -> res (nat * nat)) :=
  [a_indent_remover; a_empty_line_remover; a_prev_line_break_remover; a_next_line_break_remover].

Definition a_seam_hull_of (l : list sym) (j : nat) : res (nat * nat) :=
  foldM (fun (r : nat * nat) f =>
           '(a, b) <- f l j ;;
           Ok (Nat.min a (fst r), Nat.max b (snd r))) a_seam_formatters (j, j).
Definition a_format_block (l : list sym) (j : nat) : res (nat * nat) :=
  r <- a_seam_hull_of l j ;;
  if (j <? snd r) && a_all_blank_before l (fst r) then Ok (0, snd r) else Ok r.

(** Mapping an abstract range to the concrete one. *)
Definition prange (ds de : str) (l : list sym) (r : nat * nat) : range :=
  (pos ds de l (fst r), pos ds de l (snd r)).
Definition mapr (ds de : str) (l : list sym) (r : res (nat * nat)) : res range :=
  match r with Ok x => Ok (prange ds de l x) | Panic => Panic end.

Theorem indent_remover_flat ds de l j : sp_ok ds de -> head_ok l -> j <= length l ->
  indent_remover (rs ds de l) (pos ds de l j) = mapr ds de l (a_indent_remover l j).
Proof.
  intros Hsp Hh Hj. unfold indent_remover, a_indent_remover.
  rewrite (len_leb_flat ds de l j Hsp Hj), (boundary_flat ds de l j Hsp Hh Hj), (is_nl_flat ds de l j Hsp Hj).
  destruct ((length l <=? j) || negb (a_boundary l j) || negb (a_is_nl l j)); [reflexivity|].
  rewrite (indent_loop_flat ds de l Hsp Hh j Hj). destruct (a_indent_loop l j); reflexivity.
Qed.

Theorem empty_line_remover_flat ds de l j : sp_ok ds de -> head_ok l -> j <= length l ->
  empty_line_remover (rs ds de l) (pos ds de l j) = mapr ds de l (a_empty_line_remover l j).
Proof.
  intros Hsp Hh Hj. unfold empty_line_remover, a_empty_line_remover.
  rewrite (boundary_flat ds de l j Hsp Hh Hj), (is_nl_flat ds de l j Hsp Hj).
  destruct (negb (a_boundary l j)); [reflexivity|].
  destruct (a_is_nl l j) eqn:Enl; cbn [negb]; [|reflexivity].
  rewrite (residue_flat ds de l Hsp j Hj). destruct (negb (a_residue l j)); [reflexivity|].
  rewrite (two_next_flat ds de l j Hsp Hh Hj), (two_prev_flat ds de l j Hsp Hh Hj), !is_none_map.
  destruct (is_none (a_two_next l j) && is_none (a_two_prev l j)); [|reflexivity].
  cbn [mapr prange fst snd]. rewrite (pos_after_nl ds de l j (a_is_nl_true l j Enl)). reflexivity.
Qed.

Theorem prev_line_break_remover_flat ds de l j : sp_ok ds de -> head_ok l -> j <= length l ->
  prev_line_break_remover (rs ds de l) (pos ds de l j) = mapr ds de l (a_prev_line_break_remover l j).
Proof.
  intros Hsp Hh Hj. unfold prev_line_break_remover, a_prev_line_break_remover.
  rewrite (two_prev_flat ds de l j Hsp Hh Hj).
  destruct (a_two_prev l j) as [lb|] eqn:F; [|reflexivity]. cbn [option_map mapr prange fst snd].
  unfold a_two_prev in F. destruct (a_prev_lb l j true) as [p|]; [|discriminate F].
  apply a_prev_lb_some in F. destruct F as (_ & F & _).
  rewrite (pos_after_nl ds de l lb F). reflexivity.
Qed.

Theorem next_line_break_remover_flat ds de l j : sp_ok ds de -> head_ok l -> j <= length l ->
  next_line_break_remover (rs ds de l) (pos ds de l j) = mapr ds de l (a_next_line_break_remover l j).
Proof.
  intros Hsp Hh Hj. unfold next_line_break_remover, a_next_line_break_remover.
  rewrite (boundary_flat ds de l j Hsp Hh Hj). destruct (negb (a_boundary l j)); [reflexivity|].
  rewrite (residue_flat ds de l Hsp j Hj). destruct (negb (a_residue l j)); [reflexivity|].
  rewrite (two_next_flat ds de l j Hsp Hh Hj). destruct (a_two_next l j); reflexivity.
Qed.

Lemma fb_fold_flat ds de l j : forall fs afs,
  Forall2 (fun (f : str -> nat -> res range) (af : list sym -> nat -> res (nat * nat)) =>
             f (rs ds de l) (pos ds de l j) = mapr ds de l (af l j)) fs afs ->
  forall r,
  foldM (fun (r : range) f => '(a, b) <- f (rs ds de l) (pos ds de l j) ;;
                              Ok (Nat.min a (fst r), Nat.max b (snd r))) fs (prange ds de l r) =
  mapr ds de l (foldM (fun (r : nat * nat) f => '(a, b) <- f l j ;;
                                               Ok (Nat.min a (fst r), Nat.max b (snd r))) afs r).
Proof.
  induction 1 as [|f af fs afs H HF IH]; intros r; [reflexivity|].
  cbn [foldM]. rewrite H. destruct (af l j) as [[x y]|]; [|reflexivity].
  cbn [mapr bind prange fst snd]. rewrite pos_min, pos_max.
  apply (IH (Nat.min x (fst r), Nat.max y (snd r))).
Qed.

Theorem seam_hull_of_flat ds de l j : sp_ok ds de -> head_ok l -> j <= length l ->
  seam_hull_of (rs ds de l) (pos ds de l j) = mapr ds de l (a_seam_hull_of l j).
Proof.
  intros Hsp Hh Hj. unfold seam_hull_of, a_seam_hull_of.
  change (pos ds de l j, pos ds de l j) with (prange ds de l (j, j)).
  apply (fb_fold_flat ds de l j seam_formatters a_seam_formatters).
  unfold seam_formatters, a_seam_formatters.
  repeat constructor.
  - apply indent_remover_flat; assumption.
  - apply empty_line_remover_flat; assumption.
  - apply prev_line_break_remover_flat; assumption.
  - apply next_line_break_remover_flat; assumption.
Qed.

(** Bounds and totality of the abstract hull. *)
Definition in_len (l : list sym) (r : res (nat * nat)) : Prop :=
  match r with Ok (x, y) => x <= length l /\ y <= length l | Panic => True end.

Lemma a_two_next_lt l j lb : a_two_next l j = Some lb -> lb < length l.
Proof.
  unfold a_two_next. destruct (a_next_lb l j true); [|discriminate].
  intros H. apply a_next_lb_some in H. tauto.
Qed.

Lemma a_two_prev_lt l j lb : a_two_prev l j = Some lb -> S lb <= j.
Proof.
  unfold a_two_prev. destruct (a_prev_lb l j true) as [p|] eqn:F; [|discriminate].
  intros H. apply a_prev_lb_some in H. apply a_prev_lb_some in F. lia.
Qed.

Lemma a_seam_in_len l j af : In af a_seam_formatters -> j <= length l -> in_len l (af l j).
Proof.
  intros Hin Hj. unfold a_seam_formatters in Hin. cbn [In] in Hin.
  destruct Hin as [<-|[<-|[<-|[<-|[]]]]].
  - unfold a_indent_remover. destruct (_ || _ || _); [cbn; lia|].
    destruct (a_indent_loop l j) as [c|] eqn:E; [|cbn; lia]. apply a_indent_loop_le in E. cbn. lia.
  - unfold a_empty_line_remover. destruct (negb (a_boundary l j)); [exact I|].
    destruct (a_is_nl l j) eqn:Enl; cbn [negb]; [|cbn; lia].
    destruct (negb (a_residue l j)); [cbn; lia|].
    destruct (_ && _); [|cbn; lia]. apply a_is_nl_true, nth_lt_len in Enl. cbn. lia.
  - unfold a_prev_line_break_remover. destruct (a_two_prev l j) as [lb|] eqn:E; [|cbn; lia].
    apply a_two_prev_lt in E. cbn. lia.
  - unfold a_next_line_break_remover. destruct (negb (a_boundary l j)); [cbn; lia|].
    destruct (negb (a_residue l j)); [cbn; lia|].
    destruct (a_two_next l j) as [lb|] eqn:E; [|cbn; lia]. apply a_two_next_lt in E. cbn. lia.
Qed.

Lemma a_fold_in_len l j : j <= length l -> forall afs, (forall af, In af afs -> In af a_seam_formatters) ->
  forall r, fst r <= length l -> snd r <= length l ->
  in_len l (foldM (fun (r : nat * nat) f => '(a, b) <- f l j ;;
                                           Ok (Nat.min a (fst r), Nat.max b (snd r))) afs r).
Proof.
  intros Hj. induction afs as [|af afs IH]; intros Hsub r H1 H2.
  - destruct r as [x y]. cbn in *. lia.
  - cbn [foldM]. pose proof (a_seam_in_len l j af (Hsub af (or_introl eq_refl)) Hj) as Hb.
    destruct (af l j) as [[x y]|]; [|exact I]. cbn [bind]. cbn in Hb.
    apply IH; [intros af' Hin; apply Hsub; right; exact Hin | cbn [fst]; lia | cbn [snd]; lia].
Qed.

Theorem a_seam_hull_of_in_len l j : j <= length l -> in_len l (a_seam_hull_of l j).
Proof.
  intros Hj. unfold a_seam_hull_of. apply a_fold_in_len; [exact Hj | auto | cbn; lia | cbn; lia].
Qed.

Theorem a_format_block_in_len l j : j <= length l -> in_len l (a_format_block l j).
Proof.
  intros Hj. unfold a_format_block. pose proof (a_seam_hull_of_in_len l j Hj) as H.
  destruct (a_seam_hull_of l j) as [[x y]|]; [|exact I]. cbn [bind fst snd]. cbn [in_len] in H.
  destruct ((j <? y) && a_all_blank_before l x); cbn [in_len]; lia.
Qed.

Lemma pos_ltb ds de l j j' : ne2 ds de -> j <= length l -> j' <= length l ->
  (pos ds de l j <? pos ds de l j') = (j <? j').
Proof.
  intros Hne H1 H2. pose proof (pos_lt_iff ds de l j j' Hne H1 H2) as H.
  destruct (Nat.ltb_spec j j') as [L|L].
  - apply Nat.ltb_lt. apply H. exact L.
  - apply Nat.ltb_ge. destruct (Nat.lt_ge_cases (pos ds de l j) (pos ds de l j')) as [L'|L']; [|exact L'].
    apply H in L'. lia.
Qed.

Theorem format_block_flat ds de l j : sp_ok ds de -> head_ok l -> j <= length l ->
  format_block (rs ds de l) (pos ds de l j) = mapr ds de l (a_format_block l j).
Proof.
  intros Hsp Hh Hj. pose proof (sp_ok_ne ds de Hsp) as Hne.
  unfold format_block, a_format_block. rewrite (seam_hull_of_flat ds de l j Hsp Hh Hj).
  pose proof (a_seam_hull_of_in_len l j Hj) as Hin.
  destruct (a_seam_hull_of l j) as [[x y]|]; [|reflexivity]. cbn [in_len] in Hin. destruct Hin as [Hx Hy].
  cbn [mapr bind prange fst snd].
  rewrite (pos_ltb ds de l j y Hne Hj Hy), (all_blank_before_flat ds de l x Hsp).
  destruct ((j <? y) && a_all_blank_before l x); reflexivity.
Qed.

(** The abstract hull panics exactly at a continuation byte. *)
Theorem a_seam_hull_of_ok l j : a_boundary l j = true -> exists r, a_seam_hull_of l j = Ok r.
Proof.
  intros Hb. unfold a_seam_hull_of, a_seam_formatters. cbn [foldM].
  assert (forall (r : res (nat * nat)) (k : nat * nat -> res (nat * nat)),
            (exists x, r = Ok x) -> (forall x, exists y, k x = Ok y) -> exists y, bind r k = Ok y) as Hbind.
  { intros r k [x ->] Hk. apply Hk. }
  assert (exists x, a_indent_remover l j = Ok x) as H1.
  { unfold a_indent_remover. destruct (_ || _ || _); [eauto|]. destruct (a_indent_loop l j); eauto. }
  assert (exists x, a_empty_line_remover l j = Ok x) as H2.
  { unfold a_empty_line_remover. rewrite Hb. cbn [negb]. destruct (negb (a_is_nl l j)); [eauto|].
    destruct (negb (a_residue l j)); [eauto|]. destruct (_ && _); eauto. }
  assert (exists x, a_prev_line_break_remover l j = Ok x) as H3.
  { unfold a_prev_line_break_remover. destruct (a_two_prev l j); eauto. }
  assert (exists x, a_next_line_break_remover l j = Ok x) as H4.
  { unfold a_next_line_break_remover. rewrite Hb. cbn [negb]. destruct (negb (a_residue l j)); [eauto|].
    destruct (a_two_next l j); eauto. }
  destruct H1 as [[x1 y1] ->], H2 as [[x2 y2] ->], H3 as [[x3 y3] ->], H4 as [[x4 y4] ->].
  cbn [bind]. eauto.
Qed.

Theorem a_format_block_ok l j : a_boundary l j = true -> exists r, a_format_block l j = Ok r.
Proof.
  intros Hb. unfold a_format_block. destruct (a_seam_hull_of_ok l j Hb) as [r ->]. cbn [bind].
  destruct ((j <? snd r) && a_all_blank_before l (fst r)); eauto.
Qed.

(* ------------------------------------------------------------------------- *)
(** * The block dedenter *)

Definition a_get_indent_len (l : list sym) (j : nat) : nat :=
  match a_prev_lb l j false with
  | Some p => match a_next_char l (S p) with Some e => e - p - 1 | None => 0 end
  | None => 0
  end.

Lemma brun_cons l p e : (exists c, nth_error l p = Some (B c)) -> brun l (S p) e -> brun l p e.
Proof.
  intros Hp H i H1 H2. destruct (Nat.eq_dec i p) as [->|Hne]; [exact Hp | apply H; lia].
Qed.

Lemma brun_sub l a b a' b' : brun l a b -> a <= a' -> b' <= b -> brun l a' b'.
Proof. intros H H1 H2 i H3 H4. apply H; lia. Qed.

(** The condition under which the block dedenter agrees under a spelling: either the end
    delimiter does not start with a blank, or no line of the document consists of blanks up to
    an end delimiter (the scan for the first non-blank of a line never ends at an end
    delimiter). *)
Definition line_tail_ok (l : list sym) : Prop :=
  forall p e, nth_error l p = Some (B NL) -> a_next_char l (S p) = Some e -> nth_error l e <> Some DE.
Definition nb_ok (de : str) (l : list sym) : Prop := de_nb de \/ line_tail_ok l.

Lemma next_char_after_nl ds de l p : sp_ok ds de -> nb_ok de l -> nth_error l p = Some (B NL) ->
  find_next_char (rs ds de l) (pos ds de l (S p)) = option_map (pos ds de l) (a_next_char l (S p)).
Proof.
  intros Hsp Hnb Hp. pose proof (nth_lt_len _ _ _ Hp) as Hlt.
  apply next_char_flat_gen; [exact Hsp | lia |].
  intros e He HDE. destruct Hnb as [H|H]; [exact H|]. exfalso. apply (H p e Hp He HDE).
Qed.

Theorem get_indent_len_flat ds de l j : sp_ok ds de -> nb_ok de l -> head_ok l -> j <= length l ->
  get_indent_len (rs ds de l) (pos ds de l j) = Ok (a_get_indent_len l j).
Proof.
  intros Hsp Hnb Hh Hj. unfold get_indent_len, a_get_indent_len.
  rewrite (prev_lb_flat ds de l false Hsp Hh j Hj).
  destruct (a_prev_lb l j false) as [p|] eqn:F; [|reflexivity]. cbn [option_map].
  apply a_prev_lb_some in F. destruct F as (F1 & F2 & _).
  rewrite (pos_after_nl ds de l p F2).
  rewrite (next_char_after_nl ds de l p Hsp Hnb F2).
  destruct (a_next_char l (S p)) as [e|] eqn:C; [|reflexivity]. cbn [option_map].
  apply a_next_char_some in C. destruct C as (C1 & C2 & C3).
  assert (brun l p e) as Hrun by (apply brun_cons; [exists NL; exact F2 | exact C3]).
  rewrite (pos_brun ds de l p e ltac:(lia) Hrun).
  rewrite csub_le by lia. cbn [bind]. rewrite csub_le by lia. f_equal. lia.
Qed.

Fixpoint a_block_loop (fuel : nat) (l : list sym) (end_pos current_pos ofs len : nat)
         (positions : list (nat * nat)) : list (nat * nat) :=
  match fuel with
  | 0 => positions
  | S f =>
    if current_pos <? end_pos then
      match a_next_lb l current_pos false with
      | Some lb =>
        let pos := S lb in
        if end_pos <? pos then positions
        else
          let positions' :=
            match a_next_char l current_pos with
            | Some indent_pos =>
              let a := Nat.min (current_pos + ofs) indent_pos in
              let b := Nat.min (a + len) indent_pos in
              if a =? b then positions else positions ++ [(a, b)]
            | None => positions
            end in
          a_block_loop f l end_pos pos ofs len positions'
      | None => positions
      end
    else positions
  end.

Definition a_block_indent (l : list sym) (a b : nat) : list (nat * nat) :=
  let ofs := match a_prev_lb l a true with
             | Some p => a - p - 1
             | None => if a_all_blank_before l a then a else 0
             end in
  let c := match a_next_lb l a false with Some p => S p | None => length l end in
  let first := a_get_indent_len l c in
  a_block_loop (S (length l)) l b c ofs (first - ofs) [].

Lemma pos_eqb ds de l j j' : ne2 ds de -> j <= length l -> j' <= length l ->
  (pos ds de l j =? pos ds de l j') = (j =? j').
Proof.
  intros Hne H1 H2. destruct (Nat.eqb_spec j j') as [->|N].
  - apply Nat.eqb_refl.
  - apply Nat.eqb_neq. intros E. apply N. apply (pos_inj ds de l j j' Hne H1 H2 E).
Qed.

(** The loop's current position is a line start: just after a line break, or the end. *)
Definition line_start (l : list sym) (c : nat) : Prop :=
  c = length l \/ exists p, c = S p /\ nth_error l p = Some (B NL).

Lemma next_char_line_start ds de l c : sp_ok ds de -> nb_ok de l -> line_start l c -> c <= length l ->
  find_next_char (rs ds de l) (pos ds de l c) = option_map (pos ds de l) (a_next_char l c).
Proof.
  intros Hsp Hnb [->|(p & -> & Hp)] Hc; [|apply next_char_after_nl; assumption].
  apply next_char_flat_gen; [exact Hsp | lia |].
  intros e He _. apply a_next_char_some in He. lia.
Qed.

Theorem block_loop_flat ds de l ofs len e : sp_ok ds de -> nb_ok de l -> head_ok l -> e <= length l ->
  forall fuel c aps, c <= length l -> line_start l c ->
  block_loop fuel (rs ds de l) (pos ds de l e) (pos ds de l c) ofs len (map (prange ds de l) aps) =
  map (prange ds de l) (a_block_loop fuel l e c ofs len aps).
Proof.
  intros Hsp Hnb Hh He. pose proof (sp_ok_ne ds de Hsp) as Hne.
  induction fuel as [|f IH]; intros c aps Hc Hls; [reflexivity|].
  cbn [block_loop a_block_loop]. cbv zeta.
  rewrite (pos_ltb ds de l c e Hne Hc He). destruct (c <? e); [|reflexivity].
  rewrite (next_lb_flat ds de l c false Hsp Hh Hc).
  destruct (a_next_lb l c false) as [lb|] eqn:F; [|reflexivity]. cbn [option_map].
  apply a_next_lb_some in F. destruct F as (F1 & F2 & F3 & _).
  rewrite (pos_after_nl ds de l lb F3).
  rewrite (pos_ltb ds de l e (S lb) Hne He ltac:(lia)). destruct (e <? S lb); [reflexivity|].
  assert (line_start l (S lb)) as Hls' by (right; exists lb; split; [reflexivity | exact F3]).
  rewrite (next_char_line_start ds de l c Hsp Hnb Hls Hc).
  destruct (a_next_char l c) as [ip|] eqn:C; cbn [option_map]; [|apply IH; [lia | exact Hls']].
  apply a_next_char_some in C. destruct C as (C1 & C2 & C3).
  rewrite (min_brun ds de l c ip ofs C1 C3).
  set (a' := Nat.min (c + ofs) ip).
  assert (c <= a' /\ a' <= ip) as [Ha1 Ha2] by (unfold a'; lia).
  rewrite (min_brun ds de l a' ip len Ha2 (brun_sub l c ip a' ip C3 Ha1 (Nat.le_refl _))).
  set (b' := Nat.min (a' + len) ip).
  assert (b' <= ip) as Hb by (unfold b'; lia).
  rewrite (pos_eqb ds de l a' b' Hne ltac:(lia) ltac:(lia)).
  destruct (a' =? b'); [apply IH; [lia | exact Hls']|].
  change [(pos ds de l a', pos ds de l b')] with (map (prange ds de l) [(a', b')]).
  rewrite <- map_app. apply IH; [lia | exact Hls'].
Qed.

Lemma a_block_loop_fuel l e ofs len : forall f1 f2 c aps, c <= length l ->
  length l - c < f1 -> length l - c < f2 ->
  a_block_loop f1 l e c ofs len aps = a_block_loop f2 l e c ofs len aps.
Proof.
  induction f1 as [|f1 IH]; intros f2 c aps Hc H1 H2; [lia|].
  destruct f2 as [|f2]; [lia|]. cbn [a_block_loop]. cbv zeta.
  destruct (c <? e); [|reflexivity].
  destruct (a_next_lb l c false) as [lb|] eqn:F; [|reflexivity].
  apply a_next_lb_some in F. destruct F as (F1 & F2 & _).
  destruct (e <? S lb); [reflexivity|]. apply IH; lia.
Qed.

Theorem block_indent_flat ds de l a b : sp_ok ds de -> nb_ok de l -> head_ok l ->
  a <= length l -> b <= length l ->
  block_indent_remover (rs ds de l) (pos ds de l a) (pos ds de l b) =
  Ok (map (prange ds de l) (a_block_indent l a b)).
Proof.
  intros Hsp Hnb Hh Ha Hb. pose proof (sp_ok_ne ds de Hsp) as Hne.
  unfold block_indent_remover, a_block_indent. cbv zeta.
  rewrite (prev_lb_flat ds de l true Hsp Hh a Ha).
  assert (match option_map (pos ds de l) (a_prev_lb l a true) with
          | Some p => x <- csub (pos ds de l a) p ;; csub x 1
          | None => Ok (if all_blank_before (rs ds de l) (pos ds de l a) then pos ds de l a else 0)
          end = Ok (match a_prev_lb l a true with
                    | Some p => a - p - 1
                    | None => if a_all_blank_before l a then a else 0
                    end)) as Hofs.
  { destruct (a_prev_lb l a true) as [p|] eqn:F; cbn [option_map].
    2:{ rewrite (all_blank_before_flat ds de l a Hsp).
        destruct (a_all_blank_before l a) eqn:AB; [|reflexivity]. f_equal.
        rewrite (pos_brun ds de l 0 a ltac:(lia) (a_all_blank_before_brun l a AB Ha)).
        rewrite pos_0. lia. }
    apply a_prev_lb_some in F. destruct F as (F1 & F2 & F3).
    rewrite (pos_brun ds de l p a ltac:(lia) (F3 eq_refl)).
    rewrite csub_le by lia. cbn [bind]. rewrite csub_le by lia. f_equal. lia. }
  rewrite Hofs. cbn [bind]. clear Hofs.
  rewrite (next_lb_flat ds de l a false Hsp Hh Ha).
  set (c := match a_next_lb l a false with Some p => S p | None => length l end).
  assert (c <= length l /\ line_start l c /\
          match option_map (pos ds de l) (a_next_lb l a false) with
          | Some p => p + 1 | None => length (rs ds de l) end = pos ds de l c) as (Hc & Hls & Hcur).
  { unfold c. destruct (a_next_lb l a false) as [p|] eqn:F; cbn [option_map].
    - apply a_next_lb_some in F. destruct F as (F1 & F2 & F3 & _).
      split; [lia|]. split; [right; exists p; split; [reflexivity | exact F3] | apply pos_after_nl; exact F3].
    - split; [lia|]. split; [left; reflexivity | symmetry; apply pos_all; lia]. }
  rewrite Hcur. rewrite (get_indent_len_flat ds de l c Hsp Hnb Hh Hc). cbn [bind]. f_equal.
  change (@nil range) with (map (prange ds de l) []).
  rewrite (block_loop_flat ds de l _ _ b Hsp Hnb Hh Hb _ c [] Hc Hls). f_equal.
  pose proof (len_ge ds de l Hne). apply a_block_loop_fuel; lia.
Qed.

Lemma a_block_loop_in_len l e ofs len : forall fuel c aps,
  Forall (fun r => fst r <= length l /\ snd r <= length l) aps ->
  Forall (fun r => fst r <= length l /\ snd r <= length l) (a_block_loop fuel l e c ofs len aps).
Proof.
  induction fuel as [|f IH]; intros c aps H; [exact H|].
  cbn [a_block_loop]. cbv zeta. destruct (c <? e); [|exact H].
  destruct (a_next_lb l c false) as [lb|]; [|exact H].
  destruct (e <? S lb); [exact H|]. apply IH.
  destruct (a_next_char l c) as [ip|] eqn:C; [|exact H].
  apply a_next_char_some in C. destruct C as (C1 & C2 & _).
  destruct (_ =? _); [exact H|]. apply Forall_app. split; [exact H|].
  constructor; [|constructor]. cbn [fst snd]. lia.
Qed.

Theorem a_block_indent_in_len l a b :
  Forall (fun r => fst r <= length l /\ snd r <= length l) (a_block_indent l a b).
Proof. unfold a_block_indent. apply a_block_loop_in_len. constructor. Qed.
