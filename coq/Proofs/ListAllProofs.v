(** Assembly, part 4: the pending forest, [list_all] = Ready + outstanding Pending (C17), and
    totality of the four listing functions (C01 for list / list_all). *)
From Coq Require Import List NArith ZArith Arith Bool Lia PeanoNat.
Import ListNotations.
From Chiri Require Import Base.Bytes Base.Res Model.Tokenizer Model.TagParser Model.TreeParser
     Model.Finders Model.Markers Model.Format Model.Clean Model.ListRender
     Spec.Ranges Spec.Forest Spec.Extents Spec.MergeSpec
     Proofs.ResLemmas Proofs.Utf8 Proofs.MarkerProofs Proofs.RangeProofs
     Proofs.C04Proofs Proofs.CollectProofs Proofs.FormatAssembly Proofs.CleanProofs
     Proofs.MergeAllProofs Proofs.ListTotal.

(* ------------------------------------------------------------------------- *)
(** * A. The pending forest *)

(** ** The ready forest does not depend on the pending flag *)

Lemma cfst_indep cfg s p : cfst cfg s true p = cfst cfg s false p.
Proof.
  induction p as [t | el st et ch IH] using part_ind'; [reflexivity|].
  assert (Hch : flat_map (cfst cfg s true) ch = flat_map (cfst cfg s false) ch)
    by (apply flat_map_ext_Forall; exact IH).
  unfold cfst. rewrite !collect_part_elem. fold (cfst cfg s true) (cfst cfg s false). rewrite Hch.
  unfold element_range.
  destruct (status cfg el) as [[|]|].
  - destruct (create s el st et) as [[a b] cl]. destruct (a <? b); reflexivity.
  - destruct (create s el st et) as [[a b] cl]. destruct (a <? b); reflexivity.
  - reflexivity.
Qed.

Theorem collect_ready_indep : forall cfg s parts,
  fst (collect cfg s true parts) = fst (collect cfg s false parts).
Proof.
  intros cfg s parts. rewrite !collect_eq. cbn [fst].
  apply flat_map_ext_Forall. apply Forall_forall. intros p _. apply cfst_indep.
Qed.

(** ** The pending forest is well formed *)

Definition collect_wf_p (cfg : config) (s : str) (pending : bool) (p : part) : Prop :=
  forall lo hi, ordered_part lo hi p -> wf_forest lo (part_hi p) (csnd cfg s pending p).

Lemma collect_wf_p_list cfg s pending l : Forall (collect_wf_p cfg s pending) l ->
  forall lo hi, ordered_parts lo hi l -> wf_forest lo hi (flat_map (csnd cfg s pending) l).
Proof.
  induction 1 as [|c l Hc Hl IH]; intros lo hi H; cbn [flat_map ordered_parts] in *; [exact I|].
  destruct H as [H1 H2]. pose proof (ordered_part_bounds c lo hi H1) as [B1 B2].
  apply wf_forest_app with (mid := part_hi c); [lia | lia | |].
  - apply (Hc lo hi H1).
  - apply IH. exact H2.
Qed.

Lemma all_collect_wf_p cfg s pending p : collect_wf_p cfg s pending p.
Proof.
  induction p as [t | el st et ch IH] using part_ind'; intros lo hi H.
  - exact I.
  - apply ordered_part_elem in H. destruct H as (H1 & H2 & H3 & H4 & H5).
    pose proof (ordered_parts_le _ _ _ H5) as Hmid.
    pose proof (collect_wf_p_list cfg s pending ch IH _ _ H5) as Hch.
    unfold csnd. rewrite collect_part_elem. cbn [part_hi].
    destruct (element_range cfg s pending el st et) as [[r [|]]|] eqn:E; cbn [snd].
    + eapply wf_forest_mono; [exact Hch | lia | lia].
    + apply element_range_some in E. destruct E as [Er Hne].
      destruct r as [h cl]. cbn [fst] in Hne. symmetry in Er.
      destruct (create_shape s el st et h cl H2 Hmid H3 Er) as [Eh Hsh].
      destruct (Hsh Hne) as [Ehi Hcl].
      cbn [wf_forest]. split; [|exact I].
      apply wf_rtree_unfold. rewrite Ehi, Eh in *.
      split; [lia|]. split; [exact Hne|]. split; [lia|]. split; [exact Hcl|].
      eapply wf_forest_mono; [exact Hch | lia | lia].
    + eapply wf_forest_mono; [exact Hch | lia | lia].
Qed.

Lemma collect_wf_forest_snd : forall cfg s parts pending,
  ordered_parts 0 (length s) parts ->
  wf_forest 0 (length s) (snd (collect cfg s pending parts)).
Proof.
  intros cfg s parts pending H. rewrite collect_eq. cbn [snd].
  apply collect_wf_p_list; [|exact H].
  apply Forall_forall. intros p _. apply all_collect_wf_p.
Qed.

Theorem collect_wf_forest_pending : forall cfg s parts,
  wf_utf8 s = true -> ordered_parts 0 (length s) parts ->
  wf_forest 0 (length s) (snd (collect cfg s true parts)).
Proof.
  intros cfg s parts _ H. apply collect_wf_forest_snd. exact H.
Qed.

(** ** Every range of the pending forest is a range built for some element of the tree *)

Lemma in_forest_ranges_flat_map {A} (f : A -> list rtree) l r :
  In r (forest_ranges (flat_map f l)) -> exists x, In x l /\ In r (forest_ranges (f x)).
Proof.
  unfold forest_ranges. rewrite flat_map_flat_map. intros H. apply in_flat_map in H. exact H.
Qed.

Lemma csnd_ranges_origin cfg s pending p : forall r,
  In r (forest_ranges (csnd cfg s pending p)) ->
  exists el st et, In (el, st, et) (elements_of p) /\ In r (rr_ranges (create s el st et)).
Proof.
  induction p as [t | el st et ch IH] using part_ind'; intros r Hr.
  - destruct Hr.
  - assert (Hch : In r (forest_ranges (flat_map (csnd cfg s pending) ch)) ->
                  exists el0 st0 et0, In (el0, st0, et0) (elements_of (PElem el st et ch)) /\
                                      In r (rr_ranges (create s el0 st0 et0))).
    { intros H. apply in_forest_ranges_flat_map in H. destruct H as (c & Hc & Hin).
      rewrite Forall_forall in IH. destruct (IH c Hc r Hin) as (el0 & st0 & et0 & Hel & Hrr).
      exists el0, st0, et0. split; [|exact Hrr].
      cbn [elements_of]. right. apply in_flat_map. exists c. split; assumption. }
    unfold csnd in Hr. rewrite collect_part_elem in Hr.
    destruct (element_range cfg s pending el st et) as [[r0 [|]]|] eqn:E; cbn [snd] in Hr.
    + apply Hch. exact Hr.
    + apply element_range_some in E. destruct E as [-> _].
      unfold forest_ranges in Hr. cbn [flat_map rtree_ranges] in Hr. rewrite app_nil_r in Hr.
      apply in_app_or in Hr. destruct Hr as [Hr | Hr].
      * exists el, st, et. split; [left; reflexivity | exact Hr].
      * apply Hch. exact Hr.
    + apply Hch. exact Hr.
Qed.

Theorem pending_on_boundaries : forall cfg ds de s parts pending,
  wf_utf8 s = true -> wf_utf8 ds = true -> wf_utf8 de = true -> ds <> [] -> de <> [] ->
  front_end ds de s = Ok parts ->
  on_boundaries s (forest_ranges (snd (collect cfg s pending parts))).
Proof.
  intros cfg ds de s parts pending Hs Hds Hde Nds Nde Hf.
  destruct (front_end_ordered ds de s parts Hs Hds Hde Nds Nde Hf) as [_ Hb].
  intros r Hr. rewrite collect_eq in Hr. cbn [snd] in Hr.
  apply in_forest_ranges_flat_map in Hr. destruct Hr as (p & Hp & Hr).
  apply csnd_ranges_origin in Hr. destruct Hr as (el & st & et & Hel & Hr).
  assert (Hin : In (el, st, et) (all_elements parts)).
  { unfold all_elements. apply in_flat_map. exists p. split; assumption. }
  destruct (Hb el st et Hin) as (B1 & _ & _ & B4).
  exact (create_boundaries s el st et Hs B1 B4 r Hr).
Qed.

(* ------------------------------------------------------------------------- *)
(** * B. list_all = Ready + outstanding Pending (C17) *)

Lemma in_merge_all_origin (ready pend : list marker) lo lo' x :
  sorted_nonempty_from lo (map fst ready) -> sorted_nonempty_from lo' (map fst pend) ->
  In x (merge_all ready pend []) ->
  (snd x = true /\ In (fst x) ready) \/ (snd x = false /\ In (fst x) pend).
Proof.
  intros Hr Hp Hin. destruct x as [m [|]]; cbn [fst snd].
  - left. split; [reflexivity|]. rewrite <- (merge_all_ready ready pend).
    apply in_map_iff. exists (m, true). split; [reflexivity|].
    apply filter_In. split; [exact Hin | reflexivity].
  - right. split; [reflexivity|].
    assert (H : In m (filter (fun p => negb (squashed ready p)) pend)).
    { rewrite <- (merge_all_pending ready pend lo lo' Hr Hp).
      apply in_map_iff. exists (m, false). split; [reflexivity|].
      apply filter_In. split; [exact Hin | reflexivity]. }
    apply filter_In in H. destruct H as [H _]. exact H.
Qed.

Theorem markers_all_spec : forall cfg ds de s parts,
  wf_utf8 s = true -> wf_utf8 ds = true -> wf_utf8 de = true -> ds <> [] -> de <> [] ->
  front_end ds de s = Ok parts ->
  exists ready pend,
    markers_of cfg ds de s = Ok ready /\
    merge_markers (snd (collect cfg s true parts)) = Ok pend /\
    sorted_nonempty_from 0 (map fst pend) /\
    markers_all_of cfg ds de s = Ok (merge_all ready pend []) /\
    (* every Ready region exactly once, in order, identical to the plain list *)
    map fst (filter (fun x => snd x) (merge_all ready pend [])) = ready /\
    (* exactly the pending regions not lying inside a ready region, in order *)
    map fst (filter (fun x => negb (snd x)) (merge_all ready pend [])) = filter (fun p => negb (squashed ready p)) pend /\
    starts_sorted (merge_all ready pend []) /\
    regions_ok s (merge_all ready pend []).
Proof.
  intros cfg ds de s parts Hs Hds Hde Nds Nde Hf.
  destruct (markers_spec cfg ds de s parts Hs Hds Hde Nds Nde Hf)
    as (ready & Em & Hsnf & Hbd & Hob & _ & _).
  destruct (front_end_ordered ds de s parts Hs Hds Hde Nds Nde Hf) as [Hord _].
  pose proof (collect_wf_forest_pending cfg s parts Hs Hord) as Hwfp.
  destruct (merge_markers_spec _ _ _ Hwfp) as (pend & Ep & Hsnfp & Hbdp & _ & _ & Hendp).
  pose proof (pending_on_boundaries cfg ds de s parts true Hs Hds Hde Nds Nde Hf) as Hobf.
  assert (Hobp : on_boundaries s (map fst pend)).
  { intros r Hr. destruct (Hendp r Hr) as [(r1 & Hin1 & E1) (r2 & Hin2 & E2)].
    rewrite E1, E2. destruct (Hobf r1 Hin1) as [H1 _]. destruct (Hobf r2 Hin2) as [_ H2].
    split; assumption. }
  assert (Emr : merge_markers (fst (collect cfg s true parts)) = Ok ready).
  { rewrite collect_ready_indep. unfold markers_of in Em. rewrite Hf in Em. cbn [bind] in Em.
    exact Em. }
  destruct (merge_all_spec ready pend 0 0 Hsnf Hsnfp) as (M1 & M2 & M3).
  exists ready, pend.
  split; [exact Em|]. split; [exact Ep|]. split; [exact Hsnfp|].
  split.
  { unfold markers_all_of. rewrite Hf. cbn [bind]. unfold build_remove_marker_all.
    destruct (collect cfg s true parts) as [rg rp] eqn:Ec. cbn [fst snd] in *.
    rewrite Emr. cbn [bind]. rewrite Ep. reflexivity. }
  split; [exact M1|]. split; [exact M2|]. split; [exact M3|].
  intros r p st Hin.
  destruct (in_merge_all_origin ready pend 0 0 _ Hsnf Hsnfp Hin) as [[_ Hm] | [_ Hm]];
    cbn [fst] in Hm.
  - assert (Hr : In r (map fst ready)) by (apply in_map_iff; exists (r, p); split; auto).
    destruct (Hob r Hr) as [B1 B2].
    split; [exact (snf_In_lt _ _ _ Hsnf Hr)|]. split; [exact (Hbd r Hr)|]. split; assumption.
  - assert (Hr : In r (map fst pend)) by (apply in_map_iff; exists (r, p); split; auto).
    destruct (Hobp r Hr) as [B1 B2].
    split; [exact (snf_In_lt _ _ _ Hsnfp Hr)|]. split; [exact (Hbdp r Hr)|]. split; assumption.
Qed.

(* ------------------------------------------------------------------------- *)
(** * C. The listing functions never panic *)

Theorem list_total : forall cfg ds de s,
  wf_utf8 s = true -> wf_utf8 ds = true -> wf_utf8 de = true -> ds <> [] -> de <> [] ->
  (exists o, list_pretty cfg ds de s = Ok o) /\ (exists o, list_json cfg ds de s = Ok o) /\
  (exists o, list_all_pretty cfg ds de s = Ok o) /\ (exists o, list_all_json cfg ds de s = Ok o).
Proof.
  intros cfg ds de s Hs Hds Hde Nds Nde.
  destruct (front_end_total ds de s Hs Hds Hde Nds Nde) as [parts Hf].
  destruct (markers_spec cfg ds de s parts Hs Hds Hde Nds Nde Hf)
    as (ms & Em & Hsnf & Hbd & Hob & _ & _).
  assert (Hok : regions_ok s (map (fun v : marker => (v, true)) ms)).
  { intros r p st Hin. apply in_map_iff in Hin. destruct Hin as (m & Em' & Hm).
    inversion Em'; subst m st.
    assert (Hr : In r (map fst ms)) by (apply in_map_iff; exists (r, p); split; auto).
    destruct (Hob r Hr) as [B1 B2].
    split; [exact (snf_In_lt _ _ _ Hsnf Hr)|]. split; [exact (Hbd r Hr)|]. split; assumption. }
  destruct (markers_all_spec cfg ds de s parts Hs Hds Hde Nds Nde Hf)
    as (ready & pend & _ & _ & _ & Ea & _ & _ & _ & Hoka).
  destruct (build_pretty_string_total s _ Hs Hok) as [o1 E1].
  destruct (build_list_total s _ Hs Hok) as [o2 E2].
  destruct (build_pretty_string_total s _ Hs Hoka) as [o3 E3].
  destruct (build_list_total s _ Hs Hoka) as [o4 E4].
  split; [|split; [|split]].
  - exists o1. unfold list_pretty, list_markers. rewrite Em. cbn [bind]. exact E1.
  - eexists. unfold list_json, list_markers. rewrite Em. cbn [bind]. rewrite E2. reflexivity.
  - exists o3. unfold list_all_pretty. rewrite Ea. cbn [bind]. exact E3.
  - eexists. unfold list_all_json. rewrite Ea. cbn [bind]. rewrite E4. reflexivity.
Qed.

Print Assumptions collect_ready_indep.
Print Assumptions collect_wf_forest_pending.
Print Assumptions pending_on_boundaries.
Print Assumptions markers_all_spec.
Print Assumptions list_total.
