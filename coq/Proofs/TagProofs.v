(** C09 / C01 for the tag parser: round trip of the tag grammar, opacity of quoted values,
    delimiter stripping, and totality of the attribute scan on well-formed UTF-8.

    Helper developments:
    - [Proofs/Utf8Lemmas.v]: fuel-free characterisation [WF] of [wf_utf8], boundaries;
    - [Proofs/TagTotal.v]: the panic-freedom invariant of the scan;
    - [Proofs/TagRound.v]: the piecewise scan of a printed tag. *)
From Coq Require Import List NArith Arith Bool Lia.
Import ListNotations.
From Chiri Require Import Base.Bytes Base.Res Model.Tokenizer Model.TagParser Spec.TagGrammar
     Proofs.ResLemmas Proofs.BytesLemmas Proofs.Utf8Lemmas Proofs.TagTotal Proofs.TagRound.

(** * C09 round trip: a well-formed tag parses to exactly its name and attributes *)
Theorem parse_printed_tag : forall t,
  wf_tag t = true -> wf_utf8 (print_body t) = true ->
  parse_target (print_body t) = Ok (Some (mkElement (tg_name t) (attrs_of t))).
Proof.
  intros t Hwf Hutf. apply parse_printed_tag_WF; [exact Hwf|]. apply wf_utf8_WF. exact Hutf.
Qed.

(** Quoted values are opaque: name and attribute names do not depend on any value. *)
Corollary parsed_names_independent_of_values : forall t el,
  wf_tag t = true -> wf_utf8 (print_body t) = true ->
  parse_target (print_body t) = Ok (Some el) ->
  el_name el = tg_name t /\ map fst (el_attrs el) = map at_name (tg_attrs t).
Proof.
  intros t el Hwf Hutf Hp. rewrite (parse_printed_tag t Hwf Hutf) in Hp.
  inversion Hp as [He]. cbn [el_name el_attrs]. split; [reflexivity|].
  unfold attrs_of. rewrite map_map. apply map_ext. intros a. reflexivity.
Qed.

(** * Delimiter stripping *)

Lemma trim_start_matches_stop f p s : prefix p s = false -> trim_start_matches f p s = s.
Proof. intros H. destruct f as [|f]; [reflexivity|]. cbn [trim_start_matches]. rewrite H. reflexivity. Qed.

Lemma trim_start_once p r : p <> [] -> prefix p r = false -> trim_start p (p ++ r) = r.
Proof.
  intros Hp Hr. unfold trim_start. destruct p as [|c p]; [congruence|].
  cbn [app length]. cbn [trim_start_matches].
  change (c :: p ++ r) with ((c :: p) ++ r). rewrite prefix_app.
  change (S (length p)) with (length (c :: p)). rewrite skipn_length_app.
  apply trim_start_matches_stop. exact Hr.
Qed.

Lemma rev_not_nil {A} (l : list A) : l <> [] -> rev l <> [].
Proof.
  intros H E. apply H. rewrite <- (rev_involutive l), E. reflexivity.
Qed.

Lemma trim_end_once p r : p <> [] -> prefix (rev p) (rev r) = false -> trim_end p (r ++ p) = r.
Proof.
  intros Hp Hr. unfold trim_end. rewrite rev_app_distr.
  rewrite trim_start_once; [apply rev_involutive | apply rev_not_nil; exact Hp | exact Hr].
Qed.

(** Exactly one copy of each delimiter is removed. *)
Theorem parse_value_printed : forall ds de t,
  ds <> [] -> de <> [] ->
  wf_tag t = true -> wf_utf8 (print_body t) = true ->
  prefix ds (print_body t ++ de) = false ->
  prefix (rev de) (rev (print_body t)) = false ->
  parse_value ds de (ds ++ print_body t ++ de) = Ok (Some (mkElement (tg_name t) (attrs_of t))).
Proof.
  intros ds de t Hds Hde Hwf Hutf Hs He. unfold parse_value.
  rewrite (trim_start_once ds _ Hds Hs). rewrite (trim_end_once de _ Hde He).
  apply parse_printed_tag; assumption.
Qed.

(** * C01 for this stage: the attribute scan never panics on well-formed UTF-8 *)
Theorem parse_target_total : forall target,
  wf_utf8 target = true -> exists o, parse_target target = Ok o.
Proof.
  intros target Hwf. apply parse_target_total_WF. apply wf_utf8_WF. exact Hwf.
Qed.

(** * Stripping well-formed delimiters from a well-formed string leaves a well-formed string *)

Lemma trim_start_matches_WF p : WF p -> forall f s, WF s -> WF (trim_start_matches f p s).
Proof.
  intros Wp. induction f as [|f IH]; intros s Ws; [exact Ws|].
  cbn [trim_start_matches]. destruct (prefix p s) eqn:E; [|exact Ws].
  apply prefix_spec in E. destruct E as [r ->]. rewrite skipn_length_app.
  apply IH. exact (WF_strip_prefix p Wp r Ws).
Qed.

Lemma trim_start_WF p s : WF p -> WF s -> WF (trim_start p s).
Proof.
  intros Wp Ws. unfold trim_start. destruct p as [|c p]; [exact Ws|].
  apply trim_start_matches_WF; assumption.
Qed.

Lemma trim_end_matches_WF p : WF p -> forall f s, WF s -> WF (rev (trim_start_matches f (rev p) (rev s))).
Proof.
  intros Wp. induction f as [|f IH]; intros s Ws.
  - cbn [trim_start_matches]. rewrite rev_involutive. exact Ws.
  - cbn [trim_start_matches]. destruct (prefix (rev p) (rev s)) eqn:E.
    + apply prefix_spec in E. destruct E as [r E]. rewrite E. rewrite skipn_length_app.
      assert (Hs : s = rev r ++ p).
      { rewrite <- (rev_involutive s), E, rev_app_distr, rev_involutive. reflexivity. }
      rewrite <- (rev_involutive r). apply IH. subst s.
      eapply WF_app_inv_l; [exact Ws|]. apply WF_bstart. exact Wp.
    + rewrite rev_involutive. exact Ws.
Qed.

Lemma trim_end_WF p s : WF p -> WF s -> WF (trim_end p s).
Proof.
  intros Wp Ws. unfold trim_end, trim_start. destruct (rev p) as [|c p'] eqn:E.
  - rewrite rev_involutive. exact Ws.
  - rewrite <- E. rewrite rev_length. rewrite <- (rev_length s).
    apply trim_end_matches_WF; assumption.
Qed.

Lemma trim_start_wf_utf8 p s :
  wf_utf8 p = true -> wf_utf8 s = true -> wf_utf8 (trim_start p s) = true.
Proof. rewrite !wf_utf8_WF. apply trim_start_WF. Qed.

Lemma trim_end_wf_utf8 p s :
  wf_utf8 p = true -> wf_utf8 s = true -> wf_utf8 (trim_end p s) = true.
Proof. rewrite !wf_utf8_WF. apply trim_end_WF. Qed.

Theorem parse_value_total : forall ds de value,
  wf_utf8 value = true -> wf_utf8 ds = true -> wf_utf8 de = true ->
  exists o, parse_value ds de value = Ok o.
Proof.
  intros ds de value Hv Hds Hde. unfold parse_value. apply parse_target_total.
  apply trim_end_wf_utf8; [exact Hde|]. apply trim_start_wf_utf8; assumption.
Qed.

Print Assumptions parse_printed_tag.
Print Assumptions parsed_names_independent_of_values.
Print Assumptions parse_value_printed.
Print Assumptions parse_target_total.
Print Assumptions parse_value_total.
