(** Basic facts about byte strings. *)
From Coq Require Import List NArith Arith Bool Lia.
Import ListNotations.
From Chiri Require Import Base.Bytes.

Lemma beq_eq a b : beq a b = true <-> a = b.
Proof. unfold beq. apply N.eqb_eq. Qed.

Lemma beq_refl a : beq a a = true.
Proof. apply beq_eq. reflexivity. Qed.

Lemma beq_neq a b : beq a b = false <-> a <> b.
Proof. unfold beq. apply N.eqb_neq. Qed.

Lemma str_eqb_eq a b : str_eqb a b = true <-> a = b.
Proof.
  revert b. induction a as [|x a IH]; intros [|y b]; simpl; split; intros H; try congruence; try discriminate.
  - apply andb_true_iff in H. destruct H as [H1 H2]. apply beq_eq in H1. apply IH in H2. congruence.
  - inversion H; subst. rewrite beq_refl. simpl. apply IH. reflexivity.
Qed.

Lemma str_eqb_refl a : str_eqb a a = true.
Proof. apply str_eqb_eq. reflexivity. Qed.

Lemma str_eqb_neq a b : str_eqb a b = false <-> a <> b.
Proof.
  split; intros H.
  - intros E. apply str_eqb_eq in E. congruence.
  - destruct (str_eqb a b) eqn:E; [|reflexivity]. apply str_eqb_eq in E. contradiction.
Qed.

Lemma existsb_str_eqb_In v l : existsb (str_eqb v) l = true <-> In v l.
Proof.
  rewrite existsb_exists. split.
  - intros [x [Hx E]]. apply str_eqb_eq in E. subst. exact Hx.
  - intros H. exists v. split; [exact H | apply str_eqb_refl].
Qed.

Lemma prefix_app p s : prefix p (p ++ s) = true.
Proof. induction p as [|a p IH]; simpl; [reflexivity|]. rewrite beq_refl. exact IH. Qed.

Lemma prefix_spec p s : prefix p s = true <-> exists r, s = p ++ r.
Proof.
  revert s. induction p as [|a p IH]; intros s; simpl.
  - split; [intros _; exists s; reflexivity | reflexivity].
  - destruct s as [|b s].
    + split; [discriminate | intros [r H]; discriminate].
    + rewrite andb_true_iff, beq_eq, IH. split.
      * intros [-> [r ->]]. exists r. reflexivity.
      * intros [r H]. inversion H; subst. split; [reflexivity | exists r; reflexivity].
Qed.
