(** C18, stage 1: the string-level functions (finders, seam formatters, block dedenter) on two
    renderings of one abstract document return corresponding positions.  The work is done on the
    flat symbol list of the document ([Proofs.SimFlat]); this file connects abstract positions
    ([apos]) with indices into the symbol list and states the simulation theorems. *)
From Coq Require Import List NArith Arith Bool Lia PeanoNat.
Import ListNotations.
From Chiri Require Import Base.Bytes Base.Res Model.Finders Model.Format Spec.Rename Spec.Simulation
  Proofs.BytesLemmas Proofs.Utf8 Proofs.SimFlat.

(* ------------------------------------------------------------------------- *)
(** * The flat symbol list of a document *)

Definition flat_item (it : item) : list sym :=
  match it with Txt t => map B t | Tag b => DS :: map B b ++ [DE] end.
Definition flat (doc : list item) : list sym := flat_map flat_item doc.

Lemma rs_map_B ds de t : rs ds de (map B t) = t.
Proof. induction t as [|c t IH]; [reflexivity|]. cbn [map rs flat_map rsym app]. f_equal. exact IH. Qed.

Lemma rs_flat_item ds de it : rs ds de (flat_item it) = render_item ds de it.
Proof.
  destruct it as [t|b]; cbn [flat_item render_item]; [apply rs_map_B|].
  change (DS :: map B b ++ [DE]) with ([DS] ++ map B b ++ [DE]).
  rewrite !rs_app, rs_map_B. cbn [rs flat_map rsym]. rewrite !app_nil_r. reflexivity.
Qed.

Lemma rs_flat ds de doc : rs ds de (flat doc) = render ds de doc.
Proof.
  induction doc as [|it doc IH]; [reflexivity|].
  cbn [flat render flat_map]. rewrite rs_app, rs_flat_item. f_equal. exact IH.
Qed.

Lemma flat_app a b : flat (a ++ b) = flat a ++ flat b.
Proof. apply flat_map_app. Qed.

Lemma flat_item_len it :
  length (flat_item it) = match it with Txt t => length t | Tag b => length b + 2 end.
Proof.
  destruct it as [t|b]; cbn [flat_item length]; [apply map_length|].
  rewrite app_length, map_length. cbn [length]. lia.
Qed.

(** Index of the first symbol of item i. *)
Definition fstart (doc : list item) (i : nat) : nat := length (flat (firstn i doc)).

(** Extended validity: [InBody i (length b)] stands for the first byte of the end delimiter. *)
Definition xvalid (doc : list item) (a : apos) : Prop :=
  match a with
  | InBody i k => exists b, nth_error doc i = Some (Tag b) /\ k <= length b
  | _ => valid_apos doc a
  end.

Lemma valid_xvalid doc a : valid_apos doc a -> xvalid doc a.
Proof.
  destruct a as [i k|i|i k|]; cbn; auto. intros (b & H1 & H2). exists b. split; [exact H1 | lia].
Qed.

(** The index of an abstract position in the symbol list. *)
Definition aidx (doc : list item) (a : apos) : nat :=
  match a with
  | InTxt i k => fstart doc i + k
  | TagStart i => fstart doc i
  | InBody i k => fstart doc i + 1 + k
  | DocEnd => length (flat doc)
  end.

Lemma item_start_eq ds de : forall doc i, i <= length doc ->
  item_start ds de doc i = length (render ds de (firstn i doc)).
Proof.
  induction doc as [|it doc IH]; intros i Hi.
  - destruct i; reflexivity.
  - destruct i as [|i]; [reflexivity|]. cbn [item_start firstn render flat_map].
    rewrite app_length. unfold item_len. f_equal. apply IH. cbn [length] in Hi. lia.
Qed.

Lemma doc_split (doc : list item) i it : nth_error doc i = Some it ->
  flat doc = flat (firstn i doc) ++ flat_item it ++ flat (skipn (S i) doc).
Proof.
  intros H. rewrite (split_nth doc i it H) at 1. rewrite flat_app. reflexivity.
Qed.

Lemma fstart_S doc i it : nth_error doc i = Some it ->
  fstart doc (S i) = fstart doc i + length (flat_item it).
Proof.
  intros H. unfold fstart. rewrite (firstn_S_nth doc i it H), flat_app, app_length.
  cbn [flat flat_map]. rewrite app_nil_r. reflexivity.
Qed.

Lemma fstart_all doc i : length doc <= i -> fstart doc i = length (flat doc).
Proof. intros H. unfold fstart. rewrite firstn_all2 by exact H. reflexivity. Qed.

Lemma flat_len_split doc i it : nth_error doc i = Some it ->
  length (flat doc) = fstart doc i + length (flat_item it) + length (flat (skipn (S i) doc)).
Proof. intros H. rewrite (doc_split doc i it H) at 1. rewrite !app_length. unfold fstart. lia. Qed.

Lemma pos_in_item ds de doc i it k : nth_error doc i = Some it -> k <= length (flat_item it) ->
  pos ds de (flat doc) (fstart doc i + k) =
  item_start ds de doc i + length (rs ds de (firstn k (flat_item it))).
Proof.
  intros H Hk. assert (i < length doc) as Hi by (apply nth_error_Some; congruence).
  rewrite pos_plus. f_equal.
  - unfold pos, fstart. rewrite (doc_split doc i it H) at 1.
    rewrite firstn_app, firstn_all, Nat.sub_diag. cbn [firstn]. rewrite app_nil_r.
    rewrite rs_flat. symmetry. apply item_start_eq. lia.
  - f_equal. f_equal. unfold fstart. rewrite (doc_split doc i it H) at 1.
    rewrite skipn_app, skipn_all, Nat.sub_diag. cbn [skipn app].
    rewrite firstn_app. replace (k - length (flat_item it)) with 0 by lia.
    cbn [firstn]. apply app_nil_r.
Qed.

Lemma firstn_map_B k t : firstn k (map B t) = map B (firstn k t).
Proof. apply firstn_map. Qed.

Theorem cpos_pos ds de doc a : xvalid doc a ->
  cpos ds de doc a = pos ds de (flat doc) (aidx doc a).
Proof.
  destruct a as [i k|i|i k|]; cbn [xvalid valid_apos cpos aidx].
  - intros (t & H & Hk). rewrite (pos_in_item ds de doc i _ k H) by (rewrite flat_item_len; lia).
    cbn [flat_item]. rewrite firstn_map_B, rs_map_B, firstn_length. lia.
  - intros (b & H). rewrite <- (Nat.add_0_r (fstart doc i)).
    rewrite (pos_in_item ds de doc i _ 0 H) by lia. cbn [firstn rs flat_map length]. lia.
  - intros (b & H & Hk). replace (fstart doc i + 1 + k) with (fstart doc i + (1 + k)) by lia.
    rewrite (pos_in_item ds de doc i _ (1 + k) H) by (rewrite flat_item_len; lia).
    cbn [flat_item Nat.add firstn]. rewrite firstn_app, map_length.
    replace (k - length b) with 0 by lia. cbn [firstn]. rewrite app_nil_r.
    change (DS :: firstn k (map B b)) with ([DS] ++ firstn k (map B b)).
    rewrite rs_app, app_length, firstn_map_B, rs_map_B, firstn_length.
    cbn [rs flat_map rsym]. rewrite app_nil_r. lia.
  - intros _. rewrite pos_all by lia. rewrite rs_flat. reflexivity.
Qed.

Lemma aidx_le doc a : xvalid doc a -> aidx doc a <= length (flat doc).
Proof.
  destruct a as [i k|i|i k|]; cbn [xvalid valid_apos aidx].
  - intros (t & H & Hk). rewrite (flat_len_split doc i _ H), flat_item_len. lia.
  - intros (b & H). rewrite (flat_len_split doc i _ H). lia.
  - intros (b & H & Hk). rewrite (flat_len_split doc i _ H), flat_item_len. lia.
  - lia.
Qed.

(** The symbol at an abstract position. *)
Lemma nth_in_item doc i it k : nth_error doc i = Some it -> k < length (flat_item it) ->
  nth_error (flat doc) (fstart doc i + k) = nth_error (flat_item it) k.
Proof.
  intros H Hk. rewrite (doc_split doc i it H). unfold fstart. apply nth_mid. exact Hk.
Qed.

Lemma sym_at_txt doc i k t : nth_error doc i = Some (Txt t) -> k < length t ->
  nth_error (flat doc) (aidx doc (InTxt i k)) = option_map B (nth_error t k).
Proof.
  intros H Hk. cbn [aidx]. rewrite (nth_in_item doc i _ k H) by (rewrite flat_item_len; lia).
  cbn [flat_item]. apply nth_error_map.
Qed.

Lemma sym_at_tag doc i b : nth_error doc i = Some (Tag b) ->
  nth_error (flat doc) (aidx doc (TagStart i)) = Some DS.
Proof.
  intros H. cbn [aidx]. rewrite <- (Nat.add_0_r (fstart doc i)).
  rewrite (nth_in_item doc i _ 0 H) by (rewrite flat_item_len; lia). reflexivity.
Qed.

Lemma sym_at_body doc i k b : nth_error doc i = Some (Tag b) -> k <= length b ->
  nth_error (flat doc) (aidx doc (InBody i k)) =
  if k <? length b then option_map B (nth_error b k) else Some DE.
Proof.
  intros H Hk. cbn [aidx]. replace (fstart doc i + 1 + k) with (fstart doc i + (1 + k)) by lia.
  rewrite (nth_in_item doc i _ (1 + k) H) by (rewrite flat_item_len; lia).
  cbn [flat_item Nat.add nth_error]. destruct (Nat.ltb_spec k (length b)) as [L|L].
  - rewrite nth_error_app1 by (rewrite map_length; exact L). apply nth_error_map.
  - rewrite nth_error_app2 by (rewrite map_length; lia). rewrite map_length.
    replace (k - length b) with 0 by lia. reflexivity.
Qed.

Lemma sym_at_end doc : nth_error (flat doc) (aidx doc DocEnd) = None.
Proof. cbn [aidx]. apply nth_error_None. lia. Qed.

(** A position whose symbol is a byte is valid in the strict sense. *)
Lemma byte_sym_valid doc a c : xvalid doc a -> nth_error (flat doc) (aidx doc a) = Some (B c) ->
  valid_apos doc a.
Proof.
  destruct a as [i k|i|i k|]; cbn [xvalid]; try (intros H _; exact H).
  intros (b & H & Hk) Hs. rewrite (sym_at_body doc i k b H Hk) in Hs.
  destruct (Nat.ltb_spec k (length b)) as [L|L]; [|discriminate Hs].
  exists b. split; assumption.
Qed.

Lemma valid_not_DE doc a : valid_apos doc a -> nth_error (flat doc) (aidx doc a) <> Some DE.
Proof.
  destruct a as [i k|i|i k|]; cbn [valid_apos].
  - intros (t & H & Hk). rewrite (sym_at_txt doc i k t H Hk). destruct (nth_error t k); discriminate.
  - intros (b & H). rewrite (sym_at_tag doc i b H). discriminate.
  - intros (b & H & Hk). rewrite (sym_at_body doc i k b H ltac:(lia)).
    apply Nat.ltb_lt in Hk. rewrite Hk. destruct (nth_error b k); discriminate.
  - rewrite sym_at_end. discriminate.
Qed.

(* ------------------------------------------------------------------------- *)
(** * From indices back to abstract positions *)

(** [aof doc i j]: the position at symbol index [j] of [flat doc], where the head item of [doc]
    has item number [i]. *)
Fixpoint aof (doc : list item) (i j : nat) : apos :=
  match doc with
  | [] => DocEnd
  | Txt t :: rest => if j <? length t then InTxt i j else aof rest (S i) (j - length t)
  | Tag b :: rest =>
    if j =? 0 then TagStart i
    else if j <=? S (length b) then InBody i (j - 1)
    else aof rest (S i) (j - (length b + 2))
  end.
Definition apos_of (doc : list item) (j : nat) : apos := aof doc 0 j.

Lemma nth_error_mid_doc (pre : list item) it rest : nth_error (pre ++ it :: rest) (length pre) = Some it.
Proof. rewrite nth_error_app2 by lia. rewrite Nat.sub_diag. reflexivity. Qed.

Lemma fstart_pre (pre rest : list item) : fstart (pre ++ rest) (length pre) = length (flat pre).
Proof. unfold fstart. rewrite firstn_app, firstn_all, Nat.sub_diag. cbn [firstn]. rewrite app_nil_r. reflexivity. Qed.

Lemma aof_spec : forall doc pre j, j <= length (flat doc) ->
  xvalid (pre ++ doc) (aof doc (length pre) j) /\
  aidx (pre ++ doc) (aof doc (length pre) j) = length (flat pre) + j.
Proof.
  induction doc as [|it doc IH]; intros pre j Hj.
  - cbn [aof xvalid valid_apos aidx]. split; [exact I|]. cbn in Hj. rewrite app_nil_r. lia.
  - assert (aof doc (S (length pre)) = aof doc (length (pre ++ [it]))) as E1
        by (rewrite app_length; cbn [length]; f_equal; lia).
    assert (pre ++ it :: doc = (pre ++ [it]) ++ doc) as E2 by (rewrite <- app_assoc; reflexivity).
    assert (length (flat (pre ++ [it])) = length (flat pre) + length (flat_item it)) as E3.
    { rewrite flat_app, app_length. cbn [flat flat_map]. rewrite app_nil_r. reflexivity. }
    cbn [flat flat_map] in Hj. rewrite app_length, flat_item_len in Hj. fold (flat doc) in Hj.
    pose proof (nth_error_mid_doc pre it doc) as Hn.
    pose proof (fstart_pre pre (it :: doc)) as Hf.
    destruct it as [t|b]; cbn [aof].
    + destruct (Nat.ltb_spec j (length t)) as [L|L].
      * cbn [xvalid valid_apos aidx]. split; [exists t; split; assumption | rewrite Hf; reflexivity].
      * rewrite E1, E2. destruct (IH (pre ++ [Txt t]) (j - length t) ltac:(lia)) as [I1 I2].
        split; [exact I1|]. rewrite I2, E3, flat_item_len. lia.
    + destruct (Nat.eqb_spec j 0) as [->|J0].
      * cbn [xvalid valid_apos aidx]. split; [exists b; exact Hn | rewrite Hf; lia].
      * destruct (Nat.leb_spec j (S (length b))) as [L|L].
        -- cbn [xvalid aidx]. split; [exists b; split; [exact Hn | lia] | rewrite Hf; lia].
        -- rewrite E1, E2. destruct (IH (pre ++ [Tag b]) (j - (length b + 2)) ltac:(lia)) as [I1 I2].
           split; [exact I1|]. rewrite I2, E3, flat_item_len. lia.
Qed.

Theorem apos_of_spec doc j : j <= length (flat doc) ->
  xvalid doc (apos_of doc j) /\ aidx doc (apos_of doc j) = j.
Proof. intros H. apply (aof_spec doc [] j H). Qed.

Lemma apos_of_valid doc j c : nth_error (flat doc) j = Some (B c) -> valid_apos doc (apos_of doc j).
Proof.
  intros H. assert (j <= length (flat doc)) as Hj.
  { assert (j < length (flat doc)) by (apply nth_error_Some; congruence). lia. }
  destruct (apos_of_spec doc j Hj) as [H1 H2]. apply (byte_sym_valid doc _ c H1). rewrite H2. exact H.
Qed.

Lemma cpos_apos_of ds de doc j : j <= length (flat doc) ->
  cpos ds de doc (apos_of doc j) = pos ds de (flat doc) j.
Proof.
  intros Hj. destruct (apos_of_spec doc j Hj) as [H1 H2]. rewrite (cpos_pos ds de doc _ H1), H2.
  reflexivity.
Qed.

(* ------------------------------------------------------------------------- *)
(** * Delimiters and documents *)

Lemma WF_last s : WF s -> s <> [] ->
  exists d1 lead cs, s = d1 ++ lead :: cs /\ is_lead lead = true /\
                     length cs = char_len lead - 1 /\ forallb is_cont cs = true.
Proof.
  induction 1 as [|b cs rest Hl Hlen Hc Hrest IH]; intros Hne; [congruence|].
  destruct rest as [|r rest'].
  - exists [], b, cs. rewrite app_nil_r. auto.
  - destruct (IH ltac:(discriminate)) as (d1 & lead & cs' & E & H1 & H2 & H3).
    exists (b :: cs ++ d1), lead, cs'. rewrite E. cbn [app]. rewrite <- app_assoc. auto.
Qed.

Lemma lead_long_not_ws b : is_lead b = true -> 1 <= char_len b - 1 -> is_ws b = false.
Proof.
  unfold char_len, is_ws, beq, SP, TAB, NL. intros _ H.
  destruct (N.ltb_spec b 128) as [L|L]; [cbn in H; lia|].
  destruct (N.eqb_spec b 32); [lia|]. destruct (N.eqb_spec b 9); [lia|].
  destruct (N.eqb_spec b 10); [lia|]. reflexivity.
Qed.

Theorem good_delims_sp_ok ds de : good_delims ds de -> sp_ok ds de.
Proof.
  intros (Hds & Hde & Wds & Wde & Nds & Nde & Fds & Lde). split.
  - destruct ds as [|d0 ds']; [congruence|]. exists d0, ds'. split; [reflexivity|].
    apply wf_utf8_WF in Wds. split; [apply (WF_head_not_cont d0 ds' Wds)|]. split; assumption.
  - apply wf_utf8_WF in Wde.
    destruct (WF_last de Wde Hde) as (d1 & lead & cs & E & H1 & H2 & H3).
    exists d1, lead, cs. split; [exact E|]. split; [apply lead_not_cont; exact H1|].
    split; [|split; [exact H3 | split; [exact Nde|]]].
    + destruct cs as [|c0 cs'].
      * rewrite E, rev_app_distr in Lde. cbn in Lde. exact Lde.
      * apply lead_long_not_ws; [exact H1|]. rewrite <- H2. cbn [length]. lia.
    + intros c Hc. destruct de as [|c' de']; [discriminate Hc|]. cbn in Hc. inversion Hc; subst.
      apply (WF_head_not_cont c de' Wde).
Qed.

(** What is needed of the document: texts and bodies are well-formed UTF-8. *)
Definition doc_wf (doc : list item) : Prop :=
  (forall t, In (Txt t) doc -> wf_utf8 t = true) /\ (forall b, In (Tag b) doc -> wf_utf8 b = true).

Lemma good_doc_wf ds de doc : good_doc ds de doc -> doc_wf doc.
Proof. intros (_ & _ & H1 & H2). split; assumption. Qed.

Lemma doc_wf_tail it doc : doc_wf (it :: doc) -> doc_wf doc.
Proof. intros [H1 H2]. split; intros x Hx; [apply H1 | apply H2]; right; exact Hx. Qed.

Theorem render_WF ds de doc : wf_utf8 ds = true -> wf_utf8 de = true -> doc_wf doc ->
  WF (render ds de doc).
Proof.
  intros Wds Wde. apply wf_utf8_WF in Wds. apply wf_utf8_WF in Wde.
  induction doc as [|it doc IH]; intros Hd; [constructor|].
  cbn [render flat_map]. apply WF_app; [|apply IH; apply (doc_wf_tail it); exact Hd].
  destruct Hd as [H1 H2]. destruct it as [t|b]; cbn [render_item].
  - apply wf_utf8_WF. apply H1. left. reflexivity.
  - apply WF_app; [exact Wds|]. apply WF_app; [|exact Wde]. apply wf_utf8_WF. apply H2. left. reflexivity.
Qed.

Theorem render_wf ds de doc : good_delims ds de -> good_doc ds de doc ->
  wf_utf8 (render ds de doc) = true.
Proof.
  intros (_ & _ & Wds & Wde & _) Hd. apply wf_utf8_WF.
  apply render_WF; [exact Wds | exact Wde | apply (good_doc_wf ds de); exact Hd].
Qed.

Lemma flat_head_ok ds de doc : good_delims ds de -> doc_wf doc -> head_ok (flat doc).
Proof.
  intros Hg Hd. pose proof Hg as (_ & _ & Wds & Wde & _).
  pose proof (render_WF ds de doc Wds Wde Hd) as W. rewrite <- rs_flat in W.
  unfold head_ok. destruct (flat doc) as [|[c| |] l]; try exact I.
  cbn [rs flat_map rsym app] in W. apply (WF_head_not_cont c _ W).
Qed.

(* ------------------------------------------------------------------------- *)
(** * Basic facts about the position map *)

Lemma good_ne2 ds de : good_delims ds de -> ne2 ds de.
Proof. intros H. apply sp_ok_ne. apply good_delims_sp_ok. exact H. Qed.

Theorem cpos_le_length ds de doc a : xvalid doc a -> cpos ds de doc a <= length (render ds de doc).
Proof. intros H. rewrite (cpos_pos ds de doc a H), <- rs_flat. apply pos_le_len. Qed.

(** The position map is strictly monotone in the symbol index, under every spelling. *)
Theorem cpos_lt_aidx ds de doc a b : good_delims ds de -> xvalid doc a -> xvalid doc b ->
  (cpos ds de doc a < cpos ds de doc b <-> aidx doc a < aidx doc b).
Proof.
  intros Hg Ha Hb. rewrite (cpos_pos ds de doc a Ha), (cpos_pos ds de doc b Hb).
  apply pos_lt_iff; [apply good_ne2; exact Hg | apply aidx_le; exact Ha | apply aidx_le; exact Hb].
Qed.

Theorem cpos_monotone_iff dsA deA dsB deB doc a b :
  good_delims dsA deA -> good_delims dsB deB -> xvalid doc a -> xvalid doc b ->
  (cpos dsA deA doc a < cpos dsA deA doc b <-> cpos dsB deB doc a < cpos dsB deB doc b).
Proof.
  intros HA HB Ha Hb. rewrite (cpos_lt_aidx dsA deA doc a b HA Ha Hb).
  rewrite (cpos_lt_aidx dsB deB doc a b HB Ha Hb). reflexivity.
Qed.

Theorem cpos_eq_aidx ds de doc a b : good_delims ds de -> xvalid doc a -> xvalid doc b ->
  (cpos ds de doc a = cpos ds de doc b <-> aidx doc a = aidx doc b).
Proof.
  intros Hg Ha Hb. pose proof (cpos_lt_aidx ds de doc a b Hg Ha Hb).
  pose proof (cpos_lt_aidx ds de doc b a Hg Hb Ha). lia.
Qed.

Theorem cpos_eq_iff dsA deA dsB deB doc a b :
  good_delims dsA deA -> good_delims dsB deB -> xvalid doc a -> xvalid doc b ->
  (cpos dsA deA doc a = cpos dsA deA doc b <-> cpos dsB deB doc a = cpos dsB deB doc b).
Proof.
  intros HA HB Ha Hb. rewrite (cpos_eq_aidx dsA deA doc a b HA Ha Hb).
  rewrite (cpos_eq_aidx dsB deB doc a b HB Ha Hb). reflexivity.
Qed.

Theorem cpos_le_iff dsA deA dsB deB doc a b :
  good_delims dsA deA -> good_delims dsB deB -> xvalid doc a -> xvalid doc b ->
  (cpos dsA deA doc a <= cpos dsA deA doc b <-> cpos dsB deB doc a <= cpos dsB deB doc b).
Proof.
  intros HA HB Ha Hb. pose proof (cpos_monotone_iff dsA deA dsB deB doc b a HA HB Hb Ha). lia.
Qed.

(** Bytes. *)
Theorem cpos_byte_txt ds de doc i k t : nth_error doc i = Some (Txt t) -> k < length t ->
  nth_error (render ds de doc) (cpos ds de doc (InTxt i k)) = nth_error t k.
Proof.
  intros H Hk. assert (xvalid doc (InTxt i k)) as Hv by (exists t; split; assumption).
  rewrite (cpos_pos ds de doc _ Hv), <- rs_flat.
  pose proof (sym_at_txt doc i k t H Hk) as Hs.
  destruct (nth_error t k) as [c|] eqn:N; [|apply nth_error_None in N; lia].
  cbn [option_map] in Hs. apply (pos_byte ds de _ _ c Hs).
Qed.

Theorem cpos_byte_body ds de doc i k b : nth_error doc i = Some (Tag b) -> k < length b ->
  nth_error (render ds de doc) (cpos ds de doc (InBody i k)) = nth_error b k.
Proof.
  intros H Hk. assert (xvalid doc (InBody i k)) as Hv by (exists b; split; [assumption | lia]).
  rewrite (cpos_pos ds de doc _ Hv), <- rs_flat.
  pose proof (sym_at_body doc i k b H ltac:(lia)) as Hs.
  apply Nat.ltb_lt in Hk. rewrite Hk in Hs. apply Nat.ltb_lt in Hk.
  destruct (nth_error b k) as [c|] eqn:N; [|apply nth_error_None in N; lia].
  cbn [option_map] in Hs. apply (pos_byte ds de _ _ c Hs).
Qed.

Theorem cpos_byte_tagstart ds de doc i b : ds <> [] -> nth_error doc i = Some (Tag b) ->
  nth_error (render ds de doc) (cpos ds de doc (TagStart i)) = nth_error ds 0.
Proof.
  intros Hne H. assert (xvalid doc (TagStart i)) as Hv by (exists b; assumption).
  rewrite (cpos_pos ds de doc _ Hv), <- rs_flat.
  pose proof (sym_at_tag doc i b H) as Hs.
  rewrite <- (Nat.add_0_r (pos ds de (flat doc) _)).
  rewrite (rs_nth_in ds de _ _ DS 0 Hs); [reflexivity|]. cbn [rsym].
  destruct ds; [congruence | cbn; lia].
Qed.

(** Boundaries.  A position inside a text or body is a character boundary of the rendering
    exactly when its byte is not a continuation byte; all other positions are boundaries. *)
Theorem cpos_boundary_eq ds de doc a : good_delims ds de -> doc_wf doc -> xvalid doc a ->
  is_boundary (render ds de doc) (cpos ds de doc a) = a_boundary (flat doc) (aidx doc a).
Proof.
  intros Hg Hd Hv. rewrite (cpos_pos ds de doc a Hv), <- rs_flat.
  apply boundary_flat; [apply good_delims_sp_ok; exact Hg | apply (flat_head_ok ds de); assumption |
                        apply aidx_le; exact Hv].
Qed.

(** [a] is a character boundary of its own text / body. *)
Definition abound (doc : list item) (a : apos) : Prop :=
  match a with
  | InTxt i k => forall t, nth_error doc i = Some (Txt t) -> is_boundary t k = true
  | InBody i k => forall b, nth_error doc i = Some (Tag b) -> is_boundary b k = true
  | _ => True
  end.

Lemma inner_boundary (t : str) k c : WF t -> nth_error t k = Some c -> is_boundary t k = true ->
  is_cont c = false.
Proof.
  intros W N Hb. destruct k as [|k].
  - destruct t as [|x t']; [discriminate N|]. cbn in N. inversion N; subst.
    apply (WF_head_not_cont c t' W).
  - unfold is_boundary in Hb. rewrite N in Hb. destruct (is_cont c); [discriminate Hb | reflexivity].
Qed.

Theorem cpos_boundary ds de doc a : good_delims ds de -> good_doc ds de doc ->
  valid_apos doc a -> abound doc a ->
  is_boundary (render ds de doc) (cpos ds de doc a) = true.
Proof.
  intros Hg Hgd Hv Hb. pose proof (good_doc_wf ds de doc Hgd) as Hd.
  rewrite (cpos_boundary_eq ds de doc a Hg Hd (valid_xvalid doc a Hv)). unfold a_boundary.
  destruct Hd as [Ht Hbd].
  destruct a as [i k|i|i k|]; cbn [valid_apos abound] in Hv, Hb.
  - destruct Hv as (t & H & Hk). rewrite (sym_at_txt doc i k t H Hk).
    destruct (nth_error t k) as [c|] eqn:N; [|reflexivity]. cbn [option_map].
    rewrite (inner_boundary t k c); [reflexivity | | exact N | apply Hb; exact H].
    apply wf_utf8_WF. apply Ht. apply (nth_error_In doc i H).
  - destruct Hv as (b & H). rewrite (sym_at_tag doc i b H). reflexivity.
  - destruct Hv as (b & H & Hk). rewrite (sym_at_body doc i k b H ltac:(lia)).
    apply Nat.ltb_lt in Hk. rewrite Hk.
    destruct (nth_error b k) as [c|] eqn:N; [|reflexivity]. cbn [option_map].
    rewrite (inner_boundary b k c); [reflexivity | | exact N | apply Hb; exact H].
    apply wf_utf8_WF. apply Hbd. apply (nth_error_In doc i H).
  - rewrite sym_at_end. reflexivity.
Qed.

(** Without [abound] the statement is false: the second byte of a two-byte character. *)
Example cpos_boundary_counterexample :
  let doc := [Txt [195; 169]%N] in
  valid_apos doc (InTxt 0 1) /\
  is_boundary (render [60%N] [62%N] doc) (cpos [60%N] [62%N] doc (InTxt 0 1)) = false.
Proof. split; [exists [195; 169]%N; split; [reflexivity | cbn; lia] | reflexivity]. Qed.

(* ------------------------------------------------------------------------- *)
(** * The successor of a position *)

Definition anext (doc : list item) (a : apos) : apos := apos_of doc (S (aidx doc a)).

(** The position points at a byte of a text or of a tag body. *)
Definition at_byte (doc : list item) (a : apos) (c : byte) : Prop :=
  nth_error (flat doc) (aidx doc a) = Some (B c).

Lemma at_byte_txt doc i k t c : nth_error doc i = Some (Txt t) -> nth_error t k = Some c ->
  at_byte doc (InTxt i k) c.
Proof.
  intros H N. unfold at_byte. assert (k < length t) as Hk by (apply nth_error_Some; congruence).
  rewrite (sym_at_txt doc i k t H Hk), N. reflexivity.
Qed.

Lemma at_byte_body doc i k b c : nth_error doc i = Some (Tag b) -> nth_error b k = Some c ->
  at_byte doc (InBody i k) c.
Proof.
  intros H N. unfold at_byte. assert (k < length b) as Hk by (apply nth_error_Some; congruence).
  rewrite (sym_at_body doc i k b H ltac:(lia)). apply Nat.ltb_lt in Hk. rewrite Hk, N. reflexivity.
Qed.

Lemma at_byte_render ds de doc a c : xvalid doc a -> at_byte doc a c ->
  nth_error (render ds de doc) (cpos ds de doc a) = Some c.
Proof.
  intros Hv H. rewrite (cpos_pos ds de doc a Hv), <- rs_flat. apply (pos_byte ds de _ _ c H).
Qed.

Theorem anext_spec doc a c : xvalid doc a -> at_byte doc a c ->
  xvalid doc (anext doc a) /\ aidx doc (anext doc a) = S (aidx doc a) /\
  forall ds de, cpos ds de doc (anext doc a) = cpos ds de doc a + 1.
Proof.
  intros Hv H. unfold at_byte in H. pose proof (nth_lt_len _ _ _ H) as Hlt.
  destruct (apos_of_spec doc (S (aidx doc a)) ltac:(lia)) as [H1 H2].
  split; [exact H1|]. split; [exact H2|]. intros ds de. unfold anext.
  rewrite (cpos_apos_of ds de doc (S (aidx doc a)) ltac:(lia)), (cpos_pos ds de doc a Hv).
  destruct (pos_byte ds de _ _ c H) as [_ ->]. lia.
Qed.

(* ------------------------------------------------------------------------- *)
(** * The finders on a rendered document *)

Definition afind_next_lb (doc : list item) (a : apos) (pause : bool) : option apos :=
  option_map (apos_of doc) (a_next_lb (flat doc) (aidx doc a) pause).
Definition afind_prev_lb (doc : list item) (a : apos) (pause : bool) : option apos :=
  option_map (apos_of doc) (a_prev_lb (flat doc) (aidx doc a) pause).
Definition afind_next_char (doc : list item) (a : apos) : option apos :=
  option_map (apos_of doc) (a_next_char (flat doc) (aidx doc a)).

Theorem find_next_lb_render ds de doc a pause : good_delims ds de -> doc_wf doc -> xvalid doc a ->
  find_next_lb (render ds de doc) (cpos ds de doc a) pause =
  option_map (cpos ds de doc) (afind_next_lb doc a pause).
Proof.
  intros Hg Hd Hv. rewrite (cpos_pos ds de doc a Hv), <- rs_flat.
  rewrite (next_lb_flat ds de _ _ pause (good_delims_sp_ok ds de Hg) (flat_head_ok ds de doc Hg Hd)
             (aidx_le doc a Hv)).
  unfold afind_next_lb. destruct (a_next_lb (flat doc) (aidx doc a) pause) as [p|] eqn:F; [|reflexivity].
  cbn [option_map]. apply a_next_lb_some in F. destruct F as (_ & F & _).
  rewrite (cpos_apos_of ds de doc p ltac:(lia)). reflexivity.
Qed.

Theorem afind_next_lb_valid doc a pause b : afind_next_lb doc a pause = Some b ->
  valid_apos doc b /\ at_byte doc b NL /\ aidx doc a <= aidx doc b.
Proof.
  unfold afind_next_lb. destruct (a_next_lb (flat doc) (aidx doc a) pause) as [p|] eqn:F; [|discriminate].
  cbn [option_map]. intros E. inversion E; subst b. apply a_next_lb_some in F.
  destruct F as (F1 & F2 & F3 & _). destruct (apos_of_spec doc p ltac:(lia)) as [_ H2].
  split; [apply (apos_of_valid doc p NL F3)|]. unfold at_byte. rewrite H2. split; assumption.
Qed.

Theorem find_prev_lb_render ds de doc a pause : good_delims ds de -> doc_wf doc -> xvalid doc a ->
  find_prev_lb (render ds de doc) (cpos ds de doc a) pause =
  option_map (cpos ds de doc) (afind_prev_lb doc a pause).
Proof.
  intros Hg Hd Hv. rewrite (cpos_pos ds de doc a Hv), <- rs_flat.
  rewrite (prev_lb_flat ds de _ pause (good_delims_sp_ok ds de Hg) (flat_head_ok ds de doc Hg Hd)
             _ (aidx_le doc a Hv)).
  unfold afind_prev_lb. destruct (a_prev_lb (flat doc) (aidx doc a) pause) as [p|] eqn:F; [|reflexivity].
  cbn [option_map]. apply a_prev_lb_some in F. destruct F as (F & _).
  pose proof (aidx_le doc a Hv). rewrite (cpos_apos_of ds de doc p ltac:(lia)). reflexivity.
Qed.

Theorem afind_prev_lb_valid doc a pause b : xvalid doc a -> afind_prev_lb doc a pause = Some b ->
  valid_apos doc b /\ at_byte doc b NL /\ aidx doc b < aidx doc a.
Proof.
  intros Hv. unfold afind_prev_lb.
  destruct (a_prev_lb (flat doc) (aidx doc a) pause) as [p|] eqn:F; [|discriminate].
  cbn [option_map]. intros E. inversion E; subst b. apply a_prev_lb_some in F.
  destruct F as (F1 & F3 & _). pose proof (aidx_le doc a Hv).
  destruct (apos_of_spec doc p ltac:(lia)) as [_ H2].
  split; [apply (apos_of_valid doc p NL F3)|]. unfold at_byte. rewrite H2. split; assumption.
Qed.

Theorem find_next_char_render ds de doc a : good_delims ds de -> de_nb de -> xvalid doc a ->
  find_next_char (render ds de doc) (cpos ds de doc a) =
  option_map (cpos ds de doc) (afind_next_char doc a).
Proof.
  intros Hg Hnb Hv. rewrite (cpos_pos ds de doc a Hv), <- rs_flat.
  rewrite (next_char_flat ds de _ _ (good_delims_sp_ok ds de Hg) Hnb (aidx_le doc a Hv)).
  unfold afind_next_char. destruct (a_next_char (flat doc) (aidx doc a)) as [p|] eqn:F; [|reflexivity].
  cbn [option_map]. apply a_next_char_some in F. destruct F as (_ & F & _).
  rewrite (cpos_apos_of ds de doc p ltac:(lia)). reflexivity.
Qed.

Theorem afind_next_char_valid doc a b : afind_next_char doc a = Some b ->
  xvalid doc b /\ aidx doc a <= aidx doc b.
Proof.
  unfold afind_next_char. destruct (a_next_char (flat doc) (aidx doc a)) as [p|] eqn:F; [|discriminate].
  cbn [option_map]. intros E. inversion E; subst b. apply a_next_char_some in F.
  destruct F as (F1 & F2 & _). destruct (apos_of_spec doc p ltac:(lia)) as [H1 H2].
  split; [exact H1 | rewrite H2; exact F1].
Qed.

(* ------------------------------------------------------------------------- *)
(** * The seam formatters' hull and the block dedenter on a rendered document *)

Definition arange (doc : list item) (r : nat * nat) : apos * apos :=
  (apos_of doc (fst r), apos_of doc (snd r)).
Definition crange (ds de : str) (doc : list item) (r : apos * apos) : range :=
  (cpos ds de doc (fst r), cpos ds de doc (snd r)).

Definition aformat_block (doc : list item) (a : apos) : res (apos * apos) :=
  match a_format_block (flat doc) (aidx doc a) with
  | Ok r => Ok (arange doc r)
  | Panic => Panic
  end.
Definition ablock_indent (doc : list item) (a b : apos) : list (apos * apos) :=
  map (arange doc) (a_block_indent (flat doc) (aidx doc a) (aidx doc b)).

Lemma crange_arange ds de doc r : fst r <= length (flat doc) -> snd r <= length (flat doc) ->
  crange ds de doc (arange doc r) = prange ds de (flat doc) r.
Proof.
  intros H1 H2. unfold crange, arange, prange. cbn [fst snd].
  rewrite !cpos_apos_of by assumption. reflexivity.
Qed.

Theorem format_block_render ds de doc a : good_delims ds de -> doc_wf doc -> xvalid doc a ->
  format_block (render ds de doc) (cpos ds de doc a) =
  match aformat_block doc a with Ok r => Ok (crange ds de doc r) | Panic => Panic end.
Proof.
  intros Hg Hd Hv. rewrite (cpos_pos ds de doc a Hv), <- rs_flat.
  rewrite (format_block_flat ds de _ _ (good_delims_sp_ok ds de Hg) (flat_head_ok ds de doc Hg Hd)
             (aidx_le doc a Hv)).
  unfold aformat_block. pose proof (a_format_block_in_len (flat doc) _ (aidx_le doc a Hv)) as Hb.
  destruct (a_format_block (flat doc) (aidx doc a)) as [[x y]|]; [|reflexivity].
  cbn [mapr]. cbn in Hb. rewrite crange_arange by (cbn; lia). reflexivity.
Qed.

Theorem aformat_block_valid doc a r : xvalid doc a -> aformat_block doc a = Ok r ->
  xvalid doc (fst r) /\ xvalid doc (snd r).
Proof.
  intros Hv. unfold aformat_block.
  pose proof (a_format_block_in_len (flat doc) _ (aidx_le doc a Hv)) as Hb.
  destruct (a_format_block (flat doc) (aidx doc a)) as [[x y]|]; [|discriminate].
  intros E. inversion E; subst r. cbn in Hb. cbn [arange fst snd].
  split; apply apos_of_spec; lia.
Qed.

Theorem aformat_block_ok ds de doc a : good_delims ds de -> doc_wf doc -> xvalid doc a ->
  is_boundary (render ds de doc) (cpos ds de doc a) = true -> exists r, aformat_block doc a = Ok r.
Proof.
  intros Hg Hd Hv Hb. rewrite (cpos_boundary_eq ds de doc a Hg Hd Hv) in Hb.
  unfold aformat_block. destruct (a_format_block_ok _ _ Hb) as [r ->]. eauto.
Qed.

(** No line of the document consists of blanks up to an end delimiter: the first non-blank
    after a line break is never the first byte of an end delimiter. *)
Definition line_tails_ok (doc : list item) : Prop :=
  forall a e, xvalid doc a -> at_byte doc a NL -> afind_next_char doc (anext doc a) = Some e ->
    valid_apos doc e.

(** The block dedenter needs: the end delimiter does not start with a blank, or the document has
    no such line. *)
Definition dedent_ok (de : str) (doc : list item) : Prop := de_nb de \/ line_tails_ok doc.

Lemma line_tails_ok_flat doc : line_tails_ok doc -> line_tail_ok (flat doc).
Proof.
  intros H p e Hp He HDE. pose proof (nth_lt_len _ _ _ Hp) as Hlt.
  destruct (apos_of_spec doc p ltac:(lia)) as [V1 V2].
  assert (at_byte doc (apos_of doc p) NL) as Hb by (unfold at_byte; rewrite V2; exact Hp).
  destruct (anext_spec doc _ NL V1 Hb) as (_ & N2 & _). rewrite V2 in N2.
  assert (afind_next_char doc (anext doc (apos_of doc p)) = Some (apos_of doc e)) as F.
  { unfold afind_next_char. rewrite N2, He. reflexivity. }
  specialize (H _ _ V1 Hb F). apply (valid_not_DE doc _ H).
  pose proof (nth_lt_len _ _ _ HDE) as Hlt'.
  destruct (apos_of_spec doc e ltac:(lia)) as [_ ->]. exact HDE.
Qed.

Lemma dedent_ok_flat de doc : dedent_ok de doc -> nb_ok de (flat doc).
Proof. intros [H|H]; [left; exact H | right; apply line_tails_ok_flat; exact H]. Qed.

Theorem block_indent_render ds de doc a b : good_delims ds de -> dedent_ok de doc -> doc_wf doc ->
  xvalid doc a -> xvalid doc b ->
  block_indent_remover (render ds de doc) (cpos ds de doc a) (cpos ds de doc b) =
  Ok (map (crange ds de doc) (ablock_indent doc a b)).
Proof.
  intros Hg Hnb Hd Ha Hb. rewrite (cpos_pos ds de doc a Ha), (cpos_pos ds de doc b Hb), <- rs_flat.
  rewrite (block_indent_flat ds de _ _ _ (good_delims_sp_ok ds de Hg) (dedent_ok_flat de doc Hnb)
             (flat_head_ok ds de doc Hg Hd)
             (aidx_le doc a Ha) (aidx_le doc b Hb)).
  f_equal. unfold ablock_indent. rewrite map_map.
  pose proof (a_block_indent_in_len (flat doc) (aidx doc a) (aidx doc b)) as HF.
  induction HF as [|r rs' [H1 H2] _ IH]; [reflexivity|].
  cbn [map]. rewrite crange_arange by assumption. f_equal. exact IH.
Qed.

Theorem ablock_indent_valid doc a b :
  Forall (fun r => xvalid doc (fst r) /\ xvalid doc (snd r)) (ablock_indent doc a b).
Proof.
  unfold ablock_indent. pose proof (a_block_indent_in_len (flat doc) (aidx doc a) (aidx doc b)) as HF.
  induction HF as [|r rs' [H1 H2] _ IH]; [constructor|].
  cbn [map]. constructor; [|exact IH]. cbn [arange fst snd]. split; apply apos_of_spec; assumption.
Qed.

(* ------------------------------------------------------------------------- *)
(** * [apos_of] inverts [aidx]; the position map is injective *)

Lemma aof_at_item : forall doc i0 i it k, nth_error doc i = Some it ->
  k < length (flat_item it) ->
  aof doc i0 (fstart doc i + k) =
  match it with
  | Txt _ => InTxt (i0 + i) k
  | Tag _ => if k =? 0 then TagStart (i0 + i) else InBody (i0 + i) (k - 1)
  end.
Proof.
  induction doc as [|it0 doc IH]; intros i0 i it k H Hk; [destruct i; discriminate H|].
  destruct i as [|i].
  - cbn in H. inversion H; subst it0. unfold fstart. cbn [firstn flat flat_map length Nat.add].
    rewrite Nat.add_0_r. rewrite flat_item_len in Hk. destruct it as [t|b]; cbn [aof].
    + apply Nat.ltb_lt in Hk. rewrite Hk. reflexivity.
    + destruct (Nat.eqb_spec k 0) as [->|K0]; [reflexivity|].
      destruct (Nat.leb_spec k (S (length b))) as [L|L]; [reflexivity | lia].
  - cbn [nth_error] in H.
    assert (fstart (it0 :: doc) (S i) = length (flat_item it0) + fstart doc i) as E.
    { unfold fstart. cbn [firstn flat flat_map]. rewrite app_length. reflexivity. }
    rewrite E, flat_item_len. specialize (IH (S i0) i it k H Hk).
    replace (S i0 + i) with (i0 + S i) in IH by lia.
    destruct it0 as [t0|b0]; cbn [aof].
    + destruct (Nat.ltb_spec (length t0 + fstart doc i + k) (length t0)) as [L|L]; [lia|].
      replace (length t0 + fstart doc i + k - length t0) with (fstart doc i + k) by lia. exact IH.
    + destruct (Nat.eqb_spec (length b0 + 2 + fstart doc i + k) 0) as [L|L]; [lia|].
      destruct (Nat.leb_spec (length b0 + 2 + fstart doc i + k) (S (length b0))) as [L'|L']; [lia|].
      replace (length b0 + 2 + fstart doc i + k - (length b0 + 2)) with (fstart doc i + k) by lia.
      exact IH.
Qed.

Lemma aof_at_end : forall doc i0, aof doc i0 (length (flat doc)) = DocEnd.
Proof.
  induction doc as [|it doc IH]; intros i0; [reflexivity|].
  cbn [flat flat_map]. rewrite app_length, flat_item_len. fold (flat doc).
  destruct it as [t|b]; cbn [aof].
  - destruct (Nat.ltb_spec (length t + length (flat doc)) (length t)) as [L|L]; [lia|].
    replace (length t + length (flat doc) - length t) with (length (flat doc)) by lia. apply IH.
  - destruct (Nat.eqb_spec (length b + 2 + length (flat doc)) 0) as [L|L]; [lia|].
    destruct (Nat.leb_spec (length b + 2 + length (flat doc)) (S (length b))) as [L'|L']; [lia|].
    replace (length b + 2 + length (flat doc) - (length b + 2)) with (length (flat doc)) by lia.
    apply IH.
Qed.

Theorem apos_of_aidx doc a : xvalid doc a -> apos_of doc (aidx doc a) = a.
Proof.
  unfold apos_of. destruct a as [i k|i|i k|]; cbn [xvalid valid_apos aidx].
  - intros (t & H & Hk). rewrite (aof_at_item doc 0 i _ k H) by (rewrite flat_item_len; exact Hk).
    reflexivity.
  - intros (b & H). rewrite <- (Nat.add_0_r (fstart doc i)).
    rewrite (aof_at_item doc 0 i _ 0 H) by (rewrite flat_item_len; lia). reflexivity.
  - intros (b & H & Hk). replace (fstart doc i + 1 + k) with (fstart doc i + (1 + k)) by lia.
    rewrite (aof_at_item doc 0 i _ (1 + k) H) by (rewrite flat_item_len; lia).
    cbn [Nat.add Nat.eqb]. f_equal. lia.
  - intros _. apply aof_at_end.
Qed.

Theorem aidx_inj doc a b : xvalid doc a -> xvalid doc b -> aidx doc a = aidx doc b -> a = b.
Proof.
  intros Ha Hb E. rewrite <- (apos_of_aidx doc a Ha), <- (apos_of_aidx doc b Hb), E. reflexivity.
Qed.

Theorem cpos_inj ds de doc a b : good_delims ds de -> xvalid doc a -> xvalid doc b ->
  cpos ds de doc a = cpos ds de doc b -> a = b.
Proof.
  intros Hg Ha Hb E. apply (aidx_inj doc a b Ha Hb). apply (cpos_eq_aidx ds de doc a b Hg Ha Hb). exact E.
Qed.

(** The successor, computed. *)
Lemma anext_body doc i k b : nth_error doc i = Some (Tag b) -> k < length b ->
  anext doc (InBody i k) = InBody i (S k).
Proof.
  intros H Hk. unfold anext.
  replace (S (aidx doc (InBody i k))) with (aidx doc (InBody i (S k))) by (cbn [aidx]; lia).
  apply apos_of_aidx. exists b. split; [exact H | lia].
Qed.

Lemma anext_txt doc i k t : nth_error doc i = Some (Txt t) -> S k < length t ->
  anext doc (InTxt i k) = InTxt i (S k).
Proof.
  intros H Hk. unfold anext.
  replace (S (aidx doc (InTxt i k))) with (aidx doc (InTxt i (S k))) by (cbn [aidx]; lia).
  apply apos_of_aidx. exists t. split; [exact H | lia].
Qed.

(** After the last byte of a text: the start of the next item. *)
Lemma anext_txt_last doc i k t : nth_error doc i = Some (Txt t) -> S k = length t ->
  anext doc (InTxt i k) =
  match nth_error doc (S i) with
  | Some (Tag _) => TagStart (S i)
  | Some (Txt t') => if length t' =? 0 then anext doc (InTxt i k) else InTxt (S i) 0
  | None => DocEnd
  end.
Proof.
  intros H Hk. unfold anext.
  assert (S (aidx doc (InTxt i k)) = fstart doc (S i)) as E.
  { cbn [aidx]. rewrite (fstart_S doc i _ H), flat_item_len. lia. }
  destruct (nth_error doc (S i)) as [[t'|b']|] eqn:N.
  - destruct (Nat.eqb_spec (length t') 0) as [L|L]; [reflexivity|]. rewrite E.
    replace (fstart doc (S i)) with (aidx doc (InTxt (S i) 0)) by (cbn [aidx]; lia).
    apply apos_of_aidx. exists t'. split; [exact N | lia].
  - rewrite E. change (fstart doc (S i)) with (aidx doc (TagStart (S i))).
    apply apos_of_aidx. exists b'. exact N.
  - rewrite E. apply nth_error_None in N. rewrite (fstart_all doc (S i) N).
    change (length (flat doc)) with (aidx doc DocEnd). apply apos_of_aidx. exact I.
Qed.

(* ------------------------------------------------------------------------- *)
(** * [find_next_char] when the end delimiter may start with a blank *)

Theorem find_next_char_render_gen ds de doc a : good_delims ds de -> xvalid doc a ->
  (forall e, afind_next_char doc a = Some e -> valid_apos doc e \/ de_nb de) ->
  find_next_char (render ds de doc) (cpos ds de doc a) =
  option_map (cpos ds de doc) (afind_next_char doc a).
Proof.
  intros Hg Hv Hnb. rewrite (cpos_pos ds de doc a Hv), <- rs_flat.
  rewrite (next_char_flat_gen ds de _ _ (good_delims_sp_ok ds de Hg) (aidx_le doc a Hv)).
  - unfold afind_next_char. destruct (a_next_char (flat doc) (aidx doc a)) as [p|] eqn:F; [|reflexivity].
    cbn [option_map]. apply a_next_char_some in F. destruct F as (_ & F & _).
    rewrite (cpos_apos_of ds de doc p ltac:(lia)). reflexivity.
  - intros e He HDE. unfold afind_next_char in Hnb. rewrite He in Hnb.
    destruct (Hnb _ eq_refl) as [Hval|Hd]; [|exact Hd]. exfalso.
    apply (valid_not_DE doc _ Hval). pose proof (nth_lt_len _ _ _ HDE) as Hlt.
    destruct (apos_of_spec doc e ltac:(lia)) as [_ ->]. exact HDE.
Qed.

(* ------------------------------------------------------------------------- *)
(** * The simulation theorems *)

(** The hypotheses of the setting, bundled. *)
Definition sim_ctx (dsA deA dsB deB : str) (doc : list item) : Prop :=
  good_delims dsA deA /\ good_delims dsB deB /\ good_doc dsA deA doc /\ good_doc dsB deB doc.

Theorem sim_find_next_lb dsA deA dsB deB doc :
  good_delims dsA deA -> good_delims dsB deB -> good_doc dsA deA doc -> good_doc dsB deB doc ->
  forall a pause, xvalid doc a ->
  exists r : option apos,
    (match r with Some b => valid_apos doc b | None => True end) /\
    find_next_lb (render dsA deA doc) (cpos dsA deA doc a) pause = option_map (cpos dsA deA doc) r /\
    find_next_lb (render dsB deB doc) (cpos dsB deB doc a) pause = option_map (cpos dsB deB doc) r.
Proof.
  intros HA HB HdA _ a pause Hv. pose proof (good_doc_wf dsA deA doc HdA) as Hd.
  exists (afind_next_lb doc a pause). split; [|split; apply find_next_lb_render; assumption].
  destruct (afind_next_lb doc a pause) as [b|] eqn:F; [|exact I].
  apply (afind_next_lb_valid doc a pause b F).
Qed.

Theorem sim_find_prev_lb dsA deA dsB deB doc :
  good_delims dsA deA -> good_delims dsB deB -> good_doc dsA deA doc -> good_doc dsB deB doc ->
  forall a pause, xvalid doc a ->
  exists r : option apos,
    (match r with Some b => valid_apos doc b | None => True end) /\
    find_prev_lb (render dsA deA doc) (cpos dsA deA doc a) pause = option_map (cpos dsA deA doc) r /\
    find_prev_lb (render dsB deB doc) (cpos dsB deB doc a) pause = option_map (cpos dsB deB doc) r.
Proof.
  intros HA HB HdA _ a pause Hv. pose proof (good_doc_wf dsA deA doc HdA) as Hd.
  exists (afind_prev_lb doc a pause). split; [|split; apply find_prev_lb_render; assumption].
  destruct (afind_prev_lb doc a pause) as [b|] eqn:F; [|exact I].
  apply (afind_prev_lb_valid doc a pause b Hv F).
Qed.

(** [find_next_char]: the end delimiters must not start with a blank, and the result may be the
    first byte of an end delimiter ([InBody i (length b)], valid in the extended sense only). *)
Theorem sim_find_next_char dsA deA dsB deB doc :
  good_delims dsA deA -> good_delims dsB deB -> good_doc dsA deA doc -> good_doc dsB deB doc ->
  de_nb deA -> de_nb deB ->
  forall a, xvalid doc a ->
  exists r : option apos,
    (match r with Some b => xvalid doc b | None => True end) /\
    find_next_char (render dsA deA doc) (cpos dsA deA doc a) = option_map (cpos dsA deA doc) r /\
    find_next_char (render dsB deB doc) (cpos dsB deB doc a) = option_map (cpos dsB deB doc) r.
Proof.
  intros HA HB _ _ NA NB a Hv.
  exists (afind_next_char doc a). split; [|split; apply find_next_char_render; assumption].
  destruct (afind_next_char doc a) as [b|] eqn:F; [|exact I].
  apply (afind_next_char_valid doc a b F).
Qed.

(** Without the condition on the end delimiters: as long as the scan does not end at an end
    delimiter (the abstract result is a position in the strict sense). *)
Theorem sim_find_next_char_strict dsA deA dsB deB doc :
  good_delims dsA deA -> good_delims dsB deB -> good_doc dsA deA doc -> good_doc dsB deB doc ->
  forall a, xvalid doc a ->
  (forall e, afind_next_char doc a = Some e -> valid_apos doc e) ->
  exists r : option apos,
    (match r with Some b => valid_apos doc b | None => True end) /\
    find_next_char (render dsA deA doc) (cpos dsA deA doc a) = option_map (cpos dsA deA doc) r /\
    find_next_char (render dsB deB doc) (cpos dsB deB doc a) = option_map (cpos dsB deB doc) r.
Proof.
  intros HA HB _ _ a Hv Hstrict.
  exists (afind_next_char doc a). split.
  - destruct (afind_next_char doc a) as [b|] eqn:F; [|exact I]. apply Hstrict. reflexivity.
  - split; apply find_next_char_render_gen; try assumption; intros e He; left; apply Hstrict; exact He.
Qed.

(** [format_block]: [None] stands for a panic (which happens exactly when the position is not a
    character boundary, under both spellings alike). *)
Theorem sim_format_block dsA deA dsB deB doc :
  good_delims dsA deA -> good_delims dsB deB -> good_doc dsA deA doc -> good_doc dsB deB doc ->
  forall a, xvalid doc a ->
  exists r : option (apos * apos),
    (match r with Some (x, y) => xvalid doc x /\ xvalid doc y | None => True end) /\
    format_block (render dsA deA doc) (cpos dsA deA doc a) =
      match r with Some (x, y) => Ok (cpos dsA deA doc x, cpos dsA deA doc y) | None => Panic end /\
    format_block (render dsB deB doc) (cpos dsB deB doc a) =
      match r with Some (x, y) => Ok (cpos dsB deB doc x, cpos dsB deB doc y) | None => Panic end.
Proof.
  intros HA HB HdA _ a Hv. pose proof (good_doc_wf dsA deA doc HdA) as Hd.
  pose proof (format_block_render dsA deA doc a HA Hd Hv) as EA.
  pose proof (format_block_render dsB deB doc a HB Hd Hv) as EB.
  destruct (aformat_block doc a) as [[x y]|] eqn:F.
  - exists (Some (x, y)). split; [apply (aformat_block_valid doc a (x, y) Hv F)|]. split; assumption.
  - exists None. split; [exact I|]. split; assumption.
Qed.

Theorem sim_format_block_boundary dsA deA dsB deB doc :
  good_delims dsA deA -> good_delims dsB deB -> good_doc dsA deA doc -> good_doc dsB deB doc ->
  forall a, xvalid doc a ->
  is_boundary (render dsA deA doc) (cpos dsA deA doc a) = true ->
  exists x y, xvalid doc x /\ xvalid doc y /\
    format_block (render dsA deA doc) (cpos dsA deA doc a) = Ok (cpos dsA deA doc x, cpos dsA deA doc y) /\
    format_block (render dsB deB doc) (cpos dsB deB doc a) = Ok (cpos dsB deB doc x, cpos dsB deB doc y).
Proof.
  intros HA HB HdA _ a Hv Hb. pose proof (good_doc_wf dsA deA doc HdA) as Hd.
  pose proof (format_block_render dsA deA doc a HA Hd Hv) as EA.
  pose proof (format_block_render dsB deB doc a HB Hd Hv) as EB.
  destruct (aformat_block_ok dsA deA doc a HA Hd Hv Hb) as [[x y] F]. rewrite F in EA, EB.
  exists x, y. destruct (aformat_block_valid doc a (x, y) Hv F) as [V1 V2]. auto.
Qed.

(** Being a boundary does not depend on the spelling. *)
Theorem sim_is_boundary dsA deA dsB deB doc :
  good_delims dsA deA -> good_delims dsB deB -> good_doc dsA deA doc -> good_doc dsB deB doc ->
  forall a, xvalid doc a ->
  is_boundary (render dsA deA doc) (cpos dsA deA doc a) = is_boundary (render dsB deB doc) (cpos dsB deB doc a).
Proof.
  intros HA HB HdA _ a Hv. pose proof (good_doc_wf dsA deA doc HdA) as Hd.
  rewrite (cpos_boundary_eq dsA deA doc a HA Hd Hv), (cpos_boundary_eq dsB deB doc a HB Hd Hv).
  reflexivity.
Qed.

(** The block dedenter: each end delimiter must not start with a blank, unless the document has
    no line of blanks that runs into an end delimiter. *)
Theorem sim_block_indent dsA deA dsB deB doc :
  good_delims dsA deA -> good_delims dsB deB -> good_doc dsA deA doc -> good_doc dsB deB doc ->
  dedent_ok deA doc -> dedent_ok deB doc ->
  forall a b, xvalid doc a -> xvalid doc b ->
  exists rs : list (apos * apos),
    Forall (fun r => xvalid doc (fst r) /\ xvalid doc (snd r)) rs /\
    block_indent_remover (render dsA deA doc) (cpos dsA deA doc a) (cpos dsA deA doc b) =
      Ok (map (fun r => (cpos dsA deA doc (fst r), cpos dsA deA doc (snd r))) rs) /\
    block_indent_remover (render dsB deB doc) (cpos dsB deB doc a) (cpos dsB deB doc b) =
      Ok (map (fun r => (cpos dsB deB doc (fst r), cpos dsB deB doc (snd r))) rs).
Proof.
  intros HA HB HdA _ NA NB a b Ha Hb. pose proof (good_doc_wf dsA deA doc HdA) as Hd.
  exists (ablock_indent doc a b). split; [apply ablock_indent_valid|].
  split; apply block_indent_render; assumption.
Qed.

(** "Position + 1" after a byte of a text or body (in particular after a line break). *)
Theorem sim_succ dsA deA dsB deB doc a c : xvalid doc a -> at_byte doc a c ->
  xvalid doc (anext doc a) /\
  cpos dsA deA doc (anext doc a) = cpos dsA deA doc a + 1 /\
  cpos dsB deB doc (anext doc a) = cpos dsB deB doc a + 1.
Proof.
  intros Hv H. destruct (anext_spec doc a c Hv H) as (H1 & _ & H3). auto.
Qed.

(* ------------------------------------------------------------------------- *)
(** * Why the statements are as they are: concrete witnesses *)

(** (a) A produced range end can be the first byte of an end delimiter: the empty-line remover
    at the last line break of a tag body.  Such a position is [InBody i (length b)], which
    [valid_apos] excludes; hence [xvalid]. *)
Example format_block_ends_at_end_delimiter :
  let doc := [Tag [120; 10; 10]%N] in          (* body "x\n\n" *)
  let ds := [60]%N in let de := [62]%N in      (* "<" ">" *)
  format_block (render ds de doc) (cpos ds de doc (InBody 0 2)) =
    Ok (cpos ds de doc (InBody 0 2), cpos ds de doc (InBody 0 3)) /\
  ~ valid_apos doc (InBody 0 3).
Proof.
  split; [vm_compute; reflexivity|]. cbn. intros (b & H & Hk). inversion H; subst. cbn in Hk. lia.
Qed.

(** (b) When an end delimiter starts with a blank, [find_next_char] started in a tag body that
    ends with blanks runs into the delimiter, and the block dedenter's ranges differ in length
    under the two spellings: doc = "x", tag "a\n  ", "\n    y\n    z\n", tag "e". *)
Example block_indent_diverges :
  let doc := [Txt [120]%N; Tag [97; 10; 32; 32]%N;
              Txt [10; 32; 32; 32; 32; 121; 10; 32; 32; 32; 32; 122; 10]%N; Tag [101]%N] in
  let dsA := [60; 33; 45; 45]%N in let deA := [32; 45; 45; 62]%N in     (* "<!--" " -->" *)
  let dsB := [47; 42]%N in let deB := [42; 47]%N in                     (* "/*" "*/" *)
  good_delims dsA deA /\ good_delims dsB deB /\
  find_next_char (render dsA deA doc) (cpos dsA deA doc (InBody 1 2)) = Some (cpos dsA deA doc (InBody 1 4) + 1) /\
  find_next_char (render dsB deB doc) (cpos dsB deB doc (InBody 1 2)) = Some (cpos dsB deB doc (InBody 1 4)) /\
  block_indent_remover (render dsA deA doc) (cpos dsA deA doc (TagStart 1)) (cpos dsA deA doc DocEnd) =
    Ok [(7, 10); (14, 17); (20, 23)] /\
  block_indent_remover (render dsB deB doc) (cpos dsB deB doc (TagStart 1)) (cpos dsB deB doc DocEnd) =
    Ok [(5, 7); (10, 12); (16, 18)].
Proof.
  cbv zeta. split; [|split].
  - unfold good_delims. repeat split; try discriminate; try (vm_compute; reflexivity);
      intros H; cbn in H; repeat (destruct H as [H|H]; [discriminate H|]); exact H.
  - unfold good_delims. repeat split; try discriminate; try (vm_compute; reflexivity);
      intros H; cbn in H; repeat (destruct H as [H|H]; [discriminate H|]); exact H.
  - repeat split; vm_compute; reflexivity.
Qed.

Print Assumptions cpos_le_length.
Print Assumptions cpos_monotone_iff.
Print Assumptions cpos_inj.
Print Assumptions cpos_boundary.
Print Assumptions cpos_byte_txt.
Print Assumptions cpos_byte_body.
Print Assumptions render_wf.
Print Assumptions anext_spec.
Print Assumptions find_next_lb_render.
Print Assumptions find_prev_lb_render.
Print Assumptions find_next_char_render_gen.
Print Assumptions format_block_render.
Print Assumptions block_indent_render.
Print Assumptions sim_find_next_lb.
Print Assumptions sim_find_prev_lb.
Print Assumptions sim_find_next_char.
Print Assumptions sim_find_next_char_strict.
Print Assumptions sim_format_block.
Print Assumptions sim_format_block_boundary.
Print Assumptions sim_block_indent.
Print Assumptions sim_succ.
Print Assumptions format_block_ends_at_end_delimiter.
Print Assumptions block_indent_diverges.
