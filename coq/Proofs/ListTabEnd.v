(** C15 / C16: the plain list item for every last removed character, a tab included.

    [build_item_plain] (Proofs/ListProofs.v) excludes a region whose last removed character is a
    tab: the code counts the tabs of the text from the start of the last line up to AND INCLUDING
    the last removed character, so in that case the end marker stands three columns further right,
    under the last of the four columns of the expanded tab. *)
From Coq Require Import List NArith Arith Bool Lia PeanoNat.
Import ListNotations.
From Chiri Require Import Base.Bytes Base.Res Model.Finders Model.ListRender Spec.ListSpec
     Proofs.ResLemmas Proofs.BytesLemmas Proofs.Utf8 Proofs.C15Proofs Proofs.ListProofs.

(** the specification for every last character: a tab as last removed character occupies four
    columns and the marker stands under the last of them *)
Definition end_marker_extra (content : str) (b : nat) : nat :=
  match nth_error content (b - 1) with Some c => if beq c TAB then 3 else 0 | None => 0 end.

Definition expected_item_any (content : str) (a b first last : nat) : str :=
  marker_line (sub content (line_start_of content a) a) MARKER_START ++ [NL]
  ++ flat_map (fun k => line_column k ++ replace_tabs (nth_line content k) ++ [NL])
              (seq first (S last - first))
  ++ repeat SP (LINE_COLUMN_WIDTH
                + length (replace_tabs (sub content (line_start_of content (b - 1)) (b - 1)))
                + end_marker_extra content b) ++ MARKER_END.

Lemma end_marker_extra_no_tab content b :
  nth_error content (b - 1) <> Some TAB -> end_marker_extra content b = 0.
Proof.
  intros H. unfold end_marker_extra. destruct (nth_error content (b - 1)) as [c|]; [|reflexivity].
  destruct (beq c TAB) eqn:B; [|reflexivity]. apply beq_eq in B. subst c. exfalso. apply H. reflexivity.
Qed.

Lemma end_marker_extra_tab content b :
  nth_error content (b - 1) = Some TAB -> end_marker_extra content b = 3.
Proof. intros H. unfold end_marker_extra. rewrite H. reflexivity. Qed.

Lemma expected_item_any_no_tab : forall content a b first last,
  nth_error content (b - 1) <> Some TAB ->
  expected_item_any content a b first last = expected_item content a b first last.
Proof.
  intros content a b first last H. unfold expected_item_any, expected_item.
  rewrite (end_marker_extra_no_tab content b H), Nat.add_0_r. reflexivity.
Qed.

Lemma count_tabspace_one c : count_tabspace [c] = if beq c TAB then 1 else 0.
Proof. unfold count_tabspace. cbn [filter]. destruct (beq c TAB); reflexivity. Qed.

(** the plain item is the specification, whatever the last removed character *)
Theorem build_item_plain_any : forall content a b first last is_removal,
  wf_utf8 content = true ->
  a < b -> b <= length content ->
  is_boundary content a = true -> is_boundary content b = true ->
  (forall i, nth_error content i <> Some CR) ->                 (* no carriage return in the source *)
  nth_error content a <> Some NL -> nth_error content (b - 1) <> Some NL ->
  get_line_range (build_line_map content) (a, b) = Ok (first, last) ->
  build_item content a b is_removal false (Some (first, last))
  = Ok (expected_item_any content a b first last).
Proof.
  intros content a b first last is_removal Hwf Hab Hb Ba Bb Hcr Hna Hnb Hlr.
  destruct (line_range_spec content a b first last Hab Hb Hna Hnb Hlr) as (Hf & Hl & Hfl).
  assert (WF content) as HW by (apply wf_utf8_WF; exact Hwf).
  apply NoB_of_nth in Hcr.
  unfold build_item. cbv beta iota zeta.
  rewrite (csub_le b a) by lia. cbn [bind].
  match goal with |- (if ?c then _ else _) = _ => assert (c = false) as E0 end.
  { destruct content; [cbn [length] in Hb; lia|]. rewrite orb_false_r. apply Nat.eqb_neq. lia. }
  rewrite E0. clear E0.
  rewrite (csub_le b 1) by lia. cbn [bind].
  fold (prev_start content a) (prev_start content (b - 1)) (next_end content (b - 1)).
  rewrite (prev_start_line_start content a) by lia.
  rewrite (prev_start_line_start content (b - 1)) by lia.
  unfold expected_item_any.
  pose proof (line_start_boundary content a HW ltac:(lia)) as Bls.
  pose proof (line_start_boundary content (b - 1) HW ltac:(lia)) as Bles.
  destruct (line_start_of_spec content a) as (A1 & A2 & A3).
  destruct (line_start_of_spec content (b - 1)) as (B1 & B2 & B3).
  destruct (next_end_spec content (b - 1) ltac:(lia)) as (N1 & N2 & N3 & N4).
  pose proof (next_end_boundary content (b - 1) ltac:(lia)) as N5.
  set (ls := line_start_of content a) in *.
  set (les := line_start_of content (b - 1)) in *.
  set (le := next_end content (b - 1)) in *.
  assert (b <= le) as N6.
  { destruct (Nat.eq_dec le (b - 1)) as [E|E]; [|lia]. exfalso.
    destruct N3 as [N3|N3]; [lia|]. rewrite E in N3. exact (Hnb N3). }
  destruct (nth_error_lt_Some content (b - 1) ltac:(lia)) as [cl Hcl].
  assert (cl <> NL) as Hcl1 by (intros ->; exact (Hnb Hcl)).
  rewrite (Nat.min_l b le) by lia.
  rewrite (csub_le le ls) by lia. cbn [bind].
  rewrite (slice_ok content a b) by (assumption || lia). cbn [bind].
  rewrite (slice_ok content ls a) by (assumption || lia). cbn [bind].
  rewrite (slice_ok content b le) by (assumption || lia). cbn [bind].
  rewrite (csub_le a ls) by lia. cbn [bind].
  rewrite (csub_le b les) by lia. cbn [bind].
  rewrite (csub_le (b - les) 1) by lia. cbn [bind].
  rewrite (slice_ok content les b) by (assumption || lia). cbn [bind].
  assert (LINE_COLUMN_WIDTH = 9) as HLCW by reflexivity.
  pose proof (count_tabspace_le (sub content ls a)) as T1.
  rewrite (sub_length content ls a) in T1 by lia.
  pose proof (count_tabspace_le (sub content les b)) as T2.
  rewrite (sub_length content les b) in T2 by lia.
  rewrite (csub_le (LINE_COLUMN_WIDTH + (a - ls))) by lia. cbn [bind].
  rewrite (csub_le (b - les - 1 + LINE_COLUMN_WIDTH)) by lia. cbn [bind].
  f_equal.
  (* the coloured part is unchanged *)
  pose proof (sub_one content (b - 1) cl Hcl) as Hlast.
  replace (S (b - 1)) with b in Hlast by lia.
  assert (sub content a b = sub content a (b - 1) ++ [cl]) as Hsub.
  { rewrite <- (sub_app content a (b - 1) b) by lia. rewrite Hlast. reflexivity. }
  assert (join_nl (lines (sub content a b)) = sub content a b) as Hjoin.
  { unfold lines. rewrite Hsub. rewrite join_lines_loop_snoc; [reflexivity | | constructor | exact Hcl1].
    apply Forall_sub. exact Hcr. }
  rewrite map_wrap_nil, Hjoin.
  set (T := sub content ls le).
  assert (sub content ls a ++ sub content a b ++ sub content b le ++ [NL] = T ++ [NL]) as Hrem.
  { unfold T. rewrite <- (sub_app content ls a le), <- (sub_app content a b le) by lia.
    rewrite <- !app_assoc. reflexivity. }
  rewrite Hrem. rewrite (lines_snoc_NL T) by (apply Forall_sub; exact Hcr).
  match goal with |- context [replace_tabs (?g ?n ?i ?L)] => change (g n i L) with (go n i L) end.
  (* line counts *)
  assert (count_nl (firstn a content) = count_nl (firstn ls content)) as C1.
  { rewrite (firstn_sub content ls a) by lia. rewrite count_nl_app.
    rewrite (count_nl_NoB (sub content ls a)); [lia|]. apply sub_NoB. exact A3. }
  assert (count_nl (firstn le content) = count_nl (firstn (b - 1) content)) as C2.
  { rewrite (firstn_sub content (b - 1) le) by lia. rewrite count_nl_app.
    rewrite (count_nl_NoB (sub content (b - 1) le)); [lia|]. apply sub_NoB. exact N4. }
  assert (count_nl (firstn le content) = count_nl (firstn ls content) + count_nl T) as C3.
  { rewrite (firstn_sub content ls le) by lia. apply count_nl_app. }
  assert (S last - first = length (split_nl T [])) as C4 by (rewrite split_nl_length; lia).
  rewrite C4, go_flat, replace_tabs_flat_map, <- C4.
  (* the source lines *)
  assert (exists LP LQ, source_lines content = LP ++ split_nl T [] ++ LQ /\ length LP = first - 1)
    as (LP & LQ & HS & HLP).
  { destruct (split_nl_decomp (firstn ls content) T (skipn le content)) as (LP & LQ & H1 & H2).
    - destruct A2 as [A2|A2]; [left; rewrite A2; reflexivity|].
      destruct (Nat.eq_dec ls 0) as [E|E]; [left; rewrite E; reflexivity|]. right.
      exists (firstn (ls - 1) content). replace ls with (S (ls - 1)) at 1 by lia.
      apply firstn_S_nth. exact A2.
    - destruct N3 as [N3|N3]; [left; rewrite N3; apply skipn_all|]. right.
      apply nth_skipn_cons in N3. destruct N3 as [tl E]. exists tl. exact E.
    - exists LP, LQ. split; [|lia]. unfold source_lines. rewrite <- H1. f_equal.
      unfold T. rewrite app_assoc, <- (firstn_sub content ls le) by lia.
      symmetry. apply firstn_skipn. }
  assert (flat_map (fun k => replace_tabs (line_column k ++ nth (k - first) (split_nl T []) [] ++ [NL]))
                   (seq first (S last - first)) =
          flat_map (fun k => line_column k ++ replace_tabs (nth_line content k) ++ [NL])
                   (seq first (S last - first))) as Hfm.
  { apply flat_map_ext_in. intros k Hk. apply in_seq in Hk.
    rewrite !replace_tabs_app.
    rewrite (replace_tabs_NoB (line_column k)) by (apply line_column_NoB; reflexivity).
    change (replace_tabs [NL]) with [NL].
    unfold nth_line. rewrite HS. rewrite app_nth2 by lia. rewrite app_nth1 by lia.
    replace (k - 1 - length LP) with (k - first) by lia. reflexivity. }
  rewrite Hfm. clear Hfm.
  (* markers *)
  unfold marker_line. rewrite !app_nil_l, app_nil_r, <- !app_assoc.
  assert (count_tabspace (sub content les b)
          = count_tabspace (sub content les (b - 1)) + (if beq cl TAB then 1 else 0)) as T3.
  { rewrite <- (sub_app content les (b - 1) b) by lia.
    rewrite Hlast, count_tabspace_app, count_tabspace_one. reflexivity. }
  assert (end_marker_extra content b = if beq cl TAB then 3 else 0) as T5.
  { unfold end_marker_extra. rewrite Hcl. reflexivity. }
  rewrite (spaces_eq _ _ (LINE_COLUMN_WIDTH + length (replace_tabs (sub content ls a)))).
  2:{ rewrite replace_tabs_length, sub_length by lia. lia. }
  do 4 f_equal.
  apply spaces_eq.
  rewrite replace_tabs_length, sub_length by lia. rewrite T5. rewrite T3 in *.
  pose proof (count_tabspace_le (sub content les (b - 1))) as T4.
  rewrite sub_length in T4 by lia.
  destruct (beq cl TAB); lia.
Qed.

Print Assumptions build_item_plain_any.

(** [build_item_plain] is the instance for a last character that is not a tab *)
Corollary build_item_plain_of_any : forall content a b first last is_removal,
  wf_utf8 content = true ->
  a < b -> b <= length content ->
  is_boundary content a = true -> is_boundary content b = true ->
  (forall i, nth_error content i <> Some CR) ->
  nth_error content a <> Some NL -> nth_error content (b - 1) <> Some NL ->
  nth_error content (b - 1) <> Some TAB ->
  get_line_range (build_line_map content) (a, b) = Ok (first, last) ->
  build_item content a b is_removal false (Some (first, last)) = Ok (expected_item content a b first last).
Proof.
  intros content a b first last is_removal Hwf Hab Hb Ba Bb Hcr Hna Hnb Htab Hlr.
  rewrite <- (expected_item_any_no_tab content a b first last Htab).
  apply build_item_plain_any; assumption.
Qed.

(** with a tab as last removed character the end marker stands exactly three columns to the right
    of where [expected_item] puts it *)
Corollary build_item_plain_tab_end : forall content a b first last is_removal,
  wf_utf8 content = true ->
  a < b -> b <= length content ->
  is_boundary content a = true -> is_boundary content b = true ->
  (forall i, nth_error content i <> Some CR) ->
  nth_error content a <> Some NL ->
  nth_error content (b - 1) = Some TAB ->
  get_line_range (build_line_map content) (a, b) = Ok (first, last) ->
  build_item content a b is_removal false (Some (first, last))
  = Ok (marker_line (sub content (line_start_of content a) a) MARKER_START ++ [NL]
        ++ flat_map (fun k => line_column k ++ replace_tabs (nth_line content k) ++ [NL])
                    (seq first (S last - first))
        ++ marker_line (sub content (line_start_of content (b - 1)) (b - 1) ++ [SP; SP; SP]) MARKER_END).
Proof.
  intros content a b first last is_removal Hwf Hab Hb Ba Bb Hcr Hna Htab Hlr.
  rewrite (build_item_plain_any content a b first last is_removal) by
    (try assumption; rewrite Htab; discriminate).
  unfold expected_item_any, marker_line.
  rewrite (end_marker_extra_tab content b Htab).
  rewrite replace_tabs_app, app_length. change (length (replace_tabs [SP; SP; SP])) with 3.
  rewrite Nat.add_assoc. reflexivity.
Qed.

(* ------------------------------------------------------------------------- *)
(** * A region ending in a tab *)

(** "a\tb<x>\t\nc" : the region [3, 7) is "<x>\t", on line 1 *)
Definition tab_end_src : str := [97; 9; 98; 60; 120; 62; 9; 10; 99]%N.

Example tab_end_line_range :
  get_line_range (build_line_map tab_end_src) (3, 7) = Ok (1, 1).
Proof. vm_compute. reflexivity. Qed.

Example tab_end_item_any :
  build_item tab_end_src 3 7 true false (Some (1, 1)) = Ok (expected_item_any tab_end_src 3 7 1 1).
Proof. vm_compute. reflexivity. Qed.

(** the rendered item: 9 + 6 blanks before "_start" ("a", the tab as four, "b"); the numbered line
    with both tabs expanded; 9 + 9 + 3 = 21 blanks before the end marker ("a", four, "b<x>" are
    nine columns), which stands under the last of the four columns of the final tab *)
Example tab_end_item_concrete :
  build_item tab_end_src 3 7 true false (Some (1, 1))
  = Ok (repeat SP 15 ++ MARKER_START ++ [NL]
        ++ repeat SP 6 ++ [49; 32; 124]%N
           ++ [97; 32; 32; 32; 32; 98; 60; 120; 62; 32; 32; 32; 32]%N ++ [NL]
        ++ repeat SP 21 ++ MARKER_END).
Proof. vm_compute. reflexivity. Qed.

(** [expected_item] itself puts the marker under the first column of the tab (18 blanks), which is
    not what the code renders *)
Example tab_end_item_not_plain :
  build_item tab_end_src 3 7 true false (Some (1, 1)) <> Ok (expected_item tab_end_src 3 7 1 1).
Proof. vm_compute. discriminate. Qed.
