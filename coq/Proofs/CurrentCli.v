(** The command line with the text of --time-limited-current (Model/Cli.v [run_text]). *)
From Coq Require Import List NArith ZArith Arith Bool.
Import ListNotations.
From Chiri Require Import Base.Bytes Base.Res Model.Current Model.Cli.

Lemma with_current_same a : with_current a (a_current a) = a.
Proof. destruct a; reflexivity. Qed.

(** a text that parses fixes the instant: the wall clock (the only way the process environment enters) is not used *)
Theorem explicit_current_ignores_the_clock : forall a text t leap clock1 clock2 stdin fs,
  parse_current text = Some (t, leap) ->
  run_text a text clock1 stdin fs = run_text a text clock2 stdin fs
  /\ run_text a text clock1 stdin fs = run (with_current a t) stdin fs.
Proof.
  intros a text t leap c1 c2 stdin fs H. unfold run_text, current_of_arg. rewrite H. split; reflexivity.
Qed.

(** two texts that read as the same instant give the same result *)
Theorem same_instant_same_result : forall a text1 text2 t leap1 leap2 clock stdin fs,
  parse_current text1 = Some (t, leap1) -> parse_current text2 = Some (t, leap2) ->
  run_text a text1 clock stdin fs = run_text a text2 clock stdin fs.
Proof.
  intros a t1 t2 t l1 l2 c stdin fs H1 H2. unfold run_text, current_of_arg. rewrite H1, H2. reflexivity.
Qed.

(** a text that does not parse stands for the wall clock *)
Theorem unparseable_current_is_the_clock : forall a text clock stdin fs,
  parse_current text = None -> run_text a text clock stdin fs = run (with_current a clock) stdin fs.
Proof. intros a text c stdin fs H. unfold run_text, current_of_arg. rewrite H. reflexivity. Qed.
