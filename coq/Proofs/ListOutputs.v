(** The outputs of list / list_all are well-formed UTF-8 (glue over ListUtf8.v). *)
From Coq Require Import List NArith ZArith Arith Bool Lia.
Import ListNotations.
From Chiri Require Import Base.Bytes Base.Res Model.Markers Model.Clean Model.ListRender
     Proofs.ResLemmas Proofs.Utf8 Proofs.ListUtf8.

Lemma list_pretty_wf cfg ds de s o :
  wf_utf8 s = true -> list_pretty cfg ds de s = Ok o -> wf_utf8 o = true.
Proof.
  intros Hs H. unfold list_pretty in H. inv_bind H.
  apply wf_utf8_WF. eapply build_pretty_string_WF; [apply wf_utf8_WF; exact Hs | exact Hk].
Qed.

Lemma list_all_pretty_wf cfg ds de s o :
  wf_utf8 s = true -> list_all_pretty cfg ds de s = Ok o -> wf_utf8 o = true.
Proof.
  intros Hs H. unfold list_all_pretty in H. inv_bind H.
  apply wf_utf8_WF. eapply build_pretty_string_WF; [apply wf_utf8_WF; exact Hs | exact Hk].
Qed.

Lemma list_json_wf cfg ds de s o :
  wf_utf8 s = true -> list_json cfg ds de s = Ok o -> wf_utf8 o = true.
Proof.
  intros Hs H. unfold list_json in H. inv_bind H. inv_bind Hk. inv_ok.
  apply wf_utf8_WF. apply json_list_WF. eapply build_list_blocks_WF; [apply wf_utf8_WF; exact Hs | exact Hb0].
Qed.

Lemma list_all_json_wf cfg ds de s o :
  wf_utf8 s = true -> list_all_json cfg ds de s = Ok o -> wf_utf8 o = true.
Proof.
  intros Hs H. unfold list_all_json in H. inv_bind H. inv_bind Hk. inv_ok.
  apply wf_utf8_WF. apply json_list_WF. eapply build_list_blocks_WF; [apply wf_utf8_WF; exact Hs | exact Hb0].
Qed.

Theorem list_outputs_wf : forall cfg ds de s o,
  wf_utf8 s = true ->
  (list_pretty cfg ds de s = Ok o \/ list_json cfg ds de s = Ok o \/
   list_all_pretty cfg ds de s = Ok o \/ list_all_json cfg ds de s = Ok o) ->
  wf_utf8 o = true.
Proof.
  intros cfg ds de s o Hs [H|[H|[H|H]]].
  - eapply list_pretty_wf; eauto.
  - eapply list_json_wf; eauto.
  - eapply list_all_pretty_wf; eauto.
  - eapply list_all_json_wf; eauto.
Qed.
