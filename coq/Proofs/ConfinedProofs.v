(** C14: the formatter deletes whitespace only at the borders of removals (around a seam) or as
    leading blanks of a line inside an unwrapped body (between the two seams of a pair). *)
From Coq Require Import List NArith Arith Bool Lia PeanoNat Permutation.
Import ListNotations.
From Chiri Require Import Base.Bytes Base.Res Model.Finders Model.Format Spec.Ranges Spec.Lines
     Proofs.ResLemmas Proofs.Utf8 Proofs.MarkerProofs Proofs.RangeProofs Proofs.FormatterProofs
     Proofs.FormatAssembly Proofs.BlockProofs.

(* ------------------------------------------------------------------------- *)
(** * Where the ranges accumulated by the fold come from *)

(** A seam range is the result of [format_block] at some seam position. *)
Definition seam_origin (s : str) (rpos : list (nat * option nat)) (r : range) : Prop :=
  exists p pi, In (p, pi) rpos /\ format_block s p = Ok r.

(** A block range is one of the ranges of [block_indent_remover] between the two seams of a pair. *)
Definition block_origin (s : str) (rpos : list (nat * option nat)) (r : range) : Prop :=
  exists p pi q qi rs, In (p, Some pi) rpos /\ nth_error rpos pi = Some (q, qi) /\ p < q /\
                       block_indent_remover s p q = Ok rs /\ In r rs.

Lemma index_ok_nth {A} (l : list A) i x : index l i = Ok x -> nth_error l i = Some x.
Proof.
  unfold index. destruct (nth_error l i); intros H; inversion H; reflexivity.
Qed.

Lemma fr_step_origin s rpos acc p pi acc' :
  In (p, pi) rpos ->
  Forall (seam_origin s rpos) (fst acc) -> Forall (block_origin s rpos) (snd acc) ->
  fr_step s rpos acc (p, pi) = Ok acc' ->
  Forall (seam_origin s rpos) (fst acc') /\ Forall (block_origin s rpos) (snd acc').
Proof.
  intros Hin Hr Ho H. destruct acc as [ranges open]. cbn [fst snd] in *.
  unfold fr_step in H. inv_bind H. rename v into r.
  assert (Hr' : Forall (seam_origin s rpos) (ranges ++ [r])).
  { apply Forall_app. split; [exact Hr|]. constructor; [|constructor].
    exists p, pi. split; assumption. }
  destruct pi as [pi|].
  2:{ inversion Hk; subst acc'. cbn [fst snd]. split; assumption. }
  inv_bind Hk. destruct v as [q qi]. apply index_ok_nth in Hb0.
  destruct (Nat.ltb_spec p q) as [L|L].
  2:{ inversion Hk0; subst acc'. cbn [fst snd]. split; assumption. }
  inv_bind Hk0. rename v into rs. inversion Hk; subst acc'. cbn [fst snd].
  split; [exact Hr'|]. apply Forall_app. split; [exact Ho|].
  apply Forall_forall. intros r0 Hr0.
  exists p, pi, q, qi, rs. repeat split; assumption.
Qed.

Lemma fr_fold_origin s rpos : forall l acc acc',
  (forall x, In x l -> In x rpos) ->
  Forall (seam_origin s rpos) (fst acc) -> Forall (block_origin s rpos) (snd acc) ->
  foldM (fr_step s rpos) l acc = Ok acc' ->
  Forall (seam_origin s rpos) (fst acc') /\ Forall (block_origin s rpos) (snd acc').
Proof.
  induction l as [|[p pi] l IH]; intros acc acc' Hl Hr Ho H.
  - inversion H; subst acc'. split; assumption.
  - cbn [foldM] in H. inv_bind H. rename v into acc1.
    destruct (fr_step_origin s rpos acc p pi acc1 (Hl _ (or_introl eq_refl)) Hr Ho Hb)
      as [Hr1 Ho1].
    apply (IH acc1 acc'); try assumption.
    intros x Hx. apply Hl. right. exact Hx.
Qed.

(* ------------------------------------------------------------------------- *)
(** * The two kinds of ranges *)

(** A position of a seam range is linked to the seam position by whitespace only. *)
Lemma seam_range_confined s p a b i :
  wf_utf8 s = true -> is_boundary s p = true -> p <= length s ->
  format_block s p = Ok (a, b) -> a <= i -> i < b ->
  forall j c, ((i <= j /\ j < p) \/ (p <= j /\ j <= i)) -> nth_error s j = Some c -> is_ws c = true.
Proof.
  intros Hw Hb Hp E Hai Hib j c Hj Hn.
  destruct (format_block_spec s p a b Hw Hb Hp E) as (F1 & F2 & F3 & F4 & _ & _).
  apply (F4 (a, b) j c); [left; reflexivity | | exact Hn].
  unfold in_range. cbn [fst snd]. lia.
Qed.

(** A block range lies strictly between the two seams and consists of leading blanks of its line. *)
Lemma block_range_confined s p q rs r :
  wf_utf8 s = true -> block_indent_remover s p q = Ok rs -> In r rs ->
  p < fst r /\ snd r < q /\
  exists ls, is_line_start s ls /\ ls <= fst r /\
             forall j c, ls <= j -> j < snd r -> nth_error s j = Some c -> is_blank c = true.
Proof.
  intros Hw E Hin.
  destruct (block_indent_spec s p q rs Hw E) as [Hs Hg].
  destruct (snf_in rs (S p) r Hs Hin) as (S1 & _ & _).
  destruct (Hg r Hin) as (G1 & _).
  split; [lia|]. split; [exact G1|].
  rewrite (block_indent_exact s p q Hw) in E. cbv zeta in E. apply FormatterProofs.Ok_inj in E. rename E into E'.
  destruct (find_next_lb s p false) as [lb|] eqn:F.
  - pose proof (find_next_lb_some _ _ _ _ F) as (_ & _ & F3 & _).
    rewrite <- E' in Hin.
    assert (Hls : is_line_start s (S lb)) by (right; exists lb; split; [reflexivity | exact F3]).
    destruct (dedent_lines_leading _ s q (S lb) _ _ r Hw Hls Hin) as (ls' & L1 & L2 & _ & L4 & _).
    exists ls'. split; [exact L1|]. split; [exact L2 | exact L4].
  - rewrite (dedent_lines_no_nl _ s q (length s) _ _ (find_next_lb_at_end s false)) in E'.
    rewrite <- E' in Hin. destruct Hin.
Qed.

(* ------------------------------------------------------------------------- *)
(** * C14 *)

Theorem format_confined : forall s rpos rs,
  wf_utf8 s = true ->
  (forall p pi, In (p, pi) rpos -> p <= length s /\ is_boundary s p = true) ->
  (forall p pi, In (p, Some pi) rpos -> pi < length rpos) ->
  format_ranges s rpos = Ok rs ->
  forall i, in_ranges rs i ->
    (* (i) every byte between i and some seam position p is whitespace *)
    (exists p pi, In (p, pi) rpos /\
       forall j b, ((i <= j /\ j < p) \/ (p <= j /\ j <= i)) -> nth_error s j = Some b -> is_ws b = true)
    \/
    (* (ii) i lies between the two seams of a pair and within the leading blanks of its line *)
    (exists p pi q qi ls, In (p, Some pi) rpos /\ nth_error rpos pi = Some (q, qi) /\ p < i /\ i < q /\
       is_line_start s ls /\ ls <= i /\
       forall j b, ls <= j -> j <= i -> nth_error s j = Some b -> is_blank b = true).
Proof.
  intros s rpos rs Hw Hpos Hidx H i Hi.
  rewrite format_ranges_unfold in H. inv_bind H. destruct v as [ranges open].
  inv_bind Hk. rename v into merged. inversion Hk0; subst rs. clear Hk0.
  (* every accumulated range is good (hence fst <= snd) *)
  destruct (fr_fold_ok s rpos rpos ([], []) Hw Hpos Hidx) as (acc' & Ef & Hgr & Hgo);
    [constructor | constructor |].
  rewrite Hb in Ef. inversion Ef; subst acc'. clear Ef. cbn [fst snd] in Hgr, Hgo.
  (* and has a known origin *)
  destruct (fr_fold_origin s rpos rpos ([], []) (ranges, open)) as [Hor Hoo];
    [intros x Hx; exact Hx | constructor | constructor | exact Hb |].
  cbn [fst snd] in Hor, Hoo.
  (* the merged list is a permutation of the two lists *)
  destruct (merge_ranges_perm ranges (sort_ranges open)) as (merged' & Em & Hnil & Hperm).
  rewrite Hb0 in Em. inversion Em; subst merged'. clear Em.
  assert (Hsrc : forall r, In r merged -> In r ranges \/ In r open).
  { intros r Hin. destruct ranges as [|r0 ranges'].
    - rewrite (Hnil eq_refl) in Hin. destruct Hin.
    - assert (Hne : r0 :: ranges' <> []) by discriminate.
      apply (Permutation_in _ (Hperm Hne)) in Hin. apply in_app_or in Hin.
      destruct Hin as [Hin|Hin]; [left; exact Hin | right].
      eapply Permutation_in; [apply sort_ranges_perm | exact Hin]. }
  assert (Hle : forall r, In r merged -> fst r <= snd r).
  { intros r Hin. rewrite Forall_forall in Hgr, Hgo.
    destruct (Hsrc r Hin) as [Hs|Hs]; [apply Hgr in Hs | apply Hgo in Hs];
      destruct Hs as [Hs _]; exact Hs. }
  apply (merge_overlapped_subset merged i Hle) in Hi.
  destruct Hi as (r & Hin & Hri). unfold in_range in Hri. destruct Hri as [Hr1 Hr2].
  rewrite Forall_forall in Hor, Hoo.
  destruct (Hsrc r Hin) as [Hs|Hs].
  - (* a seam range *)
    left. destruct (Hor r Hs) as (p & pi & Hp & Efb).
    destruct (Hpos p pi Hp) as [Hpl Hpb]. destruct r as [a b]. cbn [fst snd] in *.
    exists p, pi. split; [exact Hp|].
    exact (seam_range_confined s p a b i Hw Hpb Hpl Efb Hr1 Hr2).
  - (* a block range *)
    right. destruct (Hoo r Hs) as (p & pi & q & qi & rs0 & Hp & Hn & Hpq & Eb & Hr0).
    destruct (block_range_confined s p q rs0 r Hw Eb Hr0) as (B1 & B2 & ls & L1 & L2 & L3).
    exists p, pi, q, qi, ls.
    split; [exact Hp|]. split; [exact Hn|]. split; [lia|]. split; [lia|].
    split; [exact L1|]. split; [lia|].
    intros j b Hj1 Hj2 Hnj. apply (L3 j b Hj1); [lia | exact Hnj].
Qed.

Print Assumptions format_confined.
