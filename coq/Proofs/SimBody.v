(** C18, towards "the behaviour does not depend on the spelling of tag names": the whitespace
    formatters on two documents of the same shape.

    Two documents have the same shape when they have the same texts and tags at the same places;
    the tag bodies are arbitrary.  The seam formatters of [Proofs.SimFlat] never look inside a
    tag, so at corresponding positions they return corresponding results.

    Part A: an abstract local simulation [sim l1 l2 f O] between two symbol lists: [f] translates
            the positions in [O]; scanners, seam formatters, hull, [a_format_block] and the
            formatter stage without pairs ([a_format_ranges]) commute with [f].
    Part B: documents: [same_shape], the outer positions [outer], the translation [tr] and their
            properties; [sim (flat d1) (flat d2) (tr d1 d2) (outer d1)].
    Part C: the theorems for two documents of the same shape.
    Part D: deleting ranges with outer end points ([doc_mask]).
    Part E: an instance. *)
From Coq Require Import List NArith ZArith Arith Bool Lia PeanoNat.
Import ListNotations.
From Chiri Require Import Base.Bytes Base.Res Model.Finders Model.Markers Model.Format
     Spec.Ranges Spec.Rename
     Proofs.ResLemmas Proofs.RangeProofs Proofs.SimFlat Proofs.SimStrings Proofs.SimFront
     Proofs.MonoMap Proofs.SimClean Proofs.DocMask Proofs.Idempotent.

Ltac unfold_rg := unfold Format.range, Markers.range, Ranges.range in *.

(* ------------------------------------------------------------------------- *)
(** * Part A: local simulation between two symbol lists *)

(** [f] translates the positions of [l1] that satisfy [O] to positions of [l2]:
    the symbol at a translated position is the same; stepping over a byte symbol, forwards or
    backwards, stays in [O] and commutes with [f]; the symbol in front of a translated position
    is the same; [f] is strictly monotone on [O]. *)
Record sim (l1 l2 : list sym) (f : nat -> nat) (O : nat -> Prop) : Prop := {
  sim_O0 : O 0;
  sim_f0 : f 0 = 0;
  sim_le : forall j, O j -> j <= length l1;
  sim_nth : forall j, O j -> nth_error l2 (f j) = nth_error l1 j;
  sim_fwd : forall j c, O j -> nth_error l1 j = Some (B c) -> O (S j) /\ f (S j) = S (f j);
  sim_pred : forall j, O (S j) -> exists q, f (S j) = S q /\ nth_error l2 q = nth_error l1 j;
  sim_bwd : forall j c, O (S j) -> nth_error l1 j = Some (B c) -> O j /\ f (S j) = S (f j);
  sim_mono : forall a b, O a -> O b -> a < b -> f a < f b
}.

Lemma sim_mono_le l1 l2 f O : sim l1 l2 f O -> forall a b, O a -> O b -> a <= b -> f a <= f b.
Proof.
  intros Sm a b Ha Hb H. destruct (Nat.eq_dec a b) as [->|N]; [lia|].
  pose proof (sim_mono _ _ _ _ Sm a b Ha Hb ltac:(lia)). lia.
Qed.

Lemma sim_ltb l1 l2 f O : sim l1 l2 f O -> forall a b, O a -> O b -> (f a <? f b) = (a <? b).
Proof.
  intros Sm a b Ha Hb. destruct (Nat.ltb_spec a b) as [L|L].
  - apply Nat.ltb_lt. apply (sim_mono _ _ _ _ Sm); assumption.
  - apply Nat.ltb_ge. apply (sim_mono_le _ _ _ _ Sm); assumption.
Qed.

Lemma sim_leb l1 l2 f O : sim l1 l2 f O -> forall a b, O a -> O b -> (f a <=? f b) = (a <=? b).
Proof.
  intros Sm a b Ha Hb. destruct (Nat.leb_spec a b) as [L|L].
  - apply Nat.leb_le. apply (sim_mono_le _ _ _ _ Sm); assumption.
  - apply Nat.leb_gt. apply (sim_mono _ _ _ _ Sm); assumption.
Qed.

Lemma sim_min l1 l2 f O : sim l1 l2 f O -> forall a b, O a -> O b ->
  Nat.min (f a) (f b) = f (Nat.min a b) /\ O (Nat.min a b).
Proof.
  intros Sm a b Ha Hb. destruct (Nat.le_ge_cases a b) as [H|H].
  - rewrite (Nat.min_l a b H). split; [|exact Ha]. apply Nat.min_l.
    apply (sim_mono_le _ _ _ _ Sm); assumption.
  - rewrite (Nat.min_r a b H). split; [|exact Hb]. apply Nat.min_r.
    apply (sim_mono_le _ _ _ _ Sm); assumption.
Qed.

Lemma sim_max l1 l2 f O : sim l1 l2 f O -> forall a b, O a -> O b ->
  Nat.max (f a) (f b) = f (Nat.max a b) /\ O (Nat.max a b).
Proof.
  intros Sm a b Ha Hb. destruct (Nat.le_ge_cases a b) as [H|H].
  - rewrite (Nat.max_r a b H). split; [|exact Hb]. apply Nat.max_r.
    apply (sim_mono_le _ _ _ _ Sm); assumption.
  - rewrite (Nat.max_l a b H). split; [|exact Ha]. apply Nat.max_l.
    apply (sim_mono_le _ _ _ _ Sm); assumption.
Qed.

(** ** Runs of byte symbols stay in [O] *)

Lemma sim_run_fwd l1 l2 f O : sim l1 l2 f O -> forall n j, O j -> brun l1 j (j + n) ->
  O (j + n) /\ f (j + n) = f j + n.
Proof.
  intros Sm. induction n as [|n IH]; intros j Hj Hr.
  - rewrite !Nat.add_0_r. split; [exact Hj | reflexivity].
  - destruct (IH j Hj) as [HO HF]; [intros i H1 H2; apply Hr; lia|].
    destruct (Hr (j + n) ltac:(lia) ltac:(lia)) as [c Hc].
    destruct (sim_fwd _ _ _ _ Sm (j + n) c HO Hc) as [HO' HF'].
    rewrite Nat.add_succ_r. split; [exact HO' | lia].
Qed.

Lemma sim_run_bwd l1 l2 f O : sim l1 l2 f O -> forall n j, O (j + n) -> brun l1 j (j + n) ->
  O j /\ f (j + n) = f j + n.
Proof.
  intros Sm. induction n as [|n IH]; intros j Hj Hr.
  - rewrite !Nat.add_0_r in *. split; [exact Hj | reflexivity].
  - rewrite Nat.add_succ_r in Hj.
    destruct (Hr (j + n) ltac:(lia) ltac:(lia)) as [c Hc].
    destruct (sim_bwd _ _ _ _ Sm (j + n) c Hj Hc) as [HO' HF'].
    destruct (IH j HO') as [HO HF]; [intros i H1 H2; apply Hr; lia|].
    rewrite Nat.add_succ_r. split; [exact HO | lia].
Qed.

(** ** The scanners *)

Lemma a_next_lb_unfold l j pause : a_next_lb l j pause =
  match nth_error l j with
  | None => None
  | Some (B c) =>
    match clb c with
    | CSkip => a_next_lb l (S j) pause
    | CFound => Some j
    | CNone => if pause then None else a_next_lb l (S j) pause
    end
  | Some _ => if pause then None else a_next_lb l (S j) pause
  end.
Proof.
  unfold a_next_lb. destruct (nth_error l j) as [x|] eqn:N.
  - pose proof (nth_lt_len _ _ _ N) as H.
    replace (length l - j) with (S (length l - S j)) by lia.
    cbn [nlb_f]. rewrite N. reflexivity.
  - destruct (length l - j); cbn [nlb_f]; [reflexivity | rewrite N; reflexivity].
Qed.

Lemma sim_next_lb_n l1 l2 f O : sim l1 l2 f O -> forall n j, length l1 - j <= n -> O j ->
  a_next_lb l2 (f j) true = option_map f (a_next_lb l1 j true).
Proof.
  intros Sm. induction n as [|n IH]; intros j Hn Hj;
    rewrite (a_next_lb_unfold l2), (a_next_lb_unfold l1), (sim_nth _ _ _ _ Sm j Hj);
    (destruct (nth_error l1 j) as [[c| |]|] eqn:N; try reflexivity);
    destruct (sim_fwd _ _ _ _ Sm j c Hj N) as [HO HS];
    pose proof (nth_lt_len _ _ _ N) as Hlt;
    (destruct (clb c); try reflexivity); rewrite <- HS.
  - lia.
  - apply IH; [lia | exact HO].
Qed.

Theorem sim_next_lb l1 l2 f O j : sim l1 l2 f O -> O j ->
  a_next_lb l2 (f j) true = option_map f (a_next_lb l1 j true).
Proof. intros Sm Hj. apply (sim_next_lb_n l1 l2 f O Sm (length l1 - j)); [lia | exact Hj]. Qed.

Lemma sim_next_lb_O l1 l2 f O j p : sim l1 l2 f O -> O j -> a_next_lb l1 j true = Some p ->
  O p /\ nth_error l1 p = Some (B NL).
Proof.
  intros Sm Hj H. apply a_next_lb_some in H. destruct H as (H1 & H2 & H3 & H4).
  split; [|exact H3]. replace p with (j + (p - j)) by lia.
  apply (sim_run_fwd _ _ _ _ Sm (p - j) j Hj). replace (j + (p - j)) with p by lia.
  apply H4. reflexivity.
Qed.

Theorem sim_prev_lb l1 l2 f O : sim l1 l2 f O -> forall j, O j ->
  a_prev_lb l2 (f j) true = option_map f (a_prev_lb l1 j true).
Proof.
  intros Sm. induction j as [|j IH]; intros Hj.
  - rewrite (sim_f0 _ _ _ _ Sm). reflexivity.
  - destruct (sim_pred _ _ _ _ Sm j Hj) as (q & Eq & Nq). rewrite Eq. cbn [a_prev_lb]. rewrite Nq.
    destruct (nth_error l1 j) as [[c| |]|] eqn:N; try reflexivity.
    destruct (sim_bwd _ _ _ _ Sm j c Hj N) as [HO HS].
    assert (q = f j) as -> by lia.
    destruct (clb c); try reflexivity. apply IH. exact HO.
Qed.

Lemma sim_prev_lb_O l1 l2 f O j p : sim l1 l2 f O -> O j -> a_prev_lb l1 j true = Some p ->
  O p /\ nth_error l1 p = Some (B NL) /\ p < j.
Proof.
  intros Sm Hj H. apply a_prev_lb_some in H. destruct H as (H1 & H2 & H3).
  split; [|split; [exact H2 | exact H1]].
  apply (sim_run_bwd _ _ _ _ Sm (j - p) p); replace (p + (j - p)) with j by lia; [exact Hj|].
  apply H3. reflexivity.
Qed.

Theorem sim_indent_loop l1 l2 f O : sim l1 l2 f O -> forall j, O j ->
  a_indent_loop l2 (f j) = option_map f (a_indent_loop l1 j) /\
  (forall c, a_indent_loop l1 j = Some c -> O c).
Proof.
  intros Sm. induction j as [|j IH]; intros Hj.
  - rewrite (sim_f0 _ _ _ _ Sm). split; [reflexivity | intros c H; discriminate H].
  - destruct (sim_pred _ _ _ _ Sm j Hj) as (q & Eq & Nq). rewrite Eq. cbn [a_indent_loop]. rewrite Nq.
    destruct (nth_error l1 j) as [[c| |]|] eqn:N;
      try (split; [reflexivity | intros c0 H; discriminate H]).
    destruct (sim_bwd _ _ _ _ Sm j c Hj N) as [HO HS].
    assert (q = f j) as -> by lia.
    destruct (is_cont c); [apply IH; exact HO|].
    destruct (beq c SP || beq c TAB); [apply IH; exact HO|].
    destruct (beq c NL); [|split; [reflexivity | intros c0 H; discriminate H]].
    cbn [option_map]. rewrite HS. split; [reflexivity|].
    intros c0 H. inversion H; subst c0. exact Hj.
Qed.

Theorem sim_residue l1 l2 f O : sim l1 l2 f O -> forall j, O j ->
  a_residue l2 (f j) = a_residue l1 j.
Proof.
  intros Sm. induction j as [|j IH]; intros Hj.
  - rewrite (sim_f0 _ _ _ _ Sm). reflexivity.
  - destruct (sim_pred _ _ _ _ Sm j Hj) as (q & Eq & Nq). rewrite Eq. cbn [a_residue]. rewrite Nq.
    destruct (nth_error l1 j) as [[c| |]|] eqn:N; try reflexivity.
    destruct (sim_bwd _ _ _ _ Sm j c Hj N) as [HO HS].
    assert (q = f j) as -> by lia.
    destruct (is_blank c); [apply IH; exact HO | reflexivity].
Qed.

Theorem sim_boundary l1 l2 f O j : sim l1 l2 f O -> O j -> a_boundary l2 (f j) = a_boundary l1 j.
Proof. intros Sm Hj. unfold a_boundary. rewrite (sim_nth _ _ _ _ Sm j Hj). reflexivity. Qed.

Theorem sim_is_nl l1 l2 f O j : sim l1 l2 f O -> O j -> a_is_nl l2 (f j) = a_is_nl l1 j.
Proof. intros Sm Hj. unfold a_is_nl. rewrite (sim_nth _ _ _ _ Sm j Hj). reflexivity. Qed.

Lemma leb_len_nth {A} (l : list A) j :
  (length l <=? j) = match nth_error l j with None => true | Some _ => false end.
Proof.
  destruct (nth_error l j) as [x|] eqn:N.
  - apply Nat.leb_gt. apply nth_error_Some. congruence.
  - apply Nat.leb_le. apply nth_error_None. exact N.
Qed.

Theorem sim_len_leb l1 l2 f O j : sim l1 l2 f O -> O j -> (length l2 <=? f j) = (length l1 <=? j).
Proof. intros Sm Hj. rewrite !leb_len_nth, (sim_nth _ _ _ _ Sm j Hj). reflexivity. Qed.

Lemma abb_S l j : a_all_blank_before l (S j) =
  a_all_blank_before l j && match nth_error l j with Some x => sym_blank x | None => true end.
Proof.
  unfold a_all_blank_before. destruct (nth_error l j) as [x|] eqn:N.
  - rewrite (firstn_S_nth l j x N), forallb_app. cbn [forallb]. rewrite andb_true_r. reflexivity.
  - apply nth_error_None in N. rewrite !firstn_all2 by lia. rewrite andb_true_r. reflexivity.
Qed.

Theorem sim_all_blank_before l1 l2 f O : sim l1 l2 f O -> forall j, O j ->
  a_all_blank_before l2 (f j) = a_all_blank_before l1 j.
Proof.
  intros Sm. induction j as [|j IH]; intros Hj.
  - rewrite (sim_f0 _ _ _ _ Sm). reflexivity.
  - destruct (sim_pred _ _ _ _ Sm j Hj) as (q & Eq & Nq). rewrite Eq, !abb_S, Nq.
    destruct (nth_error l1 j) as [[c| |]|] eqn:N.
    + destruct (sim_bwd _ _ _ _ Sm j c Hj N) as [HO HS].
      assert (q = f j) as -> by lia. rewrite (IH HO). reflexivity.
    + cbn [sym_blank]. rewrite !andb_false_r. reflexivity.
    + cbn [sym_blank]. rewrite !andb_false_r. reflexivity.
    + apply nth_error_None in N. pose proof (sim_le _ _ _ _ Sm (S j) Hj). lia.
Qed.

Theorem sim_two_next l1 l2 f O j : sim l1 l2 f O -> O j ->
  a_two_next l2 (f j) = option_map f (a_two_next l1 j) /\
  (forall p, a_two_next l1 j = Some p -> O p).
Proof.
  intros Sm Hj. unfold a_two_next. rewrite (sim_next_lb l1 l2 f O j Sm Hj).
  destruct (a_next_lb l1 j true) as [p|] eqn:F; cbn [option_map];
    [|split; [reflexivity | intros p H; discriminate H]].
  destruct (sim_next_lb_O l1 l2 f O j p Sm Hj F) as [Hp Np].
  destruct (sim_fwd _ _ _ _ Sm p NL Hp Np) as [HO HS]. rewrite <- HS.
  split; [apply (sim_next_lb l1 l2 f O); assumption|].
  intros p' H. apply (sim_next_lb_O l1 l2 f O (S p) p' Sm HO H).
Qed.

Theorem sim_two_prev l1 l2 f O j : sim l1 l2 f O -> O j ->
  a_two_prev l2 (f j) = option_map f (a_two_prev l1 j) /\
  (forall p, a_two_prev l1 j = Some p -> O p /\ nth_error l1 p = Some (B NL) /\ p < j).
Proof.
  intros Sm Hj. unfold a_two_prev. rewrite (sim_prev_lb l1 l2 f O Sm j Hj).
  destruct (a_prev_lb l1 j true) as [p|] eqn:F; cbn [option_map];
    [|split; [reflexivity | intros p H; discriminate H]].
  destruct (sim_prev_lb_O l1 l2 f O j p Sm Hj F) as (Hp & Np & Lp).
  split; [apply (sim_prev_lb l1 l2 f O); assumption|].
  intros p' H. destruct (sim_prev_lb_O l1 l2 f O p p' Sm Hp H) as (H1 & H2 & H3).
  split; [exact H1 | split; [exact H2 | lia]].
Qed.

(** ** The seam formatters *)

Definition map_res (f : nat -> nat) (r : res (nat * nat)) : res (nat * nat) :=
  match r with Ok x => Ok (map_range f x) | Panic => Panic end.

(** Both ends of an [Ok] result are in [O]. *)
Definition res_on (O : nat -> Prop) (r : res (nat * nat)) : Prop :=
  match r with Ok x => O (fst x) /\ O (snd x) | Panic => True end.

(** A formatter [af] commutes with [f] at [j]. *)
Definition sim_fmt (l1 l2 : list sym) (f : nat -> nat) (O : nat -> Prop)
           (af : list sym -> nat -> res (nat * nat)) (j : nat) : Prop :=
  af l2 (f j) = map_res f (af l1 j) /\ res_on O (af l1 j).

Theorem sim_indent_remover l1 l2 f O j : sim l1 l2 f O -> O j ->
  sim_fmt l1 l2 f O a_indent_remover j.
Proof.
  intros Sm Hj. unfold sim_fmt, a_indent_remover.
  rewrite (sim_len_leb l1 l2 f O j Sm Hj), (sim_boundary l1 l2 f O j Sm Hj), (sim_is_nl l1 l2 f O j Sm Hj).
  destruct ((length l1 <=? j) || negb (a_boundary l1 j) || negb (a_is_nl l1 j));
    [split; [reflexivity | split; exact Hj]|].
  destruct (sim_indent_loop l1 l2 f O Sm j Hj) as [E HO]. rewrite E.
  destruct (a_indent_loop l1 j) as [c|]; cbn [option_map];
    [|split; [reflexivity | split; exact Hj]].
  split; [reflexivity | split; [apply HO; reflexivity | exact Hj]].
Qed.

Theorem sim_empty_line_remover l1 l2 f O j : sim l1 l2 f O -> O j ->
  sim_fmt l1 l2 f O a_empty_line_remover j.
Proof.
  intros Sm Hj. unfold sim_fmt, a_empty_line_remover.
  rewrite (sim_boundary l1 l2 f O j Sm Hj), (sim_is_nl l1 l2 f O j Sm Hj).
  destruct (negb (a_boundary l1 j)); [split; [reflexivity | exact I]|].
  destruct (a_is_nl l1 j) eqn:Enl; cbn [negb]; [|split; [reflexivity | split; exact Hj]].
  rewrite (sim_residue l1 l2 f O Sm j Hj).
  destruct (negb (a_residue l1 j)); [split; [reflexivity | split; exact Hj]|].
  destruct (sim_two_next l1 l2 f O j Sm Hj) as [E1 _].
  destruct (sim_two_prev l1 l2 f O j Sm Hj) as [E2 _].
  rewrite E1, E2, !is_none_map.
  destruct (is_none (a_two_next l1 j) && is_none (a_two_prev l1 j));
    [|split; [reflexivity | split; exact Hj]].
  destruct (sim_fwd _ _ _ _ Sm j NL Hj (a_is_nl_true l1 j Enl)) as [HO HS].
  cbn [map_res]; unfold map_range; cbn [fst snd]. rewrite HS. split; [reflexivity | split; [exact Hj | exact HO]].
Qed.

Theorem sim_prev_line_break_remover l1 l2 f O j : sim l1 l2 f O -> O j ->
  sim_fmt l1 l2 f O a_prev_line_break_remover j.
Proof.
  intros Sm Hj. unfold sim_fmt, a_prev_line_break_remover.
  destruct (sim_two_prev l1 l2 f O j Sm Hj) as [E HO]. rewrite E.
  destruct (a_two_prev l1 j) as [lb|]; cbn [option_map];
    [|split; [reflexivity | split; exact Hj]].
  destruct (HO lb eq_refl) as (H1 & H2 & _).
  destruct (sim_fwd _ _ _ _ Sm lb NL H1 H2) as [HO' HS].
  cbn [map_res]; unfold map_range; cbn [fst snd]. rewrite HS. split; [reflexivity | split; [exact HO' | exact Hj]].
Qed.

Theorem sim_next_line_break_remover l1 l2 f O j : sim l1 l2 f O -> O j ->
  sim_fmt l1 l2 f O a_next_line_break_remover j.
Proof.
  intros Sm Hj. unfold sim_fmt, a_next_line_break_remover.
  rewrite (sim_boundary l1 l2 f O j Sm Hj).
  destruct (negb (a_boundary l1 j)); [split; [reflexivity | split; exact Hj]|].
  rewrite (sim_residue l1 l2 f O Sm j Hj).
  destruct (negb (a_residue l1 j)); [split; [reflexivity | split; exact Hj]|].
  destruct (sim_two_next l1 l2 f O j Sm Hj) as [E HO]. rewrite E.
  destruct (a_two_next l1 j) as [lb|]; cbn [option_map];
    [|split; [reflexivity | split; exact Hj]].
  split; [reflexivity | split; [exact Hj | apply HO; reflexivity]].
Qed.

(** ** The hull and [a_format_block] *)

Lemma sim_fold l1 l2 f O j : sim l1 l2 f O -> forall afs,
  (forall af, In af afs -> sim_fmt l1 l2 f O af j) ->
  forall r, O (fst r) -> O (snd r) ->
  foldM (fun (r : nat * nat) af => '(a, b) <- af l2 (f j) ;;
                                   Ok (Nat.min a (fst r), Nat.max b (snd r))) afs (map_range f r) =
  map_res f (foldM (fun (r : nat * nat) af => '(a, b) <- af l1 j ;;
                                              Ok (Nat.min a (fst r), Nat.max b (snd r))) afs r) /\
  res_on O (foldM (fun (r : nat * nat) af => '(a, b) <- af l1 j ;;
                                             Ok (Nat.min a (fst r), Nat.max b (snd r))) afs r).
Proof.
  intros Sm. induction afs as [|af afs IH]; intros H r H1 H2.
  - cbn [foldM map_res res_on]. split; [reflexivity | split; assumption].
  - cbn [foldM]. destruct (H af (or_introl eq_refl)) as [E Ho]. rewrite E.
    destruct (af l1 j) as [[x y]|]; cbn [map_res bind]; [|split; [reflexivity | exact I]].
    cbn [res_on fst snd] in Ho. destruct Ho as [Hx Hy].
    unfold map_range; cbn [fst snd].
    destruct (sim_min l1 l2 f O Sm x (fst r) Hx H1) as [Emin Omin].
    destruct (sim_max l1 l2 f O Sm y (snd r) Hy H2) as [Emax Omax].
    rewrite Emin, Emax.
    apply (IH (fun af' Hin => H af' (or_intror Hin)) (Nat.min x (fst r), Nat.max y (snd r)));
      assumption.
Qed.

Theorem sim_seam_hull_of l1 l2 f O j : sim l1 l2 f O -> O j ->
  sim_fmt l1 l2 f O a_seam_hull_of j.
Proof.
  intros Sm Hj. unfold sim_fmt, a_seam_hull_of.
  change (f j, f j) with (map_range f (j, j)).
  apply (sim_fold l1 l2 f O j Sm a_seam_formatters); [|exact Hj | exact Hj].
  intros af Hin. unfold a_seam_formatters in Hin. cbn [In] in Hin.
  destruct Hin as [<-|[<-|[<-|[<-|[]]]]].
  - apply sim_indent_remover; assumption.
  - apply sim_empty_line_remover; assumption.
  - apply sim_prev_line_break_remover; assumption.
  - apply sim_next_line_break_remover; assumption.
Qed.

Theorem sim_format_block l1 l2 f O j : sim l1 l2 f O -> O j ->
  sim_fmt l1 l2 f O a_format_block j.
Proof.
  intros Sm Hj. unfold sim_fmt, a_format_block.
  destruct (sim_seam_hull_of l1 l2 f O j Sm Hj) as [E Ho]. rewrite E.
  destruct (a_seam_hull_of l1 j) as [[x y]|]; cbn [map_res bind]; [|split; [reflexivity | exact I]].
  cbn [res_on fst snd] in Ho. destruct Ho as [Hx Hy]. unfold map_range; cbn [fst snd].
  rewrite (sim_ltb l1 l2 f O Sm j y Hj Hy), (sim_all_blank_before l1 l2 f O Sm x Hx).
  destruct ((j <? y) && a_all_blank_before l1 x); cbn [map_res res_on]; unfold map_range; cbn [fst snd].
  - rewrite (sim_f0 _ _ _ _ Sm). split; [reflexivity | split; [apply (sim_O0 _ _ _ _ Sm) | exact Hy]].
  - split; [reflexivity | split; assumption].
Qed.

(** ** The formatter stage without pairs *)

Definition range_on (O : nat -> Prop) (r : nat * nat) : Prop := O (fst r) /\ O (snd r).
Definition ranges_on (O : nat -> Prop) (rs : list (nat * nat)) : Prop :=
  forall r, In r rs -> range_on O r.

(** [merge_overlapped_ranges] commutes with a map that is monotone on a set containing all
    end points (variant of [Proofs.MonoMap.merge_overlapped_mono]). *)
Lemma mo_step_on l1 l2 f O done cur r : sim l1 l2 f O -> range_on O cur -> range_on O r ->
  mo_step (map (map_range f) done, map_range f cur) (map_range f r) =
  (map (map_range f) (fst (mo_step (done, cur) r)), map_range f (snd (mo_step (done, cur) r))) /\
  range_on O (snd (mo_step (done, cur) r)).
Proof.
  intros Sm [Hc1 Hc2] [Hr1 Hr2]. unfold mo_step.
  rewrite !fst_map_range, !snd_map_range.
  rewrite (sim_leb l1 l2 f O Sm (fst r) (snd cur) Hr1 Hc2).
  destruct (fst r <=? snd cur); cbn [fst snd].
  - destruct (sim_max l1 l2 f O Sm (snd cur) (snd r) Hc2 Hr2) as [Emax Omax]. split.
    + unfold map_range at 3. cbn [fst snd]. rewrite Emax. reflexivity.
    + split; cbn [fst snd]; assumption.
  - split; [|split; assumption]. rewrite map_app. reflexivity.
Qed.

Lemma mo_fold_on l1 l2 f O : sim l1 l2 f O -> forall rest done cur,
  range_on O cur -> ranges_on O rest ->
  fold_left mo_step (map (map_range f) rest) (map (map_range f) done, map_range f cur) =
  (map (map_range f) (fst (fold_left mo_step rest (done, cur))),
   map_range f (snd (fold_left mo_step rest (done, cur)))).
Proof.
  intros Sm rest. induction rest as [|r rest IH]; intros done cur Hcur Hrest; [reflexivity|].
  cbn [map fold_left].
  destruct (mo_step_on l1 l2 f O done cur r Sm Hcur (Hrest r (or_introl eq_refl))) as [E Hle].
  rewrite E. destruct (mo_step (done, cur) r) as [done' cur']. cbn [fst snd] in *.
  apply IH; [exact Hle | intros r' Hin; apply Hrest; right; exact Hin].
Qed.

Theorem merge_overlapped_on l1 l2 f O rs : sim l1 l2 f O -> ranges_on O rs ->
  merge_overlapped_ranges (map (map_range f) rs) = map (map_range f) (merge_overlapped_ranges rs).
Proof.
  intros Sm Hrs. destruct rs as [|r0 rest]; [reflexivity|].
  cbn [map]. rewrite !merge_overlapped_unfold.
  pose proof (mo_fold_on l1 l2 f O Sm rest [] r0 (Hrs r0 (or_introl eq_refl))
                (fun r Hin => Hrs r (or_intror Hin))) as E. cbn [map] in E.
  etransitivity; [exact (f_equal mo_out E)|]. unfold mo_out. cbn [fst snd].
  rewrite map_app. reflexivity.
Qed.

Lemma merge_overlapped_ranges_on O rs : ranges_on O rs -> ranges_on O (merge_overlapped_ranges rs).
Proof.
  intros H r Hin. destruct (merge_overlapped_endpoints rs r Hin) as [(r1 & I1 & E1) (r2 & I2 & E2)].
  split; [rewrite E1; apply (H r1 I1) | rewrite E2; apply (H r2 I2)].
Qed.

Lemma merge_ranges_nil (rs : list (nat * nat)) : merge_ranges rs (sort_ranges []) = Ok rs.
Proof. destruct rs; reflexivity. Qed.

(** The fold of [a_format_ranges] when no position carries a pair index. *)
Lemma sim_fr_fold l1 l2 f O arpos1 arpos2 : sim l1 l2 f O -> forall lst ranges open,
  (forall p, In p lst -> O (fst p)) -> no_pairs lst -> ranges_on O ranges ->
  foldM (a_fr_step l2 arpos2) (map (map_pp f) lst) (map (map_range f) ranges, open) =
  match foldM (a_fr_step l1 arpos1) lst (ranges, open) with
  | Ok ro => Ok (map (map_range f) (fst ro), snd ro)
  | Panic => Panic
  end /\
  (forall ro, foldM (a_fr_step l1 arpos1) lst (ranges, open) = Ok ro ->
              ranges_on O (fst ro) /\ snd ro = open).
Proof.
  intros Sm lst. induction lst as [|[j pi] rest IH]; intros ranges open Hl Hnp Hr.
  - cbn [map foldM]. split; [reflexivity|]. intros ro H. inversion H; subst.
    split; [exact Hr | reflexivity].
  - pose proof (Hl (j, pi) (or_introl eq_refl)) as Hj. cbn [fst] in Hj.
    pose proof (Hnp (j, pi) (or_introl eq_refl)) as Hpi. cbn [snd] in Hpi. subst pi.
    cbn [map foldM]. change (map_pp f (j, None)) with (f j, @None nat).
    unfold a_fr_step at 1 3 5.
    destruct (sim_format_block l1 l2 f O j Sm Hj) as [E Ho]. rewrite E.
    destruct (a_format_block l1 j) as [[x y]|]; cbn [map_res bind];
      [|split; [reflexivity | intros ro H; discriminate H]].
    assert (ranges_on O (ranges ++ [(x, y)])) as Hr'.
    { intros r Hin. apply in_app_or in Hin. destruct Hin as [Hin|[<-|[]]]; [apply Hr; exact Hin | exact Ho]. }
    assert (map (map_range f) ranges ++ [map_range f (x, y)] =
            map (map_range f) (ranges ++ [(x, y)])) as E1 by (rewrite map_app; reflexivity).
    rewrite E1. clear E1.
    apply IH; [|intros p Hp; apply Hnp; right; exact Hp | exact Hr'].
    intros p Hp. apply Hl. right. exact Hp.
Qed.

Theorem sim_format_ranges l1 l2 f O arpos : sim l1 l2 f O ->
  (forall p, In p arpos -> O (fst p)) -> no_pairs arpos ->
  a_format_ranges l2 (map (map_pp f) arpos) =
  match a_format_ranges l1 arpos with
  | Ok aR => Ok (map (map_range f) aR)
  | Panic => Panic
  end /\
  (forall aR, a_format_ranges l1 arpos = Ok aR -> ranges_on O aR).
Proof.
  intros Sm Hpos Hnp. unfold a_format_ranges.
  destruct (sim_fr_fold l1 l2 f O arpos (map (map_pp f) arpos) Sm arpos [] [] Hpos Hnp
              ltac:(intros r [])) as [E L].
  cbn [map] in E. rewrite E. clear E.
  destruct (foldM (a_fr_step l1 arpos) arpos ([], [])) as [[ranges open]|]; cbn [bind fst snd];
    [|split; [reflexivity | intros aR H; discriminate H]].
  destruct (L (ranges, open) eq_refl) as [Lr Lo]. cbn [fst snd] in Lr, Lo. subst open.
  rewrite !merge_ranges_nil. cbn [bind].
  rewrite (merge_overlapped_on l1 l2 f O ranges Sm Lr). split; [reflexivity|].
  intros aR H. inversion H; subst aR. apply merge_overlapped_ranges_on. exact Lr.
Qed.

(* ------------------------------------------------------------------------- *)
(** * Part B: documents of the same shape *)

(** Same texts, tags at the same places, arbitrary tag bodies. *)
Definition same_shape (d1 d2 : list item) : Prop :=
  Forall2 (fun a b => match a, b with
                      | Txt t, Txt u => t = u
                      | Tag _, Tag _ => True
                      | _, _ => False
                      end) d1 d2.

(** The same with a relation between the tag bodies at the same places ([same_shape] is
    [shape_rel (fun _ _ => True)]). *)
Definition shape_rel (P : str -> str -> Prop) (d1 d2 : list item) : Prop :=
  Forall2 (fun a b => match a, b with
                      | Txt t, Txt u => t = u
                      | Tag x, Tag y => P x y
                      | _, _ => False
                      end) d1 d2.

Lemma same_shape_rel d1 d2 : same_shape d1 d2 <-> shape_rel (fun _ _ => True) d1 d2.
Proof. split; intros H; exact H. Qed.

Lemma shape_rel_same P d1 d2 : shape_rel P d1 d2 -> same_shape d1 d2.
Proof.
  intros H. induction H as [|a b r1 r2 Hab _ IH]; constructor; [|exact IH].
  destruct a, b; try exact Hab. exact I.
Qed.

Lemma shape_rel_ind' (P : str -> str -> Prop) (Q : list item -> list item -> Prop) :
  Q [] [] ->
  (forall t r1 r2, shape_rel P r1 r2 -> Q r1 r2 -> Q (Txt t :: r1) (Txt t :: r2)) ->
  (forall b1 b2 r1 r2, P b1 b2 -> shape_rel P r1 r2 -> Q r1 r2 -> Q (Tag b1 :: r1) (Tag b2 :: r2)) ->
  forall d1 d2, shape_rel P d1 d2 -> Q d1 d2.
Proof.
  intros H0 HT HG d1 d2 H. induction H as [|a b r1 r2 Hab Hr IH]; [exact H0|].
  destruct a as [t|b1], b as [u|b2]; try contradiction.
  - subst u. apply HT; assumption.
  - apply HG; assumption.
Qed.

Lemma same_shape_ind' (Q : list item -> list item -> Prop) :
  Q [] [] ->
  (forall t r1 r2, same_shape r1 r2 -> Q r1 r2 -> Q (Txt t :: r1) (Txt t :: r2)) ->
  (forall b1 b2 r1 r2, same_shape r1 r2 -> Q r1 r2 -> Q (Tag b1 :: r1) (Tag b2 :: r2)) ->
  forall d1 d2, same_shape d1 d2 -> Q d1 d2.
Proof.
  intros H0 HT HG. apply (shape_rel_ind' (fun _ _ => True) Q H0 HT).
  intros b1 b2 r1 r2 _. apply HG.
Qed.

Ltac shape_ind :=
  match goal with
  | |- forall d1 d2, same_shape d1 d2 -> @?Q d1 d2 => apply (same_shape_ind' Q); cbv beta
  end.

Lemma same_shape_refl d : same_shape d d.
Proof. induction d as [|[t|b] d IH]; constructor; auto. Qed.

Lemma same_shape_sym d1 d2 : same_shape d1 d2 -> same_shape d2 d1.
Proof.
  revert d1 d2. shape_ind.
  - constructor.
  - intros t r1 r2 _ IH. constructor; [reflexivity | exact IH].
  - intros b1 b2 r1 r2 _ IH. constructor; [exact I | exact IH].
Qed.

Lemma same_shape_length d1 d2 : same_shape d1 d2 -> length d1 = length d2.
Proof. intros H. induction H; cbn [length]; congruence. Qed.

(** The positions of [flat d] that are not strictly inside a tag: any offset in or at the end of
    a text, the first symbol of a tag, the end of the document. *)
Fixpoint outerb (d : list item) (j : nat) : bool :=
  match d with
  | [] => j =? 0
  | Txt t :: r => (j <? length t) || outerb r (j - length t)
  | Tag b :: r => (j =? 0) || ((length b + 2 <=? j) && outerb r (j - (length b + 2)))
  end.
Definition outer (d : list item) (j : nat) : Prop := outerb d j = true.

(** The translation of positions of [flat d1] to positions of [flat d2]: shift by the difference
    of the lengths of the tags seen so far.  (Inside a tag: the same offset, clamped to the end
    delimiter; irrelevant.) *)
Fixpoint tr (d1 d2 : list item) (j : nat) : nat :=
  match d1, d2 with
  | Txt t :: r1, _ :: r2 => if j <? length t then j else length t + tr r1 r2 (j - length t)
  | Tag b1 :: r1, Tag b2 :: r2 =>
    if j <? length b1 + 2 then Nat.min j (length b2 + 1)
    else length b2 + 2 + tr r1 r2 (j - (length b1 + 2))
  | _, _ => j
  end.

(** ** Block lemmas *)

Lemma txt_cases (t : str) j : j < length t \/ exists j', j = length t + j'.
Proof.
  destruct (Nat.lt_ge_cases j (length t)) as [H|H]; [left; exact H|].
  right. exists (j - length t). lia.
Qed.

Lemma tag_cases (b : str) j : j = 0 \/ 0 < j < length b + 2 \/ exists j', j = length b + 2 + j'.
Proof.
  destruct (Nat.eq_dec j 0) as [H|H]; [left; exact H|]. right.
  destruct (Nat.lt_ge_cases j (length b + 2)) as [L|L]; [left; lia|].
  right. exists (j - (length b + 2)). lia.
Qed.

Lemma outer_txt_lt t r j : j < length t -> outerb (Txt t :: r) j = true.
Proof. intros H. cbn [outerb]. apply Nat.ltb_lt in H. rewrite H. reflexivity. Qed.

Lemma outer_txt_ge t r j : outerb (Txt t :: r) (length t + j) = outerb r j.
Proof.
  cbn [outerb]. replace (length t + j <? length t) with false by (symmetry; apply Nat.ltb_ge; lia).
  replace (length t + j - length t) with j by lia. reflexivity.
Qed.

Lemma outer_tag_0 b r : outerb (Tag b :: r) 0 = true.
Proof. reflexivity. Qed.

Lemma outer_tag_in b r j : 0 < j < length b + 2 -> outerb (Tag b :: r) j = false.
Proof.
  intros H. cbn [outerb].
  replace (j =? 0) with false by (symmetry; apply Nat.eqb_neq; lia).
  replace (length b + 2 <=? j) with false by (symmetry; apply Nat.leb_gt; lia). reflexivity.
Qed.

Lemma outer_0 d : outerb d 0 = true.
Proof.
  induction d as [|[t|b] d IH]; [reflexivity | | reflexivity].
  cbn [outerb Nat.sub]. rewrite IH. apply orb_true_r.
Qed.

Lemma outer_tag_ge b r j : outerb (Tag b :: r) (length b + 2 + j) = outerb r j.
Proof.
  cbn [outerb]. replace (length b + 2 <=? length b + 2 + j) with true by (symmetry; apply Nat.leb_le; lia).
  replace (length b + 2 + j - (length b + 2)) with j by lia. cbn [andb].
  destruct (Nat.eqb_spec (length b + 2 + j) 0) as [E|E]; [lia | reflexivity].
Qed.

Lemma tr_txt_lt t r1 it r2 j : j < length t -> tr (Txt t :: r1) (it :: r2) j = j.
Proof. intros H. cbn [tr]. apply Nat.ltb_lt in H. rewrite H. reflexivity. Qed.

Lemma tr_txt_ge t r1 it r2 j : tr (Txt t :: r1) (it :: r2) (length t + j) = length t + tr r1 r2 j.
Proof.
  cbn [tr]. replace (length t + j <? length t) with false by (symmetry; apply Nat.ltb_ge; lia).
  replace (length t + j - length t) with j by lia. reflexivity.
Qed.

Lemma tr_tag_lt b1 b2 r1 r2 j : j < length b1 + 2 ->
  tr (Tag b1 :: r1) (Tag b2 :: r2) j = Nat.min j (length b2 + 1).
Proof. intros H. cbn [tr]. apply Nat.ltb_lt in H. rewrite H. reflexivity. Qed.

Lemma tr_tag_ge b1 b2 r1 r2 j :
  tr (Tag b1 :: r1) (Tag b2 :: r2) (length b1 + 2 + j) = length b2 + 2 + tr r1 r2 j.
Proof.
  cbn [tr]. replace (length b1 + 2 + j <? length b1 + 2) with false by (symmetry; apply Nat.ltb_ge; lia).
  replace (length b1 + 2 + j - (length b1 + 2)) with j by lia. reflexivity.
Qed.

Lemma tr_0 d1 d2 : tr d1 d2 0 = 0.
Proof.
  revert d2. induction d1 as [|[t|b1] d1 IH]; intros d2; [reflexivity | |].
  - destruct d2 as [|it d2]; [reflexivity|]. cbn [tr Nat.sub]. rewrite IH.
    destruct (0 <? length t) eqn:E; [reflexivity|]. apply Nat.ltb_ge in E. lia.
  - destruct d2 as [|[u|b2] d2]; [reflexivity | reflexivity |].
    rewrite tr_tag_lt by lia. reflexivity.
Qed.

Lemma len_flat_txt t r : length (flat (Txt t :: r)) = length t + length (flat r).
Proof. rewrite flat_cons, app_length, (flat_item_len (Txt t)). reflexivity. Qed.

Lemma len_flat_tag b r : length (flat (Tag b :: r)) = length b + 2 + length (flat r).
Proof. rewrite flat_cons, app_length, (flat_item_len (Tag b)). reflexivity. Qed.

Lemma nth_txt_lt t r j : j < length t ->
  nth_error (flat (Txt t :: r)) j = option_map B (nth_error t j).
Proof.
  intros H. rewrite flat_cons. cbn [flat_item].
  rewrite nth_error_app1 by (rewrite map_length; exact H). apply nth_error_map.
Qed.

Lemma nth_txt_ge t r j : nth_error (flat (Txt t :: r)) (length t + j) = nth_error (flat r) j.
Proof.
  rewrite flat_cons. cbn [flat_item].
  rewrite nth_error_app2 by (rewrite map_length; lia). rewrite map_length. f_equal. lia.
Qed.

Lemma nth_tag_0 b r : nth_error (flat (Tag b :: r)) 0 = Some DS.
Proof. reflexivity. Qed.

Lemma nth_tag_last b r : nth_error (flat (Tag b :: r)) (length b + 1) = Some DE.
Proof.
  rewrite flat_cons.
  rewrite nth_error_app1 by (rewrite (flat_item_len (Tag b)); lia).
  cbn [flat_item]. replace (length b + 1) with (S (length b)) by lia. cbn [nth_error].
  rewrite nth_error_app2 by (rewrite map_length; lia). rewrite map_length, Nat.sub_diag. reflexivity.
Qed.

Lemma nth_tag_ge b r j : nth_error (flat (Tag b :: r)) (length b + 2 + j) = nth_error (flat r) j.
Proof.
  rewrite flat_cons.
  rewrite nth_error_app2 by (rewrite (flat_item_len (Tag b)); lia).
  rewrite (flat_item_len (Tag b)). f_equal. lia.
Qed.

Lemma nth_txt_lt_B t r j : j < length t -> exists c, nth_error (flat (Txt t :: r)) j = Some (B c).
Proof.
  intros H. rewrite (nth_txt_lt t r j H). destruct (nth_error t j) as [c|] eqn:N.
  - exists c. reflexivity.
  - apply nth_error_None in N. lia.
Qed.

(** ** Properties of [outer] and [tr] *)

Theorem outer_le d : forall j, outer d j -> j <= length (flat d).
Proof.
  unfold outer. induction d as [|[t|b] d IH]; intros j H.
  - cbn [outerb] in H. apply Nat.eqb_eq in H. lia.
  - rewrite len_flat_txt. destruct (txt_cases t j) as [L|[j' ->]]; [lia|].
    rewrite outer_txt_ge in H. apply IH in H. lia.
  - rewrite len_flat_tag. destruct (tag_cases b j) as [->|[L|[j' ->]]]; [lia | |].
    + rewrite (outer_tag_in b d j L) in H. discriminate H.
    + rewrite outer_tag_ge in H. apply IH in H. lia.
Qed.

Theorem outer_end d : outer d (length (flat d)).
Proof.
  unfold outer. induction d as [|[t|b] d IH]; [reflexivity | |].
  - rewrite len_flat_txt, outer_txt_ge. exact IH.
  - rewrite len_flat_tag, outer_tag_ge. exact IH.
Qed.

Theorem tr_end d1 d2 : same_shape d1 d2 -> tr d1 d2 (length (flat d1)) = length (flat d2).
Proof.
  revert d1 d2. shape_ind.
  - reflexivity.
  - intros t r1 r2 _ IH. rewrite !len_flat_txt, tr_txt_ge, IH. reflexivity.
  - intros b1 b2 r1 r2 _ IH. rewrite !len_flat_tag, tr_tag_ge, IH. reflexivity.
Qed.

(** The symbol at an outer position. *)
Theorem tr_nth d1 d2 : same_shape d1 d2 -> forall j, outer d1 j ->
  nth_error (flat d2) (tr d1 d2 j) = nth_error (flat d1) j.
Proof.
  unfold outer. revert d1 d2. shape_ind.
  - intros j H. cbn [outerb] in H. apply Nat.eqb_eq in H. subst j. reflexivity.
  - intros t r1 r2 _ IH j H. destruct (txt_cases t j) as [L|[j' ->]].
    + rewrite (tr_txt_lt t r1 _ r2 j L), !(nth_txt_lt t _ j L). reflexivity.
    + rewrite outer_txt_ge in H. rewrite tr_txt_ge, !nth_txt_ge. apply IH. exact H.
  - intros b1 b2 r1 r2 _ IH j H. destruct (tag_cases b1 j) as [->|[L|[j' ->]]].
    + rewrite tr_0. reflexivity.
    + rewrite (outer_tag_in b1 r1 j L) in H. discriminate H.
    + rewrite outer_tag_ge in H. rewrite tr_tag_ge, !nth_tag_ge. apply IH. exact H.
Qed.

(** Stepping forwards over a byte symbol. *)
Theorem tr_fwd d1 d2 : same_shape d1 d2 -> forall j c, outer d1 j ->
  nth_error (flat d1) j = Some (B c) -> outer d1 (S j) /\ tr d1 d2 (S j) = S (tr d1 d2 j).
Proof.
  unfold outer. revert d1 d2. shape_ind.
  - intros j c _ N. destruct j; discriminate N.
  - intros t r1 r2 _ IH j c H N. destruct (txt_cases t j) as [L|[j' ->]].
    + rewrite (tr_txt_lt t r1 _ r2 j L). destruct (txt_cases t (S j)) as [L'|[j' E]].
      * rewrite (outer_txt_lt t r1 _ L'), (tr_txt_lt t r1 _ r2 _ L'). split; reflexivity.
      * assert (j' = 0) by lia. subst j'. rewrite E, outer_txt_ge, tr_txt_ge, outer_0, tr_0.
        split; [reflexivity | lia].
    + rewrite outer_txt_ge in H. rewrite nth_txt_ge in N.
      destruct (IH j' c H N) as [HO HS].
      rewrite <- Nat.add_succ_r, outer_txt_ge, !tr_txt_ge, HS. split; [exact HO | lia].
  - intros b1 b2 r1 r2 _ IH j c H N. destruct (tag_cases b1 j) as [->|[L|[j' ->]]].
    + discriminate N.
    + rewrite (outer_tag_in b1 r1 j L) in H. discriminate H.
    + rewrite outer_tag_ge in H. rewrite nth_tag_ge in N.
      destruct (IH j' c H N) as [HO HS].
      rewrite <- Nat.add_succ_r, outer_tag_ge, !tr_tag_ge, HS. split; [exact HO | lia].
Qed.

(** The symbol in front of an outer position. *)
Theorem tr_pred d1 d2 : same_shape d1 d2 -> forall j, outer d1 (S j) ->
  exists q, tr d1 d2 (S j) = S q /\ nth_error (flat d2) q = nth_error (flat d1) j.
Proof.
  unfold outer. revert d1 d2. shape_ind.
  - intros j H. discriminate H.
  - intros t r1 r2 _ IH j H. destruct (txt_cases t (S j)) as [L|[j' E]].
    + exists j. rewrite (tr_txt_lt t r1 _ r2 _ L), !(nth_txt_lt t _ j) by lia. split; reflexivity.
    + rewrite E in H |- *. rewrite outer_txt_ge in H. rewrite tr_txt_ge. destruct j' as [|j'].
      * exists j. rewrite tr_0, !(nth_txt_lt t _ j) by lia. split; [lia | reflexivity].
      * destruct (IH j' H) as (q & Eq & Nq). exists (length t + q).
        assert (j = length t + j') as -> by lia. rewrite Eq, !nth_txt_ge. split; [lia | exact Nq].
  - intros b1 b2 r1 r2 _ IH j H. destruct (tag_cases b1 (S j)) as [E|[L|[j' E]]]; [discriminate E | |].
    + rewrite (outer_tag_in b1 r1 _ L) in H. discriminate H.
    + rewrite E in H |- *. rewrite outer_tag_ge in H. rewrite tr_tag_ge. destruct j' as [|j'].
      * exists (length b2 + 1). assert (j = length b1 + 1) as -> by lia.
        rewrite tr_0, !nth_tag_last. split; [lia | reflexivity].
      * destruct (IH j' H) as (q & Eq & Nq). exists (length b2 + 2 + q).
        assert (j = length b1 + 2 + j') as -> by lia. rewrite Eq, !nth_tag_ge. split; [lia | exact Nq].
Qed.

(** Stepping backwards over a byte symbol. *)
Theorem tr_bwd d1 d2 : same_shape d1 d2 -> forall j c, outer d1 (S j) ->
  nth_error (flat d1) j = Some (B c) -> outer d1 j /\ tr d1 d2 (S j) = S (tr d1 d2 j).
Proof.
  unfold outer. revert d1 d2. shape_ind.
  - intros j c H. discriminate H.
  - intros t r1 r2 _ IH j c H N. destruct (txt_cases t (S j)) as [L|[j' E]].
    + rewrite (tr_txt_lt t r1 _ r2 _ L), (tr_txt_lt t r1 _ r2 j) by lia.
      rewrite (outer_txt_lt t r1 j) by lia. split; reflexivity.
    + rewrite E in H |- *. rewrite outer_txt_ge in H. rewrite tr_txt_ge. destruct j' as [|j'].
      * rewrite tr_0, (tr_txt_lt t r1 _ r2 j) by lia. rewrite (outer_txt_lt t r1 j) by lia.
        split; [reflexivity | lia].
      * assert (j = length t + j') as -> by lia. rewrite nth_txt_ge in N.
        destruct (IH j' c H N) as [HO HS]. rewrite outer_txt_ge, tr_txt_ge, HS.
        split; [exact HO | lia].
  - intros b1 b2 r1 r2 _ IH j c H N. destruct (tag_cases b1 (S j)) as [E|[L|[j' E]]]; [discriminate E | |].
    + rewrite (outer_tag_in b1 r1 _ L) in H. discriminate H.
    + rewrite E in H |- *. rewrite outer_tag_ge in H. rewrite tr_tag_ge. destruct j' as [|j'].
      * assert (j = length b1 + 1) as -> by lia. rewrite nth_tag_last in N. discriminate N.
      * assert (j = length b1 + 2 + j') as -> by lia. rewrite nth_tag_ge in N.
        destruct (IH j' c H N) as [HO HS]. rewrite outer_tag_ge, tr_tag_ge, HS.
        split; [exact HO | lia].
Qed.

(** Strictly monotone on outer positions. *)
Theorem tr_mono d1 d2 : same_shape d1 d2 -> forall a b, outer d1 a -> outer d1 b -> a < b ->
  tr d1 d2 a < tr d1 d2 b.
Proof.
  unfold outer. revert d1 d2. shape_ind.
  - intros a b Ha Hb. cbn [outerb] in Ha, Hb. apply Nat.eqb_eq in Ha, Hb. lia.
  - intros t r1 r2 _ IH a b Ha Hb Hab.
    destruct (txt_cases t a) as [La|[a' ->]], (txt_cases t b) as [Lb|[b' ->]].
    + rewrite !tr_txt_lt by assumption. exact Hab.
    + rewrite (tr_txt_lt t r1 _ r2 a La), tr_txt_ge. lia.
    + lia.
    + rewrite outer_txt_ge in Ha, Hb. rewrite !tr_txt_ge.
      pose proof (IH a' b' Ha Hb ltac:(lia)). lia.
  - intros b1 b2 r1 r2 _ IH a b Ha Hb Hab.
    destruct (tag_cases b1 a) as [->|[La|[a' ->]]].
    + destruct (tag_cases b1 b) as [->|[Lb|[b' ->]]]; [lia | |].
      * rewrite (outer_tag_in b1 r1 b Lb) in Hb. discriminate Hb.
      * rewrite tr_0, tr_tag_ge. lia.
    + rewrite (outer_tag_in b1 r1 a La) in Ha. discriminate Ha.
    + destruct (tag_cases b1 b) as [->|[Lb|[b' ->]]]; [lia | |].
      * rewrite (outer_tag_in b1 r1 b Lb) in Hb. discriminate Hb.
      * rewrite outer_tag_ge in Ha, Hb. rewrite !tr_tag_ge.
        pose proof (IH a' b' Ha Hb ltac:(lia)). lia.
Qed.

(** Outer positions go to outer positions, and back. *)
Theorem tr_outer d1 d2 : same_shape d1 d2 -> forall j, outer d1 j -> outer d2 (tr d1 d2 j).
Proof.
  unfold outer. revert d1 d2. shape_ind.
  - intros j H. exact H.
  - intros t r1 r2 _ IH j H. destruct (txt_cases t j) as [L|[j' ->]].
    + rewrite (tr_txt_lt t r1 _ r2 j L). apply outer_txt_lt. exact L.
    + rewrite outer_txt_ge in H. rewrite tr_txt_ge, outer_txt_ge. apply IH. exact H.
  - intros b1 b2 r1 r2 _ IH j H. destruct (tag_cases b1 j) as [->|[L|[j' ->]]].
    + rewrite tr_0. reflexivity.
    + rewrite (outer_tag_in b1 r1 j L) in H. discriminate H.
    + rewrite outer_tag_ge in H. rewrite tr_tag_ge, outer_tag_ge. apply IH. exact H.
Qed.

Theorem tr_inv d1 d2 : same_shape d1 d2 -> forall j, outer d1 j -> tr d2 d1 (tr d1 d2 j) = j.
Proof.
  unfold outer. revert d1 d2. shape_ind.
  - intros j H. reflexivity.
  - intros t r1 r2 _ IH j H. destruct (txt_cases t j) as [L|[j' ->]].
    + rewrite (tr_txt_lt t r1 _ r2 j L). apply tr_txt_lt. exact L.
    + rewrite outer_txt_ge in H. rewrite !tr_txt_ge, (IH j' H). reflexivity.
  - intros b1 b2 r1 r2 _ IH j H. destruct (tag_cases b1 j) as [->|[L|[j' ->]]].
    + rewrite !tr_0. reflexivity.
    + rewrite (outer_tag_in b1 r1 j L) in H. discriminate H.
    + rewrite outer_tag_ge in H. rewrite !tr_tag_ge, (IH j' H). reflexivity.
Qed.

(** ** The item-wise description *)

Lemma fstart_txt t r i : fstart (Txt t :: r) (S i) = length t + fstart r i.
Proof. rewrite fstart_cons, (flat_item_len (Txt t)). reflexivity. Qed.

Lemma fstart_tag b r i : fstart (Tag b :: r) (S i) = length b + 2 + fstart r i.
Proof. rewrite fstart_cons, (flat_item_len (Tag b)). reflexivity. Qed.

(** [tr] is the identity on the shape: item starts go to item starts (and the end to the end). *)
Theorem tr_fstart d1 d2 : same_shape d1 d2 -> forall i, i <= length d1 ->
  outer d1 (fstart d1 i) /\ tr d1 d2 (fstart d1 i) = fstart d2 i.
Proof.
  unfold outer. revert d1 d2. shape_ind.
  - intros i Hi. destruct i; split; reflexivity.
  - intros t r1 r2 _ IH i Hi. destruct i as [|i].
    + rewrite !fstart_0, outer_0, tr_0. split; reflexivity.
    + cbn [length] in Hi. destruct (IH i ltac:(lia)) as [HO HT].
      rewrite !fstart_txt, outer_txt_ge, tr_txt_ge, HT. split; [exact HO | reflexivity].
  - intros b1 b2 r1 r2 _ IH i Hi. destruct i as [|i].
    + rewrite !fstart_0, tr_0. split; reflexivity.
    + cbn [length] in Hi. destruct (IH i ltac:(lia)) as [HO HT].
      rewrite !fstart_tag, outer_tag_ge, tr_tag_ge, HT. split; [exact HO | reflexivity].
Qed.

(** Offsets in a text (including its end) keep their offset. *)
Theorem tr_in_txt d1 d2 : same_shape d1 d2 -> forall i t k,
  nth_error d1 i = Some (Txt t) -> k <= length t ->
  outer d1 (fstart d1 i + k) /\ tr d1 d2 (fstart d1 i + k) = fstart d2 i + k.
Proof.
  unfold outer. revert d1 d2. shape_ind.
  - intros i t k N. destruct i; discriminate N.
  - intros t r1 r2 _ IH i u k N Hk. destruct i as [|i].
    + cbn [nth_error] in N. inversion N; subst u. rewrite !fstart_0. cbn [Nat.add].
      destruct (Nat.eq_dec k (length t)) as [->|Hne].
      * rewrite <- (Nat.add_0_r (length t)), outer_txt_ge, tr_txt_ge, outer_0, tr_0.
        split; reflexivity.
      * rewrite outer_txt_lt, tr_txt_lt by lia. split; reflexivity.
    + cbn [nth_error] in N. destruct (IH i u k N Hk) as [HO HT].
      rewrite !fstart_txt, <- !Nat.add_assoc, outer_txt_ge, tr_txt_ge, HT. split; [exact HO | reflexivity].
  - intros b1 b2 r1 r2 _ IH i u k N Hk. destruct i as [|i]; [discriminate N|].
    cbn [nth_error] in N. destruct (IH i u k N Hk) as [HO HT].
    rewrite !fstart_tag.
    replace (length b1 + 2 + fstart r1 i + k) with (length b1 + 2 + (fstart r1 i + k)) by lia.
    rewrite outer_tag_ge, tr_tag_ge, HT. split; [exact HO | lia].
Qed.

(** The outer positions, item-wise. *)
Definition outer_at (d : list item) (j : nat) : Prop :=
  exists i k, j = fstart d i + k /\
    ((i = length d /\ k = 0) \/
     (exists t, nth_error d i = Some (Txt t) /\ k <= length t) \/
     (exists b, nth_error d i = Some (Tag b) /\ k = 0)).

Theorem outer_spec d j : outer d j <-> outer_at d j.
Proof.
  split.
  - unfold outer. revert j. induction d as [|[t|b] d IH]; intros j H.
    + cbn [outerb] in H. apply Nat.eqb_eq in H. subst j. exists 0, 0.
      split; [reflexivity | left; split; reflexivity].
    + destruct (txt_cases t j) as [L|[j' ->]].
      * exists 0, j. split; [reflexivity|]. right. left. exists t. split; [reflexivity | lia].
      * rewrite outer_txt_ge in H. destruct (IH j' H) as (i & k & -> & Hc). exists (S i), k.
        rewrite fstart_txt. split; [lia|]. cbn [length nth_error].
        destruct Hc as [[-> ->]|[Hc|Hc]]; [left; split; reflexivity | right; left; exact Hc | right; right; exact Hc].
    + destruct (tag_cases b j) as [->|[L|[j' ->]]].
      * exists 0, 0. split; [reflexivity|]. right. right. exists b. split; reflexivity.
      * rewrite (outer_tag_in b d j L) in H. discriminate H.
      * rewrite outer_tag_ge in H. destruct (IH j' H) as (i & k & -> & Hc). exists (S i), k.
        rewrite fstart_tag. split; [lia|]. cbn [length nth_error].
        destruct Hc as [[-> ->]|[Hc|Hc]]; [left; split; reflexivity | right; left; exact Hc | right; right; exact Hc].
  - intros (i & k & -> & [[-> ->]|[(t & N & Hk)|(b & N & ->)]]).
    + rewrite Nat.add_0_r. apply (tr_fstart d d (same_shape_refl d) (length d) (le_n _)).
    + apply (tr_in_txt d d (same_shape_refl d) i t k N Hk).
    + rewrite Nat.add_0_r. apply (tr_fstart d d (same_shape_refl d) i).
      apply Nat.lt_le_incl. apply nth_error_Some. congruence.
Qed.

(** No position strictly inside a tag is outer. *)
Lemma outer_not_in_tag : forall d i b a, nth_error d i = Some (Tag b) ->
  fstart d i < a < fstart d (S i) -> outerb d a = false.
Proof.
  induction d as [|it d IH]; intros i b a N Ha; [destruct i; discriminate N|].
  destruct i as [|i].
  - cbn [nth_error] in N. inversion N; subst it. rewrite fstart_tag, !fstart_0 in Ha.
    apply outer_tag_in. lia.
  - cbn [nth_error] in N. destruct it as [t|c].
    + rewrite !fstart_txt in Ha. destruct (txt_cases t a) as [L|[a' ->]]; [lia|].
      rewrite outer_txt_ge. apply (IH i b a' N). lia.
    + rewrite !fstart_tag in Ha. destruct (tag_cases c a) as [->|[L|[a' ->]]]; [lia | lia |].
      rewrite outer_tag_ge. apply (IH i b a' N). lia.
Qed.

(** ** The symbols at corresponding positions *)

(** A tag starts with [DS] in both documents. *)
Theorem tr_tag_start d1 d2 i b : same_shape d1 d2 -> nth_error d1 i = Some (Tag b) ->
  nth_error (flat d1) (fstart d1 i) = Some DS /\
  nth_error (flat d2) (tr d1 d2 (fstart d1 i)) = Some DS.
Proof.
  intros H N. pose proof (sym_at_tag d1 i b N) as E. cbn [aidx] in E. split; [exact E|].
  assert (i <= length d1) as Hi by (apply Nat.lt_le_incl; apply nth_error_Some; congruence).
  rewrite (tr_nth d1 d2 H _ (proj1 (tr_fstart d1 d2 H i Hi))). exact E.
Qed.

(** An outer position that follows a tag follows [DE] in both documents. *)
Theorem tr_after_tag d1 d2 j : same_shape d1 d2 -> outer d1 (S j) ->
  nth_error (flat d1) j = Some DE ->
  exists q, tr d1 d2 (S j) = S q /\ nth_error (flat d2) q = Some DE.
Proof.
  intros H Hj N. destruct (tr_pred d1 d2 H j Hj) as (q & Eq & Nq). exists q.
  split; [exact Eq | congruence].
Qed.

(** The simulation. *)
Theorem tr_sim d1 d2 : same_shape d1 d2 -> sim (flat d1) (flat d2) (tr d1 d2) (outer d1).
Proof.
  intros H. constructor.
  - apply outer_0.
  - apply tr_0.
  - apply outer_le.
  - apply tr_nth. exact H.
  - apply tr_fwd. exact H.
  - apply tr_pred. exact H.
  - apply tr_bwd. exact H.
  - apply tr_mono. exact H.
Qed.

(* ------------------------------------------------------------------------- *)
(** * Part C: the formatters on two documents of the same shape *)

(** ** 1. The scanners *)

Theorem shape_next_lb d1 d2 j : same_shape d1 d2 -> outer d1 j ->
  a_next_lb (flat d2) (tr d1 d2 j) true = option_map (tr d1 d2) (a_next_lb (flat d1) j true) /\
  (forall p, a_next_lb (flat d1) j true = Some p -> outer d1 p).
Proof.
  intros H Hj. pose proof (tr_sim d1 d2 H) as Sm. split; [apply (sim_next_lb _ _ _ _ j Sm Hj)|].
  intros p E. apply (sim_next_lb_O _ _ _ _ j p Sm Hj E).
Qed.

Theorem shape_prev_lb d1 d2 j : same_shape d1 d2 -> outer d1 j ->
  a_prev_lb (flat d2) (tr d1 d2 j) true = option_map (tr d1 d2) (a_prev_lb (flat d1) j true) /\
  (forall p, a_prev_lb (flat d1) j true = Some p -> outer d1 p).
Proof.
  intros H Hj. pose proof (tr_sim d1 d2 H) as Sm. split; [apply (sim_prev_lb _ _ _ _ Sm j Hj)|].
  intros p E. apply (sim_prev_lb_O _ _ _ _ j p Sm Hj E).
Qed.

Theorem shape_indent_loop d1 d2 j : same_shape d1 d2 -> outer d1 j ->
  a_indent_loop (flat d2) (tr d1 d2 j) = option_map (tr d1 d2) (a_indent_loop (flat d1) j) /\
  (forall p, a_indent_loop (flat d1) j = Some p -> outer d1 p).
Proof. intros H Hj. apply (sim_indent_loop _ _ _ _ (tr_sim d1 d2 H) j Hj). Qed.

Theorem shape_two_next d1 d2 j : same_shape d1 d2 -> outer d1 j ->
  a_two_next (flat d2) (tr d1 d2 j) = option_map (tr d1 d2) (a_two_next (flat d1) j) /\
  (forall p, a_two_next (flat d1) j = Some p -> outer d1 p).
Proof. intros H Hj. apply (sim_two_next _ _ _ _ j (tr_sim d1 d2 H) Hj). Qed.

Theorem shape_two_prev d1 d2 j : same_shape d1 d2 -> outer d1 j ->
  a_two_prev (flat d2) (tr d1 d2 j) = option_map (tr d1 d2) (a_two_prev (flat d1) j) /\
  (forall p, a_two_prev (flat d1) j = Some p -> outer d1 p).
Proof.
  intros H Hj. destruct (sim_two_prev _ _ _ _ j (tr_sim d1 d2 H) Hj) as [E HO].
  split; [exact E|]. intros p Hp. apply (HO p Hp).
Qed.

Theorem shape_residue d1 d2 j : same_shape d1 d2 -> outer d1 j ->
  a_residue (flat d2) (tr d1 d2 j) = a_residue (flat d1) j.
Proof. intros H Hj. apply (sim_residue _ _ _ _ (tr_sim d1 d2 H) j Hj). Qed.

Theorem shape_boundary d1 d2 j : same_shape d1 d2 -> outer d1 j ->
  a_boundary (flat d2) (tr d1 d2 j) = a_boundary (flat d1) j.
Proof. intros H Hj. apply (sim_boundary _ _ _ _ j (tr_sim d1 d2 H) Hj). Qed.

Theorem shape_is_nl d1 d2 j : same_shape d1 d2 -> outer d1 j ->
  a_is_nl (flat d2) (tr d1 d2 j) = a_is_nl (flat d1) j.
Proof. intros H Hj. apply (sim_is_nl _ _ _ _ j (tr_sim d1 d2 H) Hj). Qed.

Theorem shape_len_leb d1 d2 j : same_shape d1 d2 -> outer d1 j ->
  (length (flat d2) <=? tr d1 d2 j) = (length (flat d1) <=? j).
Proof. intros H Hj. apply (sim_len_leb _ _ _ _ j (tr_sim d1 d2 H) Hj). Qed.

Theorem shape_all_blank_before d1 d2 j : same_shape d1 d2 -> outer d1 j ->
  a_all_blank_before (flat d2) (tr d1 d2 j) = a_all_blank_before (flat d1) j.
Proof. intros H Hj. apply (sim_all_blank_before _ _ _ _ (tr_sim d1 d2 H) j Hj). Qed.

(** ** 2. The four seam formatters, their hull and [a_format_block] *)

(** The statement for a formatter [af]: the result at the translated position is the translated
    result, and both ends of the result are outer. *)
Definition shape_fmt (d1 d2 : list item) (af : list sym -> nat -> res (nat * nat)) (j : nat) : Prop :=
  af (flat d2) (tr d1 d2 j) =
    match af (flat d1) j with Ok (a, b) => Ok (tr d1 d2 a, tr d1 d2 b) | Panic => Panic end /\
  (forall a b, af (flat d1) j = Ok (a, b) -> outer d1 a /\ outer d1 b).

Lemma sim_shape_fmt d1 d2 af j : sim_fmt (flat d1) (flat d2) (tr d1 d2) (outer d1) af j ->
  shape_fmt d1 d2 af j.
Proof.
  intros [E Ho]. unfold shape_fmt. rewrite E. destruct (af (flat d1) j) as [[a b]|].
  - split; [reflexivity|]. intros a' b' Hab. inversion Hab; subst. exact Ho.
  - split; [reflexivity | intros a b Hab; discriminate Hab].
Qed.

Theorem shape_indent_remover d1 d2 j : same_shape d1 d2 -> outer d1 j ->
  shape_fmt d1 d2 a_indent_remover j.
Proof. intros H Hj. apply sim_shape_fmt, sim_indent_remover; [apply tr_sim; exact H | exact Hj]. Qed.

Theorem shape_empty_line_remover d1 d2 j : same_shape d1 d2 -> outer d1 j ->
  shape_fmt d1 d2 a_empty_line_remover j.
Proof. intros H Hj. apply sim_shape_fmt, sim_empty_line_remover; [apply tr_sim; exact H | exact Hj]. Qed.

Theorem shape_prev_line_break_remover d1 d2 j : same_shape d1 d2 -> outer d1 j ->
  shape_fmt d1 d2 a_prev_line_break_remover j.
Proof. intros H Hj. apply sim_shape_fmt, sim_prev_line_break_remover; [apply tr_sim; exact H | exact Hj]. Qed.

Theorem shape_next_line_break_remover d1 d2 j : same_shape d1 d2 -> outer d1 j ->
  shape_fmt d1 d2 a_next_line_break_remover j.
Proof. intros H Hj. apply sim_shape_fmt, sim_next_line_break_remover; [apply tr_sim; exact H | exact Hj]. Qed.

Theorem shape_seam_hull_of d1 d2 j : same_shape d1 d2 -> outer d1 j ->
  a_seam_hull_of (flat d2) (tr d1 d2 j) =
    match a_seam_hull_of (flat d1) j with
    | Ok (a, b) => Ok (tr d1 d2 a, tr d1 d2 b)
    | Panic => Panic
    end /\
  (forall a b, a_seam_hull_of (flat d1) j = Ok (a, b) -> outer d1 a /\ outer d1 b).
Proof. intros H Hj. apply sim_shape_fmt, sim_seam_hull_of; [apply tr_sim; exact H | exact Hj]. Qed.

Theorem shape_format_block d1 d2 j : same_shape d1 d2 -> outer d1 j ->
  a_format_block (flat d2) (tr d1 d2 j) =
    match a_format_block (flat d1) j with
    | Ok (a, b) => Ok (tr d1 d2 a, tr d1 d2 b)
    | Panic => Panic
    end /\
  (forall a b, a_format_block (flat d1) j = Ok (a, b) -> outer d1 a /\ outer d1 b).
Proof. intros H Hj. apply sim_shape_fmt, sim_format_block; [apply tr_sim; exact H | exact Hj]. Qed.

(** ** 3. The formatter stage without pairs *)

(** The range-level functions are handled by variants restricted to the outer positions
    ([merge_overlapped_on]; [merge_ranges] with no new ranges is the identity), not by a
    monotone extension of [tr]: none exists when a tag of [d1] is longer than its counterpart. *)
Theorem shape_format_ranges d1 d2 arpos : same_shape d1 d2 ->
  (forall p, In p arpos -> outer d1 (fst p)) -> no_pairs arpos ->
  a_format_ranges (flat d2) (map (fun p => (tr d1 d2 (fst p), snd p)) arpos) =
    match a_format_ranges (flat d1) arpos with
    | Ok aR => Ok (map (map_range (tr d1 d2)) aR)
    | Panic => Panic
    end /\
  (forall aR, a_format_ranges (flat d1) arpos = Ok aR ->
              forall r, In r aR -> outer d1 (fst r) /\ outer d1 (snd r)).
Proof.
  intros H Hpos Hnp.
  apply (sim_format_ranges (flat d1) (flat d2) (tr d1 d2) (outer d1) arpos (tr_sim d1 d2 H) Hpos Hnp).
Qed.

(* ------------------------------------------------------------------------- *)
(** * Part D: deleting ranges with outer end points *)

(** Membership in ranges with outer end points, at an outer position. *)
Lemma in_rangesb_tr d1 d2 R j : same_shape d1 d2 -> ranges_on (outer d1) R -> outer d1 j ->
  in_rangesb (map (map_range (tr d1 d2)) R) (tr d1 d2 j) = in_rangesb R j.
Proof.
  intros H HR Hj. pose proof (tr_sim d1 d2 H) as Sm.
  induction R as [|r R IH]; [reflexivity|].
  cbn [map]. rewrite !in_rangesb_cons.
  rewrite IH by (intros r' Hin; apply HR; right; exact Hin).
  destruct (HR r (or_introl eq_refl)) as [Ha Hb].
  unfold in_rangeb. rewrite fst_map_range, snd_map_range.
  rewrite (sim_leb _ _ _ _ Sm (fst r) j Ha Hj), (sim_ltb _ _ _ _ Sm j (snd r) Hj Hb). reflexivity.
Qed.

(** Ranges with outer end points contain every tag wholly or not at all. *)
Lemma ranges_on_respecting d R : ranges_on (outer d) R -> item_respecting (in_rangesb R) 0 d.
Proof.
  intros HR i b N j Hj. cbn [Nat.add] in *.
  induction R as [|r R IH]; [reflexivity|].
  rewrite !in_rangesb_cons. rewrite IH by (intros r' Hin; apply HR; right; exact Hin).
  f_equal. destruct (HR r (or_introl eq_refl)) as [Ha Hb]. unfold outer in Ha, Hb.
  unfold in_rangeb.
  assert (forall a, outerb d a = true -> a <= fstart d i \/ fstart d (S i) <= a) as K.
  { intros a Ha'. destruct (Nat.le_gt_cases a (fstart d i)) as [L|L]; [left; exact L|].
    destruct (Nat.le_gt_cases (fstart d (S i)) a) as [L'|L']; [right; exact L'|].
    rewrite (outer_not_in_tag d i b a N) in Ha' by lia. discriminate Ha'. }
  destruct (K _ Ha) as [K1|K1], (K _ Hb) as [K2|K2];
    destruct (Nat.leb_spec (fst r) j), (Nat.leb_spec (fst r) (fstart d i)),
             (Nat.ltb_spec j (snd r)), (Nat.ltb_spec (fstart d i) (snd r)); try reflexivity; lia.
Qed.

Lemma kept_from_ext : forall t b1 b2 del1 del2,
  (forall k, k < length t -> del1 (b1 + k) = del2 (b2 + k)) ->
  kept_from b1 del1 t = kept_from b2 del2 t.
Proof.
  induction t as [|c t IH]; intros b1 b2 del1 del2 H; [reflexivity|].
  cbn [kept_from]. pose proof (H 0 ltac:(cbn [length]; lia)) as H0. rewrite !Nat.add_0_r in H0.
  rewrite H0, (IH (S b1) (S b2) del1 del2).
  - reflexivity.
  - intros k Hk. replace (S b1 + k) with (b1 + S k) by lia. replace (S b2 + k) with (b2 + S k) by lia.
    apply H. cbn [length]. lia.
Qed.

(** Two masks that agree at corresponding outer positions produce documents of the same shape,
    with the tag bodies of [d1], resp. [d2], at the same places ([P] is preserved). *)
Lemma doc_mask_shape P d1 d2 : shape_rel P d1 d2 -> forall del1 del2 base1 base2,
  (forall j, outer d1 j -> j < length (flat d1) -> del1 (base1 + j) = del2 (base2 + tr d1 d2 j)) ->
  shape_rel P (doc_mask del1 base1 d1) (doc_mask del2 base2 d2).
Proof.
  unfold outer. revert d1 d2.
  apply (shape_rel_ind' P (fun d1 d2 => forall del1 del2 base1 base2,
    (forall j, outerb d1 j = true -> j < length (flat d1) -> del1 (base1 + j) = del2 (base2 + tr d1 d2 j)) ->
    shape_rel P (doc_mask del1 base1 d1) (doc_mask del2 base2 d2))).
  - intros. constructor.
  - intros t r1 r2 _ IH del1 del2 base1 base2 H. cbn [doc_mask]. constructor.
    + apply kept_from_ext. intros k Hk.
      rewrite (H k (outer_txt_lt t r1 k Hk)) by (rewrite len_flat_txt; lia).
      rewrite (tr_txt_lt t r1 _ r2 k Hk). reflexivity.
    + apply IH. intros j Hj Hl. rewrite <- !Nat.add_assoc, <- (tr_txt_ge t r1 (Txt t) r2 j). apply H.
      * rewrite outer_txt_ge. exact Hj.
      * rewrite len_flat_txt. lia.
  - intros b1 b2 r1 r2 HP _ IH del1 del2 base1 base2 H. cbn [doc_mask].
    pose proof (H 0 (outer_tag_0 b1 r1) ltac:(rewrite len_flat_tag; lia)) as H0.
    rewrite tr_0, !Nat.add_0_r in H0. rewrite H0.
    assert (shape_rel P (doc_mask del1 (base1 + (length b1 + 2)) r1)
                        (doc_mask del2 (base2 + (length b2 + 2)) r2)) as K.
    { apply IH. intros j Hj Hl.
      replace (base1 + (length b1 + 2) + j) with (base1 + (length b1 + 2 + j)) by lia.
      replace (base2 + (length b2 + 2) + tr r1 r2 j) with (base2 + (length b2 + 2 + tr r1 r2 j)) by lia.
      rewrite <- (tr_tag_ge b1 b2 r1 r2 j). apply H.
      - rewrite outer_tag_ge. exact Hj.
      - rewrite len_flat_tag. lia. }
    destruct (del2 base2); [exact K | constructor; [exact HP | exact K]].
Qed.

(** 4. Deleting ranges [R] with outer end points from [flat d1], and the translated ranges from
    [flat d2]: both results are flat documents ([doc_mask]), of the same shape, with the tag
    bodies of [d1], resp. [d2], at the same places (any relation [P] between the bodies at the
    same places is preserved). *)
Theorem sdelete_shape P d1 d2 R : shape_rel P d1 d2 -> ranges_on (outer d1) R ->
  sdelete R (flat d1) = flat (doc_mask (in_rangesb R) 0 d1) /\
  sdelete (map (map_range (tr d1 d2)) R) (flat d2) =
    flat (doc_mask (in_rangesb (map (map_range (tr d1 d2)) R)) 0 d2) /\
  shape_rel P (doc_mask (in_rangesb R) 0 d1)
              (doc_mask (in_rangesb (map (map_range (tr d1 d2)) R)) 0 d2).
Proof.
  intros HP HR. pose proof (shape_rel_same P d1 d2 HP) as H.
  assert (ranges_on (outer d2) (map (map_range (tr d1 d2)) R)) as HR'.
  { intros r' Hin. apply in_map_iff in Hin. destruct Hin as (r & <- & Hin).
    destruct (HR r Hin) as [Ha Hb]. split; [rewrite fst_map_range | rewrite snd_map_range];
      apply (tr_outer d1 d2 H); assumption. }
  split; [|split].
  - unfold sdelete. apply doc_mask_flat. apply ranges_on_respecting. exact HR.
  - unfold sdelete. apply doc_mask_flat. apply ranges_on_respecting. exact HR'.
  - apply (doc_mask_shape P d1 d2 HP). intros j Hj _. cbn [Nat.add].
    symmetry. apply in_rangesb_tr; assumption.
Qed.

Corollary sdelete_same_shape d1 d2 R : same_shape d1 d2 -> ranges_on (outer d1) R ->
  same_shape (doc_mask (in_rangesb R) 0 d1)
             (doc_mask (in_rangesb (map (map_range (tr d1 d2)) R)) 0 d2).
Proof. intros H HR. apply (sdelete_shape (fun _ _ => True) d1 d2 R H HR). Qed.

(** When the ranges contain text symbols only (no first symbol of a tag; this is what
    [Proofs.Idempotent.kept_tag_untouched] provides for the whitespace ranges), all tags
    stay. *)
Lemma doc_mask_keeps_tags : forall d del base,
  (forall i b, nth_error d i = Some (Tag b) -> del (base + fstart d i) = false) ->
  tags_of (doc_mask del base d) = tags_of d /\ length (doc_mask del base d) = length d.
Proof.
  induction d as [|[t|b] d IH]; intros del base H; [split; reflexivity | |].
  - cbn [doc_mask]. destruct (IH del (base + length t)) as [E1 E2].
    { intros i b N. specialize (H (S i) b N). rewrite fstart_txt, Nat.add_assoc in H. exact H. }
    unfold tags_of in *. cbn [flat_map tag_body app length]. split; congruence.
  - cbn [doc_mask]. pose proof (H 0 b eq_refl) as H0. rewrite fstart_0, Nat.add_0_r in H0. rewrite H0.
    destruct (IH del (base + (length b + 2))) as [E1 E2].
    { intros i c N. specialize (H (S i) c N). rewrite fstart_tag, Nat.add_assoc in H. exact H. }
    unfold tags_of in *. cbn [flat_map tag_body app length]. split; congruence.
Qed.

Theorem sdelete_text_only d1 d2 R : same_shape d1 d2 -> ranges_on (outer d1) R ->
  (forall i b, nth_error d1 i = Some (Tag b) -> in_rangesb R (fstart d1 i) = false) ->
  tags_of (doc_mask (in_rangesb R) 0 d1) = tags_of d1 /\
  tags_of (doc_mask (in_rangesb (map (map_range (tr d1 d2)) R)) 0 d2) = tags_of d2.
Proof.
  intros H HR Hk. split.
  - apply doc_mask_keeps_tags. intros i b N. cbn [Nat.add]. apply (Hk i b N).
  - apply doc_mask_keeps_tags. intros i b N. cbn [Nat.add].
    assert (i < length d1) as Hi.
    { rewrite (same_shape_length d1 d2 H). apply nth_error_Some. congruence. }
    destruct (nth_error d1 i) as [[t|b1]|] eqn:N1.
    + exfalso. clear Hk HR. revert i N N1 Hi. revert d1 d2 H. shape_ind.
      * intros i N. destruct i; discriminate N.
      * intros t' r1 r2 _ IH i N N1 Hi. destruct i as [|i]; [discriminate N|].
        cbn [nth_error length] in *. apply (IH i N N1). lia.
      * intros c1 c2 r1 r2 _ IH i N N1 Hi. destruct i as [|i]; [discriminate N1|].
        cbn [nth_error length] in *. apply (IH i N N1). lia.
    + destruct (tr_fstart d1 d2 H i ltac:(lia)) as [HO HT]. rewrite <- HT.
      rewrite (in_rangesb_tr d1 d2 R _ H HR HO). apply (Hk i b1 N1).
    + apply nth_error_None in N1. lia.
Qed.

(* ------------------------------------------------------------------------- *)
(** * Part E: an instance *)

(** ["a\n" <tl to='x'> "\n  \n\n  b\n  " </tl> "\nc"] and the same with [time-limited] for [tl]:
    the tags have bodies of different lengths (9 and 19, 3 and 13 bytes).  Position 16 of the
    first document (26 of the second) is a seam in the text after the first tag, where a block
    has been removed: between ["\n  "] and ["\n\n  b"]. *)
Definition sb_tl : str := [116;108;32;116;111;61;39;120;39]%N.
Definition sb_time_limited : str :=
  [116;105;109;101;45;108;105;109;105;116;101;100;32;116;111;61;39;120;39]%N.
Definition sb_end_tl : str := [47;116;108]%N.
Definition sb_end_time_limited : str := [47;116;105;109;101;45;108;105;109;105;116;101;100]%N.
Definition sb_doc (a b : str) (t : str) : list item :=
  [Txt [97;10]%N; Tag a; Txt t; Tag b; Txt [10;99]%N].
Definition sb_text : str := [10;32;32;10;10;32;32;98;10;32;32]%N.
Definition sb_text' : str := [10;98;10;32;32]%N.
Definition sb_d1 : list item := sb_doc sb_tl sb_end_tl sb_text.
Definition sb_d2 : list item := sb_doc sb_time_limited sb_end_time_limited sb_text.

Example sb_example :
  same_shape sb_d1 sb_d2 /\
  length (flat sb_d1) = 31 /\ length (flat sb_d2) = 51 /\
  (* the outer positions of the first document and their translations *)
  filter (outerb sb_d1) (seq 0 33) = [0; 1; 2] ++ seq 13 12 ++ [29; 30; 31] /\
  map (tr sb_d1 sb_d2) (filter (outerb sb_d1) (seq 0 33)) = [0; 1; 2] ++ seq 23 12 ++ [49; 50; 51] /\
  (* the seam *)
  outer sb_d1 16 /\ tr sb_d1 sb_d2 16 = 26 /\
  a_format_block (flat sb_d1) 16 = Ok (14, 17) /\
  a_format_block (flat sb_d2) 26 = Ok (24, 27) /\
  tr sb_d1 sb_d2 14 = 24 /\ tr sb_d1 sb_d2 17 = 27 /\
  (* the formatter stage for two seams, and the deletion *)
  a_format_ranges (flat sb_d1) [(16, None); (20, None)] = Ok [(14, 20)] /\
  a_format_ranges (flat sb_d2) [(26, None); (30, None)] = Ok [(24, 30)] /\
  map (map_range (tr sb_d1 sb_d2)) [(14, 20)] = [(24, 30)] /\
  sdelete [(14, 20)] (flat sb_d1) = flat (sb_doc sb_tl sb_end_tl sb_text') /\
  sdelete [(24, 30)] (flat sb_d2) = flat (sb_doc sb_time_limited sb_end_time_limited sb_text') /\
  (* in the other direction the translation cannot be injective inside the longer tag *)
  tr sb_d2 sb_d1 12 = 12 /\ tr sb_d2 sb_d1 13 = 12.
Proof.
  split; [repeat constructor|].
  repeat (split; [vm_compute; reflexivity|]). vm_compute; reflexivity.
Qed.

Print Assumptions sim_next_lb.
Print Assumptions sim_prev_lb.
Print Assumptions sim_indent_loop.
Print Assumptions sim_residue.
Print Assumptions sim_all_blank_before.
Print Assumptions sim_two_next.
Print Assumptions sim_two_prev.
Print Assumptions sim_seam_hull_of.
Print Assumptions sim_format_block.
Print Assumptions merge_overlapped_on.
Print Assumptions sim_format_ranges.
Print Assumptions outer_le.
Print Assumptions outer_end.
Print Assumptions tr_end.
Print Assumptions tr_nth.
Print Assumptions tr_fwd.
Print Assumptions tr_pred.
Print Assumptions tr_bwd.
Print Assumptions tr_mono.
Print Assumptions tr_outer.
Print Assumptions tr_inv.
Print Assumptions tr_fstart.
Print Assumptions tr_in_txt.
Print Assumptions outer_spec.
Print Assumptions tr_tag_start.
Print Assumptions tr_after_tag.
Print Assumptions tr_sim.
Print Assumptions shape_next_lb.
Print Assumptions shape_prev_lb.
Print Assumptions shape_indent_loop.
Print Assumptions shape_two_next.
Print Assumptions shape_two_prev.
Print Assumptions shape_residue.
Print Assumptions shape_boundary.
Print Assumptions shape_is_nl.
Print Assumptions shape_len_leb.
Print Assumptions shape_all_blank_before.
Print Assumptions shape_indent_remover.
Print Assumptions shape_empty_line_remover.
Print Assumptions shape_prev_line_break_remover.
Print Assumptions shape_next_line_break_remover.
Print Assumptions shape_seam_hull_of.
Print Assumptions shape_format_block.
Print Assumptions shape_format_ranges.
Print Assumptions sdelete_shape.
Print Assumptions sdelete_same_shape.
Print Assumptions sdelete_text_only.
Print Assumptions sb_example.
