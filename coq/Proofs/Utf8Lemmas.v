(** Fuel-free characterisation of [wf_utf8] and its consequences for character boundaries. *)
From Coq Require Import List NArith Arith Bool Lia.
Import ListNotations.
From Chiri Require Import Base.Bytes Base.Res Proofs.BytesLemmas.

(** * Byte classes *)

Lemma ascii_not_cont b : (b <? 128)%N = true -> is_cont b = false.
Proof.
  intros H. unfold is_cont. apply N.ltb_lt in H.
  destruct (N.leb_spec 128 b) as [H1|H1]; [lia | reflexivity].
Qed.

Lemma lead_not_cont b : is_lead b = true -> is_cont b = false.
Proof.
  unfold is_lead, is_cont. intros H.
  destruct (N.leb_spec 128 b) as [H1|H1]; [|reflexivity].
  destruct (N.ltb_spec b 192) as [H2|H2]; [|reflexivity].
  destruct (N.ltb_spec b 128) as [H3|H3]; [lia|].
  destruct (N.leb_spec 192 b) as [H4|H4]; [lia|]. discriminate H.
Qed.

Lemma ascii_is_lead b : (b <? 128)%N = true -> is_lead b = true.
Proof. intros H. unfold is_lead. rewrite H. reflexivity. Qed.

Lemma ascii_char_len b : (b <? 128)%N = true -> char_len b = 1.
Proof. intros H. unfold char_len. rewrite H. reflexivity. Qed.

(** * Fuel-free well-formedness *)

Inductive WF : str -> Prop :=
| WF_nil : WF []
| WF_char b tl rest :
    is_lead b = true -> length tl = char_len b - 1 -> forallb is_cont tl = true ->
    WF rest -> WF (b :: tl ++ rest).

Lemma all_cont_spec n : forall s rest,
  all_cont n s = Some rest <->
  exists tl, s = tl ++ rest /\ length tl = n /\ forallb is_cont tl = true.
Proof.
  induction n as [|n IH]; intros s rest; cbn [all_cont].
  - split.
    + intros H. inversion H; subst. exists []. auto.
    + intros [tl [Hs [Hl _]]]. destruct tl; [|discriminate]. subst. reflexivity.
  - destruct s as [|b s].
    + split; [discriminate|]. intros [tl [Hs [Hl _]]]. destruct tl; discriminate.
    + destruct (is_cont b) eqn:Eb.
      * rewrite IH. split.
        -- intros [tl [Hs [Hl Hc]]]. exists (b :: tl). subst. cbn [forallb app length].
           rewrite Eb, Hc. auto.
        -- intros [tl [Hs [Hl Hc]]]. destruct tl as [|b' tl]; [discriminate|].
           cbn [app] in Hs. inversion Hs; subst. cbn [forallb] in Hc.
           apply andb_true_iff in Hc. destruct Hc as [_ Hc].
           exists tl. cbn [length] in Hl. auto.
      * split; [discriminate|]. intros [tl [Hs [Hl Hc]]].
        destruct tl as [|b' tl]; [discriminate|]. cbn [app] in Hs. inversion Hs; subst.
        cbn [forallb] in Hc. rewrite Eb in Hc. discriminate.
Qed.

Lemma wf_fuel_WF : forall f s, length s <= f -> wf_utf8_fuel f s = true -> WF s.
Proof.
  induction f as [|f IH]; intros s Hlen H.
  - destruct s; [constructor | cbn [length] in Hlen; lia].
  - destruct s as [|b s]; [constructor|]. cbn [wf_utf8_fuel] in H.
    apply andb_true_iff in H. destruct H as [Hlead H].
    destruct (all_cont (char_len b - 1) s) as [rest|] eqn:E; [|discriminate].
    apply all_cont_spec in E. destruct E as [tl [Hs [Hl Hc]]]. subst s.
    constructor; auto. apply IH; [|exact H].
    cbn [length] in Hlen. rewrite app_length in Hlen. lia.
Qed.

Lemma WF_wf_fuel : forall s, WF s -> forall f, length s <= f -> wf_utf8_fuel f s = true.
Proof.
  induction 1 as [|b tl rest Hlead Hl Hc Hrest IH]; intros f Hlen.
  - destruct f; reflexivity.
  - destruct f as [|f]; [cbn [length] in Hlen; lia|]. cbn [wf_utf8_fuel].
    rewrite Hlead. cbn [andb].
    assert (E : all_cont (char_len b - 1) (tl ++ rest) = Some rest).
    { apply all_cont_spec. exists tl. auto. }
    rewrite E. apply IH. cbn [length] in Hlen. rewrite app_length in Hlen. lia.
Qed.

Lemma wf_utf8_WF s : wf_utf8 s = true <-> WF s.
Proof.
  unfold wf_utf8. split.
  - apply wf_fuel_WF. lia.
  - intros H. apply WF_wf_fuel; [exact H | lia].
Qed.

(** The unfolding characterisation of the hint. *)
Lemma wf_utf8_cons b s :
  wf_utf8 (b :: s) = true <->
  is_lead b = true /\
  exists tl rest, s = tl ++ rest /\ length tl = char_len b - 1 /\ forallb is_cont tl = true /\
                  wf_utf8 rest = true.
Proof.
  rewrite wf_utf8_WF. split.
  - intros H. inversion H as [|b' tl rest Hlead Hl Hc Hrest]; subst.
    split; [exact Hlead|]. exists tl, rest. rewrite wf_utf8_WF. auto.
  - intros [Hlead [tl [rest [-> [Hl [Hc Hrest]]]]]]. apply wf_utf8_WF in Hrest.
    constructor; auto.
Qed.

(** * Starts of strings *)

(** The string is empty or starts with a non-continuation byte. *)
Definition bstart (s : str) : bool :=
  match s with [] => true | b :: _ => negb (is_cont b) end.

Lemma WF_bstart s : WF s -> bstart s = true.
Proof.
  intros H. destruct H as [|b tl rest Hlead _ _ _]; [reflexivity|].
  cbn [bstart]. rewrite (lead_not_cont _ Hlead). reflexivity.
Qed.

Lemma bstart_app_l a b : a <> [] -> bstart (a ++ b) = bstart a.
Proof. destruct a; [congruence | reflexivity]. Qed.

Lemma forallb_cont_app_head tl rest a b :
  forallb is_cont tl = true -> tl ++ rest = a ++ b -> length a < length tl ->
  bstart b = true -> False.
Proof.
  revert a. induction tl as [|c tl IH]; intros a Hc He Hl Hb.
  - cbn [length] in Hl. lia.
  - cbn [forallb] in Hc. apply andb_true_iff in Hc. destruct Hc as [Hc1 Hc2].
    destruct a as [|x a].
    + cbn [app] in He. subst b. cbn [bstart] in Hb. rewrite Hc1 in Hb. discriminate.
    + cbn [app] in He. inversion He; subst. apply (IH a); auto. cbn [length] in Hl. lia.
Qed.

Lemma app_eq_app_long {A} (tl rest a b : list A) :
  tl ++ rest = a ++ b -> length tl <= length a -> exists a', a = tl ++ a' /\ rest = a' ++ b.
Proof.
  revert a. induction tl as [|c tl IH]; intros a He Hl.
  - exists a. auto.
  - destruct a as [|x a]; [cbn [length] in Hl; lia|].
    cbn [app] in He. inversion He; subst. destruct (IH a) as [a' [Ha Hr]]; auto.
    { cbn [length] in Hl. lia. }
    exists a'. subst. auto.
Qed.

(** Splitting a well-formed string at a place where the right part does not start with a
    continuation byte gives two well-formed strings. *)
Lemma WF_split : forall s, WF s -> forall a b, s = a ++ b -> bstart b = true -> WF a /\ WF b.
Proof.
  induction 1 as [|c tl rest Hlead Hl Hc Hrest IH]; intros a b He Hb.
  - symmetry in He. apply app_eq_nil in He. destruct He; subst. split; constructor.
  - destruct a as [|x a].
    + cbn [app] in He. subst b. split; constructor; auto.
    + cbn [app] in He. inversion He as [[Hx He']]. subst x.
      destruct (le_lt_dec (length tl) (length a)) as [Hle|Hlt].
      * destruct (app_eq_app_long _ _ _ _ He' Hle) as [a' [Ha Hr]]. subst a.
        destruct (IH a' b Hr Hb) as [Wa Wb]. split; [|exact Wb]. constructor; auto.
      * exfalso. eapply forallb_cont_app_head; eauto.
Qed.

Lemma WF_app_inv_r a b : WF (a ++ b) -> bstart b = true -> WF b.
Proof. intros H Hb. exact (proj2 (WF_split _ H a b eq_refl Hb)). Qed.

Lemma WF_app_inv_l a b : WF (a ++ b) -> bstart b = true -> WF a.
Proof. intros H Hb. exact (proj1 (WF_split _ H a b eq_refl Hb)). Qed.

Lemma WF_cons_inv b s :
  WF (b :: s) ->
  is_lead b = true /\
  exists tl rest, s = tl ++ rest /\ length tl = char_len b - 1 /\ forallb is_cont tl = true /\ WF rest.
Proof.
  intros H. inversion H as [|b' tl rest Hlead Hl Hc Hrest]; subst.
  split; [exact Hlead|]. exists tl, rest. auto.
Qed.

Lemma app_eq_len_inv {A} : forall (a a' b b' : list A),
  a ++ b = a' ++ b' -> length a = length a' -> a = a' /\ b = b'.
Proof.
  induction a as [|x a IH]; intros [|y a'] b b' He Hl; try discriminate.
  - auto.
  - cbn [app] in He. inversion He; subst. destruct (IH a' b b') as [E1 E2]; auto.
    subst. auto.
Qed.

(** Removing a well-formed prefix. *)
Lemma WF_strip_prefix : forall a, WF a -> forall b, WF (a ++ b) -> WF b.
Proof.
  induction 1 as [|c tl rest Hlead Hl Hc Hrest IH]; intros b H.
  - exact H.
  - cbn [app] in H. rewrite <- app_assoc in H.
    apply WF_cons_inv in H. destruct H as [_ [tl' [rest' [He [Hl' [Hc' Hrest']]]]]].
    apply app_eq_len_inv in He; [|lia]. destruct He as [_ He]. subst rest'.
    apply IH. exact Hrest'.
Qed.

Lemma WF_app a b : WF a -> WF b -> WF (a ++ b).
Proof.
  induction 1 as [|c tl rest Hlead Hl Hc Hrest IH]; intros Hb; [exact Hb|].
  cbn [app]. rewrite <- app_assoc. constructor; auto.
Qed.

(** An ASCII byte is a whole character. *)
Lemma WF_ascii_cons c s : (c <? 128)%N = true -> WF (c :: s) -> WF s.
Proof.
  intros Hc H. inversion H as [|c' tl rest Hlead Hl Hcs Hrest He]; subst.
  rewrite (ascii_char_len _ Hc) in Hl. destruct tl; [|discriminate]. exact Hrest.
Qed.

Lemma WF_after_ascii x c y : (c <? 128)%N = true -> WF (x ++ c :: y) -> WF y.
Proof.
  intros Hc H. apply WF_app_inv_r in H.
  - eapply WF_ascii_cons; eauto.
  - cbn [bstart]. rewrite (ascii_not_cont _ Hc). reflexivity.
Qed.

Lemma WF_ascii_l c s : (c <? 128)%N = true -> WF s -> WF (c :: s).
Proof.
  intros Hc H. change (WF (c :: [] ++ s)). constructor; auto.
  - apply ascii_is_lead; exact Hc.
  - rewrite (ascii_char_len _ Hc). reflexivity.
Qed.

(** * Boundaries *)

Lemma is_boundary_app before s : bstart s = true -> is_boundary (before ++ s) (length before) = true.
Proof.
  intros Hb. unfold is_boundary. destruct (length before) eqn:El; [reflexivity|]. rewrite <- El.
  rewrite nth_error_app2 by lia. rewrite Nat.sub_diag.
  destruct s as [|b s]; cbn [nth_error].
  - rewrite app_nil_r. apply Nat.eqb_refl.
  - exact Hb.
Qed.

Lemma is_boundary_nth s i c : nth_error s i = Some c -> is_cont c = false -> is_boundary s i = true.
Proof.
  intros Hn Hc. unfold is_boundary. destruct i; [reflexivity|]. rewrite Hn, Hc. reflexivity.
Qed.

Lemma is_boundary_length s : is_boundary s (length s) = true.
Proof.
  unfold is_boundary. destruct (length s) eqn:E; [reflexivity|]. rewrite <- E.
  assert (H : nth_error s (length s) = None) by (apply nth_error_None; lia).
  rewrite H. apply Nat.eqb_refl.
Qed.

Lemma nth_error_split_at {A} (s : list A) i c :
  nth_error s i = Some c -> exists x y, s = x ++ c :: y /\ length x = i.
Proof.
  intros H. apply nth_error_split in H. destruct H as [x [y [H1 H2]]]. exists x, y. auto.
Qed.

(** After an ASCII byte of a well-formed string comes a boundary. *)
Lemma is_boundary_after_ascii s i c :
  WF s -> nth_error s i = Some c -> (c <? 128)%N = true ->
  i + 1 <= length s /\ is_boundary s (i + 1) = true.
Proof.
  intros W Hn Hc. destruct (nth_error_split_at _ _ _ Hn) as [x [y [Hs Hl]]]. subst s.
  split.
  - rewrite app_length. cbn [length]. lia.
  - apply WF_after_ascii in W; [|exact Hc]. apply WF_bstart in W.
    replace (x ++ c :: y) with ((x ++ [c]) ++ y) by (rewrite <- app_assoc; reflexivity).
    replace (i + 1) with (length (x ++ [c])) by (rewrite app_length; cbn [length]; lia).
    apply is_boundary_app. exact W.
Qed.

(** * [char_indices] *)

Lemma char_indices_from_app : forall a b k,
  char_indices_from k (a ++ b) = char_indices_from k a ++ char_indices_from (k + length a) b.
Proof.
  induction a as [|c a IH]; intros b k.
  - cbn [app char_indices_from length]. rewrite Nat.add_0_r. reflexivity.
  - cbn [app char_indices_from length]. rewrite IH.
    replace (S k + length a) with (k + S (length a)) by lia.
    destruct (is_cont c); reflexivity.
Qed.

Lemma char_indices_from_In : forall s k p c,
  In (p, c) (char_indices_from k s) ->
  k <= p /\ nth_error s (p - k) = Some c /\ is_cont c = false.
Proof.
  induction s as [|b s IH]; intros k p c H.
  - destruct H.
  - cbn [char_indices_from] in H. destruct (is_cont b) eqn:Eb.
    + apply IH in H. destruct H as [H1 [H2 H3]]. split; [lia|]. split; [|exact H3].
      replace (p - k) with (S (p - S k)) by lia. exact H2.
    + destruct H as [H|H].
      * inversion H; subst. split; [lia|]. rewrite Nat.sub_diag. auto.
      * apply IH in H. destruct H as [H1 [H2 H3]]. split; [lia|]. split; [|exact H3].
        replace (p - k) with (S (p - S k)) by lia. exact H2.
Qed.

Lemma char_indices_In s p c :
  In (p, c) (char_indices s) -> nth_error s p = Some c /\ is_cont c = false.
Proof.
  intros H. apply char_indices_from_In in H. rewrite Nat.sub_0_r in H. tauto.
Qed.

(** Positions delivered by [char_indices] are strictly increasing. *)
Lemma char_indices_from_lt : forall s k l1 p c l2,
  char_indices_from k s = l1 ++ (p, c) :: l2 ->
  forall q d, In (q, d) l2 -> p < q.
Proof.
  induction s as [|b s IH]; intros k l1 p c l2 He q d Hin.
  - destruct l1; discriminate.
  - cbn [char_indices_from] in He. destruct (is_cont b).
    + eapply IH; eauto.
    + destruct l1 as [|x l1].
      * cbn [app] in He. inversion He; subst.
        apply char_indices_from_In in Hin. lia.
      * cbn [app] in He. inversion He; subst. eapply IH; eauto.
Qed.

(** Every position listed by [char_indices] is a character boundary inside the string. *)
Lemma char_indices_boundary s p c :
  In (p, c) (char_indices s) -> p < length s /\ is_boundary s p = true.
Proof.
  intros H. apply char_indices_In in H. destruct H as [Hn Hc]. split.
  - apply nth_error_Some. congruence.
  - eapply is_boundary_nth; eauto.
Qed.

(** The seam of two well-formed strings is a boundary. *)
Lemma wf_utf8_app_boundary s1 s2 :
  wf_utf8 s2 = true -> is_boundary (s1 ++ s2) (length s1) = true.
Proof. intros H. apply is_boundary_app. apply WF_bstart. apply wf_utf8_WF. exact H. Qed.
