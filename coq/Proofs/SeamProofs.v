(** The exact range the four seam formatters delete around the line break left behind by a
    removed block of lines, by case analysis on whether the neighbouring lines are blank. *)
From Coq Require Import List NArith Arith Bool Lia PeanoNat.
Import ListNotations.
From Chiri Require Import Base.Bytes Base.Res Model.Finders Model.Format Spec.Ranges Spec.Lines
  Proofs.ResLemmas Proofs.BytesLemmas Proofs.Utf8 Proofs.FormatterProofs.

(* ------------------------------------------------------------------------- *)
(** * Blank / non-blank neighbouring lines *)

(* the line after index p (which holds a line break) is blank and ends with a line break at q' *)
Definition next_line_blank (s : str) (p q' : nat) : Prop :=
  p < q' /\ nth_error s q' = Some NL /\
  forall i b, p < i -> i < q' -> nth_error s i = Some b -> is_blank b = true.
(* there is no blank line (terminated by a line break) right after p: a non-blank byte comes
   before the next line break, or the text ends first *)
Definition next_line_not_blank (s : str) (p : nat) : Prop := forall q', ~ next_line_blank s p q'.
(* the line before the line starting at ls (ls >= 1, s[ls-1] = NL) is blank and is preceded by a
   line break at q *)
Definition prev_line_blank (s : str) (ls q : nat) : Prop :=
  S q < ls /\ nth_error s q = Some NL /\
  forall i b, q < i -> S i < ls -> nth_error s i = Some b -> is_blank b = true.
Definition prev_line_not_blank (s : str) (ls : nat) : Prop := forall q, ~ prev_line_blank s ls q.

(* ------------------------------------------------------------------------- *)
(** * Examples (checked by computation) *)

Definition X : byte := 120%N.
Definition Y : byte := 121%N.

(* "x\n  \ny": neither neighbour blank; ls = 2, p = 4 *)
Example ex_neither : format_block [X; NL; SP; SP; NL; Y] 4 = Ok (2, 5).
Proof. vm_compute. reflexivity. Qed.
(* "x\n\n  \ny": the previous line is (empty, hence) blank; ls = 3, p = 5, q = 1 *)
Example ex_prev : format_block [X; NL; NL; SP; SP; NL; Y] 5 = Ok (2, 5).
Proof. vm_compute. reflexivity. Qed.
(* "x\n  \n \ny": the next line is blank; ls = 2, p = 4, q' = 6 *)
Example ex_next : format_block [X; NL; SP; SP; NL; SP; NL; Y] 4 = Ok (2, 6).
Proof. vm_compute. reflexivity. Qed.
(* "x\n\t\n  \n\ny": both blank; ls = 4, p = 6, q = 1, q' = 7 *)
Example ex_both : format_block [X; NL; TAB; NL; SP; SP; NL; NL; Y] 6 = Ok (2, 7).
Proof. vm_compute. reflexivity. Qed.
(* "  \ny": start of the file, p = 2: the indentation and the line break go (before the repair of
   known finding KF1 the indentation stayed: (2, 3)) *)
Example ex_file_start : format_block [SP; SP; NL; Y] 2 = Ok (0, 3).
Proof. vm_compute. reflexivity. Qed.
(* "x\n  \n  " : the text ends with blanks but no line break: the next line does not count as blank *)
Example ex_next_unterminated : format_block [X; NL; SP; SP; NL; SP; SP] 4 = Ok (2, 5).
Proof. vm_compute. reflexivity. Qed.
(* "  \n  \ny": the previous line is blank but starts the file (no line break before it): not blank
   in the sense of [prev_line_blank] *)
Example ex_prev_unpreceded : format_block [SP; SP; NL; SP; SP; NL; Y] 5 = Ok (3, 6).
Proof. vm_compute. reflexivity. Qed.

(* ------------------------------------------------------------------------- *)
(** * What the check function does on blanks and line breaks *)

Lemma blank_not_cont b : is_blank b = true -> is_cont b = false.
Proof.
  unfold is_blank. intros H. apply orb_true_iff in H.
  destruct H as [H|H]; apply beq_eq in H; subst b; reflexivity.
Qed.

Lemma noncont_boundary s i b : nth_error s i = Some b -> is_cont b = false -> is_boundary s i = true.
Proof.
  intros N C. unfold is_boundary. destruct i as [|i]; [reflexivity|]. rewrite N, C. reflexivity.
Qed.

Lemma blank_boundary s i b : nth_error s i = Some b -> is_blank b = true -> is_boundary s i = true.
Proof. intros N B. apply (noncont_boundary s i b N). apply blank_not_cont. exact B. Qed.

Lemma NL_boundary s i : nth_error s i = Some NL -> is_boundary s i = true.
Proof. intros N. apply (noncont_boundary s i NL N). reflexivity. Qed.

Lemma check_lb_blank s i b : nth_error s i = Some b -> is_blank b = true -> check_lb s i = CSkip.
Proof.
  intros N B. unfold check_lb. rewrite (blank_boundary s i b N B). cbn [negb]. rewrite N.
  unfold is_blank in B. rewrite B. reflexivity.
Qed.

Lemma check_lb_NL s i : nth_error s i = Some NL -> check_lb s i = CFound.
Proof.
  intros N. unfold check_lb. rewrite (NL_boundary s i N). cbn [negb]. rewrite N. reflexivity.
Qed.

Lemma nth_error_lt {A} (l : list A) i x : nth_error l i = Some x -> i < length l.
Proof. intros H. apply nth_error_Some. congruence. Qed.

Lemma nth_error_ex {A} (l : list A) i : i < length l -> exists x, nth_error l i = Some x.
Proof.
  intros H. destruct (nth_error l i) as [x|] eqn:N; [exists x; reflexivity|].
  apply nth_error_None in N. lia.
Qed.

(* ------------------------------------------------------------------------- *)
(** * The finders over a run of blanks *)

(** Backwards over blanks down to a line break at [q]. *)
Lemma find_prev_lb_blank_run s q pause : nth_error s q = Some NL ->
  forall cursor, q < cursor -> cursor <= length s ->
  (forall i b, q < i -> i < cursor -> nth_error s i = Some b -> is_blank b = true) ->
  find_prev_lb s cursor pause = Some q.
Proof.
  intros Nq. induction cursor as [|c IH]; intros H1 H2 Hbl; [lia|].
  cbn [find_prev_lb]. destruct (Nat.leb_spec (length s) c) as [L|L]; [lia|].
  destruct (Nat.eq_dec c q) as [E|NE].
  - subst c. rewrite (check_lb_NL s q Nq). reflexivity.
  - destruct (nth_error_ex s c L) as [b Nc].
    rewrite (check_lb_blank s c b Nc); [|apply (Hbl c b); [lia | lia | exact Nc]].
    apply IH; [lia | lia|]. intros i d Hi1 Hi2 Hn. apply (Hbl i d); [lia | lia | exact Hn].
Qed.

(** Backwards over blanks down to the start of the string. *)
Lemma find_prev_lb_blank_none s pause : forall cursor,
  (forall i b, i < cursor -> nth_error s i = Some b -> is_blank b = true) ->
  find_prev_lb s cursor pause = None.
Proof.
  induction cursor as [|c IH]; intros Hbl; [reflexivity|].
  cbn [find_prev_lb]. destruct (Nat.leb_spec (length s) c) as [L|L]; [reflexivity|].
  destruct (nth_error_ex s c L) as [b Nc].
  rewrite (check_lb_blank s c b Nc); [|apply (Hbl c b); [lia | exact Nc]].
  apply IH. intros i d Hi Hn. apply (Hbl i d); [lia | exact Hn].
Qed.

Lemma indent_loop_blank_run s q : nth_error s q = Some NL ->
  forall cursor, q < cursor -> cursor <= length s ->
  (forall i b, q < i -> i < cursor -> nth_error s i = Some b -> is_blank b = true) ->
  indent_loop s cursor = Some (S q).
Proof.
  intros Nq. induction cursor as [|c IH]; intros H1 H2 Hbl; [lia|].
  cbn [indent_loop].
  destruct (Nat.eq_dec c q) as [E|NE].
  - subst c. rewrite (NL_boundary s q Nq), Nq. reflexivity.
  - destruct (nth_error_ex s c) as [b Nc]; [lia|].
    assert (is_blank b = true) as B by (apply (Hbl c b); [lia | lia | exact Nc]).
    rewrite (blank_boundary s c b Nc B), Nc. unfold is_blank in B. rewrite B.
    apply IH; [lia | lia|]. intros i d Hi1 Hi2 Hn. apply (Hbl i d); [lia | lia | exact Hn].
Qed.

Lemma indent_loop_blank_none s : forall cursor,
  (forall i b, i < cursor -> nth_error s i = Some b -> is_blank b = true) ->
  indent_loop s cursor = None.
Proof.
  induction cursor as [|c IH]; intros Hbl; [reflexivity|].
  assert (indent_loop s c = None) as IH'
    by (apply IH; intros i d Hi Hn; apply (Hbl i d); [lia | exact Hn]).
  cbn [indent_loop]. destruct (is_boundary s c); [|exact IH'].
  destruct (nth_error s c) as [b|] eqn:Nc; [|reflexivity].
  assert (is_blank b = true) as B by (apply (Hbl c b); [lia | exact Nc]).
  unfold is_blank in B. rewrite B. exact IH'.
Qed.

(** Forwards over blanks up to a line break at [q']. *)
Lemma find_next_lb_loop_blank_run s q' pause : nth_error s q' = Some NL ->
  forall fuel cursor, cursor <= q' -> q' - cursor < fuel ->
  (forall i b, cursor <= i -> i < q' -> nth_error s i = Some b -> is_blank b = true) ->
  find_next_lb_loop fuel s cursor pause = Some q'.
Proof.
  intros Nq. pose proof (nth_error_lt s q' NL Nq) as Lq.
  induction fuel as [|f IH]; intros cursor H1 H2 Hbl; [lia|].
  cbn [find_next_lb_loop]. destruct (Nat.leb_spec (length s) cursor) as [L|L]; [lia|].
  destruct (Nat.eq_dec cursor q') as [E|NE].
  - subst cursor. rewrite (check_lb_NL s q' Nq). reflexivity.
  - destruct (nth_error_ex s cursor L) as [b Nc].
    rewrite (check_lb_blank s cursor b Nc); [|apply (Hbl cursor b); [lia | lia | exact Nc]].
    apply IH; [lia | lia|]. intros i d Hi1 Hi2 Hn. apply (Hbl i d); [lia | lia | exact Hn].
Qed.

Lemma find_next_lb_blank_run s pos q' pause : nth_error s q' = Some NL -> pos <= q' ->
  (forall i b, pos <= i -> i < q' -> nth_error s i = Some b -> is_blank b = true) ->
  find_next_lb s pos pause = Some q'.
Proof.
  intros Nq H1 Hbl. pose proof (nth_error_lt s q' NL Nq) as Lq. unfold find_next_lb.
  apply find_next_lb_loop_blank_run; [exact Nq | exact H1 | lia | exact Hbl].
Qed.

(* ------------------------------------------------------------------------- *)
(** * The guard of the empty-line remover: [residue_is_blank] *)

(** Backwards over blanks from [p] down to the start of the string or to a line break. *)
Lemma residue_is_blank_true : forall s ls p,
  ls <= p -> p <= length s ->
  (forall i b, ls <= i -> i < p -> nth_error s i = Some b -> is_blank b = true) ->
  (ls = 0 \/ nth_error s (ls - 1) = Some NL) ->
  residue_is_blank s p = true.
Proof.
  intros s ls. induction p as [|c IH]; intros H1 H2 Hbl Hls; [reflexivity|].
  cbn [residue_is_blank].
  destruct (Nat.eq_dec ls (S c)) as [E|NE].
  - destruct Hls as [Z|Nl]; [lia|].
    replace (ls - 1) with c in Nl by lia. rewrite Nl. reflexivity.
  - destruct (nth_error_ex s c) as [b Nc]; [lia|]. rewrite Nc.
    rewrite (Hbl c b); [|lia | lia | exact Nc].
    apply IH; [lia | lia | | exact Hls].
    intros i d Hi1 Hi2 Hn. apply (Hbl i d); [lia | lia | exact Hn].
Qed.

(** Backwards over blanks from [p] down to a byte that is neither a blank nor a line break. *)
Lemma residue_is_blank_false : forall s p i b,
  i < p -> nth_error s i = Some b -> is_blank b = false -> b <> NL ->
  (forall j c, i < j -> j < p -> nth_error s j = Some c -> is_blank c = true) ->
  residue_is_blank s p = false.
Proof.
  intros s p i b Hi Ni Bb Hne. apply beq_neq in Hne.
  induction p as [|c IH]; intros Hbl; [lia|].
  cbn [residue_is_blank].
  destruct (Nat.eq_dec i c) as [E|NE].
  - subst c. rewrite Ni, Bb. exact Hne.
  - destruct (nth_error s c) as [d|] eqn:Nc; [|reflexivity].
    rewrite (Hbl c d); [|lia | lia | exact Nc].
    apply IH; [lia|]. intros j e Hj1 Hj2 Hn. apply (Hbl j e); [lia | lia | exact Hn].
Qed.

(* ------------------------------------------------------------------------- *)
(** * two_prev / two_next at a seam *)

(** The hypotheses on the seam, bundled: [p] holds a line break, [ls >= 1] is the start of its
    line and the bytes between are blanks. *)
Definition seam (s : str) (ls p : nat) : Prop :=
  nth_error s p = Some NL /\ 1 <= ls /\ ls <= p /\ nth_error s (ls - 1) = Some NL /\
  forall i b, ls <= i -> i < p -> nth_error s i = Some b -> is_blank b = true.

Lemma seam_first_prev s ls p : seam s ls p -> find_prev_lb s p true = Some (ls - 1).
Proof.
  intros (Np & H1 & H2 & Nl & Hbl). pose proof (nth_error_lt s p NL Np) as Lp.
  apply find_prev_lb_blank_run; [exact Nl | lia | lia|].
  intros i b Hi1 Hi2 Hn. apply (Hbl i b); [lia | lia | exact Hn].
Qed.

Lemma seam_first_next s p : nth_error s p = Some NL -> find_next_lb s p true = Some p.
Proof.
  intros Np. apply find_next_lb_blank_run; [exact Np | lia|]. intros i b Hi1 Hi2. lia.
Qed.

Lemma two_prev_blank s ls p q : seam s ls p -> prev_line_blank s ls q -> two_prev s p = Some q.
Proof.
  intros Hseam (Q1 & Q2 & Q3). unfold two_prev. rewrite (seam_first_prev s ls p Hseam).
  destruct Hseam as (Np & H1 & H2 & Nl & Hbl). pose proof (nth_error_lt s _ NL Nl) as Ll.
  apply find_prev_lb_blank_run; [exact Q2 | lia | lia|].
  intros i b Hi1 Hi2 Hn. apply (Q3 i b); [lia | lia | exact Hn].
Qed.

Lemma two_prev_some_blank s ls p q : wf_utf8 s = true -> seam s ls p ->
  two_prev s p = Some q -> prev_line_blank s ls q.
Proof.
  intros Hs Hseam H. unfold two_prev in H. rewrite (seam_first_prev s ls p Hseam) in H.
  pose proof (find_prev_lb_some _ _ _ _ H) as (P1 & P2 & P3 & P4).
  unfold prev_line_blank. split; [lia|]. split; [exact P3|].
  intros i b Hi1 Hi2 Hn.
  destruct (find_prev_lb_pause_run s (ls - 1) q Hs H i) as (_ & c & Hc & Hcb); [lia | lia|].
  congruence.
Qed.

Lemma two_prev_not_blank s ls p : wf_utf8 s = true -> seam s ls p ->
  prev_line_not_blank s ls -> two_prev s p = None.
Proof.
  intros Hs Hseam Hnb. destruct (two_prev s p) as [q|] eqn:T; [|reflexivity].
  exfalso. apply (Hnb q). apply (two_prev_some_blank s ls p q Hs Hseam T).
Qed.

Lemma two_next_blank s p q' : nth_error s p = Some NL -> next_line_blank s p q' ->
  two_next s p = Some q'.
Proof.
  intros Np (Q1 & Q2 & Q3). unfold two_next. rewrite (seam_first_next s p Np).
  apply find_next_lb_blank_run; [exact Q2 | lia|].
  intros i b Hi1 Hi2 Hn. apply (Q3 i b); [lia | lia | exact Hn].
Qed.

Lemma two_next_some_blank s p q' : wf_utf8 s = true -> nth_error s p = Some NL ->
  is_boundary s p = true -> two_next s p = Some q' -> next_line_blank s p q'.
Proof.
  intros Hs Np Hb H. unfold two_next in H. rewrite (seam_first_next s p Np) in H.
  pose proof (after_nl_boundary s p Hs Hb Np) as Hb'. rewrite <- Nat.add_1_r in Hb'.
  pose proof (find_next_lb_some _ _ _ _ H) as (P1 & P2 & P3 & P4).
  unfold next_line_blank. split; [lia|]. split; [exact P3|].
  intros i b Hi1 Hi2 Hn.
  apply (find_next_lb_pause_blank s (p + 1) q' Hs Hb' H i b); [lia | lia | exact Hn].
Qed.

Lemma two_next_not_blank s p : wf_utf8 s = true -> nth_error s p = Some NL ->
  is_boundary s p = true -> next_line_not_blank s p -> two_next s p = None.
Proof.
  intros Hs Np Hb Hnb. destruct (two_next s p) as [q'|] eqn:T; [|reflexivity].
  exfalso. apply (Hnb q'). apply (two_next_some_blank s p q' Hs Np Hb T).
Qed.

(** Consequently the blank neighbour, if any, is unique, and blank / not blank exclude each other
    by definition: the four cases of [seam_hull] are exhaustive and mutually exclusive. *)
Lemma prev_line_blank_unique s ls p q1 q2 : seam s ls p ->
  prev_line_blank s ls q1 -> prev_line_blank s ls q2 -> q1 = q2.
Proof.
  intros Hseam H1 H2.
  pose proof (two_prev_blank s ls p q1 Hseam H1) as E1.
  pose proof (two_prev_blank s ls p q2 Hseam H2) as E2. congruence.
Qed.

Lemma next_line_blank_unique s p q1 q2 : nth_error s p = Some NL ->
  next_line_blank s p q1 -> next_line_blank s p q2 -> q1 = q2.
Proof.
  intros Np H1 H2.
  pose proof (two_next_blank s p q1 Np H1) as E1.
  pose proof (two_next_blank s p q2 Np H2) as E2. congruence.
Qed.

Lemma prev_line_cases s ls p : wf_utf8 s = true -> seam s ls p ->
  (exists q, prev_line_blank s ls q) \/ prev_line_not_blank s ls.
Proof.
  intros Hs Hseam. destruct (two_prev s p) as [q|] eqn:T.
  - left. exists q. apply (two_prev_some_blank s ls p q Hs Hseam T).
  - right. intros q Hq. rewrite (two_prev_blank s ls p q Hseam Hq) in T. discriminate T.
Qed.

Lemma next_line_cases s p : wf_utf8 s = true -> nth_error s p = Some NL -> is_boundary s p = true ->
  (exists q', next_line_blank s p q') \/ next_line_not_blank s p.
Proof.
  intros Hs Np Hb. destruct (two_next s p) as [q'|] eqn:T.
  - left. exists q'. apply (two_next_some_blank s p q' Hs Np Hb T).
  - right. intros q' Hq. rewrite (two_next_blank s p q' Np Hq) in T. discriminate T.
Qed.

(* ------------------------------------------------------------------------- *)
(** * The four formatters at a seam *)

Lemma indent_remover_seam s ls p : is_boundary s p = true -> seam s ls p ->
  indent_remover s p = Ok (ls, p).
Proof.
  intros Hb (Np & H1 & H2 & Nl & Hbl). pose proof (nth_error_lt s p NL Np) as Lp.
  unfold indent_remover. rewrite Hb, Np.
  destruct (Nat.leb_spec (length s) p) as [L|_]; [lia|].
  replace (beq NL NL) with true by reflexivity. cbn [negb orb].
  rewrite (indent_loop_blank_run s (ls - 1) Nl p); [|lia | lia|].
  - replace (S (ls - 1)) with ls by lia. reflexivity.
  - intros i b Hi1 Hi2 Hn. apply (Hbl i b); [lia | lia | exact Hn].
Qed.

Lemma empty_line_remover_nl s p : is_boundary s p = true -> nth_error s p = Some NL ->
  residue_is_blank s p = true ->
  empty_line_remover s p =
  if is_none (two_next s p) && is_none (two_prev s p) then Ok (p, p + 1) else Ok (p, p).
Proof.
  intros Hb Np Hr. unfold empty_line_remover. rewrite Hb, Np, Hr.
  replace (beq NL NL) with true by reflexivity. reflexivity.
Qed.

(** When the line is not blank up to [p] the guard fires and nothing is removed. *)
Lemma empty_line_remover_nonblank_residue s p : is_boundary s p = true ->
  residue_is_blank s p = false -> empty_line_remover s p = Ok (p, p).
Proof.
  intros Hb Hr. unfold empty_line_remover. rewrite Hb, Hr. cbn [negb].
  destruct (negb _); reflexivity.
Qed.

(** The hull of the four seam ranges in terms of the results of [indent_remover], [two_prev] and
    [two_next]. *)
Lemma seam_hull_of_nl s p a : is_boundary s p = true -> nth_error s p = Some NL ->
  residue_is_blank s p = true ->
  indent_remover s p = Ok (a, p) -> a <= p ->
  seam_hull_of s p =
  Ok (match two_prev s p with Some q => Nat.min (q + 1) a | None => a end,
      match two_next s p with
      | Some q' => Nat.max q' p
      | None => match two_prev s p with Some _ => p | None => p + 1 end
      end).
Proof.
  intros Hb Np Hr HI Ha. unfold seam_hull_of, seam_formatters. cbn [foldM].
  rewrite HI. cbn [bind fst snd].
  rewrite (empty_line_remover_nl s p Hb Np Hr).
  unfold prev_line_break_remover, next_line_break_remover. rewrite Hb, Hr. cbn [negb].
  destruct (two_next s p) as [q'|]; destruct (two_prev s p) as [q|];
    cbn [is_none andb bind fst snd]; f_equal; f_equal; lia.
Qed.

(* ------------------------------------------------------------------------- *)
(** * The theorems *)

Theorem seam_hull : forall s ls p,
  wf_utf8 s = true ->
  nth_error s p = Some NL -> is_boundary s p = true ->
  1 <= ls -> ls <= p -> nth_error s (ls - 1) = Some NL ->
  (forall i b, ls <= i -> i < p -> nth_error s i = Some b -> is_blank b = true) ->
  (* neither neighbour blank: the residue and its line break go *)
  (prev_line_not_blank s ls -> next_line_not_blank s p -> format_block s p = Ok (ls, p + 1)) /\
  (* only the previous line blank: that blank line and the residue go, the line break stays *)
  (forall q, prev_line_blank s ls q -> next_line_not_blank s p -> format_block s p = Ok (q + 1, p)) /\
  (* only the next line blank: the residue, the line break and the content of the next line go *)
  (forall q', prev_line_not_blank s ls -> next_line_blank s p q' -> format_block s p = Ok (ls, q')) /\
  (* both blank *)
  (forall q q', prev_line_blank s ls q -> next_line_blank s p q' -> format_block s p = Ok (q + 1, q')).
Proof.
  intros s ls p Hs Np Hb H1 H2 Nl Hbl.
  assert (seam s ls p) as Hseam by (unfold seam; auto).
  pose proof (nth_error_lt s p NL Np) as Lp.
  assert (residue_is_blank s p = true) as Hr
    by (apply (residue_is_blank_true s ls p H2); [lia | exact Hbl | right; exact Nl]).
  pose proof (seam_hull_of_nl s p ls Hb Np Hr (indent_remover_seam s ls p Hb Hseam) H2) as FB.
  (* the hull starts behind a line break (at [ls - 1], or at [q]), so the first-line branch of
     [format_block] is not taken *)
  assert (all_blank_before s ls = false) as ABl
    by (apply (all_blank_before_after_NL s ls (ls - 1)); [lia | exact Nl]).
  assert (forall q, prev_line_blank s ls q -> all_blank_before s (q + 1) = false) as ABq
    by (intros q (_ & Nq & _); apply (all_blank_before_after_NL s (q + 1) q); [lia | exact Nq]).
  split; [|split; [|split]].
  - intros Hp Hn. apply (format_block_hull_not_first s p ls (p + 1)); [|exact ABl]. rewrite FB.
    rewrite (two_prev_not_blank s ls p Hs Hseam Hp), (two_next_not_blank s p Hs Np Hb Hn).
    reflexivity.
  - intros q Hp Hn. apply (format_block_hull_not_first s p (q + 1) p); [|exact (ABq q Hp)]. rewrite FB.
    rewrite (two_prev_blank s ls p q Hseam Hp), (two_next_not_blank s p Hs Np Hb Hn).
    destruct Hp as (Q1 & _). f_equal. f_equal. lia.
  - intros q' Hp Hn. apply (format_block_hull_not_first s p ls q'); [|exact ABl]. rewrite FB.
    rewrite (two_prev_not_blank s ls p Hs Hseam Hp), (two_next_blank s p q' Np Hn).
    destruct Hn as (Q1 & _). f_equal. f_equal. lia.
  - intros q q' Hp Hn. apply (format_block_hull_not_first s p (q + 1) q'); [|exact (ABq q Hp)]. rewrite FB.
    rewrite (two_prev_blank s ls p q Hseam Hp), (two_next_blank s p q' Np Hn).
    destruct Hp as (P1 & _). destruct Hn as (Q1 & _). f_equal. f_equal; lia.
Qed.

(* a seam that is not at a line break (inline removal) is left alone by the indent and the
   empty-line remover *)
Theorem seam_not_at_line_break : forall s p b,
  nth_error s p = Some b -> b <> NL ->
  indent_remover s p = Ok (p, p) /\ (is_boundary s p = true -> empty_line_remover s p = Ok (p, p)).
Proof.
  intros s p b Np Hne. apply beq_neq in Hne. split.
  - unfold indent_remover. rewrite Np, Hne. cbn [negb]. rewrite orb_true_r. reflexivity.
  - intros Hb. unfold empty_line_remover. rewrite Hb, Np, Hne. reflexivity.
Qed.

(* an inline removal at the end of a line (the seam is at a line break, but code precedes it on the
   line) keeps the line break: the line is not joined with the next one.  [wf_utf8 s] is needed for
   the indent remover only: its backward scan skips positions that are not character boundaries, so
   in an ill-formed string ([NL; 128; NL], p = 2, i = 1) it can run past a stray continuation byte
   at [i] down to an earlier line break. *)
Lemma empty_line_remover_after_code : forall s p i b,
  is_boundary s p = true ->
  i < p -> nth_error s i = Some b -> is_blank b = false -> b <> NL ->
  (forall j c, i < j -> j < p -> nth_error s j = Some c -> is_blank c = true) ->
  empty_line_remover s p = Ok (p, p).
Proof.
  intros s p i b Hb Hi Ni Bb Hne Hbl.
  apply (empty_line_remover_nonblank_residue s p Hb).
  apply (residue_is_blank_false s p i b Hi Ni Bb Hne Hbl).
Qed.

Lemma indent_loop_after_code : forall s p i b,
  wf_utf8 s = true ->
  i < p -> nth_error s i = Some b -> is_blank b = false -> b <> NL ->
  (forall j c, i < j -> j < p -> nth_error s j = Some c -> is_blank c = true) ->
  indent_loop s p = None.
Proof.
  intros s p i b Hs Hi Ni Bb Hne Hbl.
  destruct (indent_loop s p) as [c|] eqn:IL; [|reflexivity]. exfalso.
  apply indent_loop_spec in IL. destruct IL as (c' & -> & H1 & H2 & H3 & H4).
  pose proof (after_nl_boundary s c' Hs H3 H2) as Hb'.
  destruct (skipped_run_range s (S c') p Hs Hb') as [_ Hrun];
    [lia | intros j Hj1 Hj2; apply H4; lia|].
  destruct (Nat.lt_trichotomy i c') as [L | [E | G]].
  - (* a line break strictly between i and p *)
    pose proof (Hbl c' NL L H1 H2) as K. discriminate K.
  - subst c'. rewrite Ni in H2. inversion H2. contradiction.
  - (* i lies in the run the scan passed: it would be a blank *)
    destruct (Hrun i) as (_ & d & Nd & Bd); [lia | lia|].
    rewrite Ni in Nd. inversion Nd; subst d. congruence.
Qed.

(* the same without [wf_utf8 s], when the byte at [i] is known not to be a continuation byte *)
Lemma indent_loop_after_code_noncont : forall s p i b,
  i < p -> nth_error s i = Some b -> is_blank b = false -> b <> NL -> is_cont b = false ->
  (forall j c, i < j -> j < p -> nth_error s j = Some c -> is_blank c = true) ->
  indent_loop s p = None.
Proof.
  intros s p i b Hi Ni Bb Hne Hc. apply beq_neq in Hne.
  induction p as [|k IH]; intros Hbl; [lia|].
  cbn [indent_loop]. destruct (Nat.eq_dec i k) as [E|NE].
  - subst k. rewrite (noncont_boundary s i b Ni Hc), Ni.
    unfold is_blank in Bb. rewrite Bb, Hne. reflexivity.
  - assert (indent_loop s k = None) as IH'
      by (apply IH; [lia|]; intros j e Hj1 Hj2 Hn; apply (Hbl j e); [lia | lia | exact Hn]).
    destruct (is_boundary s k); [|exact IH'].
    destruct (nth_error s k) as [d|] eqn:Nk; [|reflexivity].
    assert (is_blank d = true) as Bd by (apply (Hbl k d); [lia | lia | exact Nk]).
    unfold is_blank in Bd. rewrite Bd. exact IH'.
Qed.

Lemma indent_remover_no_indent s p : indent_loop s p = None -> indent_remover s p = Ok (p, p).
Proof.
  intros IL. unfold indent_remover. rewrite IL. destruct (_ || _); reflexivity.
Qed.

Theorem seam_after_code_keeps_line_break : forall s p i b,
  wf_utf8 s = true ->
  is_boundary s p = true -> nth_error s p = Some NL ->
  i < p -> nth_error s i = Some b -> is_blank b = false -> b <> NL ->
  (forall j c, i < j -> j < p -> nth_error s j = Some c -> is_blank c = true) ->
  empty_line_remover s p = Ok (p, p) /\ indent_remover s p = Ok (p, p).
Proof.
  intros s p i b Hs Hb Np Hi Ni Bb Hne Hbl. split.
  - apply (empty_line_remover_after_code s p i b Hb Hi Ni Bb Hne Hbl).
  - apply indent_remover_no_indent.
    apply (indent_loop_after_code s p i b Hs Hi Ni Bb Hne Hbl).
Qed.

(* after code on the same line none of the four seam formatters touches anything, whatever the
   byte at [p] is.  [wf_utf8 s] is needed for the indent remover (see above) and for the
   previous-line-break remover: both scan backwards skipping positions that are not character
   boundaries, so a stray continuation byte at [i] would be passed over. *)
Lemma two_prev_after_code : forall s p i b,
  wf_utf8 s = true ->
  i < p -> nth_error s i = Some b -> is_blank b = false -> b <> NL ->
  (forall j c, i < j -> j < p -> nth_error s j = Some c -> is_blank c = true) ->
  two_prev s p = None.
Proof.
  intros s p i b Hs Hi Ni Bb Hne Hbl. unfold two_prev.
  destruct (find_prev_lb s p true) as [q|] eqn:F; [|reflexivity]. exfalso.
  pose proof (find_prev_lb_some _ _ _ _ F) as (Q1 & Q2 & Q3 & Q4).
  destruct (Nat.lt_trichotomy i q) as [L | [E | G]].
  - (* a line break strictly between i and p *)
    pose proof (Hbl q NL L Q1 Q3) as K. discriminate K.
  - subst q. rewrite Ni in Q3. inversion Q3. contradiction.
  - (* i lies in the run the scan passed: it would be a blank *)
    destruct (find_prev_lb_pause_run s p q Hs F i G Hi) as (_ & d & Nd & Bd).
    rewrite Ni in Nd. inversion Nd; subst d. congruence.
Qed.

Lemma prev_line_break_remover_after_code : forall s p i b,
  wf_utf8 s = true ->
  i < p -> nth_error s i = Some b -> is_blank b = false -> b <> NL ->
  (forall j c, i < j -> j < p -> nth_error s j = Some c -> is_blank c = true) ->
  prev_line_break_remover s p = Ok (p, p).
Proof.
  intros s p i b Hs Hi Ni Bb Hne Hbl. unfold prev_line_break_remover.
  rewrite (two_prev_after_code s p i b Hs Hi Ni Bb Hne Hbl). reflexivity.
Qed.

(** When the line is not blank up to [p] the guard of the next-line-break remover fires. *)
Lemma next_line_break_remover_nonblank_residue s p :
  residue_is_blank s p = false -> next_line_break_remover s p = Ok (p, p).
Proof.
  intros Hr. unfold next_line_break_remover. rewrite Hr. cbn [negb].
  destruct (negb (is_boundary s p)); reflexivity.
Qed.

Lemma next_line_break_remover_after_code : forall s p i b,
  i < p -> nth_error s i = Some b -> is_blank b = false -> b <> NL ->
  (forall j c, i < j -> j < p -> nth_error s j = Some c -> is_blank c = true) ->
  next_line_break_remover s p = Ok (p, p).
Proof.
  intros s p i b Hi Ni Bb Hne Hbl.
  apply next_line_break_remover_nonblank_residue.
  apply (residue_is_blank_false s p i b Hi Ni Bb Hne Hbl).
Qed.

Theorem seam_after_code_untouched : forall s p i b,
  wf_utf8 s = true -> is_boundary s p = true -> p <= length s ->
  i < p -> nth_error s i = Some b -> is_blank b = false -> b <> NL ->
  (forall j c, i < j -> j < p -> nth_error s j = Some c -> is_blank c = true) ->
  format_block s p = Ok (p, p).
Proof.
  intros s p i b Hs Hb _ Hi Ni Bb Hne Hbl.
  apply format_block_hull_no_lb.
  unfold seam_hull_of, seam_formatters. cbn [foldM].
  rewrite (indent_remover_no_indent s p (indent_loop_after_code s p i b Hs Hi Ni Bb Hne Hbl)).
  cbn [bind fst snd].
  rewrite (empty_line_remover_after_code s p i b Hb Hi Ni Bb Hne Hbl).
  cbn [bind fst snd].
  rewrite (prev_line_break_remover_after_code s p i b Hs Hi Ni Bb Hne Hbl).
  cbn [bind fst snd].
  rewrite (next_line_break_remover_after_code s p i b Hi Ni Bb Hne Hbl).
  cbn [bind fst snd].
  rewrite !Nat.min_id, !Nat.max_id. reflexivity.
Qed.

(* variant for an ill-formed string: enough that the byte at [i] is not a continuation byte *)
Theorem seam_after_code_keeps_line_break_noncont : forall s p i b,
  is_cont b = false ->
  is_boundary s p = true -> nth_error s p = Some NL ->
  i < p -> nth_error s i = Some b -> is_blank b = false -> b <> NL ->
  (forall j c, i < j -> j < p -> nth_error s j = Some c -> is_blank c = true) ->
  empty_line_remover s p = Ok (p, p) /\ indent_remover s p = Ok (p, p).
Proof.
  intros s p i b Hc Hb Np Hi Ni Bb Hne Hbl. split.
  - apply (empty_line_remover_after_code s p i b Hb Hi Ni Bb Hne Hbl).
  - apply indent_remover_no_indent.
    apply (indent_loop_after_code_noncont s p i b Hi Ni Bb Hne Hc Hbl).
Qed.

(* the extra hypothesis is needed: "\n", a stray continuation byte, "\n" *)
Example ex_after_code_needs_wf :
  let s := [NL; 128%N; NL] in
  is_boundary s 2 = true /\ nth_error s 2 = Some NL /\ nth_error s 1 = Some 128%N /\
  is_blank 128%N = false /\ wf_utf8 s = false /\
  empty_line_remover s 2 = Ok (2, 2) /\ indent_remover s 2 = Ok (1, 2).
Proof. vm_compute. repeat split; reflexivity. Qed.
(* "xy \ny" with the seam at the line break, p = 3: nothing goes, the line break stays *)
Example ex_after_code : format_block [X; Y; SP; NL; Y] 3 = Ok (3, 3).
Proof. vm_compute. reflexivity. Qed.
(* "xy \n \ny", p = 3: the blank next line stays too (before the fix of the next-line-break
   remover the result was (3, 5)) *)
Example ex_after_code_next_blank : format_block [X; Y; SP; NL; SP; NL; Y] 3 = Ok (3, 3).
Proof. vm_compute. reflexivity. Qed.
(* "xy  y", p = 3: the seam is not at a line break at all *)
Example ex_after_code_inline : format_block [X; Y; SP; SP; Y] 3 = Ok (3, 3).
Proof. vm_compute. reflexivity. Qed.

(* the repair of known finding KF1, stated as a theorem about the model: at the start of the file
   (only blanks in front of the seam) the indentation residue is removed together with the line break.
   Before the repair the result was (p, p + 1): the residue stayed in front of the next line. *)
Lemma seam_hull_of_file_start s p : wf_utf8 s = true -> nth_error s p = Some NL ->
  is_boundary s p = true ->
  (forall i b, i < p -> nth_error s i = Some b -> is_blank b = true) ->
  seam_hull_of s p =
  Ok (p, match two_next s p with Some q' => Nat.max q' p | None => p + 1 end).
Proof.
  intros Hs Np Hb Hbl. pose proof (nth_error_lt s p NL Np) as Lp.
  assert (indent_remover s p = Ok (p, p)) as HI.
  { unfold indent_remover. rewrite Hb, Np.
    destruct (Nat.leb_spec (length s) p) as [L|_]; [lia|].
    replace (beq NL NL) with true by reflexivity. cbn [negb orb].
    rewrite (indent_loop_blank_none s p Hbl). reflexivity. }
  assert (residue_is_blank s p = true) as Hr.
  { apply (residue_is_blank_true s 0 p); [lia | lia | | left; reflexivity].
    intros i b _ Hi Hnb. apply (Hbl i b Hi Hnb). }
  rewrite (seam_hull_of_nl s p p Hb Np Hr HI (le_n p)).
  assert (two_prev s p = None) as ->
    by (unfold two_prev; rewrite (find_prev_lb_blank_none s true p Hbl); reflexivity).
  reflexivity.
Qed.

Theorem seam_at_file_start_fixed : forall s p,
  wf_utf8 s = true -> nth_error s p = Some NL -> is_boundary s p = true -> 1 <= p ->
  (forall i b, i < p -> nth_error s i = Some b -> is_blank b = true) ->
  next_line_not_blank s p ->
  format_block s p = Ok (0, p + 1).
Proof.
  intros s p Hs Np Hb H1 Hbl Hn.
  apply (format_block_hull_first s p p (p + 1)); [|lia | apply all_blank_before_intro; exact Hbl].
  rewrite (seam_hull_of_file_start s p Hs Np Hb Hbl).
  rewrite (two_next_not_blank s p Hs Np Hb Hn). reflexivity.
Qed.

(* the companion for a blank next line: the blanks of the first line, the line break and the content
   of the next line go (its line break stays) *)
Theorem seam_at_file_start_next_blank : forall s p q',
  wf_utf8 s = true -> nth_error s p = Some NL -> is_boundary s p = true ->
  (forall i b, i < p -> nth_error s i = Some b -> is_blank b = true) ->
  next_line_blank s p q' ->
  format_block s p = Ok (0, q').
Proof.
  intros s p q' Hs Np Hb Hbl Hn. pose proof Hn as (Q1 & _).
  apply (format_block_hull_first s p p q'); [|lia | apply all_blank_before_intro; exact Hbl].
  rewrite (seam_hull_of_file_start s p Hs Np Hb Hbl).
  rewrite (two_next_blank s p q' Np Hn). f_equal. f_equal. lia.
Qed.

(* "\ny", p = 0: an empty first line; nothing stands in front of the seam *)
Example ex_file_start_empty : format_block [NL; Y] 0 = Ok (0, 1).
Proof. vm_compute. reflexivity. Qed.
(* "  \n \ny", p = 2: first line, the next line blank *)
Example ex_file_start_next_blank : format_block [SP; SP; NL; SP; NL; Y] 2 = Ok (0, 4).
Proof. vm_compute. reflexivity. Qed.

(* ------------------------------------------------------------------------- *)
Print Assumptions seam_hull.
Print Assumptions seam_not_at_line_break.
Print Assumptions seam_at_file_start_fixed.
Print Assumptions seam_at_file_start_next_blank.
Print Assumptions residue_is_blank_true.
Print Assumptions residue_is_blank_false.
Print Assumptions seam_after_code_keeps_line_break.
Print Assumptions seam_after_code_untouched.
Print Assumptions seam_after_code_keeps_line_break_noncont.
Print Assumptions prev_line_blank_unique.
Print Assumptions next_line_blank_unique.
Print Assumptions prev_line_cases.
Print Assumptions next_line_cases.
