(** The highlighted (coloured) text of a list item is the text of the region. *)
From Coq Require Import List NArith Arith Bool Lia PeanoNat.
Import ListNotations.
From Chiri Require Import Base.Bytes Base.Res Model.Finders Model.ListRender Spec.ListSpec
     Proofs.ResLemmas Proofs.BytesLemmas Proofs.Utf8 Proofs.ListProofs.

(** [lines] followed by [join_nl] is the identity on a non-empty text without carriage returns
    that does not end in a line break. *)
Lemma join_lines_id : forall t,
  t <> [] -> NoB CR t -> last t 0%N <> NL -> join_nl (lines t) = t.
Proof.
  intros t Hne Hcr Hlast.
  destruct (snoc_cases t) as [->|(u & c & ->)]; [congruence|].
  rewrite last_last in Hlast.
  apply NoB_app in Hcr. destruct Hcr as [Hu _].
  unfold lines. rewrite join_lines_loop_snoc; [reflexivity | exact Hu | constructor | exact Hlast].
Qed.

(** In [build_item] the coloured part is [slice content start (min end line_end)], rendered as
    [join_nl (map (fun l => sc ++ l ++ rc) (lines colored))].  The coloured part is the whole region,
    and without the colour wrappers its rendering is the region text itself. *)
Theorem highlighted_text_is_region_text : forall content a b,
  wf_utf8 content = true -> a < b -> b <= length content ->
  is_boundary content a = true -> is_boundary content b = true ->
  (forall i, nth_error content i <> Some CR) ->
  nth_error content (b - 1) <> Some NL ->
  let line_end := match find_next_lb content (b - 1) false with Some v => v | None => length content end in
  Nat.min b line_end = b /\
  join_nl (lines (sub content a b)) = sub content a b.
Proof.
  intros content a b _ Hab Hb _ _ Hcr Hnb line_end.
  split.
  - (* the end of the last line is not before the end of the region *)
    subst line_end. fold (next_end content (b - 1)).
    destruct (next_end_spec content (b - 1) ltac:(lia)) as (N1 & N2 & N3 & _).
    apply Nat.min_l.
    destruct (Nat.eq_dec (next_end content (b - 1)) (b - 1)) as [E|E]; [|lia]. exfalso.
    destruct N3 as [N3|N3]; [lia|]. rewrite E in N3. exact (Hnb N3).
  - destruct (nth_error_lt_Some content (b - 1) ltac:(lia)) as [cl Hcl].
    assert (cl <> NL) as Hcl1 by (intros ->; exact (Hnb Hcl)).
    pose proof (sub_one content (b - 1) cl Hcl) as Hlast.
    replace (S (b - 1)) with b in Hlast by lia.
    assert (sub content a b = sub content a (b - 1) ++ [cl]) as Hsub.
    { rewrite <- (sub_app content a (b - 1) b) by lia. rewrite Hlast. reflexivity. }
    apply NoB_of_nth in Hcr.
    unfold lines. rewrite Hsub.
    rewrite join_lines_loop_snoc; [reflexivity | | constructor | exact Hcl1].
    apply Forall_sub. exact Hcr.
Qed.

(** The same fact read off the model: the coloured slice computed by [build_item] is the region. *)
Corollary highlighted_slice_is_region : forall content a b,
  a < b -> b <= length content ->
  is_boundary content a = true -> is_boundary content b = true ->
  nth_error content (b - 1) <> Some NL ->
  let line_end := match find_next_lb content (b - 1) false with Some v => v | None => length content end in
  slice content a (Nat.min b line_end) = Ok (sub content a b).
Proof.
  intros content a b Hab Hb Ba Bb Hnb line_end.
  assert (Nat.min b line_end = b) as E.
  { subst line_end. fold (next_end content (b - 1)).
    destruct (next_end_spec content (b - 1) ltac:(lia)) as (N1 & N2 & N3 & _).
    apply Nat.min_l.
    destruct (Nat.eq_dec (next_end content (b - 1)) (b - 1)) as [E|E]; [|lia]. exfalso.
    destruct N3 as [N3|N3]; [lia|]. rewrite E in N3. exact (Hnb N3). }
  rewrite E. apply slice_ok; (assumption || lia).
Qed.

(** The condition on the last byte is needed: when the region ends with a line break, [lines]
    drops it (and the coloured part stops before it). *)
Example highlighted_text_trailing_newline :
  let content := [97; 10; 98]%N in
  join_nl (lines (sub content 0 2)) = [97%N] /\ sub content 0 2 = [97; 10]%N /\
  Nat.min 2 (match find_next_lb content (2 - 1) false with Some v => v | None => length content end) = 1.
Proof. vm_compute. auto. Qed.

Print Assumptions highlighted_text_is_region_text.
Print Assumptions highlighted_slice_is_region.
Print Assumptions join_lines_id.
