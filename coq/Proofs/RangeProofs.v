(** The algebra of byte ranges and deletions: [delete_where]/[rank], the reverse
    [replace_range] fold of [delete_ranges_rev]/[remove_markers], well-formedness and boundaries
    after deleting ranges that lie on boundaries, [get_removed_pos], [merge_overlapped_ranges],
    [sort_ranges] and [merge_ranges]. *)
From Coq Require Import List NArith Arith Bool Lia PeanoNat Permutation.
Import ListNotations.
From Chiri Require Import Base.Bytes Base.Res Model.Markers Model.Format Spec.Ranges
     Proofs.ResLemmas Proofs.BytesLemmas Proofs.Utf8.

(* ------------------------------------------------------------------------- *)
(** * Membership *)

Lemma in_rangeb_spec : forall r i, in_rangeb r i = true <-> Spec.Ranges.in_range r i.
Proof.
  intros r i. unfold in_rangeb, Spec.Ranges.in_range.
  rewrite andb_true_iff, Nat.leb_le, Nat.ltb_lt. tauto.
Qed.

Lemma in_rangesb_spec : forall rs i, in_rangesb rs i = true <-> in_ranges rs i.
Proof.
  intros rs i. unfold in_rangesb, in_ranges. rewrite existsb_exists.
  split; intros [r [Hin Hr]]; exists r; (split; [exact Hin|]); apply in_rangeb_spec; exact Hr.
Qed.

Lemma in_rangesb_app : forall rs1 rs2 i,
  in_rangesb (rs1 ++ rs2) i = in_rangesb rs1 i || in_rangesb rs2 i.
Proof. intros rs1 rs2 i. unfold in_rangesb. apply existsb_app. Qed.

Lemma in_rangesb_cons : forall r rs i,
  in_rangesb (r :: rs) i = in_rangeb r i || in_rangesb rs i.
Proof. reflexivity. Qed.

Lemma in_rangesb_false : forall rs i,
  in_rangesb rs i = false <-> (forall r, In r rs -> in_rangeb r i = false).
Proof.
  intros rs i. induction rs as [|r rs IH]; cbn [in_rangesb existsb].
  - split; [intros _ r [] | reflexivity].
  - fold (in_rangesb rs i). rewrite orb_false_iff, IH. split.
    + intros [H1 H2] r' [<- | Hin]; [exact H1 | apply H2; exact Hin].
    + intros H. split; [apply H; left; reflexivity | intros r' Hin; apply H; right; exact Hin].
Qed.

(* ------------------------------------------------------------------------- *)
(** * Shifting the offset of [delete_where_from] and [rank_from] *)

Lemma delete_where_from_shift : forall s k P,
  delete_where_from (S k) P s = delete_where_from k (fun i => P (S i)) s.
Proof.
  induction s as [|b s IH]; intros k P; [reflexivity|].
  cbn [delete_where_from]. rewrite IH. reflexivity.
Qed.

Lemma rank_from_shift : forall n k P,
  rank_from (S k) P n = rank_from k (fun i => P (S i)) n.
Proof.
  induction n as [|n IH]; intros k P; [reflexivity|].
  cbn [rank_from]. rewrite IH. reflexivity.
Qed.

Lemma delete_where_cons : forall P b s,
  delete_where P (b :: s) =
  if P 0 then delete_where (fun i => P (S i)) s else b :: delete_where (fun i => P (S i)) s.
Proof.
  intros P b s. unfold delete_where. cbn [delete_where_from].
  rewrite delete_where_from_shift. reflexivity.
Qed.

Lemma delete_where_nil : forall P, delete_where P [] = [].
Proof. reflexivity. Qed.

Lemma rank_S : forall P n,
  rank P (S n) = (if P 0 then 0 else 1) + rank (fun i => P (S i)) n.
Proof.
  intros P n. unfold rank. cbn [rank_from]. rewrite rank_from_shift. reflexivity.
Qed.

Lemma rank_0 : forall P, rank P 0 = 0.
Proof. reflexivity. Qed.

(* ------------------------------------------------------------------------- *)
(** * Deletion algebra *)

Lemma delete_where_ext : forall P Q s,
  (forall i, i < length s -> P i = Q i) -> delete_where P s = delete_where Q s.
Proof.
  intros P Q s. revert P Q. induction s as [|b s IH]; intros P Q H; [reflexivity|].
  rewrite !delete_where_cons. rewrite <- (H 0) by (cbn [length]; lia).
  rewrite (IH (fun i => P (S i)) (fun i => Q (S i))).
  - reflexivity.
  - intros i Hi. apply H. cbn [length]. lia.
Qed.

Lemma rank_ext : forall n P Q, (forall i, i < n -> P i = Q i) -> rank P n = rank Q n.
Proof.
  induction n as [|n IH]; intros P Q H; [reflexivity|].
  rewrite !rank_S. rewrite <- (H 0) by lia.
  rewrite (IH (fun i => P (S i)) (fun i => Q (S i))).
  - reflexivity.
  - intros i Hi. apply H. lia.
Qed.

Lemma delete_where_length : forall P s, length (delete_where P s) = rank P (length s).
Proof.
  intros P s. revert P. induction s as [|b s IH]; intros P; [reflexivity|].
  rewrite delete_where_cons. cbn [length]. rewrite rank_S.
  destruct (P 0); cbn [length]; rewrite IH; reflexivity.
Qed.

Theorem delete_where_nth : forall P s i,
  P i = false -> nth_error (delete_where P s) (rank P i) = nth_error s i.
Proof.
  intros P s. revert P. induction s as [|b s IH]; intros P i Hi.
  - rewrite delete_where_nil. destruct (rank P i); destruct i; reflexivity.
  - rewrite delete_where_cons. destruct i as [|i].
    + rewrite rank_0, Hi. reflexivity.
    + rewrite rank_S. cbn [nth_error].
      destruct (P 0); cbn [Nat.add nth_error];
        apply (IH (fun j => P (S j))); exact Hi.
Qed.

Theorem delete_where_compose : forall P Q s,
  delete_where Q (delete_where P s) = delete_where (fun i => P i || Q (rank P i)) s.
Proof.
  intros P Q s. revert P Q. induction s as [|b s IH]; intros P Q; [reflexivity|].
  rewrite (delete_where_cons P). rewrite (delete_where_cons (fun i => P i || Q (rank P i))).
  rewrite rank_0.
  destruct (P 0) eqn:HP0; cbn [orb].
  - rewrite IH. apply delete_where_ext. intros i _.
    rewrite rank_S, HP0. reflexivity.
  - rewrite delete_where_cons.
    rewrite (IH (fun i => P (S i)) (fun i => Q (S i))).
    assert (delete_where (fun i => P (S i) || Q (S (rank (fun i0 => P (S i0)) i))) s =
            delete_where (fun i => P (S i) || Q (rank P (S i))) s) as E.
    { apply delete_where_ext. intros i _. rewrite rank_S, HP0. reflexivity. }
    rewrite E. reflexivity.
Qed.

Lemma rank_from_add : forall n m k P,
  rank_from k P (n + m) = rank_from k P n + rank_from (k + n) P m.
Proof.
  induction n as [|n IH]; intros m k P.
  - cbn [Nat.add rank_from]. rewrite Nat.add_0_r. reflexivity.
  - cbn [Nat.add rank_from]. rewrite IH. replace (S k + n) with (k + S n) by lia. lia.
Qed.

Lemma rank_from_le : forall n k P, rank_from k P n <= n.
Proof.
  induction n as [|n IH]; intros k P; [cbn; lia|].
  cbn [rank_from]. specialize (IH (S k) P). destruct (P k); lia.
Qed.

Lemma rank_monotone : forall P i j, i <= j -> rank P i <= rank P j.
Proof.
  intros P i j Hij. unfold rank. replace j with (i + (j - i)) by lia.
  rewrite rank_from_add. lia.
Qed.

Lemma rank_le : forall P i, rank P i <= i.
Proof. intros P i. apply rank_from_le. Qed.

Lemma rank_snoc : forall P n, rank P (S n) = rank P n + (if P n then 0 else 1).
Proof.
  intros P n. unfold rank. replace (S n) with (n + 1) by lia.
  rewrite rank_from_add. cbn [rank_from Nat.add]. lia.
Qed.

Lemma rank_add : forall P n m, rank P (n + m) = rank P n + rank_from n P m.
Proof. intros P n m. unfold rank. rewrite rank_from_add. reflexivity. Qed.

Lemma rank_from_all_false : forall n k P,
  (forall i, k <= i -> i < k + n -> P i = false) -> rank_from k P n = n.
Proof.
  induction n as [|n IH]; intros k P H; [reflexivity|].
  cbn [rank_from]. rewrite (H k) by lia. rewrite IH; [reflexivity|].
  intros i H1 H2. apply H; lia.
Qed.

Lemma rank_from_all_true : forall n k P,
  (forall i, k <= i -> i < k + n -> P i = true) -> rank_from k P n = 0.
Proof.
  induction n as [|n IH]; intros k P H; [reflexivity|].
  cbn [rank_from]. rewrite (H k) by lia. rewrite IH; [reflexivity|].
  intros i H1 H2. apply H; lia.
Qed.

(** The new index of an old index, through two successive deletions. *)
Lemma rank_compose : forall n P Q,
  rank (fun i => P i || Q (rank P i)) n = rank Q (rank P n).
Proof.
  induction n as [|n IH]; intros P Q; [reflexivity|].
  rewrite (rank_S (fun i => P i || Q (rank P i))). rewrite rank_0.
  rewrite (rank_S P).
  destruct (P 0) eqn:HP0; cbn [orb Nat.add].
  - rewrite <- IH. apply rank_ext. intros i _. rewrite rank_S, HP0. reflexivity.
  - rewrite (rank_S Q). rewrite <- (IH (fun i => P (S i)) (fun i => Q (S i))).
    f_equal. apply rank_ext. intros i _. rewrite rank_S, HP0. reflexivity.
Qed.

Lemma delete_where_none : forall P s,
  (forall i, i < length s -> P i = false) -> delete_where P s = s.
Proof.
  intros P s. revert P. induction s as [|b s IH]; intros P H; [reflexivity|].
  rewrite delete_where_cons. rewrite (H 0) by (cbn [length]; lia).
  rewrite IH; [reflexivity|]. intros i Hi. apply H. cbn [length]. lia.
Qed.

(* ------------------------------------------------------------------------- *)
(** * Deleting one range *)

Lemma delete_where_single : forall s a b,
  a <= b -> delete_where (in_rangeb (a, b)) s = firstn a s ++ skipn b s.
Proof.
  induction s as [|x s IH]; intros a b Hab.
  - rewrite firstn_nil, skipn_nil. reflexivity.
  - rewrite delete_where_cons. destruct a as [|a].
    + destruct b as [|b].
      * cbn [in_rangeb fst snd Nat.leb Nat.ltb andb firstn skipn app].
        f_equal. apply delete_where_none. intros i _. reflexivity.
      * cbn [in_rangeb fst snd Nat.leb Nat.ltb andb firstn skipn app].
        rewrite (delete_where_ext _ (in_rangeb (0, b))).
        -- rewrite IH by lia. reflexivity.
        -- intros i _. reflexivity.
    + destruct b as [|b]; [lia|].
      cbn [in_rangeb fst snd Nat.leb andb firstn skipn app].
      f_equal. rewrite (delete_where_ext _ (in_rangeb (a, b))).
      * apply IH. lia.
      * intros i _. reflexivity.
Qed.

Lemma rank_single : forall a b i,
  a <= b -> rank (in_rangeb (a, b)) i = Nat.min i a + (i - b).
Proof.
  intros a b i Hab. induction i as [|i IH]; [reflexivity|].
  rewrite rank_snoc, IH. unfold in_rangeb. cbn [fst snd].
  destruct (Nat.leb_spec a i); destruct (Nat.ltb_spec i b); cbn [andb]; lia.
Qed.

(* ------------------------------------------------------------------------- *)
(** * Sorted range lists *)

Lemma sorted_from_weaken : forall rs lo lo', lo' <= lo -> sorted_from lo rs -> sorted_from lo' rs.
Proof.
  intros [|[a b] rs] lo lo' Hlo H; [exact I|].
  cbn [sorted_from] in *. destruct H as (H1 & H2 & H3). repeat split; [lia | exact H2 | exact H3].
Qed.

Lemma sorted_nonempty_sorted : forall lo rs, sorted_nonempty_from lo rs -> sorted_from lo rs.
Proof.
  intros lo rs. revert lo. induction rs as [|[a b] rs IH]; intros lo H; [exact I|].
  cbn [sorted_nonempty_from sorted_from] in *. destruct H as (H1 & H2 & H3).
  repeat split; [exact H1 | lia | apply IH; exact H3].
Qed.

Lemma separated_sorted : forall lo rs, separated_from lo rs -> sorted_from lo rs.
Proof.
  intros lo rs. revert lo. induction rs as [|[a b] rs IH]; intros lo H; [exact I|].
  cbn [separated_from sorted_from] in *. destruct H as (H1 & H2 & H3).
  repeat split; [exact H1 | exact H2 |].
  apply (sorted_from_weaken rs (S b)); [lia | apply IH; exact H3].
Qed.

(** Every range of a sorted list is non-reversed and lies at or after the lower bound. *)
Lemma sorted_from_In : forall rs lo r, sorted_from lo rs -> In r rs -> lo <= fst r /\ fst r <= snd r.
Proof.
  induction rs as [|[a b] rs IH]; intros lo r H Hin; [destruct Hin|].
  cbn [sorted_from] in H. destruct H as (H1 & H2 & H3).
  destruct Hin as [<- | Hin]; [cbn [fst snd]; lia|].
  destruct (IH b r H3 Hin) as [H4 H5]. lia.
Qed.

Lemma sorted_from_snoc : forall rs lo a b,
  sorted_from lo (rs ++ [(a, b)]) <->
  sorted_from lo rs /\ (forall r, In r rs -> snd r <= a) /\ lo <= a /\ a <= b.
Proof.
  induction rs as [|[a0 b0] rs IH]; intros lo a b.
  - cbn [app sorted_from]. split.
    + intros (H1 & H2 & _). repeat split; try assumption. intros r [].
    + intros (_ & _ & H1 & H2). auto.
  - cbn [app sorted_from]. rewrite IH. split.
    + intros (H1 & H2 & H3 & H4 & H5 & H6). repeat split; try assumption; try lia.
      intros r [<- | Hin]; [cbn [snd]; lia | apply H4; exact Hin].
    + intros ((H1 & H2 & H3) & H4 & H5 & H6). repeat split; try assumption.
      * intros r Hin. apply H4. right. exact Hin.
      * specialize (H4 (a0, b0) (or_introl eq_refl)). cbn [snd] in H4. exact H4.
Qed.

Lemma sorted_from_below : forall rs lo i, sorted_from lo rs -> i < lo -> in_rangesb rs i = false.
Proof.
  intros rs lo i H Hi. apply in_rangesb_false. intros r Hin.
  destruct (sorted_from_In rs lo r H Hin) as [H1 H2].
  unfold in_rangeb. destruct (Nat.leb_spec (fst r) i); [lia | reflexivity].
Qed.

(** Deleting the ranges [rs] and then nothing else from the string in which the later range
    [(a, b)] has already been cut out. *)
Lemma in_rangesb_snoc_rank : forall rs a b i,
  a <= b -> (forall r, In r rs -> fst r <= snd r /\ snd r <= a) ->
  in_rangesb (rs ++ [(a, b)]) i =
  in_rangeb (a, b) i || in_rangesb rs (rank (in_rangeb (a, b)) i).
Proof.
  intros rs a b i Hab Hrs.
  rewrite in_rangesb_app, in_rangesb_cons. cbn [in_rangesb existsb]. rewrite orb_false_r.
  rewrite orb_comm. destruct (in_rangeb (a, b) i) eqn:R; cbn [orb]; [reflexivity|].
  rewrite rank_single by exact Hab.
  unfold in_rangeb in R. cbn [fst snd] in R. apply andb_false_iff in R.
  destruct (Nat.le_gt_cases a i) as [Hai | Hai].
  - (* i >= b: both sides are false *)
    assert (b <= i) as Hbi.
    { destruct R as [R | R]; [apply Nat.leb_gt in R; lia | apply Nat.ltb_ge in R; exact R]. }
    assert (forall j, a <= j -> in_rangesb rs j = false) as Hhigh.
    { intros j Hj. apply in_rangesb_false. intros r Hin. destruct (Hrs r Hin) as [H1 H2].
      unfold in_rangeb. destruct (Nat.ltb_spec j (snd r)); [lia | apply andb_false_r]. }
    rewrite !Hhigh by lia. reflexivity.
  - replace (Nat.min i a + (i - b)) with i by lia. reflexivity.
Qed.

Lemma delete_ranges_snoc : forall rs a b s,
  sorted_from 0 (rs ++ [(a, b)]) ->
  delete_ranges (rs ++ [(a, b)]) s = delete_ranges rs (firstn a s ++ skipn b s).
Proof.
  intros rs a b s Hs. apply sorted_from_snoc in Hs. destruct Hs as (Hrs & Hle & _ & Hab).
  unfold delete_ranges. rewrite <- delete_where_single by exact Hab.
  rewrite delete_where_compose. apply delete_where_ext. intros i _.
  apply in_rangesb_snoc_rank; [exact Hab|].
  intros r Hin. split; [apply (sorted_from_In rs 0 r Hrs Hin) | apply Hle; exact Hin].
Qed.

Lemma rank_ranges_snoc : forall rs a b i,
  sorted_from 0 (rs ++ [(a, b)]) ->
  rank (in_rangesb (rs ++ [(a, b)])) i = rank (in_rangesb rs) (Nat.min i a + (i - b)).
Proof.
  intros rs a b i Hs. apply sorted_from_snoc in Hs. destruct Hs as (Hrs & Hle & _ & Hab).
  rewrite <- (rank_single a b i Hab). rewrite <- rank_compose. apply rank_ext. intros j _.
  apply in_rangesb_snoc_rank; [exact Hab|].
  intros r Hin. split; [apply (sorted_from_In rs 0 r Hrs Hin) | apply Hle; exact Hin].
Qed.

(* ------------------------------------------------------------------------- *)
(** * The reverse [replace_range] fold is a deletion *)

Lemma replace_range_ok_inv : forall s a b out,
  replace_range s a b = Ok out ->
  a <= b /\ b <= length s /\ is_boundary s a = true /\ is_boundary s b = true /\
  out = firstn a s ++ skipn b s.
Proof.
  intros s a b out H. unfold replace_range in H.
  destruct ((a <=? b) && (b <=? length s) && is_boundary s a && is_boundary s b) eqn:C;
    [|discriminate H].
  apply andb_true_iff in C. destruct C as [C C4].
  apply andb_true_iff in C. destruct C as [C C3].
  apply andb_true_iff in C. destruct C as [C1 C2].
  apply Nat.leb_le in C1. apply Nat.leb_le in C2. inversion H. auto.
Qed.

Lemma replace_range_ok_intro : forall s a b,
  a <= b -> b <= length s -> is_boundary s a = true -> is_boundary s b = true ->
  replace_range s a b = Ok (firstn a s ++ skipn b s).
Proof.
  intros s a b H1 H2 H3 H4. unfold replace_range.
  apply Nat.leb_le in H1. apply Nat.leb_le in H2. rewrite H1, H2, H3, H4. reflexivity.
Qed.

Lemma delete_ranges_rev_snoc : forall s rs r,
  delete_ranges_rev s (rs ++ [r]) =
  bind (replace_range s (fst r) (snd r)) (fun s1 => delete_ranges_rev s1 rs).
Proof.
  intros s rs r. unfold delete_ranges_rev. rewrite rev_app_distr. reflexivity.
Qed.

Theorem delete_ranges_rev_sound : forall s rs out,
  sorted_from 0 rs -> delete_ranges_rev s rs = Ok out -> out = delete_ranges rs s.
Proof.
  intros s rs. revert s. induction rs as [|[a b] rs IH] using rev_ind; intros s out Hs H.
  - cbn in H. inversion H. unfold delete_ranges. symmetry. apply delete_where_none.
    intros i _. reflexivity.
  - rewrite delete_ranges_rev_snoc in H. cbn [fst snd] in H.
    apply bind_ok in H. destruct H as [s1 [H1 H2]].
    apply replace_range_ok_inv in H1. destruct H1 as (_ & _ & _ & _ & ->).
    rewrite delete_ranges_snoc by exact Hs.
    apply IH; [|exact H2]. apply sorted_from_snoc in Hs. apply Hs.
Qed.

Lemma foldM_map {A B C} (f : A -> C -> res A) (g : B -> C) : forall l a,
  foldM (fun x y => f x (g y)) l a = foldM f (map g l) a.
Proof.
  induction l as [|y l IH]; intros a; [reflexivity|].
  cbn [map foldM]. destruct (f a (g y)) as [a1|]; cbn [bind]; [apply IH | reflexivity].
Qed.

Lemma remove_markers_delete_ranges_rev : forall s (ms : list marker),
  remove_markers s ms = delete_ranges_rev s (map fst ms).
Proof.
  intros s ms. unfold remove_markers, delete_ranges_rev. rewrite <- map_rev.
  apply (foldM_map (fun content (r : Format.range) => replace_range content (fst r) (snd r))
                   (fun m : marker => fst m)).
Qed.

Theorem remove_markers_sound : forall s (ms : list marker) out,
  sorted_from 0 (map fst ms) -> remove_markers s ms = Ok out -> out = delete_ranges (map fst ms) s.
Proof.
  intros s ms out Hs H. rewrite remove_markers_delete_ranges_rev in H.
  apply delete_ranges_rev_sound; assumption.
Qed.

(* ------------------------------------------------------------------------- *)
(** * Removed positions *)

Fixpoint removed_positions (removed_len : nat) (ms : list marker) : list (nat * option nat) :=
  match ms with
  | [] => []
  | ((a, b), p) :: r => (a - removed_len, p) :: removed_positions (removed_len + (b - a)) r
  end.

Definition removed_pos_step (acc : list (nat * option nat) * nat) (m : marker)
  : res (list (nat * option nat) * nat) :=
  let '(positions, removed_len) := acc in
  let '((a, b), pair_pos) := m in
  p <- csub a removed_len ;;
  l <- csub b a ;;
  Ok (positions ++ [(p, pair_pos)], removed_len + l).

Lemma removed_pos_fold : forall ms lo acc rl,
  sorted_from lo (map fst ms) -> rl <= lo ->
  exists rl', foldM removed_pos_step ms (acc, rl) = Ok (acc ++ removed_positions rl ms, rl').
Proof.
  induction ms as [|[[a b] p] ms IH]; intros lo acc rl Hs Hrl.
  - exists rl. cbn [foldM removed_positions]. rewrite app_nil_r. reflexivity.
  - cbn [map fst sorted_from] in Hs. destruct Hs as (H1 & H2 & H3).
    cbn [foldM removed_pos_step].
    rewrite (csub_le a rl) by lia. cbn [bind].
    rewrite (csub_le b a) by lia. cbn [bind].
    destruct (IH b (acc ++ [(a - rl, p)]) (rl + (b - a)) H3) as [rl' E]; [lia|].
    exists rl'. rewrite E. cbn [removed_positions]. rewrite <- app_assoc. reflexivity.
Qed.

Theorem get_removed_pos_ok : forall ms,
  sorted_from 0 (map fst ms) -> get_removed_pos ms = Ok (removed_positions 0 ms).
Proof.
  intros ms Hs. unfold get_removed_pos.
  destruct (removed_pos_fold ms 0 [] 0 Hs (Nat.le_refl 0)) as [rl' E].
  change (foldM _ ms ([], 0)) with (foldM removed_pos_step ms ([], 0)).
  rewrite E. reflexivity.
Qed.

Lemma removed_positions_rank_gen : forall ms lo rl P,
  sorted_from lo (map fst ms) ->
  (forall i, lo <= i -> P i = in_rangesb (map fst ms) i) ->
  rl + rank P lo = lo ->
  removed_positions rl ms = map (fun m => (rank P (fst (fst m)), snd m)) ms.
Proof.
  induction ms as [|[[a b] p] ms IH]; intros lo rl P Hs HP Hrl; [reflexivity|].
  cbn [map fst snd sorted_from] in Hs. destruct Hs as (H1 & H2 & H3).
  cbn [removed_positions map fst snd].
  assert (rank P a = rank P lo + (a - lo)) as Ea.
  { replace a with (lo + (a - lo)) at 1 by lia. rewrite rank_add.
    rewrite rank_from_all_false; [reflexivity|].
    intros i Hi1 Hi2. rewrite HP by exact Hi1. cbn [map fst]. rewrite in_rangesb_cons.
    rewrite (sorted_from_below (map fst ms) b i H3) by lia.
    unfold in_rangeb. cbn [fst snd]. destruct (Nat.leb_spec a i); [lia | reflexivity]. }
  assert (rank P b = rank P a) as Eb.
  { replace b with (a + (b - a)) at 1 by lia. rewrite rank_add.
    rewrite rank_from_all_true; [lia|].
    intros i Hi1 Hi2. rewrite HP by lia. cbn [map fst]. rewrite in_rangesb_cons.
    unfold in_rangeb. cbn [fst snd].
    destruct (Nat.leb_spec a i); [|lia]. destruct (Nat.ltb_spec i b); [reflexivity | lia]. }
  f_equal.
  - f_equal. lia.
  - apply (IH b); [exact H3 | | lia].
    intros i Hi. rewrite HP by lia. cbn [map fst]. rewrite in_rangesb_cons.
    unfold in_rangeb. cbn [fst snd]. destruct (Nat.ltb_spec i b); [lia|].
    rewrite andb_false_r. reflexivity.
Qed.

Theorem removed_positions_rank : forall ms, sorted_from 0 (map fst ms) ->
  removed_positions 0 ms = map (fun m => (rank (in_rangesb (map fst ms)) (fst (fst m)), snd m)) ms.
Proof.
  intros ms Hs. apply (removed_positions_rank_gen ms 0 0); [exact Hs | reflexivity | reflexivity].
Qed.

(* ------------------------------------------------------------------------- *)
(** * [merge_overlapped_ranges] *)

Definition mo_step (acc : list range * range) (r : range) : list range * range :=
  let '(done, cur) := acc in
  if fst r <=? snd cur then (done, (fst cur, Nat.max (snd cur) (snd r)))
  else (done ++ [cur], r).

Definition mo_out (acc : list range * range) : list range := fst acc ++ [snd acc].

Lemma merge_overlapped_unfold : forall r0 rest,
  merge_overlapped_ranges (r0 :: rest) = mo_out (fold_left mo_step rest ([], r0)).
Proof.
  intros r0 rest. unfold merge_overlapped_ranges.
  change (fold_left _ rest ([], r0)) with (fold_left mo_step rest ([], r0)).
  destruct (fold_left mo_step rest ([], r0)) as [done cur]. reflexivity.
Qed.

(** A generic invariant principle for the fold. *)
Lemma mo_fold_inv : forall (I : list range * range -> Prop) (ok : range -> Prop),
  (forall acc r, ok r -> I acc -> I (mo_step acc r)) ->
  forall rest acc, (forall r, In r rest -> ok r) -> I acc -> I (fold_left mo_step rest acc).
Proof.
  intros I ok Hstep. induction rest as [|r rest IH]; intros acc Hok Hacc; [exact Hacc|].
  cbn [fold_left]. apply IH.
  - intros r' Hin. apply Hok. right. exact Hin.
  - apply Hstep; [apply Hok; left; reflexivity | exact Hacc].
Qed.

Lemma separated_from_snoc : forall l lo a b,
  separated_from lo (l ++ [(a, b)]) <->
  separated_from lo l /\ (forall r, In r l -> S (snd r) <= a) /\ lo <= a /\ a <= b.
Proof.
  induction l as [|[a0 b0] l IH]; intros lo a b.
  - cbn [app separated_from]. split.
    + intros (H1 & H2 & _). repeat split; try assumption. intros r [].
    + intros (_ & _ & H1 & H2). auto.
  - cbn [app separated_from]. rewrite IH. split.
    + intros (H1 & H2 & H3 & H4 & H5 & H6). repeat split; try assumption; try lia.
      intros r [<- | Hin]; [cbn [snd]; lia | apply H4; exact Hin].
    + intros ((H1 & H2 & H3) & H4 & H5 & H6). repeat split; try assumption.
      * intros r Hin. apply H4. right. exact Hin.
      * specialize (H4 (a0, b0) (or_introl eq_refl)). cbn [snd] in H4. exact H4.
Qed.

Lemma separated_from_In : forall l lo r, separated_from lo l -> In r l -> fst r <= snd r.
Proof.
  intros l lo r H Hin. apply separated_sorted in H.
  apply (sorted_from_In l lo r H Hin).
Qed.

Lemma mo_step_separated : forall acc r,
  fst r <= snd r -> separated_from 0 (mo_out acc) -> separated_from 0 (mo_out (mo_step acc r)).
Proof.
  intros [done [ca cb]] [ra rb] Hr H. unfold mo_out in *. cbn [fst snd mo_step] in *.
  apply separated_from_snoc in H. destruct H as (H1 & H2 & H3 & H4).
  destruct (Nat.leb_spec ra cb) as [L|L]; cbn [fst snd].
  - apply separated_from_snoc. repeat split; try assumption. lia.
  - apply separated_from_snoc. repeat split; try lia.
    + apply separated_from_snoc. repeat split; assumption.
    + intros r Hin. apply in_app_or in Hin. destruct Hin as [Hin | [<- | []]].
      * specialize (H2 r Hin). lia.
      * cbn [snd]. lia.
Qed.

Theorem merge_overlapped_separated : forall rs, (forall r, In r rs -> fst r <= snd r) ->
  separated_from 0 (merge_overlapped_ranges rs).
Proof.
  intros [|r0 rest] Hok; [exact I|].
  rewrite merge_overlapped_unfold.
  apply (mo_fold_inv (fun acc => separated_from 0 (mo_out acc)) (fun r => fst r <= snd r)).
  - intros acc r Hr Hacc. apply mo_step_separated; assumption.
  - intros r Hin. apply Hok. right. exact Hin.
  - unfold mo_out. cbn [fst snd app]. destruct r0 as [a b]. cbn [separated_from].
    specialize (Hok (a, b) (or_introl eq_refl)). cbn [fst snd] in Hok. repeat split; lia.
Qed.

Lemma in_ranges_app : forall l1 l2 i, in_ranges (l1 ++ l2) i <-> in_ranges l1 i \/ in_ranges l2 i.
Proof.
  intros l1 l2 i. unfold in_ranges. split.
  - intros [r [Hin Hr]]. apply in_app_or in Hin.
    destruct Hin as [Hin | Hin]; [left | right]; exists r; auto.
  - intros [[r [Hin Hr]] | [r [Hin Hr]]]; exists r; (split; [apply in_or_app | exact Hr]); auto.
Qed.

Lemma in_ranges_single : forall r i, in_ranges [r] i <-> Spec.Ranges.in_range r i.
Proof.
  intros r i. unfold in_ranges. split.
  - intros [r' [[<- | []] Hr]]. exact Hr.
  - intros Hr. exists r. split; [left; reflexivity | exact Hr].
Qed.

Lemma mo_step_subset : forall (all : list range) acc r i,
  In r all ->
  (forall j, in_ranges (mo_out acc) j -> in_ranges all j) ->
  in_ranges (mo_out (mo_step acc r)) i -> in_ranges all i.
Proof.
  intros all [done [ca cb]] [ra rb] i Hr Hacc H. unfold mo_out in *. cbn [fst snd mo_step] in *.
  destruct (Nat.leb_spec ra cb) as [L|L]; cbn [fst snd] in H.
  - apply in_ranges_app in H. destruct H as [H | H].
    + apply Hacc. apply in_ranges_app. left. exact H.
    + apply in_ranges_single in H. unfold Spec.Ranges.in_range in H. cbn [fst snd] in H.
      destruct (Nat.lt_ge_cases i cb) as [Hi | Hi].
      * apply Hacc. apply in_ranges_app. right. apply in_ranges_single.
        unfold Spec.Ranges.in_range. cbn [fst snd]. lia.
      * exists (ra, rb). split; [exact Hr|]. unfold Spec.Ranges.in_range. cbn [fst snd]. lia.
  - apply in_ranges_app in H. destruct H as [H | H].
    + apply Hacc. exact H.
    + apply in_ranges_single in H. exists (ra, rb). split; [exact Hr | exact H].
Qed.

Theorem merge_overlapped_subset : forall rs i, (forall r, In r rs -> fst r <= snd r) ->
  in_ranges (merge_overlapped_ranges rs) i -> in_ranges rs i.
Proof.
  intros [|r0 rest] i _; [intros [r [[] _]]|].
  rewrite merge_overlapped_unfold. revert i.
  apply (mo_fold_inv (fun acc => forall i, in_ranges (mo_out acc) i -> in_ranges (r0 :: rest) i)
                     (fun r => In r (r0 :: rest))).
  - intros acc r Hr Hacc i. apply mo_step_subset; assumption.
  - intros r Hin. right. exact Hin.
  - unfold mo_out. cbn [fst snd app]. intros i Hi. apply in_ranges_single in Hi.
    exists r0. split; [left; reflexivity | exact Hi].
Qed.

Definition endpoints_from (all : list range) (r : range) : Prop :=
  (exists r1, In r1 all /\ fst r = fst r1) /\ (exists r2, In r2 all /\ snd r = snd r2).

Lemma mo_step_endpoints : forall (all : list range) acc r,
  In r all ->
  (forall x, In x (mo_out acc) -> endpoints_from all x) ->
  forall x, In x (mo_out (mo_step acc r)) -> endpoints_from all x.
Proof.
  intros all [done [ca cb]] [ra rb] Hr Hacc x Hx. unfold mo_out in *. cbn [fst snd mo_step] in *.
  destruct (Nat.leb_spec ra cb) as [L|L]; cbn [fst snd] in Hx.
  - apply in_app_or in Hx. destruct Hx as [Hx | [<- | []]].
    + apply Hacc. apply in_or_app. left. exact Hx.
    + destruct (Hacc (ca, cb)) as [[r1 [Hr1 E1]] [r2 [Hr2 E2]]];
        [apply in_or_app; right; left; reflexivity|].
      cbn [fst snd] in *. split.
      * exists r1. split; [exact Hr1 | exact E1].
      * destruct (Nat.max_spec cb rb) as [[_ ->] | [_ ->]].
        -- exists (ra, rb). split; [exact Hr | reflexivity].
        -- exists r2. split; [exact Hr2 | exact E2].
  - apply in_app_or in Hx. destruct Hx as [Hx | [<- | []]].
    + apply Hacc. exact Hx.
    + split; exists (ra, rb); (split; [exact Hr | reflexivity]).
Qed.

Theorem merge_overlapped_endpoints : forall rs r, In r (merge_overlapped_ranges rs) ->
  (exists r1, In r1 rs /\ fst r = fst r1) /\ (exists r2, In r2 rs /\ snd r = snd r2).
Proof.
  intros [|r0 rest] r; [intros []|].
  rewrite merge_overlapped_unfold. revert r.
  apply (mo_fold_inv (fun acc => forall x, In x (mo_out acc) -> endpoints_from (r0 :: rest) x)
                     (fun r => In r (r0 :: rest))).
  - intros acc r Hr Hacc. apply mo_step_endpoints; assumption.
  - intros r Hin. right. exact Hin.
  - unfold mo_out. cbn [fst snd app]. intros x [<- | []].
    split; exists r0; (split; [left; reflexivity | reflexivity]).
Qed.

(* ------------------------------------------------------------------------- *)
(** * [sort_ranges] and [merge_ranges] *)

Lemma insert_sorted_perm : forall r l, Permutation (insert_sorted r l) (r :: l).
Proof.
  intros r l. induction l as [|x l IH]; [apply Permutation_refl|].
  cbn [insert_sorted]. destruct (fst r <=? fst x); [apply Permutation_refl|].
  apply (Permutation_trans (l' := x :: r :: l)); [apply perm_skip; exact IH | apply perm_swap].
Qed.

Theorem sort_ranges_perm : forall l, Permutation (sort_ranges l) l.
Proof.
  induction l as [|r l IH]; [apply Permutation_refl|].
  unfold sort_ranges in *. cbn [fold_right].
  apply (Permutation_trans (insert_sorted_perm r _)). apply perm_skip. exact IH.
Qed.

Lemma index_lt {A} : forall (l : list A) i, i < length l -> exists x, index l i = Ok x.
Proof.
  intros l i Hi. unfold index. destruct (nth_error l i) as [x|] eqn:E.
  - exists x. reflexivity.
  - apply nth_error_None in E. lia.
Qed.

Lemma seek_ok : forall c ranges new_start, c < length ranges ->
  exists o, seek ranges c new_start = Ok o /\ (forall c', o = Some c' -> c' <= c).
Proof.
  induction c as [|c IH]; intros ranges new_start Hc.
  - destruct (index_lt ranges 0 Hc) as [r Er]. cbn [seek]. rewrite Er. cbn [bind].
    destruct (fst r <? new_start).
    + exists (Some 0). split; [reflexivity|]. intros c' E. inversion E. lia.
    + exists None. split; [reflexivity|]. intros c' E. discriminate E.
  - destruct (index_lt ranges (S c) Hc) as [r Er]. cbn [seek]. rewrite Er. cbn [bind].
    destruct (fst r <? new_start).
    + exists (Some (S c)). split; [reflexivity|]. intros c' E. inversion E. lia.
    + destruct (IH ranges new_start) as [o [E Ho]]; [lia|].
      exists o. split; [exact E|]. intros c' Ec. specialize (Ho c' Ec). lia.
Qed.

Lemma insert_at_ok {A} : forall (l : list A) i x, i <= length l ->
  exists l', insert_at l i x = Ok l' /\ Permutation l' (x :: l) /\ length l' = S (length l).
Proof.
  intros l i x Hi. unfold insert_at. apply Nat.leb_le in Hi. rewrite Hi.
  exists (firstn i l ++ x :: skipn i l). split; [reflexivity|]. split.
  - apply Permutation_sym. rewrite <- (firstn_skipn i l) at 1. apply Permutation_middle.
  - rewrite app_length. cbn [length]. rewrite <- (firstn_skipn i l) at 3.
    rewrite app_length. lia.
Qed.

Lemma merge_ranges_loop_ok : forall rev_new ranges cursor,
  (forall c, cursor = Some c -> c < length ranges) ->
  exists out, merge_ranges_loop ranges cursor rev_new = Ok out /\
              Permutation out (ranges ++ rev_new).
Proof.
  induction rev_new as [|nr rest IH]; intros ranges cursor Hc.
  - exists ranges. cbn [merge_ranges_loop]. rewrite app_nil_r. split; [reflexivity|].
    apply Permutation_refl.
  - cbn [merge_ranges_loop].
    assert (exists o, match cursor with
                      | Some c => seek ranges c (fst nr)
                      | None => Ok None
                      end = Ok o /\ (forall c', o = Some c' -> c' < length ranges))
      as [o [Eo Ho]].
    { destruct cursor as [c|].
      - destruct (seek_ok c ranges (fst nr) (Hc c eq_refl)) as [o [E Ho]].
        exists o. split; [exact E|]. intros c' Ec. specialize (Ho c' Ec).
        specialize (Hc c eq_refl). lia.
      - exists None. split; [reflexivity|]. intros c' Ec. discriminate Ec. }
    rewrite Eo. cbn [bind].
    assert (exists ranges', match o with
                            | Some c => insert_at ranges (c + 1) nr
                            | None => insert_at ranges 0 nr
                            end = Ok ranges' /\ Permutation ranges' (nr :: ranges) /\
                            length ranges' = S (length ranges))
      as [ranges' [Er [Hp Hl]]].
    { destruct o as [c|].
      - apply insert_at_ok. specialize (Ho c eq_refl). lia.
      - apply insert_at_ok. lia. }
    rewrite Er. cbn [bind].
    destruct (IH ranges' o) as [out [Eout Hout]].
    { intros c Ec. specialize (Ho c Ec). lia. }
    exists out. split; [exact Eout|].
    apply (Permutation_trans Hout).
    apply (Permutation_trans (l' := (nr :: ranges) ++ rest)).
    + apply Permutation_app_tail. exact Hp.
    + cbn [app]. apply Permutation_middle.
Qed.

Theorem merge_ranges_perm : forall ranges new_ranges,
  exists out, merge_ranges ranges new_ranges = Ok out /\
              (ranges = [] -> out = []) /\ (ranges <> [] -> Permutation out (ranges ++ new_ranges)).
Proof.
  intros [|r0 ranges] new_ranges.
  - exists []. split; [reflexivity|]. split; [reflexivity | intros H; congruence].
  - unfold merge_ranges.
    destruct (merge_ranges_loop_ok (rev new_ranges) (r0 :: ranges)
                (Some (length (r0 :: ranges) - 1))) as [out [E Hp]].
    { intros c Ec. inversion Ec. cbn [length]. lia. }
    exists out. split; [exact E|]. split; [intros H; discriminate H|]. intros _.
    apply (Permutation_trans Hp). apply Permutation_app_head.
    apply Permutation_sym. apply Permutation_rev.
Qed.

(* ------------------------------------------------------------------------- *)
(** * Boundaries after cutting out one range *)

Lemma nth_error_firstn_lt {A} : forall (l : list A) n i, i < n -> nth_error (firstn n l) i = nth_error l i.
Proof.
  intros l n i Hi. destruct (Nat.le_gt_cases n (length l)) as [Hn | Hn].
  - rewrite <- (firstn_skipn n l) at 2. rewrite nth_error_app1; [reflexivity|].
    rewrite firstn_length_le by exact Hn. exact Hi.
  - rewrite firstn_all2 by lia. reflexivity.
Qed.

Lemma nth_error_skipn_add {A} : forall b (l : list A) k, nth_error (skipn b l) k = nth_error l (b + k).
Proof.
  induction b as [|b IH]; intros l k; [reflexivity|].
  destruct l as [|x l]; cbn [skipn Nat.add nth_error].
  - destruct k; reflexivity.
  - apply IH.
Qed.

Lemma cut_length : forall (s : str) a b, a <= b -> b <= length s ->
  length (firstn a s ++ skipn b s) = a + (length s - b).
Proof.
  intros s a b Hab Hb. rewrite app_length, firstn_length_le, skipn_length by lia. reflexivity.
Qed.

(** Positions at or before the start of the cut keep their boundary status: below [a] the byte
    is unchanged, and at [a] the byte is now the one that was at the boundary [b]. *)
Lemma boundary_cut_low : forall s a b x,
  a <= b -> b <= length s -> is_boundary s b = true -> x <= a -> is_boundary s x = true ->
  is_boundary (firstn a s ++ skipn b s) x = true.
Proof.
  intros s a b x Hab Hb Bb Hx Bx. destruct x as [|x]; [reflexivity|].
  pose proof (cut_length s a b Hab Hb) as Hlen.
  assert (length (firstn a s) = a) as Hfa by (apply firstn_length_le; lia).
  unfold is_boundary in *.
  destruct (Nat.lt_ge_cases (S x) a) as [L | L].
  - rewrite nth_error_app1 by lia. rewrite nth_error_firstn_lt by exact L.
    destruct (nth_error s (S x)) as [c|] eqn:N; [exact Bx|].
    apply nth_error_None in N. lia.
  - assert (a = S x) as Ea by lia.
    rewrite nth_error_app2 by lia. rewrite Hfa, <- Ea, Nat.sub_diag.
    rewrite nth_error_skipn_add, Nat.add_0_r.
    destruct b as [|b]; [lia|].
    destruct (nth_error s (S b)) as [c|] eqn:N; [exact Bb|].
    apply Nat.eqb_eq in Bb. apply Nat.eqb_eq. lia.
Qed.

(** Positions at or after the end of the cut move down by the length of the cut. *)
Lemma boundary_cut_high : forall s a b x,
  a <= b -> b <= length s -> b <= x -> is_boundary s x = true ->
  is_boundary (firstn a s ++ skipn b s) (a + (x - b)) = true.
Proof.
  intros s a b x Hab Hb Hx Bx.
  pose proof (cut_length s a b Hab Hb) as Hlen.
  pose proof (boundary_le s x Bx) as Hxl.
  assert (length (firstn a s) = a) as Hfa by (apply firstn_length_le; lia).
  destruct (a + (x - b)) as [|y] eqn:Ey; [reflexivity|].
  destruct x as [|x]; [lia|].
  unfold is_boundary in *.
  rewrite nth_error_app2 by lia. rewrite Hfa, nth_error_skipn_add.
  replace (b + (S y - a)) with (S x) by lia.
  destruct (nth_error s (S x)) as [c|] eqn:N; [exact Bx|].
  apply Nat.eqb_eq in Bx. apply Nat.eqb_eq. lia.
Qed.

(** The hypotheses on a sorted list of ranges carry over to the string in which the last
    range has been cut out. *)
Lemma cut_last_hyps : forall s rs a b,
  sorted_from 0 (rs ++ [(a, b)]) -> bounded_by (length s) (rs ++ [(a, b)]) ->
  on_boundaries s (rs ++ [(a, b)]) ->
  (a <= b /\ b <= length s /\ is_boundary s a = true /\ is_boundary s b = true) /\
  sorted_from 0 rs /\
  bounded_by (length (firstn a s ++ skipn b s)) rs /\
  on_boundaries (firstn a s ++ skipn b s) rs.
Proof.
  intros s rs a b Hs Hbd Hob.
  apply sorted_from_snoc in Hs. destruct Hs as (Hrs & Hle & _ & Hab).
  assert (In (a, b) (rs ++ [(a, b)])) as Hin by (apply in_or_app; right; left; reflexivity).
  pose proof (Hbd (a, b) Hin) as Hb. cbn [snd] in Hb.
  destruct (Hob (a, b) Hin) as [Ba Bb]. cbn [fst snd] in Ba, Bb.
  split; [auto|]. split; [exact Hrs|]. split.
  - intros r Hr. rewrite cut_length by assumption. specialize (Hle r Hr). lia.
  - intros r Hr. specialize (Hle r Hr).
    destruct (sorted_from_In rs 0 r Hrs Hr) as [_ Hfs].
    destruct (Hob r) as [B1 B2]; [apply in_or_app; left; exact Hr|].
    split; apply boundary_cut_low; try assumption; lia.
Qed.

(* ------------------------------------------------------------------------- *)
(** * The reverse fold does not panic *)

Lemma delete_ranges_nil : forall s, delete_ranges [] s = s.
Proof. intros s. unfold delete_ranges. apply delete_where_none. intros i _. reflexivity. Qed.

Lemma delete_ranges_rev_ok_gen : forall rs s,
  sorted_from 0 rs -> bounded_by (length s) rs -> on_boundaries s rs ->
  delete_ranges_rev s rs = Ok (delete_ranges rs s).
Proof.
  induction rs as [|[a b] rs IH] using rev_ind; intros s Hs Hbd Hob.
  - rewrite delete_ranges_nil. reflexivity.
  - destruct (cut_last_hyps s rs a b Hs Hbd Hob) as ((Hab & Hb & Ba & Bb) & Hrs & Hbd1 & Hob1).
    rewrite delete_ranges_rev_snoc. cbn [fst snd].
    rewrite replace_range_ok_intro by assumption. cbn [bind].
    rewrite delete_ranges_snoc by exact Hs.
    apply IH; assumption.
Qed.

Theorem delete_ranges_rev_ok : forall s rs,
  sorted_from 0 rs -> bounded_by (length s) rs -> on_boundaries s rs -> wf_utf8 s = true ->
  delete_ranges_rev s rs = Ok (delete_ranges rs s).
Proof. intros s rs Hs Hbd Hob _. apply delete_ranges_rev_ok_gen; assumption. Qed.

Theorem remove_markers_ok : forall s (ms : list marker),
  sorted_from 0 (map fst ms) -> bounded_by (length s) (map fst ms) -> on_boundaries s (map fst ms) ->
  wf_utf8 s = true -> remove_markers s ms = Ok (delete_ranges (map fst ms) s).
Proof.
  intros s ms Hs Hbd Hob _. rewrite remove_markers_delete_ranges_rev.
  apply delete_ranges_rev_ok_gen; assumption.
Qed.

(* ------------------------------------------------------------------------- *)
(** * Well-formedness after deleting ranges on boundaries *)

(** If a string and one of its suffixes are well-formed, so is the corresponding prefix. *)
Lemma WF_prefix : forall s, WF s -> forall x y, s = x ++ y -> WF y -> WF x.
Proof.
  induction 1 as [|b0 cs rest Hl Hlen Hc Hrest IH]; intros x y E Hy.
  - destruct x as [|c x]; [constructor | discriminate E].
  - destruct x as [|c x]; [constructor|].
    cbn [app] in E. inversion E as [[Ec Et]]. subst c.
    apply app_eq_app in Et. destruct Et as [l [[E1 E2] | [E1 E2]]].
    + (* cs = x ++ l and y = l ++ rest: y would start with a continuation byte *)
      destruct l as [|d l].
      * rewrite app_nil_r in E1. subst x.
        rewrite <- (app_nil_r cs). apply WF_char; try assumption. constructor.
      * exfalso. subst cs y. cbn [app] in Hy. apply WF_head_not_cont in Hy.
        rewrite forallb_app in Hc. apply andb_true_iff in Hc. destruct Hc as [_ Hc].
        cbn [forallb] in Hc. apply andb_true_iff in Hc. destruct Hc as [Hd _]. congruence.
    + (* x = cs ++ l and rest = l ++ y *)
      subst x. apply WF_char; try assumption. apply (IH l y); assumption.
Qed.

Lemma WF_cut : forall s a b,
  WF s -> is_boundary s a = true -> is_boundary s b = true -> WF (firstn a s ++ skipn b s).
Proof.
  intros s a b Hs Ba Bb. apply WF_app.
  - apply (WF_prefix s Hs (firstn a s) (skipn a s)).
    + symmetry. apply firstn_skipn.
    + apply boundary_WF_skipn; assumption.
  - apply boundary_WF_skipn; assumption.
Qed.

Theorem delete_ranges_wf : forall s rs,
  wf_utf8 s = true -> sorted_from 0 rs -> bounded_by (length s) rs -> on_boundaries s rs ->
  wf_utf8 (delete_ranges rs s) = true.
Proof.
  intros s rs. revert s. induction rs as [|[a b] rs IH] using rev_ind; intros s Hwf Hs Hbd Hob.
  - rewrite delete_ranges_nil. exact Hwf.
  - destruct (cut_last_hyps s rs a b Hs Hbd Hob) as ((Hab & Hb & Ba & Bb) & Hrs & Hbd1 & Hob1).
    rewrite delete_ranges_snoc by exact Hs.
    apply IH; try assumption.
    apply wf_utf8_WF. apply WF_cut; try assumption. apply wf_utf8_WF. exact Hwf.
Qed.

(* ------------------------------------------------------------------------- *)
(** * Boundaries after deleting ranges on boundaries *)

Lemma rank_none : forall P n, (forall i, i < n -> P i = false) -> rank P n = n.
Proof.
  intros P n H. unfold rank. apply rank_from_all_false. intros i _ Hi. apply H. lia.
Qed.

Lemma delete_ranges_boundary_gen : forall rs s i,
  sorted_from 0 rs -> bounded_by (length s) rs -> on_boundaries s rs ->
  is_boundary s i = true ->
  is_boundary (delete_ranges rs s) (rank (in_rangesb rs) i) = true.
Proof.
  induction rs as [|[a b] rs IH] using rev_ind; intros s i Hs Hbd Hob Bi.
  - rewrite delete_ranges_nil. rewrite rank_none; [exact Bi | reflexivity].
  - destruct (cut_last_hyps s rs a b Hs Hbd Hob) as ((Hab & Hb & Ba & Bb) & Hrs & Hbd1 & Hob1).
    rewrite delete_ranges_snoc by exact Hs. rewrite rank_ranges_snoc by exact Hs.
    apply IH; try assumption.
    destruct (Nat.le_gt_cases i a) as [L1 | L1].
    + replace (Nat.min i a + (i - b)) with i by lia.
      apply boundary_cut_low; assumption.
    + destruct (Nat.lt_ge_cases i b) as [L2 | L2].
      * replace (Nat.min i a + (i - b)) with a by lia.
        apply boundary_cut_low; try assumption. lia.
      * replace (Nat.min i a + (i - b)) with (a + (i - b)) by lia.
        apply boundary_cut_high; assumption.
Qed.

Theorem delete_ranges_boundary : forall s rs i,
  wf_utf8 s = true -> sorted_from 0 rs -> bounded_by (length s) rs -> on_boundaries s rs ->
  i <= length s -> is_boundary s i = true ->
  is_boundary (delete_ranges rs s) (rank (in_rangesb rs) i) = true.
Proof. intros s rs i _ Hs Hbd Hob _ Bi. apply delete_ranges_boundary_gen; assumption. Qed.

(* ------------------------------------------------------------------------- *)
(** * Assumptions *)

Print Assumptions in_rangesb_spec.
Print Assumptions delete_where_ext.
Print Assumptions delete_where_length.
Print Assumptions delete_where_nth.
Print Assumptions delete_where_compose.
Print Assumptions rank_monotone.
Print Assumptions rank_le.
Print Assumptions delete_ranges_rev_sound.
Print Assumptions delete_ranges_rev_ok.
Print Assumptions remove_markers_sound.
Print Assumptions remove_markers_ok.
Print Assumptions sorted_nonempty_sorted.
Print Assumptions delete_ranges_wf.
Print Assumptions delete_ranges_boundary.
Print Assumptions get_removed_pos_ok.
Print Assumptions removed_positions_rank.
Print Assumptions merge_overlapped_separated.
Print Assumptions merge_overlapped_subset.
Print Assumptions merge_overlapped_endpoints.
Print Assumptions separated_sorted.
Print Assumptions sort_ranges_perm.
Print Assumptions merge_ranges_perm.
