(** C18, stage 2b: the front end (tokenizer, tag parser, tree parser) and the collection of
    removable ranges on a rendered document.  The tokens are the items; the parsed tags, the tree
    shape and the forest of removable ranges are images of objects that depend on the abstract
    document only; positions are mapped by [pos ds de (flat doc)]. *)
From Coq Require Import List NArith ZArith Arith Bool Lia PeanoNat.
Import ListNotations.
From Chiri Require Import Base.Bytes Base.Res Model.Tokenizer Model.TagParser Model.TreeParser
  Model.Finders Model.Markers Model.Clean Spec.Rename Spec.Simulation Spec.Stack
  Proofs.ResLemmas Proofs.BytesLemmas Proofs.Utf8 Proofs.TokenizerProofs Proofs.TagProofs
  Proofs.TreeProofs Proofs.RenameProofs Proofs.SimFlat Proofs.SimStrings
  Proofs.C04Proofs Proofs.MarkerProofs Proofs.CollectProofs.

(* ------------------------------------------------------------------------- *)
(** * Mapping positions over ranges and range trees *)

Definition map_range (f : nat -> nat) (r : nat * nat) : nat * nat := (f (fst r), f (snd r)).

Fixpoint map_rtree (f : nat -> nat) (t : rtree) : rtree :=
  match t with
  | RT (h, cl) ch => RT (map_range f h, option_map (map_range f) cl) (map (map_rtree f) ch)
  end.

Definition map_rr (f : nat -> nat) (r : removable_range) : removable_range :=
  (map_range f (fst r), option_map (map_range f) (snd r)).

Lemma map_rtree_RT f r ch : map_rtree f (RT r ch) = RT (map_rr f r) (map (map_rtree f) ch).
Proof. destruct r as [h cl]. reflexivity. Qed.

(* ------------------------------------------------------------------------- *)
(** * (A) The tokens are the items *)

Definition tok0 : token := mkToken false [] 0 0 0 0.
(** The k-th token of a token list (a dummy beyond the end). *)
Definition tokd (ts : list token) (k : nat) : token := nth k ts tok0.

Lemma nth_error_tokd ts k : k < length ts -> nth_error ts k = Some (tokd ts k).
Proof. intros H. apply nth_error_nth'. exact H. Qed.

Lemma tokd_seq ts : ts = map (tokd ts) (seq 0 (length ts)).
Proof.
  apply (nth_ext _ _ tok0 (tokd ts 0)).
  - rewrite map_length, seq_length. reflexivity.
  - intros n Hn.
    rewrite (map_nth (tokd ts) _ 0). rewrite seq_nth by exact Hn. reflexivity.
Qed.

Lemma spans_of_length ds de : forall doc p, length (spans_of ds de p doc) = length doc.
Proof. induction doc as [|i doc IH]; intros p; cbn [spans_of length]; [reflexivity | rewrite IH; reflexivity]. Qed.

Lemma item_start_0 ds de doc : item_start ds de doc 0 = 0.
Proof. destruct doc; reflexivity. Qed.

Lemma spans_of_nth ds de : forall doc p k it, nth_error doc k = Some it ->
  nth_error (spans_of ds de p doc) k =
  Some (kind_of it, p + item_start ds de doc k, p + item_start ds de doc (S k)).
Proof.
  induction doc as [|i doc IH]; intros p k it H; [destruct k; discriminate H|].
  destruct k as [|k].
  - cbn in H. inversion H; subst i. cbn [spans_of nth_error item_start].
    rewrite item_start_0. unfold item_len. rewrite !Nat.add_0_r. destruct it; reflexivity.
  - cbn [nth_error] in H. cbn [spans_of nth_error]. rewrite (IH _ k it H).
    cbn [item_start]. unfold item_len. f_equal. f_equal; [f_equal|]; lia.
Qed.

Lemma render_sub ds de : forall doc k it, nth_error doc k = Some it ->
  sub (render ds de doc) (item_start ds de doc k) (item_start ds de doc (S k)) = render_item ds de it.
Proof.
  induction doc as [|i doc IH]; intros k it H; [destruct k; discriminate H|].
  destruct k as [|k].
  - cbn in H. inversion H; subst i. cbn [item_start render flat_map]. rewrite item_start_0.
    unfold sub, item_len.
    cbn [skipn]. rewrite Nat.add_0_r, Nat.sub_0_r.
    rewrite firstn_app, Nat.sub_diag, firstn_all. cbn [firstn]. apply app_nil_r.
  - cbn [nth_error] in H. specialize (IH k it H). cbn [render flat_map]. fold (render ds de doc).
    unfold sub in *.
    change (item_start ds de (i :: doc) (S k)) with (item_len ds de i + item_start ds de doc k).
    change (item_start ds de (i :: doc) (S (S k))) with (item_len ds de i + item_start ds de doc (S k)).
    unfold item_len. rewrite skipn_app, skipn_all2 by lia. cbn [app].
    replace (length (render_item ds de i) + item_start ds de doc k - length (render_item ds de i))
      with (item_start ds de doc k) by lia.
    replace (length (render_item ds de i) + item_start ds de doc (S k) -
             (length (render_item ds de i) + item_start ds de doc k))
      with (item_start ds de doc (S k) - item_start ds de doc k) by lia.
    exact IH.
Qed.

(** What it means that the tokens are the items. *)
Definition tokens_items (ds de : str) (doc : list item) (ts : list token) : Prop :=
  length ts = length doc /\
  forall k it, nth_error doc k = Some it ->
    tk_elem (tokd ts k) = kind_of it /\
    tk_bstart (tokd ts k) = item_start ds de doc k /\
    tk_bend (tokd ts k) = item_start ds de doc (S k) /\
    tk_value (tokd ts k) = render_item ds de it.

Lemma good_delims_ne ds de : good_delims ds de -> ds <> [] /\ de <> [].
Proof. intros (H1 & H2 & _). split; assumption. Qed.

Theorem tokens_rendered ds de doc ts :
  good_delims ds de -> good_doc ds de doc -> bodies_ok doc ->
  tokenize (render ds de doc) ds de = Ok ts -> tokens_items ds de doc ts.
Proof.
  intros Hg Hd Hb H. destruct (good_delims_ne ds de Hg) as [Nds Nde].
  pose proof Hd as (Hn & Hdj & _).
  pose proof (tokenize_rendered ds de doc ts Nds Nde Hn Hdj Hb H) as E.
  pose proof (tokenize_partition _ _ _ _ H) as (_ & _ & _ & _ & Hok).
  assert (length ts = length doc) as Hlen.
  { rewrite <- (map_length span_of ts), E. apply spans_of_length. }
  split; [exact Hlen|]. intros k it Hk.
  assert (k < length ts) as Hlt by (rewrite Hlen; apply nth_error_Some; congruence).
  pose proof (nth_error_tokd ts k Hlt) as Ht.
  pose proof (spans_of_nth ds de doc 0 k it Hk) as Hs. rewrite <- E, nth_error_map, Ht in Hs.
  cbn [option_map] in Hs. unfold span_of in Hs. cbn [Nat.add] in Hs.
  inversion Hs as [[H1 H2 H3]]. split; [reflexivity|]. split; [reflexivity|]. split; [reflexivity|].
  destruct (Hok _ (nth_error_In _ _ Ht)) as (_ & _ & Hv & _). rewrite Hv, H2, H3.
  apply render_sub. exact Hk.
Qed.

Theorem tokenize_rendered_total ds de doc :
  good_delims ds de -> good_doc ds de doc -> bodies_ok doc ->
  exists ts, tokenize (render ds de doc) ds de = Ok ts /\ tokens_items ds de doc ts.
Proof.
  intros Hg Hd Hb. pose proof Hg as (Nds & Nde & Wds & Wde & _).
  destruct (tokenize_total (render ds de doc) ds de (render_wf ds de doc Hg Hd) Wds Wde Nds Nde) as [ts H].
  exists ts. split; [exact H|]. apply tokens_rendered; assumption.
Qed.

(* ------------------------------------------------------------------------- *)
(** * (B) The parsed tags do not depend on the spelling *)

(** The class of item k: the parsed tag, [None] for texts and for tags that are not elements. *)
Definition acls (doc : list item) (k : nat) : option element :=
  match nth_error doc k with
  | Some (Tag b) => match parse_target b with Ok o => o | Panic => None end
  | _ => None
  end.

Lemma normal_tag_ne : forall doc b, normal doc -> In (Tag b) doc -> b <> [].
Proof.
  induction doc as [|i doc IH]; intros b Hn H; [destruct H|]. destruct H as [H|H].
  - subst i. cbn in Hn. apply Hn.
  - apply IH; [|exact H]. apply (normal_tail i). exact Hn.
Qed.

Theorem tag_parse_total ds de doc b : good_doc ds de doc -> In (Tag b) doc ->
  exists o, parse_target b = Ok o.
Proof. intros (_ & _ & _ & Hw) Hin. apply parse_target_total. apply Hw. exact Hin. Qed.

Theorem parse_token_rendered ds de doc ts k :
  good_delims ds de -> good_doc ds de doc -> tokens_items ds de doc ts -> k < length doc ->
  parse_token ds de (tokd ts k) = Ok (acls doc k) /\
  match nth_error doc k with
  | Some (Tag b) => parse_token ds de (tokd ts k) = parse_target b
  | _ => parse_token ds de (tokd ts k) = Ok None
  end.
Proof.
  intros Hg Hd [_ Ht] Hk. destruct (good_delims_ne ds de Hg) as [Nds Nde].
  destruct (nth_error doc k) as [it|] eqn:N; [|apply nth_error_None in N; lia].
  destruct (Ht k it N) as (He & _ & _ & Hv). unfold acls, parse_token. rewrite N, He, Hv.
  destruct it as [t|b]; cbn [kind_of render_item]; [split; reflexivity|].
  pose proof (nth_error_In _ _ N) as Hin. pose proof Hd as (Hn & Hdj & _).
  rewrite (parse_value_rendered ds de b Nds Nde (normal_tag_ne doc b Hn Hin) (Hdj _ Hin)).
  destruct (tag_parse_total ds de doc b Hd Hin) as [o ->]. split; reflexivity.
Qed.

Corollary cls_of_rendered ds de doc ts k :
  good_delims ds de -> good_doc ds de doc -> tokens_items ds de doc ts -> k < length doc ->
  cls_of ds de (tokd ts k) = acls doc k.
Proof.
  intros Hg Hd Ht Hk. unfold cls_of.
  destruct (parse_token_rendered ds de doc ts k Hg Hd Ht Hk) as [-> _]. reflexivity.
Qed.

(* ------------------------------------------------------------------------- *)
(** * (C) The tree: the stack machine of Spec/Stack.v on item indices *)

Inductive apart :=
| AElem (el : element) (open close : nat) (children : list apart)
| AText (k : nat).

Fixpoint apart_ind' (P : apart -> Prop)
         (HT : forall k, P (AText k))
         (HE : forall el o c ch, Forall P ch -> P (AElem el o c ch))
         (p : apart) : P p :=
  match p with
  | AText k => HT k
  | AElem el o c ch =>
    HE el o c ch
       ((fix go (l : list apart) : Forall P l :=
           match l with
           | [] => Forall_nil P
           | x :: l' => Forall_cons x (apart_ind' P HT HE x) (go l')
           end) ch)
  end.

Record aframe := mkAFrame {
  af_idx : nat;                 (* the index of the opening tag *)
  af_el : element;              (* its parsed tag *)
  af_children : list apart
}.

Definition amstate := (list aframe * list apart)%type.

Definition apush_parts (st : amstate) (ps : list apart) : amstate :=
  match st with
  | ([], root) => ([], root ++ ps)
  | (f :: fs, root) => (mkAFrame (af_idx f) (af_el f) (af_children f ++ ps) :: fs, root)
  end.

Fixpoint aclose_frame (name : str) (k : nat) (stack : list aframe) (root : list apart)
         (carry : list apart) : amstate :=
  match stack with
  | [] => ([], root ++ carry)
  | f :: fs =>
    let children := af_children f ++ carry in
    if str_eqb (el_name (af_el f)) name
    then apush_parts (fs, root) [AElem (af_el f) (af_idx f) k children]
    else aclose_frame name k fs root (AText (af_idx f) :: children)
  end.

Definition ais_closer (el : element) (stack : list aframe) : bool :=
  starts_with_slash (el_name el)
  && existsb (fun f => str_eqb (el_name (af_el f)) (trim_slashes (el_name el))) stack.

Definition amstep (cls : nat -> option element) (st : amstate) (k : nat) : amstate :=
  match cls k with
  | None => apush_parts st [AText k]
  | Some el =>
    if ais_closer el (fst st)
    then aclose_frame (trim_slashes (el_name el)) k (fst st) (snd st) []
    else (mkAFrame k el [] :: fst st, snd st)
  end.

Fixpoint afinish (stack : list aframe) (root : list apart) (carry : list apart) : list apart :=
  match stack with
  | [] => root ++ carry
  | f :: fs => afinish fs root (AText (af_idx f) :: af_children f ++ carry)
  end.

Definition astack_run (cls : nat -> option element) (idxs : list nat) : list apart :=
  let '(stack, root) := fold_left (amstep cls) idxs ([], []) in afinish stack root [].

Definition astack_tree (cls : nat -> option element) (n : nat) : list apart :=
  astack_run cls (seq 0 n).

(** Instantiation: an index becomes a token. *)
Fixpoint part_of (tok : nat -> token) (p : apart) : part :=
  match p with
  | AText k => PText (tok k)
  | AElem el o c ch => PElem el (tok o) (tok c) (map (part_of tok) ch)
  end.

Definition frame_of (tok : nat -> token) (f : aframe) : frame :=
  mkFrame (tok (af_idx f)) (af_el f) (map (part_of tok) (af_children f)).
Definition state_of (tok : nat -> token) (st : amstate) : mstate :=
  (map (frame_of tok) (fst st), map (part_of tok) (snd st)).

Lemma push_parts_of tok st ps :
  push_parts (state_of tok st) (map (part_of tok) ps) = state_of tok (apush_parts st ps).
Proof.
  destruct st as [[|f fs] root]; unfold state_of; cbn [fst snd map push_parts apush_parts].
  - rewrite map_app. reflexivity.
  - unfold frame_of. cbn [fr_tok fr_el fr_children af_idx af_el af_children].
    rewrite map_app. reflexivity.
Qed.

Lemma close_frame_of tok name k : forall stack root carry,
  close_frame name (tok k) (map (frame_of tok) stack) (map (part_of tok) root) (map (part_of tok) carry)
  = state_of tok (aclose_frame name k stack root carry).
Proof.
  induction stack as [|f fs IH]; intros root carry; cbn [map close_frame aclose_frame].
  - unfold state_of. cbn [fst snd map]. rewrite map_app. reflexivity.
  - change (fr_el (frame_of tok f)) with (af_el f).
    change (fr_tok (frame_of tok f)) with (tok (af_idx f)).
    change (fr_children (frame_of tok f)) with (map (part_of tok) (af_children f)).
    destruct (str_eqb (el_name (af_el f)) name).
    + change (map (frame_of tok) fs, map (part_of tok) root) with (state_of tok (fs, root)).
      rewrite <- push_parts_of. cbn [map part_of]. rewrite map_app. reflexivity.
    + rewrite <- IH. cbn [map part_of]. rewrite map_app. reflexivity.
Qed.

Lemma is_closer_of tok el stack : is_closer el (map (frame_of tok) stack) = ais_closer el stack.
Proof.
  unfold is_closer, ais_closer. f_equal. induction stack as [|f fs IH]; [reflexivity|].
  cbn [map existsb]. rewrite IH. reflexivity.
Qed.

Lemma mstep_of tok cls acls' st k : cls (tok k) = acls' k ->
  mstep cls (state_of tok st) (tok k) = state_of tok (amstep acls' st k).
Proof.
  intros E. unfold mstep, amstep. rewrite E. destruct (acls' k) as [el|].
  - unfold state_of at 1 2 3. cbn [fst snd]. rewrite is_closer_of.
    destruct (ais_closer el (fst st)).
    + apply (close_frame_of tok _ k (fst st) (snd st) []).
    + reflexivity.
  - apply (push_parts_of tok st [AText k]).
Qed.

Lemma fold_mstep_of tok cls acls' : forall idxs st,
  (forall k, In k idxs -> cls (tok k) = acls' k) ->
  fold_left (mstep cls) (map tok idxs) (state_of tok st)
  = state_of tok (fold_left (amstep acls') idxs st).
Proof.
  induction idxs as [|k idxs IH]; intros st H; [reflexivity|].
  cbn [map fold_left]. rewrite (mstep_of tok cls acls' st k) by (apply H; left; reflexivity).
  apply IH. intros j Hj. apply H. right. exact Hj.
Qed.

Lemma finish_of tok : forall stack root carry,
  finish (map (frame_of tok) stack) (map (part_of tok) root) (map (part_of tok) carry)
  = map (part_of tok) (afinish stack root carry).
Proof.
  induction stack as [|f fs IH]; intros root carry; cbn [map finish afinish].
  - rewrite map_app. reflexivity.
  - change (fr_tok (frame_of tok f)) with (tok (af_idx f)).
    change (fr_children (frame_of tok f)) with (map (part_of tok) (af_children f)).
    rewrite <- IH. cbn [map part_of]. rewrite map_app. reflexivity.
Qed.

(** The machines run in lock step. *)
Theorem stack_tree_of tok cls acls' idxs :
  (forall k, In k idxs -> cls (tok k) = acls' k) ->
  stack_tree cls (map tok idxs) = map (part_of tok) (astack_run acls' idxs).
Proof.
  intros H. unfold stack_tree, astack_run.
  change (@nil frame, @nil part) with (state_of tok ([], [])).
  rewrite (fold_mstep_of tok cls acls' idxs _ H).
  destruct (fold_left (amstep acls') idxs ([], [])) as [stack root].
  unfold state_of. cbn [fst snd]. apply (finish_of tok stack root []).
Qed.

Theorem front_end_rendered ds de doc ts :
  good_delims ds de -> good_doc ds de doc -> bodies_ok doc ->
  tokenize (render ds de doc) ds de = Ok ts ->
  front_end ds de (render ds de doc) =
  Ok (map (part_of (tokd ts)) (astack_tree (acls doc) (length doc))).
Proof.
  intros Hg Hd Hb H. pose proof (tokens_rendered ds de doc ts Hg Hd Hb H) as Ht.
  unfold front_end. rewrite H. cbn [bind].
  assert (forall t, In t ts -> exists k, k < length doc /\ t = tokd ts k) as Hin.
  { intros t Hi. destruct (In_nth_error _ _ Hi) as [k Hk]. exists k.
    assert (k < length ts) as Hlt by (apply nth_error_Some; congruence).
    split; [destruct Ht as [<- _]; exact Hlt|]. rewrite (nth_error_tokd ts k Hlt) in Hk. congruence. }
  rewrite parse_tree_stack.
  2:{ intros t Hi. destruct (Hin t Hi) as (k & Hk & ->). exists (acls doc k).
      apply (parse_token_rendered ds de doc ts k Hg Hd Ht Hk). }
  f_equal. rewrite (tokd_seq ts) at 1. destruct Ht as [Hlen Ht']. rewrite Hlen.
  apply stack_tree_of. intros k Hk. apply in_seq in Hk.
  apply (cls_of_rendered ds de doc ts k Hg Hd (conj Hlen Ht')). lia.
Qed.

(** ** All indices of the abstract tree are indices of the input *)

Fixpoint aidxs (p : apart) : list nat :=
  match p with
  | AText k => [k]
  | AElem _ o c ch => o :: c :: flat_map aidxs ch
  end.

Definition ps_ok (P : nat -> Prop) (ps : list apart) : Prop := Forall P (flat_map aidxs ps).
Definition fr_ok (P : nat -> Prop) (f : aframe) : Prop := P (af_idx f) /\ ps_ok P (af_children f).
Definition st_ok (P : nat -> Prop) (st : amstate) : Prop := Forall (fr_ok P) (fst st) /\ ps_ok P (snd st).

Lemma ps_ok_app P a b : ps_ok P (a ++ b) <-> ps_ok P a /\ ps_ok P b.
Proof. unfold ps_ok. rewrite flat_map_app. apply Forall_app. Qed.

Lemma ps_ok_cons P x ps : ps_ok P (x :: ps) <-> Forall P (aidxs x) /\ ps_ok P ps.
Proof. unfold ps_ok. cbn [flat_map]. apply Forall_app. Qed.

Lemma ps_ok_nil P : ps_ok P [].
Proof. constructor. Qed.

Lemma apush_ok P st ps : st_ok P st -> ps_ok P ps -> st_ok P (apush_parts st ps).
Proof.
  destruct st as [[|f fs] root]; intros [H1 H2] Hp; cbn [fst snd] in *; unfold st_ok; cbn [apush_parts fst snd].
  - split; [constructor|]. apply ps_ok_app. split; assumption.
  - inversion H1 as [|? ? [F1 F2] F3]; subst. split; [|exact H2]. constructor; [|exact F3].
    split; [exact F1|]. cbn [af_children]. apply ps_ok_app. split; assumption.
Qed.

Lemma aclose_ok (P : nat -> Prop) name k : P k -> forall stack root carry,
  Forall (fr_ok P) stack -> ps_ok P root -> ps_ok P carry ->
  st_ok P (aclose_frame name k stack root carry).
Proof.
  intros Hk. induction stack as [|f fs IH]; intros root carry Hs Hr Hc; cbn [aclose_frame].
  - split; [constructor|]. cbn [snd]. apply ps_ok_app. split; assumption.
  - inversion Hs as [|? ? [F1 F2] F3]; subst.
    assert (ps_ok P (af_children f ++ carry)) as Hch by (apply ps_ok_app; split; assumption).
    destruct (str_eqb (el_name (af_el f)) name).
    + apply apush_ok; [split; assumption|]. apply ps_ok_cons. split; [|apply ps_ok_nil].
      cbn [aidxs]. constructor; [exact F1|]. constructor; [exact Hk | exact Hch].
    + apply IH; [exact F3 | exact Hr |]. apply ps_ok_cons. split; [|exact Hch].
      cbn [aidxs]. constructor; [exact F1 | constructor].
Qed.

Lemma amstep_ok (P : nat -> Prop) cls st k : P k -> st_ok P st -> st_ok P (amstep cls st k).
Proof.
  intros Hk Hst. unfold amstep. destruct (cls k) as [el|].
  - destruct (ais_closer el (fst st)).
    + destruct Hst as [H1 H2]. apply aclose_ok; try assumption. apply ps_ok_nil.
    + destruct Hst as [H1 H2]. split; [|exact H2]. cbn [fst]. constructor; [|exact H1].
      split; [exact Hk | apply ps_ok_nil].
  - apply apush_ok; [exact Hst|]. apply ps_ok_cons. split; [|apply ps_ok_nil].
    cbn [aidxs]. constructor; [exact Hk | constructor].
Qed.

Lemma afinish_ok (P : nat -> Prop) : forall stack root carry,
  Forall (fr_ok P) stack -> ps_ok P root -> ps_ok P carry -> ps_ok P (afinish stack root carry).
Proof.
  induction stack as [|f fs IH]; intros root carry Hs Hr Hc; cbn [afinish].
  - apply ps_ok_app. split; assumption.
  - inversion Hs as [|? ? [F1 F2] F3]; subst. apply IH; [exact F3 | exact Hr |].
    apply ps_ok_cons. split; [cbn [aidxs]; constructor; [exact F1 | constructor]|].
    apply ps_ok_app. split; assumption.
Qed.

Theorem astack_run_idxs (P : nat -> Prop) cls idxs : Forall P idxs -> ps_ok P (astack_run cls idxs).
Proof.
  intros H. unfold astack_run.
  assert (forall l st, Forall P l -> st_ok P st -> st_ok P (fold_left (amstep cls) l st)) as Hf.
  { induction l as [|k l IH]; intros st Hl Hst; [exact Hst|]. cbn [fold_left].
    inversion Hl; subst. apply IH; [assumption|]. apply amstep_ok; assumption. }
  specialize (Hf idxs ([], []) H (conj (Forall_nil _) (ps_ok_nil P))).
  destruct (fold_left (amstep cls) idxs ([], [])) as [stack root]. destruct Hf as [H1 H2].
  apply afinish_ok; [exact H1 | exact H2 | apply ps_ok_nil].
Qed.

Corollary astack_tree_idxs cls n : ps_ok (fun k => k < n) (astack_tree cls n).
Proof.
  apply astack_run_idxs. apply Forall_forall. intros k Hk. apply in_seq in Hk. lia.
Qed.

(* ------------------------------------------------------------------------- *)
(** * (D) Element ranges are images of abstract ranges *)

Lemma fstart_le doc k : fstart doc k <= length (flat doc).
Proof.
  unfold fstart. rewrite <- (firstn_skipn k doc) at 2. rewrite flat_app, app_length. lia.
Qed.

Lemma pos_fstart ds de doc k : k <= length doc ->
  pos ds de (flat doc) (fstart doc k) = item_start ds de doc k.
Proof.
  intros Hk. unfold pos, fstart. rewrite <- (firstn_skipn k doc) at 2.
  rewrite flat_app, firstn_app, firstn_all, Nat.sub_diag. cbn [firstn]. rewrite app_nil_r.
  rewrite rs_flat. symmetry. apply item_start_eq. exact Hk.
Qed.

Lemma token_pos ds de doc ts k : tokens_items ds de doc ts -> k < length doc ->
  tk_bstart (tokd ts k) = pos ds de (flat doc) (fstart doc k) /\
  tk_bend (tokd ts k) = pos ds de (flat doc) (fstart doc (S k)).
Proof.
  intros [_ Ht] Hk. destruct (nth_error doc k) as [it|] eqn:N; [|apply nth_error_None in N; lia].
  destruct (Ht k it N) as (_ & H1 & H2 & _). rewrite H1, H2, !pos_fstart by lia. split; reflexivity.
Qed.

(** Two line breaks forwards / backwards (the unwrap-block strategy does not pause). *)
Definition a_ub_end (l : list sym) (j : nat) : option nat :=
  match a_next_lb l j false with Some p => a_next_lb l (S p) false | None => None end.
Definition a_ub_start (l : list sym) (j : nat) : option nat :=
  match a_prev_lb l j false with Some p => a_prev_lb l p false | None => None end.

Definition a_unwrap (l : list sym) (sb se eb ee : nat) : removable_range :=
  match a_ub_end l se, a_ub_start l eb with
  | Some e, Some s =>
    if e <? s then ((sb, e), Some (S s, ee))
    else if s =? e then ((sb, ee), None)
    else ((sb, sb), None)
  | _, _ => ((sb, sb), None)
  end.

(** The abstract range of the element opened by item [o] and closed by item [c], over indices
    into [flat doc]. *)
Definition a_create (doc : list item) (el : element) (o c : nat) : removable_range :=
  if has_attr S_UNWRAP (el_attrs el)
  then a_unwrap (flat doc) (fstart doc o) (fstart doc (S o)) (fstart doc c) (fstart doc (S c))
  else ((fstart doc o, fstart doc (S c)), None).

Lemma ub_end_flat ds de l j : sp_ok ds de -> head_ok l -> j <= length l ->
  match find_next_lb (rs ds de l) (pos ds de l j) false with
  | Some p => find_next_lb (rs ds de l) (p + 1) false
  | None => None
  end = option_map (pos ds de l) (a_ub_end l j).
Proof.
  intros Hsp Hh Hj. unfold a_ub_end. rewrite (next_lb_flat ds de l j false Hsp Hh Hj).
  destruct (a_next_lb l j false) as [p|] eqn:F; [|reflexivity]. cbn [option_map].
  apply a_next_lb_some in F. destruct F as (F1 & F2 & F3 & _).
  rewrite (pos_after_nl ds de l p F3). apply next_lb_flat; try assumption; lia.
Qed.

Lemma ub_start_flat ds de l j : sp_ok ds de -> head_ok l -> j <= length l ->
  match find_prev_lb (rs ds de l) (pos ds de l j) false with
  | Some p => find_prev_lb (rs ds de l) p false
  | None => None
  end = option_map (pos ds de l) (a_ub_start l j).
Proof.
  intros Hsp Hh Hj. unfold a_ub_start. rewrite (prev_lb_flat ds de l false Hsp Hh j Hj).
  destruct (a_prev_lb l j false) as [p|] eqn:F; [|reflexivity]. cbn [option_map].
  apply a_prev_lb_some in F. destruct F as (F1 & _).
  apply prev_lb_flat; try assumption. lia.
Qed.

Lemma a_ub_end_some l j e : a_ub_end l j = Some e -> e < length l.
Proof.
  unfold a_ub_end. destruct (a_next_lb l j false) as [p|]; [|discriminate].
  intros H. apply a_next_lb_some in H. apply H.
Qed.

Lemma a_ub_start_some l j s : a_ub_start l j = Some s ->
  S s < j /\ nth_error l s = Some (B NL).
Proof.
  unfold a_ub_start. destruct (a_prev_lb l j false) as [p|] eqn:F; [|discriminate].
  intros H. apply a_prev_lb_some in F. apply a_prev_lb_some in H.
  destruct F as (F1 & _). destruct H as (H1 & H2 & _). split; [lia | exact H2].
Qed.

Theorem unwrap_flat ds de l st et sb se eb ee : sp_ok ds de -> head_ok l ->
  sb <= length l -> se <= length l -> eb <= length l -> ee <= length l ->
  tk_bstart st = pos ds de l sb -> tk_bend st = pos ds de l se ->
  tk_bstart et = pos ds de l eb -> tk_bend et = pos ds de l ee ->
  unwrap_build (rs ds de l) st et = map_rr (pos ds de l) (a_unwrap l sb se eb ee).
Proof.
  intros Hsp Hh Lsb Lse Leb Lee Esb Ese Eeb Eee. pose proof (sp_ok_ne ds de Hsp) as Hne.
  unfold unwrap_build, a_unwrap. rewrite Ese, Eeb, Esb, Eee.
  rewrite (ub_end_flat ds de l se Hsp Hh Lse), (ub_start_flat ds de l eb Hsp Hh Leb).
  destruct (a_ub_end l se) as [e|] eqn:F1; cbn [option_map]; [|reflexivity].
  destruct (a_ub_start l eb) as [s|] eqn:F2; cbn [option_map]; [|reflexivity].
  apply a_ub_end_some in F1. apply a_ub_start_some in F2. destruct F2 as [F2 F3].
  rewrite (pos_ltb ds de l e s Hne) by lia. rewrite (pos_eqb ds de l s e Hne) by lia.
  rewrite (pos_after_nl ds de l s F3).
  destruct (e <? s); [reflexivity|]. destruct (s =? e); reflexivity.
Qed.

Theorem create_rendered ds de doc ts el o c :
  good_delims ds de -> good_doc ds de doc -> tokens_items ds de doc ts ->
  o < length doc -> c < length doc ->
  create (render ds de doc) el (tokd ts o) (tokd ts c) =
  map_rr (pos ds de (flat doc)) (a_create doc el o c).
Proof.
  intros Hg Hd Ht Ho Hc.
  destruct (token_pos ds de doc ts o Ht Ho) as [O1 O2].
  destruct (token_pos ds de doc ts c Ht Hc) as [C1 C2].
  unfold create, a_create. destruct (has_attr S_UNWRAP (el_attrs el)).
  - rewrite <- rs_flat.
    apply unwrap_flat; try assumption; try apply fstart_le.
    + apply good_delims_sp_ok. exact Hg.
    + apply (flat_head_ok ds de); [exact Hg | apply (good_doc_wf ds de); exact Hd].
  - unfold map_rr, map_range. cbn [fst snd option_map]. rewrite O1, C2. reflexivity.
Qed.

(** Bounds: every position of an abstract range is an index into (or the length of) the list. *)
Definition rr_positions (r : removable_range) : list nat :=
  fst (fst r) :: snd (fst r) :: match snd r with Some c => [fst c; snd c] | None => [] end.
Fixpoint rtree_positions (t : rtree) : list nat :=
  match t with RT r ch => rr_positions r ++ flat_map rtree_positions ch end.
Definition forest_positions (f : list rtree) : list nat := flat_map rtree_positions f.

Lemma a_unwrap_bound l sb se eb ee : sb <= length l -> eb <= length l -> ee <= length l ->
  Forall (fun p => p <= length l) (rr_positions (a_unwrap l sb se eb ee)).
Proof.
  intros Lsb Leb Lee. unfold a_unwrap.
  destruct (a_ub_end l se) as [e|] eqn:F1.
  2:{ repeat constructor; cbn; lia. }
  destruct (a_ub_start l eb) as [s|] eqn:F2.
  2:{ repeat constructor; cbn; lia. }
  apply a_ub_end_some in F1. apply a_ub_start_some in F2. destruct F2 as [F2 _].
  destruct (e <? s); [|destruct (s =? e)]; repeat constructor; cbn; lia.
Qed.

Theorem a_create_bound doc el o c :
  Forall (fun p => p <= length (flat doc)) (rr_positions (a_create doc el o c)).
Proof.
  unfold a_create. destruct (has_attr S_UNWRAP (el_attrs el)).
  - apply a_unwrap_bound; apply fstart_le.
  - unfold rr_positions. cbn [fst snd]. repeat constructor; apply fstart_le.
Qed.

(** The abstract range in terms of the finders of SimStrings.v (over abstract positions). *)
Lemma a_ub_end_afind doc a : xvalid doc a ->
  option_map (apos_of doc) (a_ub_end (flat doc) (aidx doc a)) =
  match afind_next_lb doc a false with
  | Some b => afind_next_lb doc (anext doc b) false
  | None => None
  end.
Proof.
  intros Hv. unfold a_ub_end, afind_next_lb.
  destruct (a_next_lb (flat doc) (aidx doc a) false) as [p|] eqn:F; [|reflexivity]. cbn [option_map].
  apply a_next_lb_some in F. destruct F as (_ & F2 & F3 & _).
  destruct (apos_of_spec doc p ltac:(lia)) as [V1 V2].
  assert (at_byte doc (apos_of doc p) NL) as Hb by (unfold at_byte; rewrite V2; exact F3).
  destruct (anext_spec doc _ NL V1 Hb) as (_ & N2 & _). rewrite N2, V2. reflexivity.
Qed.

Lemma a_ub_start_afind doc a : xvalid doc a ->
  option_map (apos_of doc) (a_ub_start (flat doc) (aidx doc a)) =
  match afind_prev_lb doc a false with
  | Some b => afind_prev_lb doc b false
  | None => None
  end.
Proof.
  intros Hv. unfold a_ub_start, afind_prev_lb.
  destruct (a_prev_lb (flat doc) (aidx doc a) false) as [p|] eqn:F; [|reflexivity]. cbn [option_map].
  apply a_prev_lb_some in F. destruct F as (F1 & _). pose proof (aidx_le doc a Hv).
  destruct (apos_of_spec doc p ltac:(lia)) as [_ V2]. rewrite V2. reflexivity.
Qed.

(* ------------------------------------------------------------------------- *)
(** * (E) The forest of removable ranges *)

Definition a_element_range (cfg : config) (doc : list item) (pending : bool)
           (el : element) (o c : nat) : option (removable_range * bool) :=
  let r :=
    match status cfg el with
    | Some true => Some (a_create doc el o c, true)
    | Some false => if pending then Some (a_create doc el o c, false) else None
    | None => None
    end in
  match r with
  | Some (((a, b), closed), is_removal) => if a <? b then r else None
  | None => None
  end.

Fixpoint a_collect_part (cfg : config) (doc : list item) (pending : bool) (p : apart)
  : list rtree * list rtree :=
  match p with
  | AText _ => ([], [])
  | AElem el o c children =>
    let ch := flat_map (fun x => fst (a_collect_part cfg doc pending x)) children in
    let pch := flat_map (fun x => snd (a_collect_part cfg doc pending x)) children in
    match a_element_range cfg doc pending el o c with
    | Some (r, true) => ([RT r ch], pch)
    | Some (r, false) => (ch, [RT r pch])
    | None => (ch, pch)
    end
  end.

(** The abstract forest: depends on the configuration and the document only. *)
Definition a_collect (cfg : config) (doc : list item) (pending : bool) : list rtree * list rtree :=
  let parts := astack_tree (acls doc) (length doc) in
  (flat_map (fun x => fst (a_collect_part cfg doc pending x)) parts,
   flat_map (fun x => snd (a_collect_part cfg doc pending x)) parts).

Lemma element_range_rendered cfg ds de doc ts pending el o c :
  good_delims ds de -> good_doc ds de doc -> tokens_items ds de doc ts ->
  o < length doc -> c < length doc ->
  element_range cfg (render ds de doc) pending el (tokd ts o) (tokd ts c) =
  option_map (fun rb => (map_rr (pos ds de (flat doc)) (fst rb), snd rb))
             (a_element_range cfg doc pending el o c).
Proof.
  intros Hg Hd Ht Ho Hc. unfold element_range, a_element_range.
  rewrite (create_rendered ds de doc ts el o c Hg Hd Ht Ho Hc).
  pose proof (a_create_bound doc el o c) as Hb.
  destruct (a_create doc el o c) as [[a b] cl]. unfold rr_positions in Hb. cbn [fst snd] in Hb.
  inversion Hb as [|? ? Ha Hb']; subst. inversion Hb' as [|? ? Hb2 _]; subst.
  unfold map_rr, map_range. cbn [fst snd].
  destruct (status cfg el) as [[|]|]; [| destruct pending |]; try reflexivity;
    rewrite (pos_ltb ds de _ a b (good_ne2 ds de Hg) Ha Hb2); destruct (a <? b); reflexivity.
Qed.

Lemma flat_map_map_Forall {A B C D} (g : B -> list C) (h : A -> B) (F : D -> C) (g' : A -> list D) l :
  Forall (fun x => g (h x) = map F (g' x)) l ->
  flat_map g (map h l) = map F (flat_map g' l).
Proof.
  induction 1 as [|x l Hx _ IH]; [reflexivity|].
  cbn [map flat_map]. rewrite map_app, Hx, IH. reflexivity.
Qed.

Theorem collect_part_rendered cfg ds de doc ts pending :
  good_delims ds de -> good_doc ds de doc -> tokens_items ds de doc ts ->
  forall p, Forall (fun k => k < length doc) (aidxs p) ->
  collect_part cfg (render ds de doc) pending (part_of (tokd ts) p) =
  (map (map_rtree (pos ds de (flat doc))) (fst (a_collect_part cfg doc pending p)),
   map (map_rtree (pos ds de (flat doc))) (snd (a_collect_part cfg doc pending p))).
Proof.
  intros Hg Hd Ht. induction p as [k | el o c ch IH] using apart_ind'; intros Hb; [reflexivity|].
  cbn [aidxs] in Hb. inversion Hb as [|? ? Ho Hb']; subst. inversion Hb' as [|? ? Hc Hch]; subst.
  apply Forall_flat_map in Hch.
  cbn [part_of]. rewrite collect_part_elem.
  rewrite (element_range_rendered cfg ds de doc ts pending el o c Hg Hd Ht Ho Hc).
  assert (flat_map (cfst cfg (render ds de doc) pending) (map (part_of (tokd ts)) ch) =
          map (map_rtree (pos ds de (flat doc)))
              (flat_map (fun x => fst (a_collect_part cfg doc pending x)) ch)) as E1.
  { apply flat_map_map_Forall. rewrite Forall_forall in *. intros x Hx. unfold cfst.
    rewrite (IH x Hx (Hch x Hx)). reflexivity. }
  assert (flat_map (csnd cfg (render ds de doc) pending) (map (part_of (tokd ts)) ch) =
          map (map_rtree (pos ds de (flat doc)))
              (flat_map (fun x => snd (a_collect_part cfg doc pending x)) ch)) as E2.
  { apply flat_map_map_Forall. rewrite Forall_forall in *. intros x Hx. unfold csnd.
    rewrite (IH x Hx (Hch x Hx)). reflexivity. }
  rewrite E1, E2. cbn [a_collect_part].
  destruct (a_element_range cfg doc pending el o c) as [[r [|]]|]; cbn [option_map fst snd map];
    rewrite ?map_rtree_RT; reflexivity.
Qed.

Theorem collect_rendered : forall cfg ds de doc pending,
  good_delims ds de -> good_doc ds de doc -> bodies_ok doc ->
  exists parts, front_end ds de (render ds de doc) = Ok parts /\
    fst (collect cfg (render ds de doc) pending parts) =
      map (map_rtree (pos ds de (flat doc))) (fst (a_collect cfg doc pending)) /\
    snd (collect cfg (render ds de doc) pending parts) =
      map (map_rtree (pos ds de (flat doc))) (snd (a_collect cfg doc pending)).
Proof.
  intros cfg ds de doc pending Hg Hd Hb.
  destruct (tokenize_rendered_total ds de doc Hg Hd Hb) as (ts & H & Ht).
  exists (map (part_of (tokd ts)) (astack_tree (acls doc) (length doc))).
  split; [apply front_end_rendered; assumption|].
  rewrite collect_eq. cbn [fst snd]. unfold a_collect. cbn [fst snd].
  pose proof (astack_tree_idxs (acls doc) (length doc)) as Hi. unfold ps_ok in Hi.
  apply Forall_flat_map in Hi.
  split; apply flat_map_map_Forall; rewrite Forall_forall in *; intros x Hx;
    [unfold cfst | unfold csnd];
    rewrite (collect_part_rendered cfg ds de doc ts pending Hg Hd Ht x (Hi x Hx)); reflexivity.
Qed.

(** All positions of the abstract forest lie within the symbol list. *)
Lemma a_element_range_some cfg doc pending el o c r b :
  a_element_range cfg doc pending el o c = Some (r, b) -> r = a_create doc el o c.
Proof.
  unfold a_element_range.
  destruct (status cfg el) as [[|]|]; [| destruct pending |]; try discriminate;
    destruct (a_create doc el o c) as [[a b'] cl]; (destruct (a <? b'); [|discriminate]);
    intros H; inversion H; reflexivity.
Qed.

Lemma forest_positions_flat_map {A} (Q : nat -> Prop) (g : A -> list rtree) l :
  Forall (fun x => Forall Q (forest_positions (g x))) l ->
  Forall Q (forest_positions (flat_map g l)).
Proof.
  induction 1 as [|x l Hx _ IH]; [constructor|].
  cbn [flat_map]. unfold forest_positions in *. rewrite flat_map_app. apply Forall_app. split; assumption.
Qed.

Lemma a_collect_part_bound cfg doc pending p :
  Forall (fun q => q <= length (flat doc)) (forest_positions (fst (a_collect_part cfg doc pending p))) /\
  Forall (fun q => q <= length (flat doc)) (forest_positions (snd (a_collect_part cfg doc pending p))).
Proof.
  induction p as [k | el o c ch IH] using apart_ind'; [split; constructor|].
  cbn [a_collect_part].
  assert (Forall (fun q => q <= length (flat doc))
            (forest_positions (flat_map (fun x => fst (a_collect_part cfg doc pending x)) ch))) as E1.
  { apply forest_positions_flat_map. rewrite Forall_forall in *. intros x Hx. apply (IH x Hx). }
  assert (Forall (fun q => q <= length (flat doc))
            (forest_positions (flat_map (fun x => snd (a_collect_part cfg doc pending x)) ch))) as E2.
  { apply forest_positions_flat_map. rewrite Forall_forall in *. intros x Hx. apply (IH x Hx). }
  destruct (a_element_range cfg doc pending el o c) as [[r [|]]|] eqn:Er; cbn [fst snd];
    try (split; assumption);
    apply a_element_range_some in Er; subst r; (split; [|try assumption]); try assumption;
    unfold forest_positions; cbn [flat_map rtree_positions]; rewrite app_nil_r;
    (apply Forall_app; split; [apply a_create_bound | assumption]).
Qed.

Theorem a_collect_bound cfg doc pending :
  Forall (fun q => q <= length (flat doc)) (forest_positions (fst (a_collect cfg doc pending))) /\
  Forall (fun q => q <= length (flat doc)) (forest_positions (snd (a_collect cfg doc pending))).
Proof.
  unfold a_collect. cbn [fst snd].
  split; apply forest_positions_flat_map; apply Forall_forall; intros x _;
    apply (a_collect_part_bound cfg doc pending x).
Qed.

(* ------------------------------------------------------------------------- *)
(** * The same statement with [cpos], and for two spellings *)

Lemma map_rtree_ext f g t : (forall p, In p (rtree_positions t) -> f p = g p) ->
  map_rtree f t = map_rtree g t.
Proof.
  induction t as [[h cl] ch IH] using rtree_ind'. intros H.
  cbn [map_rtree]. f_equal.
  - unfold map_range. f_equal.
    + rewrite !(H (fst h)), !(H (snd h)) by (cbn; auto). reflexivity.
    + destruct cl as [c|]; [|reflexivity]. cbn [option_map]. unfold map_range.
      rewrite !(H (fst c)), !(H (snd c)) by (cbn; auto). reflexivity.
  - apply map_ext_Forall. rewrite Forall_forall in *. intros x Hx. apply (IH x Hx).
    intros p Hp. apply H. cbn [rtree_positions]. apply in_or_app. right.
    apply in_flat_map. exists x. split; assumption.
Qed.

Lemma map_forest_ext f g l : (forall p, In p (forest_positions l) -> f p = g p) ->
  map (map_rtree f) l = map (map_rtree g) l.
Proof.
  intros H. apply map_ext_Forall. apply Forall_forall. intros t Ht. apply map_rtree_ext.
  intros p Hp. apply H. unfold forest_positions. apply in_flat_map. exists t. split; assumption.
Qed.

(** [pos] on an index is [cpos] of the abstract position at that index. *)
Corollary collect_rendered_cpos : forall cfg ds de doc pending,
  good_delims ds de -> good_doc ds de doc -> bodies_ok doc ->
  exists parts, front_end ds de (render ds de doc) = Ok parts /\
    fst (collect cfg (render ds de doc) pending parts) =
      map (map_rtree (fun j => cpos ds de doc (apos_of doc j))) (fst (a_collect cfg doc pending)) /\
    snd (collect cfg (render ds de doc) pending parts) =
      map (map_rtree (fun j => cpos ds de doc (apos_of doc j))) (snd (a_collect cfg doc pending)).
Proof.
  intros cfg ds de doc pending Hg Hd Hb.
  destruct (collect_rendered cfg ds de doc pending Hg Hd Hb) as (parts & H1 & H2 & H3).
  destruct (a_collect_bound cfg doc pending) as [B1 B2]. rewrite Forall_forall in B1, B2.
  exists parts. split; [exact H1|]. split.
  - rewrite H2. apply map_forest_ext. intros p Hp. symmetry. apply cpos_apos_of. apply B1. exact Hp.
  - rewrite H3. apply map_forest_ext. intros p Hp. symmetry. apply cpos_apos_of. apply B2. exact Hp.
Qed.

(** Two spellings of one document: the two forests are the images of one abstract forest. *)
Corollary collect_two_spellings : forall cfg dsA deA dsB deB doc pending,
  good_delims dsA deA -> good_delims dsB deB -> good_doc dsA deA doc -> good_doc dsB deB doc ->
  bodies_ok doc ->
  exists partsA partsB F G,
    front_end dsA deA (render dsA deA doc) = Ok partsA /\
    front_end dsB deB (render dsB deB doc) = Ok partsB /\
    collect cfg (render dsA deA doc) pending partsA =
      (map (map_rtree (pos dsA deA (flat doc))) F, map (map_rtree (pos dsA deA (flat doc))) G) /\
    collect cfg (render dsB deB doc) pending partsB =
      (map (map_rtree (pos dsB deB (flat doc))) F, map (map_rtree (pos dsB deB (flat doc))) G) /\
    Forall (fun q => q <= length (flat doc)) (forest_positions F) /\
    Forall (fun q => q <= length (flat doc)) (forest_positions G).
Proof.
  intros cfg dsA deA dsB deB doc pending HA HB HdA HdB Hb.
  destruct (collect_rendered cfg dsA deA doc pending HA HdA Hb) as (pA & A1 & A2 & A3).
  destruct (collect_rendered cfg dsB deB doc pending HB HdB Hb) as (pB & B1 & B2 & B3).
  exists pA, pB, (fst (a_collect cfg doc pending)), (snd (a_collect cfg doc pending)).
  split; [exact A1|]. split; [exact B1|].
  split; [rewrite <- A2, <- A3; apply surjective_pairing|].
  split; [rewrite <- B2, <- B3; apply surjective_pairing|].
  apply a_collect_bound.
Qed.

Print Assumptions tokenize_rendered_total.
Print Assumptions parse_token_rendered.
Print Assumptions cls_of_rendered.
Print Assumptions stack_tree_of.
Print Assumptions front_end_rendered.
Print Assumptions astack_tree_idxs.
Print Assumptions unwrap_flat.
Print Assumptions create_rendered.
Print Assumptions a_create_bound.
Print Assumptions collect_part_rendered.
Print Assumptions collect_rendered.
Print Assumptions a_collect_bound.
Print Assumptions collect_rendered_cpos.
Print Assumptions collect_two_spellings.
