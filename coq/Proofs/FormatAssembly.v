(** Assembly, part 2: the formatter stage.  On a well-formed string, with seam positions on
    character boundaries and valid pair indices, [format_ranges] never panics and yields
    separated, bounded, boundary-aligned, whitespace-only ranges; [format] deletes exactly them. *)
From Coq Require Import List NArith Arith Bool Lia PeanoNat Permutation.
Import ListNotations.
From Chiri Require Import Base.Bytes Base.Res Model.Finders Model.Format Spec.Ranges
     Proofs.ResLemmas Proofs.Utf8 Proofs.RangeProofs Proofs.FormatterProofs.

Definition good_range (s : str) (r : range) : Prop :=
  fst r <= snd r /\ snd r <= length s /\
  is_boundary s (fst r) = true /\ is_boundary s (snd r) = true /\
  ranges_only_ws s [r].

(** The step of the [foldM] in [format_ranges]. *)
Definition fr_step (s : str) (removed_pos : list (nat * option nat))
           (acc : list range * list range) (pp : nat * option nat)
  : res (list range * list range) :=
  let '(ranges, open) := acc in
  let '(pos, pair_idx) := pp in
  r <- format_block s pos ;;
  let ranges := ranges ++ [r] in
  match pair_idx with
  | Some pi =>
    '(pair_start, _) <- index removed_pos pi ;;
    if pos <? pair_start then
      rs <- block_indent_remover s pos pair_start ;;
      Ok (ranges, open ++ rs)
    else Ok (ranges, open)
  | None => Ok (ranges, open)
  end.

Lemma format_ranges_unfold s rpos :
  format_ranges s rpos =
  ('(ranges, open) <- foldM (fr_step s rpos) rpos ([], []) ;;
   ranges <- merge_ranges ranges (sort_ranges open) ;;
   Ok (merge_overlapped_ranges ranges)).
Proof. reflexivity. Qed.

Lemma snf_In_lt rs : forall lo r, sorted_nonempty_from lo rs -> In r rs -> fst r < snd r.
Proof.
  induction rs as [|[a b] rs IH]; intros lo r H Hin; [destruct Hin|].
  cbn [sorted_nonempty_from] in H. destruct H as (H1 & H2 & H3).
  destruct Hin as [<-|Hin]; [exact H2 | eapply IH; eauto].
Qed.

Lemma blank_ws_single s r : ranges_only_blank s [r] -> ranges_only_ws s [r].
Proof.
  intros H r' i b Hin Hr Hn. apply blank_is_ws. eapply H; eauto.
Qed.

Lemma fr_step_ok s rpos acc p pi :
  wf_utf8 s = true -> is_boundary s p = true -> p <= length s ->
  (forall pi', pi = Some pi' -> pi' < length rpos) ->
  Forall (good_range s) (fst acc) -> Forall (good_range s) (snd acc) ->
  exists acc', fr_step s rpos acc (p, pi) = Ok acc' /\
               Forall (good_range s) (fst acc') /\ Forall (good_range s) (snd acc').
Proof.
  intros Hw Hb Hp Hpi Hr Ho. destruct acc as [ranges open]. cbn [fst snd] in *.
  unfold fr_step.
  destruct (format_block_total s p Hb) as [[a b] Efb]. rewrite Efb. cbn [bind].
  destruct (format_block_spec s p a b Hw Hb Hp Efb) as (F1 & F2 & F3 & F4 & F5 & F6).
  assert (Hr' : Forall (good_range s) (ranges ++ [(a, b)])).
  { apply Forall_app. split; [exact Hr|]. constructor; [|constructor].
    unfold good_range. cbn [fst snd]. repeat split; try assumption; lia. }
  destruct pi as [pi|].
  2:{ eexists. split; [reflexivity|]. cbn [fst snd]. split; assumption. }
  destruct (index_lt rpos pi (Hpi pi eq_refl)) as [[ps x] Ei]. rewrite Ei. cbn [bind].
  destruct (p <? ps).
  2:{ eexists. split; [reflexivity|]. cbn [fst snd]. split; assumption. }
  destruct (block_indent_total s p ps) as [rs Ers]. rewrite Ers. cbn [bind].
  eexists. split; [reflexivity|]. cbn [fst snd]. split; [exact Hr'|].
  apply Forall_app. split; [exact Ho|].
  destruct (block_indent_spec s p ps rs Hw Ers) as [Hs Hg].
  apply Forall_forall. intros r Hin.
  destruct (Hg r Hin) as (G1 & G2 & G3 & G4 & G5).
  pose proof (snf_In_lt rs _ r Hs Hin) as Hlt.
  unfold good_range. repeat split; try assumption; [lia|].
  apply blank_ws_single. exact G3.
Qed.

Lemma fr_fold_ok s rpos : forall l acc,
  wf_utf8 s = true ->
  (forall p pi, In (p, pi) l -> p <= length s /\ is_boundary s p = true) ->
  (forall p pi, In (p, Some pi) l -> pi < length rpos) ->
  Forall (good_range s) (fst acc) -> Forall (good_range s) (snd acc) ->
  exists acc', foldM (fr_step s rpos) l acc = Ok acc' /\
               Forall (good_range s) (fst acc') /\ Forall (good_range s) (snd acc').
Proof.
  induction l as [|[p pi] l IH]; intros acc Hw Hpos Hidx Hr Ho.
  - exists acc. split; [reflexivity|]. split; assumption.
  - destruct (Hpos p pi (or_introl eq_refl)) as [Hp Hb].
    destruct (fr_step_ok s rpos acc p pi Hw Hb Hp) as (acc1 & E1 & Hr1 & Ho1); try assumption.
    { intros pi' ->. apply (Hidx p pi'). left. reflexivity. }
    cbn [foldM]. rewrite E1. cbn [bind].
    apply IH; try assumption.
    + intros p' pi' Hin. apply (Hpos p' pi'). right. exact Hin.
    + intros p' pi' Hin. apply (Hidx p' pi'). right. exact Hin.
Qed.

Theorem format_spec : forall s rpos,
  wf_utf8 s = true ->
  (forall p pi, In (p, pi) rpos -> p <= length s /\ is_boundary s p = true) ->
  (forall p pi, In (p, Some pi) rpos -> pi < length rpos) ->
  exists rs, format_ranges s rpos = Ok rs /\ separated_from 0 rs /\ bounded_by (length s) rs /\
             on_boundaries s rs /\ ranges_only_ws s rs /\
             format s rpos = Ok (delete_ranges rs s) /\ wf_utf8 (delete_ranges rs s) = true.
Proof.
  intros s rpos Hw Hpos Hidx.
  destruct (fr_fold_ok s rpos rpos ([], []) Hw Hpos Hidx) as ([ranges open] & Ef & Hr & Ho);
    [constructor | constructor |]. cbn [fst snd] in Hr, Ho.
  destruct (merge_ranges_perm ranges (sort_ranges open)) as (merged & Em & Hnil & Hperm).
  assert (Hgood : forall r, In r merged -> good_range s r).
  { intros r Hin. destruct ranges as [|r0 ranges'].
    - rewrite (Hnil eq_refl) in Hin. destruct Hin.
    - assert (Hne : r0 :: ranges' <> []) by discriminate.
      apply (Permutation_in _ (Hperm Hne)) in Hin. apply in_app_or in Hin.
      rewrite Forall_forall in Hr, Ho. destruct Hin as [Hin|Hin]; [apply Hr; exact Hin|].
      apply Ho. eapply Permutation_in; [apply sort_ranges_perm | exact Hin]. }
  assert (Hle : forall r, In r merged -> fst r <= snd r).
  { intros r Hin. destruct (Hgood r Hin) as [H _]. exact H. }
  set (rs := merge_overlapped_ranges merged).
  assert (Efr : format_ranges s rpos = Ok rs).
  { rewrite format_ranges_unfold, Ef. cbn [bind]. rewrite Em. reflexivity. }
  assert (Hsep : separated_from 0 rs) by (apply merge_overlapped_separated; exact Hle).
  assert (Hbd : bounded_by (length s) rs).
  { intros r Hin. destruct (merge_overlapped_endpoints merged r Hin) as [_ (r2 & Hin2 & E2)].
    rewrite E2. destruct (Hgood r2 Hin2) as (_ & H & _). exact H. }
  assert (Hob : on_boundaries s rs).
  { intros r Hin.
    destruct (merge_overlapped_endpoints merged r Hin) as [(r1 & Hin1 & E1) (r2 & Hin2 & E2)].
    rewrite E1, E2. destruct (Hgood r1 Hin1) as (_ & _ & H1 & _).
    destruct (Hgood r2 Hin2) as (_ & _ & _ & H2 & _). split; assumption. }
  assert (Hws : ranges_only_ws s rs).
  { intros r i b Hin Hri Hn.
    assert (Hi : in_ranges merged i).
    { apply merge_overlapped_subset; [exact Hle|]. exists r. split; assumption. }
    destruct Hi as (r' & Hin' & Hri'). destruct (Hgood r' Hin') as (_ & _ & _ & _ & H).
    apply (H r' i b); [left; reflexivity | exact Hri' | exact Hn]. }
  pose proof (separated_sorted 0 rs Hsep) as Hsorted.
  exists rs. split; [exact Efr|]. split; [exact Hsep|]. split; [exact Hbd|].
  split; [exact Hob|]. split; [exact Hws|]. split.
  - unfold format. rewrite Efr. cbn [bind]. apply delete_ranges_rev_ok; assumption.
  - apply delete_ranges_wf; assumption.
Qed.
