(** C05 (part 2): the date-time parser on rendered wall-clock times, the civil calendar,
    and the malformed classes. *)
From Coq Require Import List NArith ZArith Arith Bool Lia.
Import ListNotations.
From Chiri Require Import Base.Bytes Base.Res Model.TagParser Model.Chrono Model.Markers
     Spec.CivilTime Proofs.BytesLemmas Proofs.C06Proofs Proofs.C05Proofs.
Local Open Scope Z_scope.

(** * Digit bytes *)

Lemma digit_cases b : is_digit b = true ->
  b = 48%N \/ b = 49%N \/ b = 50%N \/ b = 51%N \/ b = 52%N \/
  b = 53%N \/ b = 54%N \/ b = 55%N \/ b = 56%N \/ b = 57%N.
Proof.
  unfold is_digit. intros H. apply andb_true_iff in H. destruct H as [H1 H2].
  apply N.leb_le in H1. apply N.leb_le in H2. lia.
Qed.

Ltac digit_split H :=
  apply digit_cases in H;
  destruct H as [H|[H|[H|[H|[H|[H|[H|[H|[H|H]]]]]]]]]; subst.

Lemma digit_val_range b : is_digit b = true -> 0 <= digit_val b <= 9.
Proof. intros H. digit_split H; unfold digit_val; simpl; lia. Qed.

Lemma is_digit_digit k : 0 <= k <= 9 -> is_digit (digit k) = true.
Proof.
  intros H. unfold is_digit, digit. apply andb_true_iff. split; apply N.leb_le; lia.
Qed.

Lemma digit_val_digit k : 0 <= k <= 9 -> digit_val (digit k) = k.
Proof. intros H. unfold digit_val, digit. rewrite Z2N.id by lia. lia. Qed.

Lemma digit_le_53 k : 0 <= k <= 9 -> (digit k <=? 53)%N = (k <=? 5).
Proof.
  intros H. unfold digit.
  destruct (k <=? 5) eqn:E.
  - apply Z.leb_le in E. apply N.leb_le. lia.
  - apply Z.leb_gt in E. apply N.leb_gt. lia.
Qed.

Lemma ws_len_digit b r : is_digit b = true -> ws_len (b :: r) = 0%nat.
Proof. intros H. digit_split H; reflexivity. Qed.

Lemma trim_ws_digit b r : is_digit b = true -> trim_ws (b :: r) = b :: r.
Proof.
  intros H. unfold trim_ws. cbn [length trim_ws_fuel]. rewrite (ws_len_digit _ _ H). reflexivity.
Qed.

Lemma colon_or_space_digit f b r : is_digit b = true -> colon_or_space_fuel f (b :: r) = b :: r.
Proof. intros H. destruct f as [|f]; [reflexivity|]. digit_split H; reflexivity. Qed.

(** * [number] and [numeric] on digit strings *)

Lemma number2 a b rest : is_digit a = true -> is_digit b = true ->
  number (a :: b :: rest) (Some 2%nat) = Some (rest, digit_val a * 10 + digit_val b).
Proof.
  intros Ha Hb. pose proof (digit_val_range _ Ha) as Ra. pose proof (digit_val_range _ Hb) as Rb.
  unfold number. cbn [number_loop]. rewrite Ha, Hb.
  assert (E1 : (0 * 10 + digit_val a >? I64_MAX) = false).
  { unfold I64_MAX. rewrite Z.gtb_ltb. apply Z.ltb_ge. lia. }
  rewrite E1.
  assert (E2 : ((0 * 10 + digit_val a) * 10 + digit_val b >? I64_MAX) = false).
  { unfold I64_MAX. rewrite Z.gtb_ltb. apply Z.ltb_ge. lia. }
  rewrite E2. reflexivity.
Qed.

Lemma numeric2 a b rest : is_digit a = true -> is_digit b = true ->
  numeric (a :: b :: rest) 2 false = Some (rest, digit_val a * 10 + digit_val b).
Proof.
  intros Ha Hb. unfold numeric. rewrite (trim_ws_digit _ _ Ha). apply number2; assumption.
Qed.

Lemma number4 a b c d rest :
  is_digit a = true -> is_digit b = true -> is_digit c = true -> is_digit d = true ->
  number (a :: b :: c :: d :: rest) (Some 4%nat)
  = Some (rest, ((digit_val a * 10 + digit_val b) * 10 + digit_val c) * 10 + digit_val d).
Proof.
  intros Ha Hb Hc Hd.
  pose proof (digit_val_range _ Ha) as Ra. pose proof (digit_val_range _ Hb) as Rb.
  pose proof (digit_val_range _ Hc) as Rc. pose proof (digit_val_range _ Hd) as Rd.
  unfold number. cbn [number_loop]. rewrite Ha, Hb, Hc, Hd.
  assert (E1 : (0 * 10 + digit_val a >? I64_MAX) = false).
  { unfold I64_MAX. rewrite Z.gtb_ltb. apply Z.ltb_ge. lia. }
  rewrite E1.
  assert (E2 : ((0 * 10 + digit_val a) * 10 + digit_val b >? I64_MAX) = false).
  { unfold I64_MAX. rewrite Z.gtb_ltb. apply Z.ltb_ge. lia. }
  rewrite E2.
  assert (E3 : (((0 * 10 + digit_val a) * 10 + digit_val b) * 10 + digit_val c >? I64_MAX) = false).
  { unfold I64_MAX. rewrite Z.gtb_ltb. apply Z.ltb_ge. lia. }
  rewrite E3.
  assert (E4 : ((((0 * 10 + digit_val a) * 10 + digit_val b) * 10 + digit_val c) * 10 + digit_val d
                >? I64_MAX) = false).
  { unfold I64_MAX. rewrite Z.gtb_ltb. apply Z.ltb_ge. lia. }
  rewrite E4. reflexivity.
Qed.

Lemma numeric4_signed a b c d rest :
  is_digit a = true -> is_digit b = true -> is_digit c = true -> is_digit d = true ->
  numeric (a :: b :: c :: d :: rest) 4 true
  = Some (rest, ((digit_val a * 10 + digit_val b) * 10 + digit_val c) * 10 + digit_val d).
Proof.
  intros Ha Hb Hc Hd. unfold numeric. rewrite (trim_ws_digit _ _ Ha).
  rewrite <- (number4 a b c d rest Ha Hb Hc Hd).
  clear Hb Hc Hd. digit_split Ha; reflexivity.
Qed.

(** * The parse on a 19-byte skeleton "dddd-dd-dd dd:dd:dd" followed by anything *)

(** What [parse_datetime] does once the six fields are read. *)
Definition finish (year month day hour minute second : Z) (rest : str) : option Z :=
  let s := trim_ws rest in
  match timezone_offset s with None => None | Some (s, offset) =>
  match s with _ :: _ => None | [] =>
  if negb ((MIN_YEAR <=? year) && (year <=? MAX_YEAR)) then None else
  if negb (day <=? days_in_month year month) then None else
  if negb ((-86400 <? offset) && (offset <? 86400)) then None else
  let local := days_from_civil year month day * 86400 + hour * 3600 + minute * 60
               + (if second =? 60 then 59 else second) in
  let utc := local - offset in
  if (utc <? days_from_civil MIN_YEAR 1 1 * 86400) || (days_from_civil (MAX_YEAR + 1) 1 1 * 86400 <=? utc)
  then None
  else Some (utc + (if second =? 60 then 1 else 0))
  end end.

Definition fields_then (month day hour minute second : Z) (k : option Z) : option Z :=
  if negb ((1 <=? month) && (month <=? 12)) then None else
  if negb ((1 <=? day) && (day <=? 31)) then None else
  if negb (hour <=? 23) then None else
  if negb (minute <=? 59) then None else
  if negb (second <=? 60) then None else k.

Definition val2 (a b : byte) : Z := digit_val a * 10 + digit_val b.
Definition val4 (a b c d : byte) : Z :=
  ((digit_val a * 10 + digit_val b) * 10 + digit_val c) * 10 + digit_val d.

Lemma parse_skeleton y1 y2 y3 y4 m1 m2 d1 d2 h1 h2 i1 i2 s1 s2 rest :
  is_digit y1 = true -> is_digit y2 = true -> is_digit y3 = true -> is_digit y4 = true ->
  is_digit m1 = true -> is_digit m2 = true -> is_digit d1 = true -> is_digit d2 = true ->
  is_digit h1 = true -> is_digit h2 = true -> is_digit i1 = true -> is_digit i2 = true ->
  is_digit s1 = true -> is_digit s2 = true ->
  parse_datetime (y1 :: y2 :: y3 :: y4 :: 45%N :: m1 :: m2 :: 45%N :: d1 :: d2 :: SP ::
                  h1 :: h2 :: 58%N :: i1 :: i2 :: 58%N :: s1 :: s2 :: rest)
  = fields_then (val2 m1 m2) (val2 d1 d2) (val2 h1 h2) (val2 i1 i2) (val2 s1 s2)
      (finish (val4 y1 y2 y3 y4) (val2 m1 m2) (val2 d1 d2) (val2 h1 h2) (val2 i1 i2) (val2 s1 s2) rest).
Proof.
  intros Hy1 Hy2 Hy3 Hy4 Hm1 Hm2 Hd1 Hd2 Hh1 Hh2 Hi1 Hi2 Hs1 Hs2.
  unfold parse_datetime.
  rewrite (numeric4_signed _ _ _ _ _ Hy1 Hy2 Hy3 Hy4). cbv beta iota.
  change (literal 45%N (45%N :: ?r)) with (Some r). cbv beta iota.
  rewrite (numeric2 _ _ _ Hm1 Hm2). cbv beta iota.
  change (literal 45%N (45%N :: ?r)) with (Some r). cbv beta iota.
  rewrite (numeric2 _ _ _ Hd1 Hd2). cbv beta iota.
  assert (T : trim_ws (SP :: h1 :: h2 :: 58%N :: i1 :: i2 :: 58%N :: s1 :: s2 :: rest)
              = h1 :: h2 :: 58%N :: i1 :: i2 :: 58%N :: s1 :: s2 :: rest).
  { unfold trim_ws. cbn [length trim_ws_fuel]. change (ws_len (SP :: ?r)) with 1%nat.
    cbn [skipn]. rewrite (ws_len_digit _ _ Hh1). reflexivity. }
  rewrite T. clear T.
  rewrite (numeric2 _ _ _ Hh1 Hh2). cbv beta iota.
  change (literal 58%N (58%N :: ?r)) with (Some r). cbv beta iota.
  rewrite (numeric2 _ _ _ Hi1 Hi2). cbv beta iota.
  change (literal 58%N (58%N :: ?r)) with (Some r). cbv beta iota.
  rewrite (numeric2 _ _ _ Hs1 Hs2). cbv beta iota.
  reflexivity.
Qed.

(** * Rendered fields *)

Lemma render2_digits n : 0 <= n <= 99 ->
  is_digit (digit (n / 10)) = true /\ is_digit (digit (n mod 10)) = true /\
  val2 (digit (n / 10)) (digit (n mod 10)) = n.
Proof.
  intros H.
  assert (H1 : 0 <= n / 10 <= 9) by (Z.div_mod_to_equations; lia).
  assert (H2 : 0 <= n mod 10 <= 9) by (Z.div_mod_to_equations; lia).
  split; [apply is_digit_digit; exact H1|]. split; [apply is_digit_digit; exact H2|].
  unfold val2. rewrite (digit_val_digit _ H1), (digit_val_digit _ H2).
  Z.div_mod_to_equations; lia.
Qed.

Lemma render4_digits n : 0 <= n <= 9999 ->
  is_digit (digit (n / 1000)) = true /\ is_digit (digit ((n / 100) mod 10)) = true /\
  is_digit (digit ((n / 10) mod 10)) = true /\ is_digit (digit (n mod 10)) = true /\
  val4 (digit (n / 1000)) (digit ((n / 100) mod 10)) (digit ((n / 10) mod 10)) (digit (n mod 10)) = n.
Proof.
  intros H.
  assert (H1 : 0 <= n / 1000 <= 9) by (Z.div_mod_to_equations; lia).
  assert (H2 : 0 <= (n / 100) mod 10 <= 9) by (Z.div_mod_to_equations; lia).
  assert (H3 : 0 <= (n / 10) mod 10 <= 9) by (Z.div_mod_to_equations; lia).
  assert (H4 : 0 <= n mod 10 <= 9) by (Z.div_mod_to_equations; lia).
  split; [apply is_digit_digit; exact H1|]. split; [apply is_digit_digit; exact H2|].
  split; [apply is_digit_digit; exact H3|]. split; [apply is_digit_digit; exact H4|].
  unfold val4.
  rewrite (digit_val_digit _ H1), (digit_val_digit _ H2), (digit_val_digit _ H3), (digit_val_digit _ H4).
  clear H1 H2 H3 H4. Z.div_mod_to_equations; lia.
Qed.

(** The parse of "YYYY-MM-DD HH:MM:SS" followed by anything, all two-digit fields arbitrary. *)
Lemma parse_render_to y m d h mi s rest :
  0 <= y <= 9999 -> 0 <= m <= 99 -> 0 <= d <= 99 -> 0 <= h <= 99 -> 0 <= mi <= 99 -> 0 <= s <= 99 ->
  parse_datetime (render_to y m d h mi s ++ rest)
  = fields_then m d h mi s (finish y m d h mi s rest).
Proof.
  intros Hy Hm Hd Hh Hmi Hs.
  destruct (render4_digits y Hy) as [Y1 [Y2 [Y3 [Y4 YV]]]].
  destruct (render2_digits m Hm) as [M1 [M2 MV]].
  destruct (render2_digits d Hd) as [D1 [D2 DV]].
  destruct (render2_digits h Hh) as [H1 [H2 HV]].
  destruct (render2_digits mi Hmi) as [I1 [I2 IV]].
  destruct (render2_digits s Hs) as [S1 [S2 SV]].
  pose proof (parse_skeleton _ _ _ _ _ _ _ _ _ _ _ _ _ _ rest
                Y1 Y2 Y3 Y4 M1 M2 D1 D2 H1 H2 I1 I2 S1 S2) as P.
  rewrite YV, MV, DV, HV, IV, SV in P. exact P.
Qed.

(** * The offset *)

Lemma colon_or_space_colon f r : colon_or_space_fuel (S f) (58%N :: r) = colon_or_space_fuel f r.
Proof. reflexivity. Qed.

Lemma tz_digits (negative colon : bool) a b c d :
  is_digit a = true -> is_digit b = true -> is_digit c = true -> is_digit d = true ->
  timezone_offset (trim_ws (SP :: (if negative then 45%N else 43%N) :: a :: b ::
                                  (if colon then [58%N] else []) ++ [c; d]))
  = if (c <=? 53)%N
    then Some ([], if negative then - (val2 a b * 3600 + val2 c d * 60) else val2 a b * 3600 + val2 c d * 60)
    else None.
Proof.
  intros Ha Hb Hc Hd. unfold val2.
  destruct negative, colon; cbn [app];
  unfold trim_ws; cbn [length trim_ws_fuel]; change (ws_len (SP :: ?r)) with 1%nat; cbn [skipn];
  match goal with |- context [ws_len (?x :: ?r)] => change (ws_len (x :: r)) with 0%nat end;
  unfold timezone_offset, trim_ws; cbn [length trim_ws_fuel];
  match goal with |- context [ws_len (?x :: ?r)] => change (ws_len (x :: r)) with 0%nat end;
  cbv beta iota zeta; rewrite Ha, Hb; cbn [andb length];
  rewrite ?colon_or_space_colon; rewrite (colon_or_space_digit _ _ _ Hc); rewrite Hc, Hd; cbn [andb];
  destruct (c <=? 53)%N; reflexivity.
Qed.

Lemma tz_rendered negative colon oh om : 0 <= oh <= 99 -> 0 <= om <= 99 ->
  timezone_offset (trim_ws ([SP] ++ render_offset negative colon oh om))
  = if om <=? 59
    then Some ([], if negative then - (oh * 3600 + om * 60) else oh * 3600 + om * 60)
    else None.
Proof.
  intros Hoh Hom.
  destruct (render2_digits oh Hoh) as [A [B V1]].
  destruct (render2_digits om Hom) as [C [D V2]].
  pose proof (tz_digits negative colon _ _ _ _ A B C D) as T.
  rewrite V1, V2 in T.
  assert (R : 0 <= om / 10 <= 9) by (Z.div_mod_to_equations; lia).
  rewrite (digit_le_53 _ R) in T.
  assert (E : (om / 10 <=? 5) = (om <=? 59)).
  { destruct (om <=? 59) eqn:E.
    - apply Z.leb_le in E. apply Z.leb_le. Z.div_mod_to_equations; lia.
    - apply Z.leb_gt in E. apply Z.leb_gt. Z.div_mod_to_equations; lia. }
  rewrite E in T. exact T.
Qed.

(** * Range of the civil-day function on four-digit years *)

Lemma days_from_civil_bounds y m d : 0 <= y <= 9999 -> 1 <= m <= 12 -> 1 <= d <= 31 ->
  -719528 <= days_from_civil y m d <= 2932896.
Proof.
  intros Hy Hm Hd. unfold days_from_civil.
  destruct (m <=? 2) eqn:E; [apply Z.leb_le in E | apply Z.leb_gt in E];
  cbv zeta; Z.div_mod_to_equations; lia.
Qed.

Lemma days_in_month_le_31 y m : days_in_month y m <= 31.
Proof.
  unfold days_in_month. destruct (m =? 2); [destruct (is_leap y); lia|].
  destruct ((m =? 4) || (m =? 6) || (m =? 9) || (m =? 11)); lia.
Qed.

Lemma days_in_month_ge_28 y m : 28 <= days_in_month y m.
Proof.
  unfold days_in_month. destruct (m =? 2); [destruct (is_leap y); lia|].
  destruct ((m =? 4) || (m =? 6) || (m =? 9) || (m =? 11)); lia.
Qed.

Lemma min_bound_val : days_from_civil MIN_YEAR 1 1 * 86400 = -8334601228800.
Proof. vm_compute. reflexivity. Qed.
Lemma max_bound_val : days_from_civil (MAX_YEAR + 1) 1 1 * 86400 = 8210266876800.
Proof. vm_compute. reflexivity. Qed.

(** [finish] on a rendered offset, fields arbitrary within their printed widths. *)
Lemma finish_rendered y m d h mi s negative colon oh om :
  0 <= y <= 9999 -> 1 <= m <= 12 -> 1 <= d <= 31 -> 0 <= h <= 23 -> 0 <= mi <= 59 -> 0 <= s <= 60 ->
  0 <= oh <= 23 -> 0 <= om <= 59 ->
  finish y m d h mi s ([SP] ++ render_offset negative colon oh om)
  = if d <=? days_in_month y m
    then Some (days_from_civil y m d * 86400 + h * 3600 + mi * 60 + (if s =? 60 then 59 else s)
               - (if negative then - (oh * 3600 + om * 60) else oh * 3600 + om * 60)
               + (if s =? 60 then 1 else 0))
    else None.
Proof.
  intros Hy Hm Hd Hh Hmi Hs Hoh Hom.
  unfold finish. cbv zeta.
  rewrite (tz_rendered negative colon oh om) by lia.
  replace (om <=? 59) with true by (symmetry; apply Z.leb_le; lia).
  cbv beta iota.
  replace ((MIN_YEAR <=? y) && (y <=? MAX_YEAR)) with true
    by (symmetry; unfold MIN_YEAR, MAX_YEAR; apply andb_true_iff; split; apply Z.leb_le; lia).
  cbn [negb].
  destruct (d <=? days_in_month y m); cbn [negb]; [|reflexivity].
  set (off := if negative then - (oh * 3600 + om * 60) else oh * 3600 + om * 60).
  assert (Hoff : -86400 < off < 86400) by (subst off; destruct negative; lia).
  replace ((-86400 <? off) && (off <? 86400)) with true
    by (symmetry; apply andb_true_iff; split; apply Z.ltb_lt; lia).
  cbn [negb].
  rewrite min_bound_val, max_bound_val.
  pose proof (days_from_civil_bounds y m d Hy Hm Hd) as B.
  set (dc := days_from_civil y m d) in *.
  set (s' := if s =? 60 then 59 else s).
  assert (Hs' : 0 <= s' <= 59) by (subst s'; destruct (s =? 60) eqn:E; [lia | apply Z.eqb_neq in E; lia]).
  match goal with |- (if ?c then _ else _) = _ => replace c with false end; [reflexivity|].
  symmetry. apply orb_false_iff. split; [apply Z.ltb_ge | apply Z.leb_gt]; lia.
Qed.

(** * C05(a) *)

Theorem parse_rendered : forall y m d h mi s negative colon oh om,
  valid_civil y m d h mi s -> valid_offset oh om ->
  parse_datetime (render_to y m d h mi s ++ [SP] ++ render_offset negative colon oh om)
  = Some (instant y m d h mi s negative oh om).
Proof.
  intros y m d h mi s negative colon oh om
         [Hy [Hm [Hd [Hh [Hmi Hs]]]]] [Hoh Hom].
  pose proof (days_in_month_le_31 y m) as D31.
  rewrite parse_render_to by lia.
  unfold fields_then.
  replace ((1 <=? m) && (m <=? 12)) with true
    by (symmetry; apply andb_true_iff; split; apply Z.leb_le; lia).
  replace ((1 <=? d) && (d <=? 31)) with true
    by (symmetry; apply andb_true_iff; split; apply Z.leb_le; lia).
  replace (h <=? 23) with true by (symmetry; apply Z.leb_le; lia).
  replace (mi <=? 59) with true by (symmetry; apply Z.leb_le; lia).
  replace (s <=? 60) with true by (symmetry; apply Z.leb_le; lia).
  cbn [negb].
  rewrite finish_rendered by lia.
  replace (d <=? days_in_month y m) with true by (symmetry; apply Z.leb_le; lia).
  replace (s =? 60) with false by (symmetry; apply Z.eqb_neq; lia).
  f_equal. unfold instant, offset_seconds. destruct negative; lia.
Qed.

Theorem rendered_decision : forall y m d h mi s negative colon oh om now name,
  valid_civil y m d h mi s -> valid_offset oh om ->
  time_is_removal (render_offset negative colon oh om) now
                  (mkElement name [(S_TO, Some (render_to y m d h mi s))])
  = (instant y m d h mi s negative oh om <=? now).
Proof.
  intros y m d h mi s negative colon oh om now name Hc Ho.
  unfold time_is_removal.
  change (find_attr S_TO (el_attrs (mkElement name [(S_TO, Some (render_to y m d h mi s))])))
    with (Some (S_TO, Some (render_to y m d h mi s))).
  cbv beta iota.
  rewrite (parse_rendered y m d h mi s negative colon oh om Hc Ho).
  rewrite Z.ltb_antisym. apply negb_involutive.
Qed.

(** * C05(b): out-of-range fields *)

Theorem malformed_out_of_range : forall y m d h mi s negative colon oh om,
  0 <= y <= 9999 -> 0 <= m <= 99 -> 0 <= d <= 99 -> 0 <= h <= 99 -> 0 <= mi <= 99 -> 0 <= s <= 99 ->
  valid_offset oh om ->
  ~ (1 <= m <= 12 /\ 1 <= d <= days_in_month y m /\ h <= 23 /\ mi <= 59 /\ s <= 60) ->
  parse_datetime (render_to y m d h mi s ++ [SP] ++ render_offset negative colon oh om) = None.
Proof.
  intros y m d h mi s negative colon oh om Hy Hm Hd Hh Hmi Hs [Hoh Hom] Hbad.
  rewrite parse_render_to by assumption.
  unfold fields_then.
  destruct ((1 <=? m) && (m <=? 12)) eqn:Em; cbn [negb]; [|reflexivity].
  destruct ((1 <=? d) && (d <=? 31)) eqn:Ed; cbn [negb]; [|reflexivity].
  destruct (h <=? 23) eqn:Eh; cbn [negb]; [|reflexivity].
  destruct (mi <=? 59) eqn:Emi; cbn [negb]; [|reflexivity].
  destruct (s <=? 60) eqn:Es; cbn [negb]; [|reflexivity].
  apply andb_true_iff in Em. destruct Em as [Em1 Em2].
  apply andb_true_iff in Ed. destruct Ed as [Ed1 Ed2].
  apply Z.leb_le in Em1, Em2, Ed1, Ed2, Eh, Emi, Es.
  rewrite finish_rendered by lia.
  destruct (d <=? days_in_month y m) eqn:E; [|reflexivity].
  apply Z.leb_le in E. exfalso. apply Hbad. lia.
Qed.

(** * The civil-day function *)

Theorem days_from_civil_epoch : days_from_civil 1970 1 1 = 0.
Proof. vm_compute. reflexivity. Qed.

Lemma dfc_succ y m d : days_from_civil y m (d + 1) = days_from_civil y m d + 1.
Proof. unfold days_from_civil. cbv zeta. lia. Qed.

Lemma dfc_feb_mar y : days_from_civil y 3 1 = days_from_civil y 2 (days_in_month y 2) + 1.
Proof.
  unfold days_from_civil, days_in_month, is_leap.
  change (3 <=? 2) with false. change (2 <=? 2) with true. change (2 =? 2) with true. cbv iota zeta.
  change ((3 + 9) mod 12) with 0. change ((2 + 9) mod 12) with 11.
  change ((153 * 0 + 2) / 5) with 0. change ((153 * 11 + 2) / 5) with 337.
  destruct (y mod 4 =? 0) eqn:E4; [apply Z.eqb_eq in E4 | apply Z.eqb_neq in E4];
  destruct (y mod 100 =? 0) eqn:E100; [apply Z.eqb_eq in E100 | apply Z.eqb_neq in E100| apply Z.eqb_eq in E100 | apply Z.eqb_neq in E100];
  destruct (y mod 400 =? 0) eqn:E400; [apply Z.eqb_eq in E400 | apply Z.eqb_neq in E400| apply Z.eqb_eq in E400 | apply Z.eqb_neq in E400| apply Z.eqb_eq in E400 | apply Z.eqb_neq in E400| apply Z.eqb_eq in E400 | apply Z.eqb_neq in E400];
  cbn [andb orb negb]; Z.div_mod_to_equations; lia.
Qed.

Lemma dfc_month_step y m : 1 <= m <= 11 -> m <> 2 ->
  days_from_civil y (m + 1) 1 = days_from_civil y m (days_in_month y m) + 1.
Proof.
  intros Hm H2.
  assert (C : m = 1 \/ m = 3 \/ m = 4 \/ m = 5 \/ m = 6 \/ m = 7 \/ m = 8 \/ m = 9 \/ m = 10 \/ m = 11) by lia.
  destruct C as [C|[C|[C|[C|[C|[C|[C|[C|[C|C]]]]]]]]]; subst m;
  unfold days_from_civil, days_in_month; cbn [Z.add Z.eqb Z.leb Z.compare Pos.add Pos.succ Pos.compare Pos.compare_cont Pos.eqb orb];
  cbv zeta;
  repeat match goal with |- context [(153 * (?k mod 12) + 2) / 5] =>
    let v := eval vm_compute in ((153 * (k mod 12) + 2) / 5) in
    change ((153 * (k mod 12) + 2) / 5) with v end;
  lia.
Qed.

Lemma dfc_year_step y : days_from_civil (y + 1) 1 1 = days_from_civil y 12 31 + 1.
Proof.
  unfold days_from_civil. change (1 <=? 2) with true. change (12 <=? 2) with false. cbv iota zeta.
  replace (y + 1 - 1) with y by lia.
  change ((153 * ((12 + 9) mod 12) + 2) / 5) with 275.
  change ((153 * ((1 + 9) mod 12) + 2) / 5) with 306. lia.
Qed.

Theorem days_from_civil_next_day : forall y m d,
  1 <= m <= 12 -> 1 <= d <= days_in_month y m ->
  let '(y', m', d') := next_day y m d in days_from_civil y' m' d' = days_from_civil y m d + 1.
Proof.
  intros y m d Hm Hd. unfold next_day.
  destruct (d <? days_in_month y m) eqn:E1.
  - apply dfc_succ.
  - apply Z.ltb_ge in E1. assert (d = days_in_month y m) by lia. subst d.
    destruct (m <? 12) eqn:E2.
    + apply Z.ltb_lt in E2. destruct (Z.eq_dec m 2) as [->|N2].
      * apply dfc_feb_mar.
      * apply dfc_month_step; lia.
    + apply Z.ltb_ge in E2. assert (m = 12) by lia. subst m.
      change (days_in_month y 12) with 31. apply dfc_year_step.
Qed.

(** * C05(b): wrong separators, missing time part *)

Theorem malformed_separators : forall y m d h mi s off sep,
  valid_civil y m d h mi s -> (sep = 47%N \/ sep = 46%N) ->
  parse_datetime (render4 y ++ [sep] ++ render2 m ++ [sep] ++ render2 d ++ [SP] ++ render2 h ++ [58%N] ++ render2 mi ++ [58%N] ++ render2 s ++ [SP] ++ off) = None.
Proof.
  intros y m d h mi s off sep [Hy _] Hsep.
  destruct (render4_digits y Hy) as [Y1 [Y2 [Y3 [Y4 _]]]].
  unfold render4. cbn [app].
  unfold parse_datetime.
  rewrite (numeric4_signed _ _ _ _ _ Y1 Y2 Y3 Y4). cbv beta iota.
  destruct Hsep as [-> | ->]; reflexivity.
Qed.

Lemma numeric_nondigit b r : is_digit b = false -> ws_len (b :: r) = 0%nat ->
  numeric (b :: r) 2 false = None.
Proof.
  intros Hb Hw. unfold numeric, trim_ws. cbn [length trim_ws_fuel]. rewrite Hw.
  unfold number. cbn [number_loop]. rewrite Hb. reflexivity.
Qed.

Theorem malformed_T_separator : forall y m d h mi s off,
  valid_civil y m d h mi s ->
  parse_datetime (render4 y ++ [45%N] ++ render2 m ++ [45%N] ++ render2 d ++ [84%N] ++ render2 h ++ [58%N] ++ render2 mi ++ [58%N] ++ render2 s ++ [SP] ++ off) = None.
Proof.
  intros y m d h mi s off [Hy [Hm [Hd _]]].
  pose proof (days_in_month_le_31 y m) as D31.
  destruct (render4_digits y Hy) as [Y1 [Y2 [Y3 [Y4 _]]]].
  destruct (render2_digits m) as [M1 [M2 MV]]; [lia|].
  destruct (render2_digits d) as [D1 [D2 DV]]; [lia|].
  unfold render4. unfold render2 at 1 2. cbn [app].
  unfold parse_datetime.
  rewrite (numeric4_signed _ _ _ _ _ Y1 Y2 Y3 Y4). cbv beta iota.
  change (literal 45%N (45%N :: ?r)) with (Some r). cbv beta iota.
  rewrite (numeric2 _ _ _ M1 M2). cbv beta iota.
  change (literal 45%N (45%N :: ?r)) with (Some r). cbv beta iota.
  rewrite (numeric2 _ _ _ D1 D2). cbv beta iota.
  fold (val2 (digit (m / 10)) (digit (m mod 10))). fold (val2 (digit (d / 10)) (digit (d mod 10))).
  rewrite MV, DV.
  destruct (negb ((1 <=? m) && (m <=? 12))); [reflexivity|].
  destruct (negb ((1 <=? d) && (d <=? 31))); [reflexivity|].
  match goal with |- context [trim_ws (84%N :: ?r)] =>
    change (trim_ws (84%N :: r)) with (84%N :: r) end.
  match goal with |- context [numeric ?x 2 false] =>
    replace (numeric x 2 false) with (@None (str * Z))
      by (symmetry; apply numeric_nondigit; reflexivity) end.
  reflexivity.
Qed.

Theorem malformed_missing_time : forall y m d negative colon oh om,
  0 <= y <= 9999 -> 1 <= m <= 12 -> 1 <= d <= 31 -> valid_offset oh om ->
  parse_datetime (render4 y ++ [45%N] ++ render2 m ++ [45%N] ++ render2 d ++ [SP] ++ render_offset negative colon oh om) = None.
Proof.
  intros y m d negative colon oh om Hy Hm Hd _.
  destruct (render4_digits y Hy) as [Y1 [Y2 [Y3 [Y4 _]]]].
  destruct (render2_digits m) as [M1 [M2 MV]]; [lia|].
  destruct (render2_digits d) as [D1 [D2 DV]]; [lia|].
  unfold render4, render_offset. unfold render2 at 1 2. cbn [app].
  unfold parse_datetime.
  rewrite (numeric4_signed _ _ _ _ _ Y1 Y2 Y3 Y4). cbv beta iota.
  change (literal 45%N (45%N :: ?r)) with (Some r). cbv beta iota.
  rewrite (numeric2 _ _ _ M1 M2). cbv beta iota.
  change (literal 45%N (45%N :: ?r)) with (Some r). cbv beta iota.
  rewrite (numeric2 _ _ _ D1 D2). cbv beta iota.
  destruct (negb _); [reflexivity|].
  destruct (negb _); [reflexivity|].
  match goal with |- context [trim_ws (SP :: ?b :: ?r)] =>
    replace (trim_ws (SP :: b :: r)) with (b :: r) by (destruct negative; reflexivity) end.
  match goal with |- context [numeric ?x 2 false] =>
    replace (numeric x 2 false) with (@None (str * Z))
      by (symmetry; apply numeric_nondigit; destruct negative; reflexivity) end.
  reflexivity.
Qed.

(** * C05(b): unparseable offsets *)

Lemma finish_tz_none y m d h mi s rest :
  timezone_offset (trim_ws rest) = None -> finish y m d h mi s rest = None.
Proof. intros E. unfold finish. cbv zeta. rewrite E. reflexivity. Qed.

Lemma finish_tz_big y m d h mi s rest offset :
  timezone_offset (trim_ws rest) = Some ([], offset) -> 86400 <= offset ->
  finish y m d h mi s rest = None.
Proof.
  intros E Hbig. unfold finish. cbv zeta. rewrite E. cbv beta iota.
  destruct (negb ((MIN_YEAR <=? y) && (y <=? MAX_YEAR))); [reflexivity|].
  destruct (negb (d <=? days_in_month y m)); [reflexivity|].
  replace (offset <? 86400) with false by (symmetry; apply Z.ltb_ge; exact Hbig).
  rewrite andb_false_r. reflexivity.
Qed.

Lemma fields_then_none m d h mi s : fields_then m d h mi s None = None.
Proof.
  unfold fields_then.
  repeat match goal with |- (if ?c then None else _) = None => destruct c; [reflexivity|] end.
  reflexivity.
Qed.

Theorem malformed_offsets : forall y m d h mi s off,
  valid_civil y m d h mi s ->
  In off [ []; [85;84;67]%N; [43;57]%N; [48;57;48;48]%N; [43;50;52;58;48;48]%N; [43;48;57;58;54;48]%N ] ->
  parse_datetime (render_to y m d h mi s ++ [SP] ++ off) = None.
Proof.
  intros y m d h mi s off [Hy [Hm [Hd [Hh [Hmi Hs]]]]] Hin.
  pose proof (days_in_month_le_31 y m) as D31.
  rewrite parse_render_to by lia.
  assert (F : finish y m d h mi s ([SP] ++ off) = None).
  { cbn [In] in Hin.
    destruct Hin as [<-|[<-|[<-|[<-|[<-|[<-|[]]]]]]].
    - apply finish_tz_none. reflexivity.
    - apply finish_tz_none. reflexivity.
    - apply finish_tz_none. reflexivity.
    - apply finish_tz_none. reflexivity.
    - apply (finish_tz_big _ _ _ _ _ _ _ 86400); [reflexivity | lia].
    - apply finish_tz_none. reflexivity. }
  rewrite F. apply fields_then_none.
Qed.

(** * C05(b): trailing zone inside the value *)

(** [ws_len] as a chain of byte comparisons (the definition matches on byte literals). *)
Definition ws_len' (s : str) : nat :=
  match s with
  | [] => 0%nat
  | b :: r =>
    if ((9 <=? b)%N && (b <=? 13)%N) || (b =? 32)%N then 1%nat else
    if (b =? 194)%N then
      match r with c :: _ => if (c =? 133)%N || (c =? 160)%N then 2%nat else 0%nat | [] => 0%nat end else
    if (b =? 225)%N then
      match r with c :: d :: _ => if (c =? 154)%N && (d =? 128)%N then 3%nat else 0%nat | _ => 0%nat end else
    if (b =? 226)%N then
      match r with
      | c :: d :: _ =>
        if (c =? 128)%N then
          (if ((128 <=? d)%N && (d <=? 138)%N) || (d =? 168)%N || (d =? 169)%N || (d =? 175)%N
           then 3%nat else 0%nat)
        else if (c =? 129)%N && (d =? 159)%N then 3%nat else 0%nat
      | _ => 0%nat
      end else
    if (b =? 227)%N then
      match r with c :: d :: _ => if (c =? 128)%N && (d =? 128)%N then 3%nat else 0%nat | _ => 0%nat end
    else 0%nat
  end.

Ltac brute b :=
  destruct b as [|b];
  [ try reflexivity
  | do 8 (try (destruct b as [b|b|]; try reflexivity)) ].

Lemma ws_len_eq s : ws_len s = ws_len' s.
Proof.
  destruct s as [|b r]; [reflexivity|].
  brute b.
  all: destruct r as [|c [|d r]]; try reflexivity.
  all: brute c.
  all: brute d.
Qed.

Ltac split_ifs :=
  repeat match goal with
  | |- context [if ?c then _ else _] => destruct c eqn:?
  end.

(* A sign byte is never part of a whitespace character. *)
Lemma ws_len_before_sign z sgn tail : sgn = 43%N \/ sgn = 45%N ->
  (ws_len (z ++ sgn :: tail) <= length z)%nat.
Proof.
  intros Hs. rewrite ws_len_eq.
  destruct z as [|b [|c [|d z]]]; cbn [app length]; unfold ws_len'.
  - destruct Hs; subst sgn; cbn; lia.
  - destruct Hs; subst sgn; cbn [N.eqb Pos.eqb orb andb]; split_ifs; lia.
  - destruct Hs; subst sgn; cbn [N.eqb Pos.eqb N.leb N.compare Pos.compare Pos.compare_cont orb andb]; split_ifs; lia.
  - split_ifs; lia.
Qed.

(* A space after a non-empty string that does not start with a whitespace character does not make it start with one. *)
Lemma ws_len_app_sp z r : z <> [] -> ws_len z = 0%nat -> ws_len (z ++ SP :: r) = 0%nat.
Proof.
  intros Hz. rewrite !ws_len_eq.
  destruct z as [|b [|c [|d z]]]; [congruence| | |]; cbn [app]; unfold ws_len', SP.
  - cbn [N.eqb Pos.eqb orb andb]. split_ifs; try reflexivity; try discriminate.
  - cbn [N.eqb Pos.eqb N.leb N.compare Pos.compare Pos.compare_cont orb andb]. rewrite ?andb_false_r.
    split_ifs; try reflexivity; try discriminate.
  - intros H; exact H.
Qed.

Lemma skipn_app_le {A} n (l1 l2 : list A) : (n <= length l1)%nat -> skipn n (l1 ++ l2) = skipn n l1 ++ l2.
Proof.
  revert l1. induction n as [|n IH]; intros l1 H; [reflexivity|].
  destruct l1 as [|a l1]; [simpl in H; lia|]. simpl. apply IH. simpl in H. lia.
Qed.

(* [colon_or_space] never consumes a sign byte. *)
Lemma colon_or_space_before_sign f z sgn tail : sgn = 43%N \/ sgn = 45%N ->
  exists z', colon_or_space_fuel f (z ++ sgn :: tail) = z' ++ sgn :: tail.
Proof.
  intros Hs. revert z. induction f as [|f IH]; intros z; [exists z; reflexivity|].
  pose proof (ws_len_before_sign z sgn tail Hs) as W.
  destruct z as [|b z].
  - exists []. destruct Hs; subst sgn; reflexivity.
  - cbn [app colon_or_space_fuel].
    assert (K : exists z', match ws_len (b :: z ++ sgn :: tail) with
                           | O => b :: z ++ sgn :: tail
                           | S n => colon_or_space_fuel f (skipn (S n) (b :: z ++ sgn :: tail))
                           end = z' ++ sgn :: tail).
    { cbn [app] in W. destruct (ws_len (b :: z ++ sgn :: tail)) as [|n] eqn:E.
      - exists (b :: z). reflexivity.
      - change (b :: z ++ sgn :: tail) with ((b :: z) ++ sgn :: tail).
        rewrite skipn_app_le by exact W. apply IH. }
    destruct K as [z' K].
    destruct (N.eq_dec b 58) as [->|N58].
    + apply IH.
    + exists z'. rewrite <- K. clear K W IH.
      destruct b as [|p]; [reflexivity|].
      do 6 (try (destruct p as [p|p|]; try reflexivity)). congruence.
Qed.

Definition sign_split (s : str) : option (bool * str) :=
  match s with
  | 43%N :: r => Some (false, r)
  | 45%N :: r => Some (true, r)
  | 226%N :: 136%N :: 146%N :: r => Some (true, r)
  | _ => None
  end.

Definition tz_body (negative : bool) (s : str) : option (str * Z) :=
  match s with
  | h1 :: h2 :: s =>
    if is_digit h1 && is_digit h2 then
      let hours := digit_val h1 * 10 + digit_val h2 in
      let s := colon_or_space_fuel (length s) s in
      match s with
      | m1 :: m2 :: s =>
        if is_digit m1 && is_digit m2 && (m1 <=? 53)%N then
          let minutes := digit_val m1 * 10 + digit_val m2 in
          let seconds := hours * 3600 + minutes * 60 in
          Some (s, if negative then - seconds else seconds)
        else None
      | _ => None
      end
    else None
  | _ => None
  end.

Lemma tz_unfold s :
  timezone_offset s = match sign_split (trim_ws s) with
                      | None => None
                      | Some (negative, s') => tz_body negative s'
                      end.
Proof. reflexivity. Qed.

Ltac brute_discr b H :=
  destruct b as [|b];
  [ try discriminate H
  | do 8 (try (destruct b as [b|b|]; try discriminate H)) ].

Lemma sign_split_inv b r negative r' : sign_split (b :: r) = Some (negative, r') ->
  (b = 43%N /\ r' = r) \/ (b = 45%N /\ r' = r) \/ (b = 226%N /\ r = 136%N :: 146%N :: r').
Proof.
  intros H. unfold sign_split in H.
  brute_discr b H.
  - left. injection H as _ H. subst. split; reflexivity.
  - right. left. injection H as _ H. subst. split; reflexivity.
  - right. right. split; [reflexivity|].
    destruct r as [|c r]; [discriminate H|].
    brute_discr c H.
    destruct r as [|d r]; [discriminate H|].
    brute_discr d H.
    injection H as _ H. subst. reflexivity.
Qed.

(* After the sign, the offset scanner cannot get past a later sign byte. *)
Lemma tz_body_stuck negative z sgn tail r v : sgn = 43%N \/ sgn = 45%N ->
  tz_body negative (z ++ sgn :: tail) = Some (r, v) -> r <> [].
Proof.
  intros Hs H.
  assert (ND : is_digit sgn = false) by (destruct Hs; subst sgn; reflexivity).
  destruct z as [|h1 [|h2 z]]; cbn [app tz_body] in H.
  - destruct tail as [|h2 s]; [discriminate H|]. rewrite ND in H. discriminate H.
  - rewrite ND, andb_false_r in H. discriminate H.
  - destruct (is_digit h1 && is_digit h2); [|discriminate H]. cbv zeta in H.
    match type of H with context [colon_or_space_fuel ?f ?x] =>
      destruct (colon_or_space_before_sign f z sgn tail Hs) as [z' E];
      replace (colon_or_space_fuel f x) with (z' ++ sgn :: tail) in H by (symmetry; exact E);
      clear E
    end.
    destruct z' as [|m1 [|m2 z']]; cbn [app] in H.
    + destruct tail as [|m2 s]; [discriminate H|]. rewrite ND in H. discriminate H.
    + rewrite ND, andb_false_r in H. discriminate H.
    + destruct (is_digit m1 && is_digit m2 && (m1 <=? 53)%N); [|discriminate H].
      injection H as H _. subst r. destruct z'; discriminate.
Qed.

Lemma trim_ws_nows s : ws_len s = 0%nat -> trim_ws s = s.
Proof. intros H. unfold trim_ws. destruct (length s); cbn [trim_ws_fuel]; [reflexivity|]. rewrite H. reflexivity. Qed.

Lemma timezone_offset_stuck z sgn tail r v : sgn = 43%N \/ sgn = 45%N ->
  z <> [] -> ws_len (z ++ sgn :: tail) = 0%nat ->
  timezone_offset (z ++ sgn :: tail) = Some (r, v) -> r <> [].
Proof.
  intros Hs Hz Hw H. rewrite tz_unfold, (trim_ws_nows _ Hw) in H.
  destruct z as [|b z]; [congruence|]. cbn [app] in H.
  destruct (sign_split (b :: z ++ sgn :: tail)) as [[negative s']|] eqn:E; [|discriminate H].
  apply sign_split_inv in E. destruct E as [[_ ->]|[[_ ->]|[_ E]]].
  - eapply tz_body_stuck; eassumption.
  - eapply tz_body_stuck; eassumption.
  - destruct z as [|c [|d z]]; cbn [app] in E.
    + injection E as E _. destruct Hs; subst sgn; discriminate E.
    + injection E as _ E _. destruct Hs; subst sgn; discriminate E.
    + injection E as _ _ E. subst s'. eapply tz_body_stuck; eassumption.
Qed.

Lemma finish_stuck y m d h mi s zone sgn tail : sgn = 43%N \/ sgn = 45%N ->
  zone <> [] -> ws_len zone = 0%nat ->
  finish y m d h mi s (zone ++ SP :: sgn :: tail) = None.
Proof.
  intros Hs Hz Hw. unfold finish. cbv zeta.
  pose proof (ws_len_app_sp zone (sgn :: tail) Hz Hw) as W.
  rewrite (trim_ws_nows _ W).
  destruct (timezone_offset (zone ++ SP :: sgn :: tail)) as [[r v]|] eqn:E; [|reflexivity].
  assert (A : zone ++ SP :: sgn :: tail = (zone ++ [SP]) ++ sgn :: tail)
    by (rewrite <- app_assoc; reflexivity).
  rewrite A in E, W.
  apply timezone_offset_stuck in E; [| exact Hs | destruct zone; discriminate | exact W].
  destruct r; [congruence | reflexivity].
Qed.

(** The statement with the per-byte premise [forall b, In b zone -> b <> SP /\ ws_len [b] = 0]
    is false: a multi-byte whitespace character (here U+0085, bytes C2 85) passes it byte by byte,
    and chrono trims it like a space. *)
Lemma malformed_trailing_zone_counterexample :
  let zone := [194; 133]%N in
  valid_civil 2024 2 28 23 59 59 /\ valid_offset 9 30 /\ zone <> [] /\
  (forall b, In b zone -> b <> SP /\ ws_len [b] = 0%nat) /\
  parse_datetime (render_to 2024 2 28 23 59 59 ++ zone ++ [SP] ++ render_offset true true 9 30)
  = Some 1709198999.
Proof.
  cbv zeta. split; [|split; [|split; [|split]]].
  - unfold valid_civil. change (days_in_month 2024 2) with 29. lia.
  - unfold valid_offset. lia.
  - discriminate.
  - intros b [<-|[<-|[]]]; split; (discriminate || reflexivity).
  - vm_compute. reflexivity.
Qed.

(** Repaired statement: the zone does not begin with a whitespace character (whatever it contains
    afterwards).  This is the weakest premise of this shape: a zone made only of whitespace
    characters is trimmed and the parse succeeds. *)
Theorem malformed_trailing_zone : forall y m d h mi s negative colon oh om zone,
  valid_civil y m d h mi s -> valid_offset oh om -> zone <> [] -> ws_len zone = 0%nat ->
  parse_datetime (render_to y m d h mi s ++ zone ++ [SP] ++ render_offset negative colon oh om) = None.
Proof.
  intros y m d h mi s negative colon oh om zone [Hy [Hm [Hd [Hh [Hmi Hs]]]]] _ Hz Hw.
  pose proof (days_in_month_le_31 y m) as D31.
  rewrite parse_render_to by lia.
  unfold render_offset. cbn [app].
  rewrite finish_stuck; [apply fields_then_none | destruct negative; auto | exact Hz | exact Hw].
Qed.

(** The per-byte form of the premise, with the missing conjunct: the bytes are ASCII. *)
Lemma ws_len_ascii b r : (b < 128)%N -> ws_len [b] = 0%nat -> ws_len (b :: r) = 0%nat.
Proof.
  rewrite !ws_len_eq. unfold ws_len'. intros Hb H.
  destruct (((9 <=? b)%N && (b <=? 13)%N) || (b =? 32)%N); [exact H|].
  replace (b =? 194)%N with false by (symmetry; apply N.eqb_neq; lia).
  replace (b =? 225)%N with false by (symmetry; apply N.eqb_neq; lia).
  replace (b =? 226)%N with false by (symmetry; apply N.eqb_neq; lia).
  replace (b =? 227)%N with false by (symmetry; apply N.eqb_neq; lia).
  reflexivity.
Qed.

Theorem malformed_trailing_zone_ascii : forall y m d h mi s negative colon oh om zone,
  valid_civil y m d h mi s -> valid_offset oh om -> zone <> [] ->
  (forall b, In b zone -> b <> SP /\ ws_len [b] = 0%nat /\ (b < 128)%N) ->
  parse_datetime (render_to y m d h mi s ++ zone ++ [SP] ++ render_offset negative colon oh om) = None.
Proof.
  intros y m d h mi s negative colon oh om zone Hc Ho Hz Hall.
  apply malformed_trailing_zone; try assumption.
  destruct zone as [|b z]; [congruence|].
  destruct (Hall b (or_introl eq_refl)) as [_ [Hw Hb]].
  apply ws_len_ascii; assumption.
Qed.

(** Extra: a second of 60 (leap-second representation) parses to one second after :59. *)
Theorem parse_rendered_leap_second : forall y m d h mi negative colon oh om,
  valid_civil y m d h mi 59 -> valid_offset oh om ->
  parse_datetime (render_to y m d h mi 60 ++ [SP] ++ render_offset negative colon oh om)
  = Some (instant y m d h mi 59 negative oh om + 1).
Proof.
  intros y m d h mi negative colon oh om [Hy [Hm [Hd [Hh [Hmi _]]]]] [Hoh Hom].
  pose proof (days_in_month_le_31 y m) as D31.
  rewrite parse_render_to by lia.
  unfold fields_then.
  replace ((1 <=? m) && (m <=? 12)) with true
    by (symmetry; apply andb_true_iff; split; apply Z.leb_le; lia).
  replace ((1 <=? d) && (d <=? 31)) with true
    by (symmetry; apply andb_true_iff; split; apply Z.leb_le; lia).
  replace (h <=? 23) with true by (symmetry; apply Z.leb_le; lia).
  replace (mi <=? 59) with true by (symmetry; apply Z.leb_le; lia).
  change (60 <=? 60) with true.
  cbn [negb].
  rewrite finish_rendered by lia.
  replace (d <=? days_in_month y m) with true by (symmetry; apply Z.leb_le; lia).
  change (60 =? 60) with true. cbv iota.
  f_equal. unfold instant, offset_seconds. destruct negative; lia.
Qed.

Print Assumptions parse_rendered.
Print Assumptions rendered_decision.
Print Assumptions days_from_civil_epoch.
Print Assumptions days_from_civil_next_day.
Print Assumptions malformed_separators.
Print Assumptions malformed_T_separator.
Print Assumptions malformed_missing_time.
Print Assumptions malformed_out_of_range.
Print Assumptions malformed_trailing_zone.
Print Assumptions malformed_trailing_zone_ascii.
Print Assumptions malformed_trailing_zone_counterexample.
Print Assumptions malformed_offsets.
Print Assumptions parse_rendered_leap_second.
