(** C18, second half, with unwrap-block elements: cleaning commutes with any respelling of the tag
    bodies that keeps the tree structure, the removal decisions and the [unwrap-block] attribute,
    for the renderings of abstract syntax trees in the strict domain of
    [Proofs.IdempotentUnwrap] (the wrapper lines of an unwrap-block carry no tags; no tag body
    contains a line break).

    Part 1: [merge_markers] commutes with a map of positions that is strictly monotone on a set
            [O] containing all positions of the forest (the translation [tr d1 d2] of
            [Proofs.SimBody] is monotone on the outer positions only).
    Part 2: the ready forests of two trees of the same structure correspond under [tr].
    Part 3: strictness is carried over to a tree of the same structure.
    Part 4: one run of [clean] on the rendering of a strict tree, with its explicit mask.
    Part 5: the theorem ([clean_respell_unwrap_gen], [clean_respell_unwrap],
            [clean_respell_unwrap_nodes]).
    Part 6: renaming of the tag names ([clean_rename_tag_names_unwrap],
            [clean_rename_output_unwrap]).
    Part 7: an instance. *)
From Coq Require Import List NArith ZArith Arith Bool Lia PeanoNat.
Import ListNotations.
From Chiri Require Import Base.Bytes Base.Res Model.Tokenizer Model.TagParser Model.TreeParser
     Model.Finders Model.Markers Model.Format Model.Clean
     Spec.TagGrammar Spec.Ranges Spec.Forest Spec.Rename Spec.Simulation
     Proofs.ResLemmas Proofs.Utf8 Proofs.Utf8Lemmas Proofs.MarkerProofs Proofs.RangeProofs
     Proofs.CollectProofs Proofs.RenameProofs Proofs.SimFlat Proofs.SimStrings Proofs.SimFront
     Proofs.MonoMap Proofs.SimClean Proofs.WellNested Proofs.DocMask Proofs.AstCollect
     Proofs.Idempotent Proofs.SimBody Proofs.IdempotentUnwrap Proofs.RespellBodies
     Proofs.RenameTags Proofs.RenameClean Proofs.SimBodyUnwrap.

Ltac unfold_ru := unfold Format.range, Markers.range, Ranges.range in *.

(* ------------------------------------------------------------------------- *)
(** * Part 1: [merge_markers] and maps that are monotone on a set of positions *)

(** [f] is strictly monotone on [O]. *)
Definition smono (f : nat -> nat) (O : nat -> Prop) : Prop :=
  forall a b, O a -> O b -> a < b -> f a < f b.

Lemma smono_le f O : smono f O -> forall a b, O a -> O b -> a <= b -> f a <= f b.
Proof.
  intros Hf a b Ha Hb H. destruct (Nat.eq_dec a b) as [->|N]; [lia|].
  pose proof (Hf a b Ha Hb ltac:(lia)). lia.
Qed.

Lemma smono_ltb f O : smono f O -> forall a b, O a -> O b -> (f a <? f b) = (a <? b).
Proof.
  intros Hf a b Ha Hb. destruct (Nat.ltb_spec a b) as [L|L].
  - apply Nat.ltb_lt. apply Hf; assumption.
  - apply Nat.ltb_ge. apply (smono_le f O Hf); assumption.
Qed.

Lemma smono_leb f O : smono f O -> forall a b, O a -> O b -> (f a <=? f b) = (a <=? b).
Proof.
  intros Hf a b Ha Hb. destruct (Nat.leb_spec a b) as [L|L].
  - apply Nat.leb_le. apply (smono_le f O Hf); assumption.
  - apply Nat.leb_gt. apply Hf; assumption.
Qed.

Lemma smono_min f O : smono f O -> forall a b, O a -> O b ->
  Nat.min (f a) (f b) = f (Nat.min a b) /\ O (Nat.min a b).
Proof.
  intros Hf a b Ha Hb. destruct (Nat.le_ge_cases a b) as [H|H].
  - rewrite (Nat.min_l a b H). split; [|exact Ha]. apply Nat.min_l. apply (smono_le f O Hf); assumption.
  - rewrite (Nat.min_r a b H). split; [|exact Hb]. apply Nat.min_r. apply (smono_le f O Hf); assumption.
Qed.

Lemma smono_max f O : smono f O -> forall a b, O a -> O b ->
  Nat.max (f a) (f b) = f (Nat.max a b) /\ O (Nat.max a b).
Proof.
  intros Hf a b Ha Hb. destruct (Nat.le_ge_cases a b) as [H|H].
  - rewrite (Nat.max_r a b H). split; [|exact Hb]. apply Nat.max_r. apply (smono_le f O Hf); assumption.
  - rewrite (Nat.max_l a b H). split; [|exact Ha]. apply Nat.max_l. apply (smono_le f O Hf); assumption.
Qed.

(** All positions of a marker, of an optional closing part, of a tree are in [O]. *)
Definition marker_on (O : nat -> Prop) (m : marker) : Prop := range_on O (fst m).

Definition opt_range_on (O : nat -> Prop) (e : option (nat * nat)) : Prop :=
  match e with Some c => range_on O c | None => True end.

Fixpoint rtree_on (O : nat -> Prop) (t : rtree) : Prop :=
  match t with
  | RT (h, cl) ch =>
    range_on O h /\ opt_range_on O cl /\
    (fix all (l : list rtree) : Prop :=
       match l with
       | [] => True
       | c :: l' => rtree_on O c /\ all l'
       end) ch
  end.

Lemma rtree_on_unfold O h cl ch :
  rtree_on O (RT (h, cl) ch) <-> range_on O h /\ opt_range_on O cl /\ Forall (rtree_on O) ch.
Proof.
  cbn [rtree_on].
  assert ((fix all (l : list rtree) : Prop :=
             match l with [] => True | c :: l' => rtree_on O c /\ all l' end) ch
          <-> Forall (rtree_on O) ch) as E.
  { induction ch as [|c ch IH]; [split; [constructor | exact (fun _ => I)]|].
    split.
    - intros [H1 H2]. constructor; [exact H1 | apply IH; exact H2].
    - intros H. inversion H; subst. split; [assumption | apply IH; assumption]. }
  rewrite E. tauto.
Qed.

Lemma contains_on f O m x : smono f O -> range_on O m -> O x ->
  contains (map_range f m) (f x) = contains m x.
Proof.
  intros Hf [H1 H2] Hx. unfold contains. rewrite fst_map_range, snd_map_range.
  rewrite (smono_leb f O Hf (fst m) x H1 Hx), (smono_ltb f O Hf x (snd m) Hx H2). reflexivity.
Qed.

Lemma mcm_on f O : smono f O -> forall ch m c, Forall (marker_on O) ch -> range_on O m ->
  merge_child_markers (map (map_marker f) ch) (map_range f m) c =
    (map_range f (fst (merge_child_markers ch m c)), snd (merge_child_markers ch m c)) /\
  range_on O (fst (merge_child_markers ch m c)).
Proof.
  intros Hf ch. induction ch as [|[cr ci] rest IH]; intros m c Hch Hm; [split; [reflexivity | exact Hm]|].
  inversion Hch as [|x l Hc Hrest]; subst. destruct Hc as [Hc1 Hc2]. cbn [fst] in Hc1, Hc2.
  cbn [map merge_child_markers]. unfold map_marker at 1. cbn [fst snd].
  rewrite !fst_map_range, !snd_map_range.
  rewrite (contains_on f O m (fst cr) Hf Hm Hc1), (contains_on f O m (snd cr) Hf Hm Hc2).
  destruct (contains m (fst cr) || contains m (snd cr)); [|split; [reflexivity | exact Hm]].
  destruct Hm as [Hm1 Hm2].
  destruct (smono_min f O Hf (fst m) (fst cr) Hm1 Hc1) as [E1 O1].
  destruct (smono_max f O Hf (snd m) (snd cr) Hm2 Hc2) as [E2 O2].
  rewrite E1, E2.
  change (f (Nat.min (fst m) (fst cr)), f (Nat.max (snd m) (snd cr)))
    with (map_range f (Nat.min (fst m) (fst cr), Nat.max (snd m) (snd cr))).
  apply IH; [exact Hrest|]. split; assumption.
Qed.

Lemma rebase_on O s e cur l : Forall (marker_on O) l -> Forall (marker_on O) (map (rebase_one s e cur) l).
Proof.
  intros H. induction H as [|c l Hc Hl IH]; [constructor|].
  cbn [map]. constructor; [|exact IH]. unfold marker_on in *.
  destruct c as [r [i|]]; unfold rebase_one; cbn [fst snd];
    [destruct (Markers.in_range s e i)|]; exact Hc.
Qed.

Lemma merge_tree_body_on f O acc m e cm : smono f O ->
  range_on O m -> opt_range_on O e -> Forall (marker_on O) cm ->
  merge_tree_body (map (map_marker f) acc) (map_range f m) (option_map (map_range f) e)
                  (map (map_marker f) cm) =
  match merge_tree_body acc m e cm with
  | Ok r => Ok (map (map_marker f) r)
  | Panic => Panic
  end /\
  (forall r, merge_tree_body acc m e cm = Ok r -> Forall (marker_on O) acc -> Forall (marker_on O) r).
Proof.
  intros Hf Hm He Hcm. unfold merge_tree_body.
  destruct (mcm_on f O Hf cm m 0 Hcm Hm) as [E1 L1]. rewrite E1.
  destruct (merge_child_markers cm m 0) as [m' sc]. cbn [fst snd] in *.
  destruct e as [em|]; cbn [option_map].
  - rewrite <- map_rev.
    destruct (mcm_on f O Hf (rev cm) em 0 (Forall_rev Hcm) He) as [E2 L2]. rewrite E2.
    destruct (merge_child_markers (rev cm) em 0) as [em' k]. cbn [fst snd] in *.
    rewrite !map_length.
    destruct (csub (length cm) k) as [ec|]; cbn [bind]; [|split; [reflexivity | intros r H; discriminate H]].
    destruct (ec <? sc).
    + split; [rewrite map_app; reflexivity|].
      intros r H Hacc. inversion H; subst. apply Forall_app. split; [exact Hacc|].
      constructor; [|constructor]. split; cbn [fst snd]; [apply L1 | apply L2].
    + rewrite slice_list_map. destruct (slice_list cm sc ec) as [kept|] eqn:Ek; cbn [bind];
        [|split; [reflexivity | intros r H; discriminate H]].
      rewrite !rebase_foldM. cbn [bind app]. rewrite map_length, rebase_map.
      split; [rewrite map_app; cbn [map]; rewrite map_app; reflexivity|].
      intros r H Hacc. inversion H; subst.
      apply Forall_app. split; [exact Hacc|]. constructor; [exact L1|].
      apply Forall_app. split.
      * apply rebase_on. apply (slice_list_forall _ cm sc ec kept Ek Hcm).
      * constructor; [exact L2 | constructor].
  - split; [rewrite map_app; reflexivity|].
    intros r H Hacc. inversion H; subst. apply Forall_app. split; [exact Hacc|].
    constructor; [exact L1 | constructor].
Qed.

Definition mt_on (f : nat -> nat) (O : nat -> Prop) (t : rtree) : Prop :=
  rtree_on O t -> forall acc,
  merge_tree (map (map_marker f) acc) (map_rtree f t) =
  match merge_tree acc t with Ok r => Ok (map (map_marker f) r) | Panic => Panic end /\
  (forall r, merge_tree acc t = Ok r -> Forall (marker_on O) acc -> Forall (marker_on O) r).

Lemma mt_forest_on f O F : Forall (mt_on f O) F -> Forall (rtree_on O) F ->
  forall acc,
  foldM merge_tree (map (map_rtree f) F) (map (map_marker f) acc) =
  match foldM merge_tree F acc with Ok r => Ok (map (map_marker f) r) | Panic => Panic end /\
  (forall r, foldM merge_tree F acc = Ok r -> Forall (marker_on O) acc -> Forall (marker_on O) r).
Proof.
  intros HP. induction HP as [|t F Ht HF IH]; intros Hon acc.
  - cbn [map foldM]. split; [reflexivity|]. intros r H Hacc. inversion H; subst. exact Hacc.
  - inversion Hon as [|x l Hlt HlF]; subst. cbn [map foldM].
    destruct (Ht Hlt acc) as [E L]. rewrite E.
    destruct (merge_tree acc t) as [a'|]; cbn [bind].
    + destruct (IH HlF a') as [E' L']. split; [exact E'|].
      intros r H Hacc. apply (L' r H). apply (L a' eq_refl Hacc).
    + split; [reflexivity | intros r H; discriminate H].
Qed.

Lemma mt_on_all f O : smono f O -> forall t, mt_on f O t.
Proof.
  intros Hf. apply rtree_ind'. intros [m e] ch HP. unfold mt_on. intros Hon acc.
  apply rtree_on_unfold in Hon. destruct Hon as (Hm & He & Hch).
  cbn [map_rtree]. rewrite !merge_tree_unfold_body.
  destruct (mt_forest_on f O ch HP Hch []) as [E L]. cbn [map] in E. rewrite E.
  destruct (foldM merge_tree ch []) as [cm|]; cbn [bind].
  - assert (Forall (marker_on O) cm) as Hcm by (apply (L cm eq_refl); constructor).
    apply (merge_tree_body_on f O); assumption.
  - split; [reflexivity | intros r H; discriminate H].
Qed.

(** [merge_markers] commutes with a map that is strictly monotone on a set containing all
    positions of the forest; the end points of the markers are in the set. *)
Theorem merge_markers_on f O F : smono f O -> Forall (rtree_on O) F ->
  merge_markers (map (map_rtree f) F) =
    match merge_markers F with Ok ms => Ok (map (map_marker f) ms) | Panic => Panic end /\
  (forall ms, merge_markers F = Ok ms -> Forall (marker_on O) ms).
Proof.
  intros Hf Hon. unfold merge_markers.
  assert (Forall (mt_on f O) F) as HP.
  { apply Forall_forall. intros t _. apply mt_on_all. exact Hf. }
  destruct (mt_forest_on f O F HP Hon []) as [E L]. split; [exact E|].
  intros ms H. apply (L ms H). constructor.
Qed.


(* ------------------------------------------------------------------------- *)
(** * Part 2: the ready forests of two trees of the same structure *)

(** The [unwrap-block] attributes of the opening tags, in pre-order. *)
Definition unwraps (f : list ast) : list bool := map is_unwrap (opens f).

Lemma unwraps_cons x f : unwraps (x :: f) = unwraps [x] ++ unwraps f.
Proof. unfold unwraps. rewrite (opens_cons x f), map_app. reflexivity. Qed.

Lemma unwraps_length P f f' : RespellBodies.same_tree P f f' -> length (unwraps f) = length (unwraps f').
Proof.
  intros H. unfold unwraps. rewrite !map_length.
  apply same_tree_opens in H. induction H as [|? ? ? ? _ _ IH]; [reflexivity | cbn [length]; congruence].
Qed.

Lemma rr_on_rtree O r ch : rr_on O r -> Forall (rtree_on O) ch -> rtree_on O (RT r ch).
Proof.
  destruct r as [h cl]. intros [H1 H2] Hch. cbn [fst snd] in H1, H2.
  apply rtree_on_unfold. split; [exact H1|]. split; [|exact Hch].
  destruct cl; exact H2.
Qed.

(** The range of one node, in two documents of the same shape. *)
Lemma node_rr_tr cfg cfg' d d' b1 b2 c1 c2 o c :
  same_shape d d' -> nonl d -> nonl d' -> o < length d -> c < length d ->
  el_readyb cfg b1 = el_readyb cfg' c1 -> is_unwrap b1 = is_unwrap c1 ->
  node_rr cfg' d' (c1, c2, o, c) = option_map (map_rr (tr d d')) (node_rr cfg d (b1, b2, o, c)) /\
  (forall r, node_rr cfg d (b1, b2, o, c) = Some r -> rr_on (outer d) r).
Proof.
  intros H N1 N2 Ho Hc Hr Hu. unfold node_rr, a_element_range. cbn [node_b1 node_open node_close].
  unfold is_unwrap in Hu.
  destruct (shape2_create d d' (el_of b1) (el_of c1) o c H N1 N2 (eq_sym Hu) Ho Hc) as [Ec Hon].
  unfold el_readyb in Hr.
  destruct (status cfg (el_of b1)) as [[|]|], (status cfg' (el_of c1)) as [[|]|]; try discriminate Hr;
    try (split; [reflexivity | intros r E; discriminate E]).
  rewrite Ec. destruct (a_create d (el_of b1) o c) as [[a b] cl].
  destruct Hon as [[Oa Ob] Hcl]. cbn [fst snd] in Oa, Ob, Hcl.
  unfold map_rr at 1. unfold map_range at 1. cbn [fst snd].
  rewrite (sim_ltb _ _ _ _ (tr_sim d d' H) a b Oa Ob).
  destruct (a <? b); cbn [option_map].
  - split; [reflexivity|]. intros r E. inversion E; subst r. split; [split; assumption | exact Hcl].
  - split; [reflexivity | intros r E; discriminate E].
Qed.

Lemma collect_same_both P cfg cfg' d d' : same_shape d d' -> nonl d -> nonl d' ->
  (forall a a', RespellBodies.same1 P a a' -> forall base, base + size a <= length d ->
     decisions cfg [a] = decisions cfg' [a'] -> unwraps [a] = unwraps [a'] ->
     fst (ast_collect1 cfg' d' false base a') =
       map (map_rtree (tr d d')) (fst (ast_collect1 cfg d false base a)) /\
     Forall (rtree_on (outer d)) (fst (ast_collect1 cfg d false base a))) /\
  (forall f f', RespellBodies.same_tree P f f' -> forall base, base + sizes f <= length d ->
     decisions cfg f = decisions cfg' f' -> unwraps f = unwraps f' ->
     fst (ast_collect cfg' d' false base f') =
       map (map_rtree (tr d d')) (fst (ast_collect cfg d false base f)) /\
     Forall (rtree_on (outer d)) (fst (ast_collect cfg d false base f))).
Proof.
  intros H N1 N2.
  apply (RespellBodies.same_ind P
    (fun a a' => forall base, base + size a <= length d ->
       decisions cfg [a] = decisions cfg' [a'] -> unwraps [a] = unwraps [a'] ->
       fst (ast_collect1 cfg' d' false base a') =
         map (map_rtree (tr d d')) (fst (ast_collect1 cfg d false base a)) /\
       Forall (rtree_on (outer d)) (fst (ast_collect1 cfg d false base a)))
    (fun f f' => forall base, base + sizes f <= length d ->
       decisions cfg f = decisions cfg' f' -> unwraps f = unwraps f' ->
       fst (ast_collect cfg' d' false base f') =
         map (map_rtree (tr d d')) (fst (ast_collect cfg d false base f)) /\
       Forall (rtree_on (outer d)) (fst (ast_collect cfg d false base f)))).
  - intros t base _ _ _. split; [reflexivity | constructor].
  - intros b b' _ base _ _ _. split; [reflexivity | constructor].
  - intros b1 b2 kids c1 c2 k' _ _ Hk IH base Hb Hd Hu.
    cbn [size] in Hb. fold (sizes kids) in Hb.
    unfold decisions in Hd. rewrite !opens_AE in Hd. cbn [map] in Hd. inversion Hd as [[D1 D2]].
    unfold unwraps in Hu. rewrite !opens_AE in Hu. cbn [map] in Hu. inversion Hu as [[U1 U2]].
    destruct (IH (S base) ltac:(lia) D2 U2) as [Ek Ok].
    rewrite !ast_collect1_AE, (collect_node_rr cfg' d' c1 c2), (collect_node_rr cfg d b1 b2).
    rewrite <- (same_tree_sizes P _ _ Hk).
    destruct (node_rr_tr cfg cfg' d d' b1 b2 c1 c2 base (S base + sizes kids) H N1 N2
                ltac:(lia) ltac:(lia) D1 U1) as [En On].
    rewrite En. destruct (node_rr cfg d (b1, b2, base, S base + sizes kids)) as [r|]; cbn [option_map].
    + cbn [map]. rewrite map_rtree_RT, Ek. split; [reflexivity|].
      constructor; [|constructor]. apply rr_on_rtree; [apply On; reflexivity | exact Ok].
    + split; [exact Ek | exact Ok].
  - intros base _ _ _. split; [reflexivity | constructor].
  - intros x x' f f' Hx Hf IHx IHf base Hb Hd Hu. rewrite sizes_cons in Hb.
    rewrite (decisions_cons cfg x), (decisions_cons cfg' x') in Hd.
    apply app_eq_len in Hd; [|apply (decisions_length P); apply same1_singleton; exact Hx].
    destruct Hd as [D1 D2].
    rewrite (unwraps_cons x), (unwraps_cons x') in Hu.
    apply app_eq_len in Hu; [|apply (unwraps_length P); apply same1_singleton; exact Hx].
    destruct Hu as [U1 U2].
    destruct (IHx base ltac:(lia) D1 U1) as [E1 O1].
    destruct (IHf (base + size x) ltac:(lia) D2 U2) as [E2 O2].
    cbn [ast_collect]. unfold pair_app. cbn [fst].
    rewrite <- (same1_size P _ _ Hx), E1, E2, map_app. split; [reflexivity|].
    apply Forall_app. split; assumption.
Qed.

(** The ready forest of the second tree is the translated ready forest of the first one, and all
    positions of the latter are outer positions. *)
Theorem forest_tr P cfg cfg' f f' :
  RespellBodies.same_tree P f f' -> Forall ast_ok f -> Forall ast_ok f' ->
  nonl (doc_of f) -> nonl (doc_of f') ->
  decisions cfg f = decisions cfg' f' -> unwraps f = unwraps f' ->
  fst (a_collect cfg' (doc_of f') false) =
    map (map_rtree (tr (doc_of f) (doc_of f'))) (fst (a_collect cfg (doc_of f) false)) /\
  Forall (rtree_on (outer (doc_of f))) (fst (a_collect cfg (doc_of f) false)).
Proof.
  intros Hst Hok Hok' N1 N2 Hd Hu.
  rewrite (a_collect_ast cfg false f Hok), (a_collect_ast cfg' false f' Hok').
  apply (proj2 (collect_same_both P cfg cfg' (doc_of f) (doc_of f')
                  (shape_rel_same P _ _ (same_tree_doc P f f' Hst)) N1 N2) f f' Hst 0);
    [rewrite sizes_doc; lia | exact Hd | exact Hu].
Qed.

(* ------------------------------------------------------------------------- *)
(** * Part 3: strictness of a tree of the same structure *)

Lemma same_tree_app_inv P a b r' : RespellBodies.same_tree P (a ++ b) r' ->
  exists a' b', r' = a' ++ b' /\ RespellBodies.same_tree P a a' /\ RespellBodies.same_tree P b b'.
Proof.
  revert r'. induction a as [|x a IH]; intros r' H.
  - exists [], r'. split; [reflexivity|]. split; [exact I | exact H].
  - cbn [app] in H. apply same_tree_cons in H. destruct H as (x' & r & -> & Hx & Hr).
    destruct (IH r Hr) as (a' & b' & -> & Ha & Hb).
    exists (x' :: a'), b'. split; [reflexivity|]. split; [split; assumption | exact Hb].
Qed.

Lemma same_tree_wrapper P kids kids' :
  RespellBodies.same_tree P kids kids' -> wrapper_kids kids -> wrapper_kids kids'.
Proof.
  intros H [(t & ->)|(t1 & mid & t2 & -> & C)].
  - apply same_tree_cons in H. destruct H as (x' & r' & -> & Hx & Hr).
    apply same1_AT in Hx. apply same_tree_nil in Hr. subst. left. exists t. reflexivity.
  - apply same_tree_cons in H. destruct H as (x' & r' & -> & Hx & Hr).
    apply same1_AT in Hx. subst x'.
    apply same_tree_app_inv in Hr. destruct Hr as (mid' & l' & -> & _ & Hl).
    apply same_tree_cons in Hl. destruct Hl as (y' & z' & -> & Hy & Hz).
    apply same1_AT in Hy. apply same_tree_nil in Hz. subst.
    right. exists t1, mid', t2. split; [reflexivity | exact C].
Qed.

Lemma same_strict_both P :
  (forall a a', RespellBodies.same1 P a a' -> strict1 a -> unwraps [a] = unwraps [a'] ->
     nonl (items_of a') -> strict1 a') /\
  (forall f f', RespellBodies.same_tree P f f' -> strict f -> unwraps f = unwraps f' ->
     nonl (doc_of f') -> strict f').
Proof.
  apply (RespellBodies.same_ind P
    (fun a a' => strict1 a -> unwraps [a] = unwraps [a'] -> nonl (items_of a') -> strict1 a')
    (fun f f' => strict f -> unwraps f = unwraps f' -> nonl (doc_of f') -> strict f')).
  - intros t _ _ _. exact I.
  - intros b b' _ _ _ Hn. cbn [strict1]. apply Hn. left. reflexivity.
  - intros b1 b2 kids c1 c2 k' _ _ Hk IH Hs Hu Hn.
    apply strict1_AE in Hs. destruct Hs as (_ & _ & HW & Hsk).
    unfold unwraps in Hu. rewrite !opens_AE in Hu. cbn [map] in Hu. inversion Hu as [[U1 U2]].
    rewrite items_AE in Hn. apply strict1_AE. split; [|split; [|split]].
    + apply Hn. apply in_or_app. left. left. reflexivity.
    + apply Hn. apply in_or_app. right. apply in_or_app. right. left. reflexivity.
    + intros U. rewrite <- U1 in U. apply (same_tree_wrapper P kids k' Hk (HW U)).
    + apply (IH Hsk U2). intros b Hb. apply Hn. apply in_or_app. right. apply in_or_app. left. exact Hb.
  - intros _ _ _. constructor.
  - intros x x' f f' Hx Hf IHx IHf Hs Hu Hn. inversion Hs as [|? ? S1 S2]; subst.
    rewrite (unwraps_cons x), (unwraps_cons x') in Hu.
    apply app_eq_len in Hu; [|apply (unwraps_length P); apply same1_singleton; exact Hx].
    destruct Hu as [U1 U2]. rewrite doc_of_cons in Hn. constructor.
    + apply (IHx S1 U1). intros b Hb. apply Hn. apply in_or_app. left. exact Hb.
    + apply (IHf S2 U2). intros b Hb. apply Hn. apply in_or_app. right. exact Hb.
Qed.

(** A tree of the same structure as a strict tree, with the [unwrap-block] attribute on the same
    elements and without line breaks in its tag bodies, is strict. *)
Theorem same_tree_strict P f f' : RespellBodies.same_tree P f f' -> strict f ->
  unwraps f = unwraps f' -> nonl (doc_of f') -> strict f'.
Proof. apply (proj2 (same_strict_both P)). Qed.

Lemma strict_nonl f : strict f -> nonl (doc_of f).
Proof. intros H b Hb. apply (strict_tags f H b Hb). Qed.

(* ------------------------------------------------------------------------- *)
(** * Part 4: one run of [clean] on a strict tree, with its explicit mask *)

(** [Proofs.IdempotentUnwrap.clean_run_mask_strict] with the markers and the whitespace ranges
    exposed: the mask is [run_mask (map fst ams) aR]. *)
Theorem clean_run_explicit_strict cfg ds de f ams :
  good_delims ds de -> de_nb de -> good_doc ds de (doc_of f) -> bodies_ok (doc_of f) -> strict f ->
  merge_markers (fst (a_collect cfg (doc_of f) false)) = Ok ams ->
  sorted_nonempty_from 0 (map fst ams) ->
  (forall i, in_rangesb (map fst ams) i = del1u cfg f i) ->
  exists aR,
    a_format_ranges (sdelete (map fst ams) (flat (doc_of f))) (a_removed_pos ams) = Ok aR /\
    pair_respecting (run_mask (map fst ams) aR) f /\
    clean cfg ds de (render ds de (doc_of f)) =
      Ok (rs ds de (sdel_from 0 (run_mask (map fst ams) aR) (flat (doc_of f)))).
Proof.
  intros Hgd Hnb Hdoc Hbod Hst E S1 K'.
  pose proof (good_delims_sp_ok ds de Hgd) as Hsp.
  destruct (clean_rendered_pairs cfg ds de (doc_of f) ams Hgd Hnb Hdoc Hbod E)
    as (aR & EaR & Ecl & Hws & Hconf).
  pose proof (kept_tag_untouched_u ds de (doc_of f) ams aR Hsp S1 Hconf) as KT0.
  exists aR. split; [exact EaR|]. unfold run_mask, sindex.
  set (doc := doc_of f) in *. set (R := map fst ams) in *. set (P1 := in_rangesb R) in *.
  set (l := flat doc) in *. set (l' := sdelete R l) in *.
  unfold sindex in KT0. fold P1 in KT0.
  assert (forall it b q, nth_error doc it = Some (Tag b) ->
            fstart doc it <= q < fstart doc (S it) -> P1 q = tdel cfg f it) as PT.
  { intros it b q Hit Hq. unfold P1. rewrite K'. apply (del1u_tag cfg f it b q Hst Hit Hq). }
  assert (forall it b, nth_error doc it = Some (Tag b) -> P1 (fstart doc it) = false ->
            forall j, fstart doc it <= j < fstart doc (S it) -> in_rangesb aR (rank P1 j) = false) as KT.
  { intros it b Hit H0 j Hj. apply (KT0 it b Hit).
    - apply (strict_tags f Hst). apply (nth_error_In _ _ Hit).
    - intros q Hq. rewrite (PT it b q Hit Hq). rewrite <- (PT it b _ Hit (tag_start_in doc it b Hit)).
      exact H0.
    - exact Hj. }
  split; [split|].
  - intros it b Hit j Hj. cbn [Nat.add] in *. fold doc in Hit, Hj. fold doc.
    rewrite (PT it b j Hit Hj), <- (PT it b _ Hit (tag_start_in doc it b Hit)).
    destruct (P1 (fstart doc it)) eqn:E0; [reflexivity|]. cbn [orb].
    rewrite (KT it b Hit E0 j Hj). rewrite (KT it b Hit E0 (fstart doc it) (tag_start_in doc it b Hit)).
    reflexivity.
  - intros b1 b2 o c Hn.
    pose proof (ast_nodes_at f 0 _ Hn) as (i & j & -> & -> & _ & Hi & Hj). cbn [Nat.add].
    fold doc in Hi, Hj. fold doc.
    assert (P1 (fstart doc i) = P1 (fstart doc j)) as Ec.
    { rewrite (PT i b1 _ Hi (tag_start_in doc i b1 Hi)), (PT j b2 _ Hj (tag_start_in doc j b2 Hj)).
      apply (tdel_node cfg f (b1, b2, i, j) Hn). }
    rewrite <- Ec. destruct (P1 (fstart doc i)) eqn:E0; [reflexivity|]. cbn [orb].
    rewrite (KT i b1 Hi E0 _ (tag_start_in doc i b1 Hi)).
    symmetry in Ec. rewrite (KT j b2 Hj Ec _ (tag_start_in doc j b2 Hj)). reflexivity.
  - rewrite Ecl. fold doc R l l'. unfold l', sdelete. rewrite sdel_compose. reflexivity.
Qed.

(* ------------------------------------------------------------------------- *)
(** * Part 5: cleaning commutes with respelling, with unwrap-block elements *)

(** The general form: the decisions and the [unwrap-block] attributes agree on the opening tags of
    corresponding elements; of the second tree only "no tag body contains a line break" is asked
    (its strictness follows, [same_tree_strict]). *)
Theorem clean_respell_unwrap_gen : forall (P : str -> str -> Prop) cfg cfg' ds de f f' out,
  good_delims ds de -> de_nb de ->
  good_doc ds de (doc_of f) -> bodies_ok (doc_of f) -> Forall ast_ok f -> strict f ->
  good_doc ds de (doc_of f') -> bodies_ok (doc_of f') -> Forall ast_ok f' -> nonl (doc_of f') ->
  RespellBodies.same_tree P f f' ->
  decisions cfg f = decisions cfg' f' -> unwraps f = unwraps f' ->
  clean cfg ds de (render ds de (doc_of f)) = Ok out ->
  exists g g', out = render ds de (doc_of g) /\
               clean cfg' ds de (render ds de (doc_of f')) = Ok (render ds de (doc_of g')) /\
               RespellBodies.same_tree P g g' /\ Forall ast_ok g /\ Forall ast_ok g'.
Proof.
  intros P cfg cfg' ds de f f' out Hgd Hnb Hdoc Hbod Hok Hs Hdoc' Hbod' Hok' Hn' Hst Hdec Hun Hc.
  pose proof (same_tree_doc P f f' Hst) as HP.
  pose proof (shape_rel_same P _ _ HP) as Hsh.
  pose proof (strict_nonl f Hs) as Hn.
  pose proof (same_tree_strict P f f' Hst Hs Hun Hn') as Hs'.
  (* the forests and the markers *)
  destruct (forest_tr P cfg cfg' f f' Hst Hok Hok' Hn Hn' Hdec Hun) as [EF HFon].
  destruct (ucollect_markers cfg f Hok) as (ams & E & S1 & _ & K).
  destruct (ucollect_markers cfg' f' Hok') as (ams' & E' & S1' & _ & K').
  set (d := doc_of f) in *. set (d' := doc_of f') in *.
  pose proof (tr_sim d d' Hsh) as Sm.
  assert (smono (tr d d') (outer d)) as Hmono by (exact (sim_mono _ _ _ _ Sm)).
  destruct (merge_markers_on (tr d d') (outer d) _ Hmono HFon) as [EM HMon].
  rewrite <- EF, E', E in EM. inversion EM as [Eams]. clear EM. subst ams'.
  specialize (HMon ams E).
  set (R := map fst ams) in *. set (R' := map fst (map (map_marker (tr d d')) ams)) in *.
  assert (R' = map (map_range (tr d d')) R) as HR' by (apply map_fst_map_marker).
  assert (ranges_on (outer d) R) as HRo.
  { intros r Hr. unfold R in Hr. apply in_map_iff in Hr. destruct Hr as (m & <- & Hm).
    rewrite Forall_forall in HMon. apply (HMon m Hm). }
  pose proof (SimBodyUnwrap.ranges_on_tr d d' R Hsh HRo) as HRo'. rewrite <- HR' in HRo'.
  (* the first deletion *)
  destruct (sdelete_shape_nonl P d d' R HP Hn Hn' HRo) as (Es1 & Es1' & HP1 & Hn1 & Hn1').
  rewrite <- HR' in Es1', HP1, Hn1'.
  set (m1 := doc_mask (in_rangesb R) 0 d) in *. set (m1' := doc_mask (in_rangesb R') 0 d') in *.
  pose proof (shape_rel_same P _ _ HP1) as Hsh1.
  assert (agree (in_rangesb R) (in_rangesb R') 0 0 d d') as Ha1.
  { intros j Hj _. cbn [Nat.add]. rewrite HR'. symmetry. apply in_rangesb_tr; assumption. }
  pose proof (ranges_on_respecting d R HRo) as I1.
  pose proof (ranges_on_respecting d' R' HRo') as I1'.
  assert (forall j, outer d j ->
            outer m1 (sindex R j) /\ tr m1 m1' (sindex R j) = sindex R' (tr d d' j)) as Hrank.
  { intros j Hj. apply (rank_tr P d d' HP _ _ 0 0 Ha1 I1 I1' j Hj). }
  (* the two runs *)
  destruct (clean_run_explicit_strict cfg ds de f ams Hgd Hnb Hdoc Hbod Hs E S1 K)
    as (aR & EaR & Hpr & Ecl).
  destruct (clean_run_explicit_strict cfg' ds de f' _ Hgd Hnb Hdoc' Hbod' Hs' E' S1' K')
    as (aR' & EaR' & Hpr' & Ecl').
  fold d in EaR, Hpr, Ecl. fold d' in EaR', Hpr', Ecl'. fold R in EaR, Hpr, Ecl. fold R' in EaR', Hpr', Ecl'.
  (* the removed positions correspond, with their pair indices *)
  assert (a_removed_pos (map (map_marker (tr d d')) ams) =
          map (fun p => (tr m1 m1' (fst p), snd p)) (a_removed_pos ams)) as Epos.
  { unfold a_removed_pos. fold R R'. rewrite !map_map. apply map_ext_in. intros m Hm.
    unfold map_marker. cbn [fst snd]. rewrite fst_map_range.
    assert (outer d (fst (fst m))) as Ho.
    { apply (HRo (fst m)). unfold R. apply in_map. exact Hm. }
    destruct (Hrank (fst (fst m)) Ho) as [_ ->]. reflexivity. }
  assert (forall p, In p (a_removed_pos ams) -> outer m1 (fst p)) as Hpo.
  { intros p Hp. unfold a_removed_pos in Hp. apply in_map_iff in Hp. destruct Hp as (m & <- & Hm).
    cbn [fst]. fold R. apply Hrank. apply (HRo (fst m)). unfold R. apply in_map. exact Hm. }
  (* the whitespace ranges correspond *)
  destruct (shape2_format_ranges m1 m1' (a_removed_pos ams) Hsh1 Hn1 Hn1' Hpo) as [Efr Hon].
  rewrite Es1 in EaR. rewrite Es1' in EaR'. rewrite <- Epos, EaR, EaR' in Efr.
  inversion Efr as [EaR2]. clear Efr.
  assert (ranges_on (outer m1) aR) as HaRo by (intros r Hr; apply (Hon aR EaR r Hr)).
  (* the run masks agree *)
  assert (agree (run_mask R aR) (run_mask R' aR') 0 0 d d') as Ha2.
  { intros j Hj Hl. cbn [Nat.add]. unfold run_mask.
    pose proof (Ha1 j Hj Hl) as Ej. cbn [Nat.add] in Ej. rewrite <- Ej. f_equal.
    destruct (Hrank j Hj) as [HO <-]. rewrite EaR2. symmetry. apply in_rangesb_tr; assumption. }
  (* the trees *)
  exists (ast_norm (ast_mask (run_mask R aR) 0 f)), (ast_norm (ast_mask (run_mask R' aR') 0 f')).
  split; [|split; [|split; [|split]]].
  - rewrite Ecl in Hc. inversion Hc. apply masked_rendering. exact Hpr.
  - rewrite Ecl'. f_equal. apply masked_rendering. exact Hpr'.
  - apply same_tree_norm. apply same_tree_mask; assumption.
  - apply masked_ok. exact Hok.
  - apply masked_ok. exact Hok'.
Qed.

(** ** Corollaries *)

(** The two configurations take the same decision on any two related bodies, and related bodies
    agree on the [unwrap-block] attribute; of the second tree only "no tag body contains a line
    break" is asked. *)
Theorem clean_respell_unwrap_weak : forall (P : str -> str -> Prop) cfg cfg' ds de f f' out,
  good_delims ds de -> de_nb de ->
  good_doc ds de (doc_of f) -> bodies_ok (doc_of f) -> Forall ast_ok f -> strict f ->
  good_doc ds de (doc_of f') -> bodies_ok (doc_of f') -> Forall ast_ok f' -> nonl (doc_of f') ->
  RespellBodies.same_tree P f f' ->
  (forall b b', P b b' -> el_readyb cfg b = el_readyb cfg' b' /\ is_unwrap b = is_unwrap b') ->
  clean cfg ds de (render ds de (doc_of f)) = Ok out ->
  exists g g', out = render ds de (doc_of g) /\
               clean cfg' ds de (render ds de (doc_of f')) = Ok (render ds de (doc_of g')) /\
               RespellBodies.same_tree P g g' /\ Forall ast_ok g /\ Forall ast_ok g'.
Proof.
  intros P cfg cfg' ds de f f' out Hgd Hnb Hdoc Hbod Hok Hs Hdoc' Hbod' Hok' Hn' Hst Hdec Hc.
  apply (clean_respell_unwrap_gen P cfg cfg' ds de f f' out); try assumption.
  - unfold decisions. apply (Forall2_map_eq P); [apply same_tree_opens; exact Hst|].
    intros b b' _ _ Hb. apply (Hdec b b' Hb).
  - unfold unwraps. apply (Forall2_map_eq P); [apply same_tree_opens; exact Hst|].
    intros b b' _ _ Hb. apply (Hdec b b' Hb).
Qed.

(** The form of the statement, with both trees strict. *)
Theorem clean_respell_unwrap : forall (P : str -> str -> Prop) cfg cfg' ds de f f' out,
  good_delims ds de -> de_nb de ->
  good_doc ds de (doc_of f) -> bodies_ok (doc_of f) -> Forall ast_ok f -> strict f ->
  good_doc ds de (doc_of f') -> bodies_ok (doc_of f') -> Forall ast_ok f' -> strict f' ->
  RespellBodies.same_tree P f f' ->
  (forall b b', P b b' -> el_readyb cfg b = el_readyb cfg' b' /\ is_unwrap b = is_unwrap b') ->
  clean cfg ds de (render ds de (doc_of f)) = Ok out ->
  exists g g', out = render ds de (doc_of g) /\
               clean cfg' ds de (render ds de (doc_of f')) = Ok (render ds de (doc_of g')) /\
               RespellBodies.same_tree P g g' /\ Forall ast_ok g /\ Forall ast_ok g'.
Proof.
  intros P cfg cfg' ds de f f' out Hgd Hnb Hdoc Hbod Hok Hs Hdoc' Hbod' Hok' Hs' Hst Hdec Hc.
  apply (clean_respell_unwrap_weak P cfg cfg' ds de f f' out); try assumption.
  apply strict_nonl. exact Hs'.
Qed.

(** Corresponding nodes of two trees of the same structure, with their common index. *)
Lemma nodes_rel_nth P f f' : RespellBodies.same_tree P f f' ->
  Forall2 (fun n n' => exists k, nth_error (ast_nodes 0 f) k = Some n /\
                                 nth_error (ast_nodes 0 f') k = Some n' /\
                                 P (node_b1 n) (node_b1 n'))
          (ast_nodes 0 f) (ast_nodes 0 f').
Proof.
  intros Hst. pose proof (same_tree_nodes P f f' 0 Hst) as HN.
  apply Forall2_nth.
  - induction HN as [|? ? ? ? _ _ IH]; [reflexivity | cbn [length]; congruence].
  - intros k n n' Hn Hn'. exists k. split; [exact Hn|]. split; [exact Hn'|].
    revert k Hn Hn'. induction HN as [|x x' l l' Hx _ IH]; intros k Hn Hn'.
    + destruct k; discriminate Hn.
    + destruct k as [|k].
      * cbn [nth_error] in Hn, Hn'. inversion Hn; inversion Hn'; subst.
        destruct n as [[[b1 b2] o] c], n' as [[[c1 c2] o'] c']. apply Hx.
      * apply (IH k); assumption.
Qed.

(** The same with the condition restricted to the opening tags of corresponding elements (the
    [k]-th elements of the two trees in document order), as [clean_respell_nodes]. *)
Theorem clean_respell_unwrap_nodes : forall (P : str -> str -> Prop) cfg cfg' ds de f f' out,
  good_delims ds de -> de_nb de ->
  good_doc ds de (doc_of f) -> bodies_ok (doc_of f) -> Forall ast_ok f -> strict f ->
  good_doc ds de (doc_of f') -> bodies_ok (doc_of f') -> Forall ast_ok f' -> nonl (doc_of f') ->
  RespellBodies.same_tree P f f' ->
  (forall k n n', nth_error (ast_nodes 0 f) k = Some n -> nth_error (ast_nodes 0 f') k = Some n' ->
     P (node_b1 n) (node_b1 n') ->
     readyb cfg n = readyb cfg' n' /\ is_unwrap (node_b1 n) = is_unwrap (node_b1 n')) ->
  clean cfg ds de (render ds de (doc_of f)) = Ok out ->
  exists g g', out = render ds de (doc_of g) /\
               clean cfg' ds de (render ds de (doc_of f')) = Ok (render ds de (doc_of g')) /\
               RespellBodies.same_tree P g g' /\ Forall ast_ok g /\ Forall ast_ok g'.
Proof.
  intros P cfg cfg' ds de f f' out Hgd Hnb Hdoc Hbod Hok Hs Hdoc' Hbod' Hok' Hn' Hst Hdec Hc.
  pose proof (nodes_rel_nth P f f' Hst) as HN.
  apply (clean_respell_unwrap_gen P cfg cfg' ds de f f' out); try assumption.
  - unfold decisions. rewrite (opens_nodes f 0), (opens_nodes f' 0), !map_map.
    apply (Forall2_map_eq _ _ _ _ _ HN).
    intros n n' _ _ (k & Hn & Hk' & Hp). apply (Hdec k n n' Hn Hk' Hp).
  - unfold unwraps. rewrite (opens_nodes f 0), (opens_nodes f' 0), !map_map.
    apply (Forall2_map_eq _ _ _ _ _ HN).
    intros n n' _ _ (k & Hn & Hk' & Hp). apply (Hdec k n n' Hn Hk' Hp).
Qed.

(* ------------------------------------------------------------------------- *)
(** * Part 6: renaming of the tag names *)

(** A renamed tag body contains a line break only if the original body does. *)
Lemma nonl_rename_body (D : str -> Prop) rho t : admissible D rho -> D (trim_slashes (tg_name t)) ->
  ~ In NL (print_body t) -> ~ In NL (print_body (rename_tag rho t)).
Proof.
  intros A Hn H Hx. rewrite print_body_rename in Hx. rewrite print_body_parts in H.
  apply in_app_or in Hx. destruct Hx as [Hx|Hx]; [apply H; apply in_or_app; left; exact Hx|].
  apply in_app_or in Hx. destruct Hx as [Hx|Hx];
    [|apply H; apply in_or_app; right; apply in_or_app; right; exact Hx].
  unfold rn in Hx. apply in_app_or in Hx. destruct Hx as [Hx|Hx].
  - apply H. apply in_or_app. right. apply in_or_app. left. apply in_slashes. exact Hx.
  - pose proof (wf_name_bytes _ (adm_wf D rho A _ Hn)) as W. rewrite forallb_forall in W.
    specialize (W NL Hx). vm_compute in W. discriminate W.
Qed.

(** The renamed document has no line break in a tag body when the original has none. *)
Theorem nonl_rename (D : str -> Prop) rho f : admissible D rho -> tast_ok f -> names_in D f ->
  nonl (doc_of (to_ast f)) -> nonl (doc_of (to_ast (rename_tast rho f))).
Proof.
  intros A Hok Hd Hn b' Hin.
  pose proof (same_tree_doc _ _ _ (same_tree_renameD D rho f Hok Hd)) as HS.
  destruct (shape_rel_in_tag _ _ _ HS b' Hin) as (b & Hb0 & [Hc|(t & W & U & N & Dn & E1 & E2)]).
  - unfold P_comment in Hc. subst b'. apply (Hn b Hb0).
  - subst b b'. apply (nonl_rename_body D rho t A Dn). apply (Hn _ Hb0).
Qed.

(** The [unwrap-block] attributes of the opening tags are unchanged. *)
Theorem unwraps_rename (D : str -> Prop) rho f : admissible D rho -> tast_ok f -> names_in D f ->
  unwraps (to_ast (rename_tast rho f)) = unwraps (to_ast f).
Proof.
  intros A Hok Hd. unfold unwraps.
  rewrite (opens_nodes (to_ast (rename_tast rho f)) 0), (opens_nodes (to_ast f) 0).
  rewrite !nodes_b1_openers, openers_rename, !map_map.
  apply map_ext_in. intros t Hin. destruct (opener_facts D f t Hok Hd Hin) as (W & U & Dn).
  unfold is_unwrap. apply (unwrap_rename_tag D rho t A Dn W U).
Qed.

(** The renamed tree of a strict tree is strict. *)
Theorem strict_rename (D : str -> Prop) rho f : admissible D rho -> tast_ok f -> names_in D f ->
  strict (to_ast f) -> strict (to_ast (rename_tast rho f)).
Proof.
  intros A Hok Hd Hs.
  apply (same_tree_strict (P_any rho) (to_ast f)); [apply same_tree_rename_tast; exact Hok | exact Hs | |].
  - symmetry. apply (unwraps_rename D rho f A Hok Hd).
  - apply (nonl_rename D rho f A Hok Hd). apply strict_nonl. exact Hs.
Qed.

(** The analogue of [RenameClean.clean_rename_tag_names] for strict trees. *)
Theorem clean_rename_tag_names_unwrap_strong : forall D rho cfg ds de f out,
  admissible D rho -> cfg_ok D cfg -> tast_ok f -> names_in D f -> strict (to_ast f) ->
  good_delims ds de -> de_nb de ->
  good_doc ds de (doc_of (to_ast f)) -> bodies_ok (doc_of (to_ast f)) ->
  good_doc ds de (doc_of (to_ast (rename_tast rho f))) -> bodies_ok (doc_of (to_ast (rename_tast rho f))) ->
  clean cfg ds de (render ds de (doc_of (to_ast f))) = Ok out ->
  exists g g', out = render ds de (doc_of g) /\
    clean (rename_cfg rho cfg) ds de (render ds de (doc_of (to_ast (rename_tast rho f)))) = Ok (render ds de (doc_of g')) /\
    RespellBodies.same_tree (P_any rho) g g'.
Proof.
  intros D rho cfg ds de f out A C Hok Hd Hs Hgd Hnb Hdoc Hbod Hdoc' Hbod' Hc.
  pose proof (tast_ok_rename D rho f A Hd Hok) as Hok'.
  destruct (clean_respell_unwrap_gen (P_any rho) cfg (rename_cfg rho cfg) ds de
              (to_ast f) (to_ast (rename_tast rho f)) out Hgd Hnb
              Hdoc Hbod (tast_ok_ast_ok f Hok) Hs
              Hdoc' Hbod' (tast_ok_ast_ok _ Hok')
              (nonl_rename D rho f A Hok Hd (strict_nonl _ Hs))
              (same_tree_rename_tast rho f Hok))
    as (g & g' & Eo & Ec & Hst & _ & _).
  - symmetry. apply (decisions_rename D rho cfg f A C Hok Hd).
  - symmetry. apply (unwraps_rename D rho f A Hok Hd).
  - exact Hc.
  - exists g, g'. split; [exact Eo|]. split; [exact Ec | exact Hst].
Qed.

(** The analogue of [RenameClean.clean_rename_tag_names_weak]: of the renamed document only the
    absence of delimiter bytes in the new names of its elements is asked. *)
Theorem clean_rename_tag_names_unwrap : forall D rho cfg ds de f out,
  admissible D rho -> cfg_ok D cfg -> tast_ok f -> names_in D f -> strict (to_ast f) ->
  good_delims ds de -> de_nb de ->
  good_doc ds de (doc_of (to_ast f)) ->
  (forall t, In t (openers_of f) -> disjoint_from ds de (rho (tg_name t))) ->
  clean cfg ds de (render ds de (doc_of (to_ast f))) = Ok out ->
  exists g g', out = render ds de (doc_of g) /\
    clean (rename_cfg rho cfg) ds de (render ds de (doc_of (to_ast (rename_tast rho f)))) = Ok (render ds de (doc_of g')) /\
    RespellBodies.same_tree (P_any rho) g g'.
Proof.
  intros D rho cfg ds de f out A C Hok Hd Hs Hgd Hnb Hdoc Hdis Hc.
  destruct (good_doc_rename (fun n => D n /\ disjoint_from ds de (rho n)) rho ds de f) as [G B];
    try assumption.
  - apply (admissible_sub D); [intros n [H _]; exact H | exact A].
  - unfold names_in in *. rewrite Forall_forall in *. intros t Ht. split; [apply Hd | apply Hdis]; exact Ht.
  - intros n [_ H]. exact H.
  - apply (clean_rename_tag_names_unwrap_strong D rho cfg ds de f out A C Hok Hd Hs Hgd Hnb Hdoc);
      try assumption.
    apply wf_bodies_ok. apply Hdoc.
Qed.

(** The analogue of [RenameClean.clean_rename_output]: the outputs of the two runs as documents. *)
Theorem clean_rename_output_unwrap : forall D rho cfg ds de f out,
  admissible D rho -> cfg_ok D cfg -> tast_ok f -> names_in D f -> strict (to_ast f) ->
  good_delims ds de -> de_nb de ->
  good_doc ds de (doc_of (to_ast f)) ->
  (forall t, In t (openers_of f) -> disjoint_from ds de (rho (tg_name t))) ->
  clean cfg ds de (render ds de (doc_of (to_ast f))) = Ok out ->
  exists d d', out = render ds de d /\
    clean (rename_cfg rho cfg) ds de (render ds de (doc_of (to_ast (rename_tast rho f)))) = Ok (render ds de d') /\
    kinds_of d' = kinds_of d /\
    texts_of d' = texts_of d /\
    Forall2 (P_any rho) (tags_of d) (tags_of d').
Proof.
  intros D rho cfg ds de f out A C Hok Hd Hs Hgd Hnb Hdoc Hdis Hc.
  destruct (clean_rename_tag_names_unwrap D rho cfg ds de f out A C Hok Hd Hs Hgd Hnb Hdoc Hdis Hc)
    as (g & g' & Eo & Ec & Hst).
  exists (doc_of g), (doc_of g'). split; [exact Eo|]. split; [exact Ec|].
  apply same_tree_output. exact Hst.
Qed.

(* ------------------------------------------------------------------------- *)
(** * Part 7: an instance

    With the delimiters "<!" and ">", the tag names [tl] / [rm] and the renaming [rho_ex] of
    [Proofs.RenameTags] ([tl] to [time-limited], [rm] to [removal-marker]):

      a
        <!rm name='f' unwrap-block>          (ready, unwrap-block)
      {
          x <!tl to='2030-01-01 00:00:00'>q<!/tl>      (pending)
          y
      }
        <!/rm>
       b

    The element [rm] is unwrapped: its two wrapper parts go, the two kept lines are dedented (the
    first one carries the pending element); the output is

      a
        x <!tl to='2030-01-01 00:00:00'>q<!/tl>
        y
       b

    and, for the renamed document and the renamed configuration, the same with [time-limited]. *)
Definition ru_rm_unwrap : tag_ast :=
  mkTag 0 S_RM [mkAttr [SP] S_NAME (Some (0, 0, QSingle, [102]%N)); mkAttr [SP] S_UNWRAP None] [].
Definition ru_rm_close : tag_ast := mkTag 0 (SLASH :: S_RM) [] [].

Definition ru_tast : list tast :=
  [ TT [97;10;32;32]%N;
    TE ru_rm_unwrap ru_rm_close
       [ TT [10;123;10;32;32;32;32;120;32]%N;
         TE ex_tl_pending ex_tl_close0 [ TT [113]%N ];
         TT [10;32;32;32;32;121;10;125;10;32;32]%N ];
    TT [10;32;98]%N ].

Definition ru_out : list tast :=
  [ TT [97;10;32;32;120;32]%N;
    TE ex_tl_pending ex_tl_close0 [ TT [113]%N ];
    TT [10;32;32;121;10;32;98]%N ].

Example ru_tast_ok : tast_ok ru_tast /\ tast_ok ru_out.
Proof.
  split;
  repeat (first [ apply Forall_nil | apply Forall_cons | apply tok_TT
                | apply tok_TE; try (vm_compute; reflexivity) ]).
Qed.

Example ru_strict : strict (to_ast ru_tast).
Proof. apply strictb_sound. vm_compute. reflexivity. Qed.

Example ru_good : good_doc id_ds id_de (doc_of (to_ast ru_tast)).
Proof. apply doc_checkb_ok; [vm_compute; repeat split; discriminate | vm_compute; reflexivity]. Qed.

Example ru_new_names :
  forall t, In t (openers_of ru_tast) -> disjoint_from id_ds id_de (rho_ex (tg_name t)).
Proof. apply new_names_checkb. vm_compute. reflexivity. Qed.

(** The decisions (the unwrap-block is ready, the element inside is pending) and the
    [unwrap-block] attributes; the old configuration does not recognise the renamed document. *)
Example ru_decisions :
  decisions ex_cfg (to_ast ru_tast) = [true; false] /\
  unwraps (to_ast ru_tast) = [true; false] /\
  decisions (rename_cfg rho_ex ex_cfg) (to_ast (rename_tast rho_ex ru_tast)) = [true; false] /\
  unwraps (to_ast (rename_tast rho_ex ru_tast)) = [true; false] /\
  decisions ex_cfg (to_ast (rename_tast rho_ex ru_tast)) = [false; false].
Proof. repeat split; vm_compute; reflexivity. Qed.

(** The tag bodies of the renamed source. *)
Example ru_tags :
  tags_of (doc_of (to_ast (rename_tast rho_ex ru_tast))) =
  [ (S_REMOVAL_MARKER ++ [32;110;97;109;101;61;39;102;39;32] ++ S_UNWRAP)%N;
    (S_TIME_LIMITED ++ [32;116;111;61;39] ++ S_DATE30 ++ [39])%N;
    (SLASH :: S_TIME_LIMITED)%N; (SLASH :: S_REMOVAL_MARKER)%N ].
Proof. vm_compute. reflexivity. Qed.

(** Both runs, computed: the second output is the first one, renamed. *)
Example ru_first :
  clean ex_cfg id_ds id_de (render id_ds id_de (doc_of (to_ast ru_tast))) =
  Ok (render id_ds id_de (doc_of (to_ast ru_out))).
Proof. vm_compute. reflexivity. Qed.

Example ru_second_computed :
  clean (rename_cfg rho_ex ex_cfg) id_ds id_de
        (render id_ds id_de (doc_of (to_ast (rename_tast rho_ex ru_tast)))) =
  Ok (render id_ds id_de (doc_of (to_ast (rename_tast rho_ex ru_out)))).
Proof. vm_compute. reflexivity. Qed.

Example ru_outputs_differ :
  render id_ds id_de (doc_of (to_ast ru_out)) <>
  render id_ds id_de (doc_of (to_ast (rename_tast rho_ex ru_out))) /\
  render id_ds id_de (doc_of (to_ast ru_out)) <> render id_ds id_de (doc_of (to_ast ru_tast)).
Proof. split; vm_compute; discriminate. Qed.

(** The two computed outputs are related as the theorem says. *)
Example ru_out_related :
  RespellBodies.same_tree (P_any rho_ex) (to_ast ru_out) (to_ast (rename_tast rho_ex ru_out)).
Proof. apply same_tree_rename_tast. apply ru_tast_ok. Qed.

(** The second run from the first one by the theorem. *)
Example ru_theorem :
  exists g g', render id_ds id_de (doc_of (to_ast ru_out)) = render id_ds id_de (doc_of g) /\
    clean (rename_cfg rho_ex ex_cfg) id_ds id_de
          (render id_ds id_de (doc_of (to_ast (rename_tast rho_ex ru_tast)))) =
      Ok (render id_ds id_de (doc_of g')) /\
    RespellBodies.same_tree (P_any rho_ex) g g'.
Proof.
  apply (clean_rename_tag_names_unwrap name_dom rho_ex ex_cfg id_ds id_de ru_tast _
           rho_ex_admissible ex_cfg_ok (proj1 ru_tast_ok) (tast_ok_names _ (proj1 ru_tast_ok))
           ru_strict id_delims ux_de_nb ru_good ru_new_names ru_first).
Qed.

Example ru_output :
  exists d d', render id_ds id_de (doc_of (to_ast ru_out)) = render id_ds id_de d /\
    clean (rename_cfg rho_ex ex_cfg) id_ds id_de
          (render id_ds id_de (doc_of (to_ast (rename_tast rho_ex ru_tast)))) =
      Ok (render id_ds id_de d') /\
    kinds_of d' = kinds_of d /\ texts_of d' = texts_of d /\
    Forall2 (P_any rho_ex) (tags_of d) (tags_of d').
Proof.
  apply (clean_rename_output_unwrap name_dom rho_ex ex_cfg id_ds id_de ru_tast _
           rho_ex_admissible ex_cfg_ok (proj1 ru_tast_ok) (tast_ok_names _ (proj1 ru_tast_ok))
           ru_strict id_delims ux_de_nb ru_good ru_new_names ru_first).
Qed.

(** The renamed tree is strict, by [strict_rename]. *)
Example ru_strict_renamed : strict (to_ast (rename_tast rho_ex ru_tast)).
Proof.
  apply (strict_rename name_dom rho_ex ru_tast rho_ex_admissible (proj1 ru_tast_ok)
           (tast_ok_names _ (proj1 ru_tast_ok)) ru_strict).
Qed.

(** The theorem [clean_respell_unwrap] itself on the instance, with the relation "the [k]-th tag
    bodies of the two sources". *)
Definition ru_pairs : list (str * str) :=
  combine (tags_of (doc_of (to_ast ru_tast))) (tags_of (doc_of (to_ast (rename_tast rho_ex ru_tast)))).
Definition ru_P (b b' : str) : Prop := In (b, b') ru_pairs.

Example ru_same : RespellBodies.same_tree ru_P (to_ast ru_tast) (to_ast (rename_tast rho_ex ru_tast)).
Proof.
  assert (forall p, In p ru_pairs -> ru_P (fst p) (snd p)) as H by (intros [b b'] Hp; exact Hp).
  vm_compute in H.
  repeat split; try (apply RespellBodies.same1_AE; do 3 eexists; split; [reflexivity|]; repeat split);
    try (apply (H (_, _)); cbn [In]; auto 8).
Qed.

Example ru_general :
  exists g g', render id_ds id_de (doc_of (to_ast ru_out)) = render id_ds id_de (doc_of g) /\
    clean (rename_cfg rho_ex ex_cfg) id_ds id_de
          (render id_ds id_de (doc_of (to_ast (rename_tast rho_ex ru_tast)))) =
      Ok (render id_ds id_de (doc_of g')) /\
    RespellBodies.same_tree ru_P g g'.
Proof.
  pose proof (tast_ok_rename name_dom rho_ex ru_tast rho_ex_admissible
                (tast_ok_names _ (proj1 ru_tast_ok)) (proj1 ru_tast_ok)) as Hok'.
  assert (good_doc id_ds id_de (doc_of (to_ast (rename_tast rho_ex ru_tast)))) as G'
    by (apply doc_checkb_ok; [vm_compute; repeat split; discriminate | vm_compute; reflexivity]).
  destruct (clean_respell_unwrap ru_P ex_cfg (rename_cfg rho_ex ex_cfg) id_ds id_de
              (to_ast ru_tast) (to_ast (rename_tast rho_ex ru_tast))
              (render id_ds id_de (doc_of (to_ast ru_out))) id_delims ux_de_nb
              ru_good (wf_bodies_ok _ (proj2 (proj2 (proj2 ru_good))))
              (tast_ok_ast_ok _ (proj1 ru_tast_ok)) ru_strict
              G' (wf_bodies_ok _ (proj2 (proj2 (proj2 G'))))
              (tast_ok_ast_ok _ Hok') ru_strict_renamed ru_same)
    as (g & g' & E1 & E2 & Hs & _); [|exact ru_first|].
  - intros b b' Hb. unfold ru_P in Hb. vm_compute in Hb.
    repeat (destruct Hb as [Hb|Hb]; [inversion Hb; subst; split; vm_compute; reflexivity|]).
    destruct Hb.
  - exists g, g'. repeat split; assumption.
Qed.

Print Assumptions merge_markers_on.
Print Assumptions forest_tr.
Print Assumptions same_tree_strict.
Print Assumptions clean_run_explicit_strict.
Print Assumptions clean_respell_unwrap_gen.
Print Assumptions clean_respell_unwrap_weak.
Print Assumptions clean_respell_unwrap.
Print Assumptions clean_respell_unwrap_nodes.
Print Assumptions nonl_rename.
Print Assumptions unwraps_rename.
Print Assumptions strict_rename.
Print Assumptions clean_rename_tag_names_unwrap_strong.
Print Assumptions clean_rename_tag_names_unwrap.
Print Assumptions clean_rename_output_unwrap.
Print Assumptions ru_tast_ok.
Print Assumptions ru_strict.
Print Assumptions ru_good.
Print Assumptions ru_new_names.
Print Assumptions ru_decisions.
Print Assumptions ru_tags.
Print Assumptions ru_first.
Print Assumptions ru_second_computed.
Print Assumptions ru_outputs_differ.
Print Assumptions ru_out_related.
Print Assumptions ru_theorem.
Print Assumptions ru_output.
Print Assumptions ru_strict_renamed.
Print Assumptions ru_same.
Print Assumptions ru_general.
