(** C04: when the marker stage yields nothing, clean returns its input unchanged; and the marker
    stage yields nothing when no element of the tree has a ready, non-empty range. *)
From Coq Require Import List NArith ZArith Arith Bool Lia.
Import ListNotations.
From Chiri Require Import Base.Bytes Base.Res Model.Tokenizer Model.TagParser Model.TreeParser
     Model.Markers Model.Format Model.Clean Proofs.ResLemmas.

Lemma clean_no_markers cfg ds de s :
  markers_of cfg ds de s = Ok [] -> clean cfg ds de s = Ok s.
Proof.
  intros H. unfold clean. rewrite H. reflexivity.
Qed.

Definition collect_step (cfg : config) (content : str) (pending : bool)
           (acc : list rtree * list rtree) (c : part) : list rtree * list rtree :=
  let '(x, y) := collect_part cfg content pending c in (fst acc ++ x, snd acc ++ y).

Lemma collect_fold_nil cfg content (l : list part) acc :
  (forall c, In c l -> fst (collect_part cfg content false c) = []) ->
  fst (fold_left (collect_step cfg content false) l acc) = fst acc.
Proof.
  revert acc. induction l as [|c l IH]; intros acc H; simpl; [reflexivity|].
  rewrite IH by (intros c' Hc'; apply H; right; exact Hc').
  specialize (H c (or_introl eq_refl)). unfold collect_step.
  destruct (collect_part cfg content false c) as [x y]; simpl in *. subst x.
  rewrite app_nil_r. reflexivity.
Qed.

Lemma element_range_false_not_pending cfg content el st et r :
  element_range cfg content false el st et <> Some (r, false).
Proof.
  unfold element_range. destruct (status cfg el) as [[|]|]; simpl.
  - destruct (create content el st et) as [[a b] cl].
    destruct (a <? b); congruence.
  - congruence.
  - congruence.
Qed.

Definition not_ready (cfg : config) (content : str) (e : element * token * token) : Prop :=
  let '(el, st, et) := e in
  forall r, element_range cfg content false el st et <> Some (r, true).

Lemma no_ready_collect cfg content p :
  (forall e, In e (elements_of p) -> not_ready cfg content e) ->
  fst (collect_part cfg content false p) = [].
Proof.
  induction p as [t | el st et ch IH] using part_ind'; [reflexivity|].
  intros H. cbn [collect_part].
  change (fun acc c => let '(x, y) := collect_part cfg content false c in (fst acc ++ x, snd acc ++ y))
    with (collect_step cfg content false).
  assert (Hch : forall c, In c ch -> fst (collect_part cfg content false c) = []).
  { intros c Hc. rewrite Forall_forall in IH. apply IH; [exact Hc|].
    intros e He. apply H. cbn [elements_of]. right. apply in_flat_map. exists c. split; assumption. }
  pose proof (collect_fold_nil cfg content ch ([], []) Hch) as Hf.
  destruct (fold_left _ ch ([], [])) as [x pch]. simpl in Hf. subst x.
  specialize (H (el, st, et) (or_introl eq_refl)). simpl in H.
  destruct (element_range cfg content false el st et) as [[r [|]]|] eqn:E.
  - exfalso. apply (H r). reflexivity.
  - exfalso. eapply element_range_false_not_pending; eauto.
  - reflexivity.
Qed.

Lemma no_ready_markers cfg content parts :
  (forall e, In e (all_elements parts) -> not_ready cfg content e) ->
  build_remove_marker cfg content parts = Ok [].
Proof.
  intros H. unfold build_remove_marker, collect.
  change (fun acc c => let '(x, y) := collect_part cfg content false c in (fst acc ++ x, snd acc ++ y))
    with (collect_step cfg content false).
  rewrite collect_fold_nil; [reflexivity|].
  intros c Hc. apply no_ready_collect. intros e He. apply H.
  unfold all_elements. apply in_flat_map. exists c. split; assumption.
Qed.

Theorem noop_identity cfg ds de s parts :
  front_end ds de s = Ok parts ->
  (forall e, In e (all_elements parts) -> not_ready cfg s e) ->
  clean cfg ds de s = Ok s.
Proof.
  intros Hf Hn. apply clean_no_markers. unfold markers_of. rewrite Hf. simpl.
  apply no_ready_markers; exact Hn.
Qed.

(** An element is not ready when it is marked skip, its name is not registered, its evaluator
    says no, or its range is empty (an unwrap-block that cannot be unwrapped). *)
Lemma not_ready_by_status cfg content el st et :
  status cfg el <> Some true -> not_ready cfg content (el, st, et).
Proof.
  intros H r. unfold element_range.
  destruct (status cfg el) as [[|]|]; [congruence| |]; simpl; congruence.
Qed.

Lemma not_ready_by_empty_range cfg content el st et :
  (let '((a, b), _) := create content el st et in b <= a) -> not_ready cfg content (el, st, et).
Proof.
  intros H r. unfold element_range.
  destruct (status cfg el) as [[|]|]; simpl; try congruence.
  destruct (create content el st et) as [[a b] cl].
  destruct (Nat.ltb_spec a b); [lia | congruence].
Qed.
